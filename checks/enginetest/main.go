// enginetest: self-test of the gosim engine on toy harnesses with known answers.
package main

import (
	"fmt"
	"os"
	"time"

	"github.com/google/martian/v3/zzverif/vrt"
	vsync "github.com/google/martian/v3/zzverif/vsync"
)

func main() {
	fail := false
	// 1. lost update: two threads do read-modify-write with the lock released in between.
	{
		outcomes := map[string]int{}
		body := func() {
			var mu vsync.Mutex
			x := 0
			var ts []*vrt.Thread
			for i := 0; i < 2; i++ {
				ts = append(ts, vrt.Go(func() {
					mu.Lock()
					v := x
					mu.Unlock()
					mu.Lock()
					x = v + 1
					mu.Unlock()
				}))
			}
			for _, t := range ts {
				vrt.Join(t)
			}
			vrt.Log("x=%d", x)
		}
		st := vrt.Explore(vrt.ExploreConfig{Bound: -1}, body, func(p []int, r *vrt.Result) bool {
			outcomes[fmt.Sprint(r.Outcome, r.Log)]++
			return true
		})
		fmt.Printf("lost-update: execs=%d outcomes=%v exhaustive=%v\n", st.Execs, outcomes, st.Exhaustive)
		if len(outcomes) != 2 {
			fail = true
		}
		st = vrt.Explore(vrt.ExploreConfig{Bound: 1}, body, func(p []int, r *vrt.Result) bool { return true })
		fmt.Printf("lost-update bound1: execs=%d distinct=%d completed=%d\n", st.Execs, st.DistinctLogs, st.BoundCompleted)
		if st.DistinctLogs != 2 {
			fail = true
		}
	}
	// 2. channels: three senders (one on unbuffered, two on buffered) one receiver
	{
		body := func() {
			u := vrt.MakeChan[int]()
			b := vrt.MakeChan[int](1)
			vrt.Go(func() { u.Send(1) })
			vrt.Go(func() { b.Send(2) })
			vrt.Go(func() { b.Send(3) })
			got := []int{}
			for i := 0; i < 3; i++ {
				s := vrt.NewSelect(false)
				r1 := vrt.CaseRecv(s, u)
				r2 := vrt.CaseRecv(s, b)
				switch s.Wait(r1, r2) {
				case 0:
					got = append(got, r1.Value())
				case 1:
					got = append(got, r2.Value())
				}
			}
			vrt.Log("%v", got)
		}
		st := vrt.Explore(vrt.ExploreConfig{Bound: -1}, body, func(p []int, r *vrt.Result) bool {
			if r.Outcome != "ok" {
				fmt.Println("unexpected", r.Outcome, r.Panic)
				fail = true
			}
			return true
		})
		fmt.Printf("chan: execs=%d distinct=%d exhaustive=%v\n", st.Execs, st.DistinctLogs, st.Exhaustive)
		if st.DistinctLogs != 6 {
			fail = true
		}
	}
	// 3. deadlock detection + timers
	{
		body := func() {
			var a, b vsync.Mutex
			t1 := vrt.Go(func() { a.Lock(); b.Lock(); b.Unlock(); a.Unlock() })
			t2 := vrt.Go(func() { b.Lock(); a.Lock(); a.Unlock(); b.Unlock() })
			vrt.Join(t1)
			vrt.Join(t2)
		}
		dl := 0
		st := vrt.Explore(vrt.ExploreConfig{Bound: -1}, body, func(p []int, r *vrt.Result) bool {
			if r.Outcome == "deadlock" {
				dl++
			}
			return true
		})
		fmt.Printf("deadlock: execs=%d deadlocks=%d\n", st.Execs, dl)
		if dl == 0 {
			fail = true
		}
		r := vrt.Run(vrt.Config{}, nil, func() {
			t0 := vrt.Now()
			vrt.Sleep(5 * time.Minute)
			vrt.Log("slept %v", vrt.Now()-t0)
		})
		fmt.Println("sleep:", r.Outcome, r.Log)
		if r.Outcome != "ok" || r.Log[0] != "slept 5m0s" {
			fail = true
		}
	}
	// 4. WaitGroup reuse panic and panic capture
	{
		pn := 0
		body := func() {
			var wg vsync.WaitGroup
			wg.Add(1)
			vrt.Go(func() { wg.Done() })
			vrt.Go(func() { wg.Add(1); wg.Done() })
			wg.Wait()
		}
		st := vrt.Explore(vrt.ExploreConfig{Bound: -1}, body, func(p []int, r *vrt.Result) bool {
			if r.Outcome == "panic" {
				pn++
			}
			return true
		})
		fmt.Printf("waitgroup: execs=%d panics=%d\n", st.Execs, pn)
		if pn == 0 {
			fail = true
		}
	}
	if fail {
		fmt.Println("ENGINE SELFTEST FAILED")
		os.Exit(2)
	}
	fmt.Println("engine selftest ok")
}
