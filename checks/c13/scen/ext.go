package scen

// Extensions added by the audit of C13 (see ../AUDIT.md): parameterisations of the verifiers other than the one
// the original families use, messages that miss (or meet) an expectation in other ways than "absent", the
// "scope" option of every modifier message, fifo.Group's aggregateErrors, and the filter kinds other than
// querystring.Filter (each has its own JSON wiring; header and cookie filters decide the branch of a response
// from the response itself, so one exchange can use both branches).
//
// The reference model of these families (evalX) works on the concrete attributes of a message and on the
// documented meaning of each option:
//   header.Verifier       "header for name is present; if value is non-empty the value must be present in at
//                          least one header for name" (header names are case-insensitive)
//   querystring.Verifier  "if no value is provided, the verifier will only check if the given key is present"
//   url.Verifier          "matches all parts of url; a non-empty part must be an exact match" - one evaluation
//                          per request, hence one error however many parts differ
//   pingback.Verifier     "if the value in url is non-empty, it must be an exact match"
//   scope                 the modifier (and everything below it) takes part on the listed sides only
// It never looks at martian's code or state.

import (
	"fmt"
	"net/http"
	"net/url"
	"strconv"
	"strings"
)

// Filter kinds (Var of a filter node).
const (
	FKQuery  = iota // querystring.Filter  name s<ID>, value 1
	FKHeader        // header.Filter       name X-S<ID>, value 1 (requests: request header, responses: response header)
	FKCookie        // cookie.Filter       name s<ID>, value 1 (requests: Cookie, responses: Set-Cookie)
	FKRegex         // url.RegexFilter     [?&]s<ID>=1(&|$)
	FKURL           // url.Filter          host s<ID>.example
	FKMethod        // method.Filter       POST
	NumFilterKinds
)

var FilterKindNames = []string{"querystring", "header", "cookie", "urlregex", "url", "method"}

// Scopes.
const (
	ScNone  = iota // no "scope" member
	ScReq          // ["request"]
	ScRes          // ["response"]
	ScBoth         // ["request","response"]
	ScEmpty        // []
)

var scopeNames = []string{"", "@request", "@response", "@both", "@nowhere"}
var scopeJSON = []string{"", `"scope":["request"],`, `"scope":["response"],`, `"scope":["request","response"],`, `"scope":[],`}

// ForceConcrete makes Eval use the concrete model for the original trees and messages as well (cross-check of
// the two models, C13_XCHECK=1).
var ForceConcrete bool

func (n *Node) extSuffix() string {
	s := ""
	if n.Var != 0 {
		if n.isFilter() {
			s += "[" + FilterKindNames[n.Var] + "]"
		} else {
			s += "~" + strconv.Itoa(n.Var)
		}
	}
	if n.Agg {
		s += "+agg"
	}
	return s + scopeNames[n.Scope]
}

// With returns a copy of the node with the given parameterisation / filter kind.
func (n *Node) With(v int) *Node { c := n.clone(); c.Var = v; return c }

// Scoped returns a copy of the node with the given scope.
func (n *Node) Scoped(sc int) *Node { c := n.clone(); c.Scope = sc; return c }

// Aggregating returns a copy of the group with aggregateErrors set.
func (n *Node) Aggregating() *Node { c := n.clone(); c.Agg = true; return c }

// extJSON renders a node that uses an extension.
func (n *Node) extJSON() string {
	sc := scopeJSON[n.Scope]
	switch n.Kind {
	case KErr:
		// an ordinary modifier that fails for the messages that ask for it: a header filter on "X-Err: 1" around a
		// header.Copy into Content-Length of a header that does not exist (strconv refuses the empty string)
		return `{"header.Filter":{` + sc + `"name":"X-Err","value":"1","modifier":{"header.Copy":{"from":"X-Not-A-Number","to":"Content-Length"}}}}`
	case KStatus:
		return `{"status.Verifier":{` + sc + `"statusCode":200}}`
	case KHeader:
		switch n.Var {
		case 1:
			return `{"header.Verifier":{` + sc + `"name":"X-Vh","value":""}}`
		case 2:
			return `{"header.Verifier":{` + sc + `"name":"x-vh","value":"ok"}}`
		}
		return `{"header.Verifier":{` + sc + `"name":"X-Vh","value":"ok"}}`
	case KMethod:
		return `{"method.Verifier":{` + sc + `"method":"GET"}}`
	case KURL:
		if n.Var == 1 {
			return `{"url.Verifier":{` + sc + `"scheme":"http","host":"good.example","path":"/other"}}`
		}
		return `{"url.Verifier":{` + sc + `"host":"good.example"}}`
	case KQuery:
		if n.Var == 1 {
			return `{"querystring.Verifier":{` + sc + `"name":"qv","value":""}}`
		}
		return `{"querystring.Verifier":{` + sc + `"name":"qv","value":"ok"}}`
	case KFailure:
		return fmt.Sprintf(`{"failure.Verifier":{%s"message":"fail%d"}}`, sc, n.ID)
	case KPingback:
		if n.Var == 1 {
			return `{"pingback.Verifier":{` + sc + `"scheme":"http","host":"good.example","path":"/ping"}}`
		}
		return `{"pingback.Verifier":{` + sc + `"path":"/ping"}}`
	case KGroup:
		var ks []string
		for _, k := range n.Kids {
			ks = append(ks, k.JSON())
		}
		agg := ""
		if n.Agg {
			agg = `"aggregateErrors":true,`
		}
		return `{"fifo.Group":{` + sc + agg + `"modifiers":[` + strings.Join(ks, ",") + `]}}`
	}
	// filters
	var head string
	switch n.Var {
	case FKQuery:
		head = fmt.Sprintf(`{"querystring.Filter":{%s"name":"s%d","value":"1",`, sc, n.ID)
	case FKHeader:
		head = fmt.Sprintf(`{"header.Filter":{%s"name":"X-S%d","value":"1",`, sc, n.ID)
	case FKCookie:
		head = fmt.Sprintf(`{"cookie.Filter":{%s"name":"s%d","value":"1",`, sc, n.ID)
	case FKRegex:
		head = fmt.Sprintf(`{"url.RegexFilter":{%s"regex":"[?&]s%d=1(&|$)",`, sc, n.ID)
	case FKURL:
		head = fmt.Sprintf(`{"url.Filter":{%s"host":"s%d.example",`, sc, n.ID)
	case FKMethod:
		head = fmt.Sprintf(`{"method.Filter":{%s"method":"POST",`, sc)
	default:
		panic("bad filter kind")
	}
	switch n.Kind {
	case KFilterT:
		return head + `"modifier":` + n.Kids[0].JSON() + `}}`
	case KFilterE:
		return head + `"modifier":{"header.Modifier":{"name":"X-Noop","value":"1"}},"else":` + n.Kids[0].JSON() + `}}`
	case KFilterTE:
		return head + `"modifier":` + n.Kids[0].JSON() + `,"else":` + n.Kids[1].JSON() + `}}`
	}
	panic("bad kind")
}

func (n *Node) find(id int) *Node {
	if n.ID == id {
		return n
	}
	for _, k := range n.Kids {
		if x := k.find(id); x != nil {
			return x
		}
	}
	return nil
}

func scopeAllows(sc, side int) bool {
	switch sc {
	case ScNone, ScBoth:
		return true
	case ScReq:
		return side == SideReq
	case ScRes:
		return side == SideRes
	}
	return false
}

// Active tells whether the node with the given id takes part on the given side: its own scope and the scope
// of every ancestor list that side (or list nothing).
func (n *Node) Active(id, side int) bool {
	if !n.ext {
		return true
	}
	var rec func(x *Node) (found, active bool)
	rec = func(x *Node) (bool, bool) {
		ok := scopeAllows(x.Scope, side)
		if x.ID == id {
			return true, ok
		}
		for _, k := range x.Kids {
			if f, a := rec(k); f {
				return true, a && ok
			}
		}
		return false, false
	}
	_, a := rec(n)
	return a
}

// ---- concrete messages ----

// Attrs are the concrete attributes of one exchange.
type Attrs struct {
	Method, Scheme, Host, Path string
	QV                         []string // values of the query parameter qv, in order (nil: absent)
	QSel                       []int    // query parameters s<i>=1
	ReqVh, ResVh               []string // values of the header X-Vh on the request / the response (nil: absent)
	ReqXS, ResXS               []int    // headers X-S<i>: 1
	ReqCk, ResCk               []int    // cookies s<i>=1 (Cookie on the request, Set-Cookie on the response)
	Status                     int
	Bad                        bool
	ReqErr, ResErr             bool // header X-Err: 1 on the request / the response (the err modifiers fail on it)
}

// Shape is a set of concrete attributes that override what the Met bits of a message say.
type Shape struct {
	Name  string
	Kinds []int // verifier kinds whose expectation the shape bears on
	Apply func(a *Attrs)
}

// Shapes lists the ways (other than "absent" / "present with the wanted value") in which the original
// messages never met or missed an expectation. Index 0 is "no shape".
var Shapes = []Shape{
	{Name: "-"},
	{Name: "header-wrong-value", Kinds: []int{KHeader}, Apply: func(a *Attrs) { a.ReqVh, a.ResVh = []string{"no"}, []string{"no"} }},
	{Name: "header-two-values-second-wanted", Kinds: []int{KHeader}, Apply: func(a *Attrs) { a.ReqVh, a.ResVh = []string{"no", "ok"}, []string{"no", "ok"} }},
	{Name: "header-wanted-on-request-only", Kinds: []int{KHeader}, Apply: func(a *Attrs) { a.ReqVh, a.ResVh = []string{"ok"}, nil }},
	{Name: "header-wanted-on-response-wrong-on-request", Kinds: []int{KHeader}, Apply: func(a *Attrs) { a.ReqVh, a.ResVh = []string{"no"}, []string{"ok"} }},
	{Name: "header-empty-value", Kinds: []int{KHeader}, Apply: func(a *Attrs) { a.ReqVh, a.ResVh = []string{""}, []string{""} }},
	{Name: "query-wrong-value", Kinds: []int{KQuery}, Apply: func(a *Attrs) { a.QV = []string{"no"} }},
	{Name: "query-two-values-second-wanted", Kinds: []int{KQuery}, Apply: func(a *Attrs) { a.QV = []string{"no", "ok"} }},
	{Name: "query-empty-value", Kinds: []int{KQuery}, Apply: func(a *Attrs) { a.QV = []string{""} }},
	{Name: "scheme-https", Kinds: []int{KURL, KPingback}, Apply: func(a *Attrs) { a.Scheme = "https" }},
	{Name: "path-elsewhere", Kinds: []int{KURL, KPingback}, Apply: func(a *Attrs) { a.Path = "/elsewhere" }},
}

func (m Msg) attrs(t *Node) (a Attrs) {
	a = Attrs{Method: "DELETE", Scheme: "http", Host: "bad.example", Path: "/other", Status: 500, Bad: m.Bad}
	if m.met(KMethod) {
		a.Method = "GET"
	}
	if m.met(KURL) {
		a.Host = "good.example"
	}
	if m.met(KPingback) {
		a.Path = "/ping"
	}
	if m.met(KQuery) {
		a.QV = []string{"ok"}
	}
	if m.met(KStatus) {
		a.Status = 200
	}
	if m.met(KHeader) {
		a.ReqVh, a.ResVh = []string{"ok"}, []string{"ok"}
	}
	if m.Shape != 0 {
		Shapes[m.Shape].Apply(&a)
	}
	a.ReqErr, a.ResErr = m.Err&ErrReq != 0, m.Err&ErrRes != 0
	if m.Via == ViaConnectFail {
		// CONNECT host:port - no scheme, no path, no query (hence no query-carried routing either)
		a.Method, a.Scheme, a.Host, a.Path, a.QV = "CONNECT", "", "bad.example:443", "", nil
	}
	defer func() {
		if m.Via != 0 {
			// the proxy answers itself: 502, none of the headers an origin would have sent
			a.Status, a.ResVh, a.ResXS, a.ResCk, a.ResErr = 502, nil, nil, nil, false
			if m.Via == ViaConnectFail {
				a.QSel = nil
			}
		}
	}()
	for i := 0; i < 32; i++ {
		req := m.Sel&(1<<uint(i)) != 0
		res := (m.Sel^m.Flip)&(1<<uint(i)) != 0
		if !req && !res {
			continue
		}
		fk := FKQuery
		if t != nil {
			if x := t.find(i); x != nil && x.isFilter() {
				fk = x.Var
			}
		}
		switch fk {
		case FKHeader:
			if req {
				a.ReqXS = append(a.ReqXS, i)
			}
			if res {
				a.ResXS = append(a.ResXS, i)
			}
		case FKCookie:
			if req {
				a.ReqCk = append(a.ReqCk, i)
			}
			if res {
				a.ResCk = append(a.ResCk, i)
			}
		case FKURL:
			if req {
				a.Host = "s" + strconv.Itoa(i) + ".example"
			}
		case FKMethod:
			if req {
				a.Method = "POST"
			}
		default: // FKQuery, FKRegex
			if req {
				a.QSel = append(a.QSel, i)
			}
		}
	}
	return a
}

// BuildFor constructs the request and the response of the message for tree t (nil: all routing bits travel
// as query parameters, as in the original families).
func (m Msg) BuildFor(t *Node, id int) (*http.Request, *http.Response) {
	if (t == nil || !t.ext) && m.Flip == 0 && m.Shape == 0 && m.Err == 0 && m.Via == 0 {
		return m.Build(id)
	}
	a := m.attrs(t)
	if m.Via == ViaConnectFail {
		// the id travels in the first label of the target (there is no query)
		host := "x" + strconv.Itoa(id) + "." + a.Host
		req := &http.Request{Method: "CONNECT", URL: &url.URL{Host: host}, Proto: "HTTP/1.1", ProtoMajor: 1, ProtoMinor: 1, Header: http.Header{}, Body: http.NoBody, Host: host}
		for _, v := range a.ReqVh {
			req.Header.Add("X-Vh", v)
		}
		for _, i := range a.ReqXS {
			req.Header.Set("X-S"+strconv.Itoa(i), "1")
		}
		for _, i := range a.ReqCk {
			req.AddCookie(&http.Cookie{Name: "s" + strconv.Itoa(i), Value: "1"})
		}
		if a.ReqErr {
			req.Header.Set("X-Err", "1")
		}
		return req, nil
	}
	q := "id=" + strconv.Itoa(id)
	for _, v := range a.QV {
		q += "&qv=" + v
	}
	for _, i := range a.QSel {
		q += "&s" + strconv.Itoa(i) + "=1"
	}
	if a.Bad {
		q += "&bad=1;2"
	}
	req := &http.Request{
		Method: a.Method,
		URL:    &url.URL{Scheme: a.Scheme, Host: a.Host, Path: a.Path, RawQuery: q},
		Proto:  "HTTP/1.1", ProtoMajor: 1, ProtoMinor: 1,
		Header: http.Header{},
		Body:   http.NoBody,
		Host:   a.Host,
	}
	res := &http.Response{
		StatusCode: a.Status,
		Status:     strconv.Itoa(a.Status) + " " + http.StatusText(a.Status),
		Proto:      "HTTP/1.1", ProtoMajor: 1, ProtoMinor: 1,
		Header:  http.Header{},
		Body:    http.NoBody,
		Request: req,
	}
	for _, v := range a.ReqVh {
		req.Header.Add("X-Vh", v)
	}
	for _, v := range a.ResVh {
		res.Header.Add("X-Vh", v)
	}
	for _, i := range a.ReqXS {
		req.Header.Set("X-S"+strconv.Itoa(i), "1")
	}
	for _, i := range a.ResXS {
		res.Header.Set("X-S"+strconv.Itoa(i), "1")
	}
	for _, i := range a.ReqCk {
		req.AddCookie(&http.Cookie{Name: "s" + strconv.Itoa(i), Value: "1"})
	}
	for _, i := range a.ResCk {
		res.Header.Add("Set-Cookie", (&http.Cookie{Name: "s" + strconv.Itoa(i), Value: "1"}).String())
	}
	if a.ReqErr {
		req.Header.Set("X-Err", "1")
	}
	if a.ResErr {
		res.Header.Set("X-Err", "1")
	}
	return req, res
}

func hasInt(xs []int, v int) bool {
	for _, x := range xs {
		if x == v {
			return true
		}
	}
	return false
}

func hasStr(xs []string, v string) bool {
	for _, x := range xs {
		if x == v {
			return true
		}
	}
	return false
}

// takesTrue tells which branch of filter node x the given side of the exchange takes, from the documented
// condition of each filter kind and the concrete attributes.
func takesTrue(x *Node, a *Attrs, side int) bool {
	switch x.Var {
	case FKHeader:
		if side == SideRes {
			return hasInt(a.ResXS, x.ID)
		}
		return hasInt(a.ReqXS, x.ID)
	case FKCookie:
		if side == SideRes {
			return hasInt(a.ResCk, x.ID)
		}
		return hasInt(a.ReqCk, x.ID)
	case FKURL:
		return a.Host == "s"+strconv.Itoa(x.ID)+".example"
	case FKMethod:
		return a.Method == "POST"
	}
	return hasInt(a.QSel, x.ID)
}

// evalX lists what an exchange makes the verifiers of the tree record (taken as a non-API exchange), from the
// concrete attributes of the message and the documented meaning of every option; it also tells whether the
// request modifiers / the response modifiers of the tree return an error for it.
//
// Errors (round 6): only an err modifier (KErr) fails, and only for a message that asks for it on that side. A
// filter returns what the branch it ran returns. fifo.Group, as documented at SetAggregateErrors: "When false
// [the default], if an error is returned by a modifier, the error is returned by ModifyRequest/Response and no
// further modifiers are run. When true, the Group will continue to execute consecutive modifiers" - so the
// verifiers after a failing modifier of a non-aggregating group are not evaluated for that message.
func evalX(t *Node, m Msg, id int) (recs []Rec, reqErr, resErr bool) {
	a := m.attrs(t)
	sid := strconv.Itoa(id)
	var out []Rec
	var rec func(x *Node, side int) bool
	rec = func(x *Node, side int) bool {
		if !scopeAllows(x.Scope, side) {
			return false
		}
		switch x.Kind {
		case KErr:
			if side == SideRes {
				return a.ResErr
			}
			return a.ReqErr
		case KGroup:
			failed := false
			for _, k := range x.Kids {
				if rec(k, side) {
					failed = true
					if !x.Agg {
						break
					}
				}
			}
			return failed
		case KFilterT:
			if takesTrue(x, &a, side) {
				return rec(x.Kids[0], side)
			}
		case KFilterE:
			if !takesTrue(x, &a, side) {
				return rec(x.Kids[0], side)
			}
		case KFilterTE:
			if takesTrue(x, &a, side) {
				return rec(x.Kids[0], side)
			}
			return rec(x.Kids[1], side)
		case KFailure:
			if side == SideReq {
				out = append(out, Rec{Tok: "failure" + strconv.Itoa(x.ID) + "#" + sid, Leaf: x.ID, Kind: KFailure, Side: SideReq, MsgID: id})
			}
		case KPingback:
			if side != SideReq {
				return false
			}
			seen := a.Path == "/ping"
			if x.Var == 1 {
				seen = seen && a.Scheme == "http" && a.Host == "good.example"
			}
			if seen {
				out = append(out, Rec{Tok: "", Leaf: x.ID, Kind: KPingback, Side: SideReq, MsgID: id})
			}
		case KHeader:
			vals := a.ReqVh
			name := "header:request#"
			if side == SideRes {
				vals, name = a.ResVh, "header:response#"
			}
			want := "ok"
			if x.Var == 1 {
				want = ""
			}
			if vals == nil || (want != "" && !hasStr(vals, want)) {
				out = append(out, Rec{Tok: name + sid, Leaf: x.ID, Kind: KHeader, Side: side, MsgID: id})
			}
		case KStatus:
			if side == SideRes && a.Status != 200 {
				out = append(out, Rec{Tok: "status#" + sid, Leaf: x.ID, Kind: KStatus, Side: SideRes, MsgID: id})
			}
		case KMethod:
			if side == SideReq && a.Method != "GET" {
				out = append(out, Rec{Tok: "method#" + sid, Leaf: x.ID, Kind: KMethod, Side: SideReq, MsgID: id})
			}
		case KURL:
			if side != SideReq {
				return false
			}
			unmet := a.Host != "good.example"
			if x.Var == 1 {
				unmet = unmet || a.Scheme != "http" || a.Path != "/other"
			}
			if unmet {
				out = append(out, Rec{Tok: "url#" + sid, Leaf: x.ID, Kind: KURL, Side: SideReq, MsgID: id})
			}
		case KQuery:
			if side != SideReq {
				return false
			}
			want := "ok"
			if x.Var == 1 {
				want = ""
			}
			if a.QV == nil || (want != "" && !hasStr(a.QV, want)) {
				out = append(out, Rec{Tok: "query#" + sid, Leaf: x.ID, Kind: KQuery, Side: SideReq, MsgID: id})
			}
		}
		return false
	}
	reqErr = rec(t, SideReq)
	resErr = rec(t, SideRes)
	return out, reqErr, resErr
}

// EvalErr tells whether the request modifiers / the response modifiers of the tree return an error for message m.
func EvalErr(t *Node, m Msg) (reqErr, resErr bool) {
	if !t.errs || m.Err == 0 {
		return false, false
	}
	_, reqErr, resErr = evalX(t, m, 0)
	return
}

// ---- alphabets of the extended families ----

func (n *Node) filters() []*Node {
	var out []*Node
	var rec func(x *Node)
	rec = func(x *Node) {
		if x.isFilter() {
			out = append(out, x)
		}
		for _, k := range x.Kids {
			rec(k)
		}
	}
	rec(n)
	return out
}

// AlphabetX is the alphabet of an extended tree: the original alphabet (every routing x met/unmet decision
// path, API-marked messages), then, if shapes is set, for every shape that bears on a verifier kind of the tree, every routing
// x {everything else unmet, everything else met} x {plain, API-marked}, then, if the tree holds filters with
// a response condition of their own (header, cookie), every message so far with the response taking the other
// branch of every non-empty subset of those filters (and the API-marked messages of every routing, because a
// response can reach a verifier its request did not).
func AlphabetX(t *Node, shapes bool) []Msg {
	base := Alphabet(t)
	out := append([]Msg(nil), base...)
	seen := map[Msg]bool{}
	for _, m := range out {
		seen[m] = true
	}
	add := func(m Msg) {
		if !seen[m] {
			seen[m] = true
			out = append(out, m)
		}
	}
	var sels []uint32
	selSeen := map[uint32]bool{}
	for _, m := range base {
		if !m.API && !selSeen[m.Sel] {
			selSeen[m.Sel] = true
			sels = append(sels, m.Sel)
		}
	}
	kinds := map[int]bool{}
	var all uint8
	for _, l := range t.Leaves() {
		kinds[l.Kind] = true
		if l.Kind != KFailure {
			all |= 1 << uint(l.Kind)
		}
	}
	for si := 1; shapes && si < len(Shapes); si++ {
		rel := false
		for _, k := range Shapes[si].Kinds {
			rel = rel || kinds[k]
		}
		if !rel {
			continue
		}
		for _, sel := range sels {
			for _, met := range []uint8{0, all} {
				m := Msg{Sel: sel, Met: met, Shape: uint8(si)}
				add(m)
				if met == 0 {
					m.API = true
					if len(Reached(t, m)) > 0 {
						add(m)
					}
				}
			}
		}
	}
	var flippable []int
	for _, f := range t.filters() {
		if f.Var == FKHeader || f.Var == FKCookie {
			flippable = append(flippable, f.ID)
		}
	}
	if len(flippable) > 0 {
		for _, sel := range sels {
			add(Msg{Sel: sel, API: true})
			add(Msg{Sel: sel, Met: all, API: true})
		}
		cur := append([]Msg(nil), out...)
		for sub := 1; sub < 1<<uint(len(flippable)); sub++ {
			var flip uint32
			for i, id := range flippable {
				if sub&(1<<uint(i)) != 0 {
					flip |= 1 << uint(id)
				}
			}
			for _, m := range cur {
				m.Flip = flip
				add(m)
			}
		}
	}
	return out
}

// ---- trees of the extended families ----

// leafVars lists the parameterisations of each verifier kind (0 = the original one).
var leafVars = map[int][]int{KStatus: {0}, KHeader: {0, 1, 2}, KMethod: {0}, KURL: {0, 1}, KQuery: {0, 1}, KFailure: {0}, KPingback: {0, 1}}

// leafScopes lists the scopes a verifier kind accepts (a request-only verifier rejects "response" and vice versa).
func leafScopes(kind int) []int {
	switch kind {
	case KStatus:
		return []int{ScNone, ScRes, ScEmpty}
	case KHeader:
		return []int{ScNone, ScReq, ScRes, ScBoth, ScEmpty}
	}
	return []int{ScNone, ScReq, ScEmpty}
}

// VariantTrees: every verifier kind in every parameterisation, alone, in a group, in the else branch and in the
// true branch of a filter; thorough adds pairs of the non-original parameterisations under one group.
func VariantTrees(tier string) []*Node {
	var out []*Node
	var nonOrig []*Node
	for k := 0; k < NumLeafKinds; k++ {
		for _, v := range leafVars[k] {
			l := Leaf(k).With(v)
			if v != 0 {
				nonOrig = append(nonOrig, l)
			}
			// the original parameterisation meets the new shapes here; alone and in a group is enough for it
			out = append(out, l.Number(), Group(l).Number())
			if v != 0 {
				out = append(out, FilterE(l).Number(), FilterT(l).Number())
			}
		}
	}
	if tier == "thorough" {
		for _, a := range nonOrig {
			for _, b := range nonOrig {
				out = append(out, Group(a, b).Number())
			}
		}
	} else {
		out = append(out, Group(Leaf(KHeader).With(1), Leaf(KQuery).With(1)).Number(), Group(Leaf(KURL).With(1), Leaf(KPingback).With(1)).Number())
	}
	return out
}

// ScopeTrees: every tree with <= maxN nodes over the given leaf kinds in which at least one node carries a
// scope (every combination of the scopes each node accepts) - containers accept none / request / response /
// both / the empty list - plus aggregating groups.
func ScopeTrees(tier string) []*Node {
	kinds := []int{KStatus, KHeader, KFailure, KPingback, KMethod, KURL, KQuery}
	contScopes := []int{ScNone, ScReq, ScRes, ScBoth, ScEmpty}
	var out []*Node
	var leaves []*Node // every leaf x scope
	for _, k := range kinds {
		for _, sc := range leafScopes(k) {
			leaves = append(leaves, Leaf(k).Scoped(sc))
		}
	}
	for _, l := range leaves {
		if l.Scope != ScNone {
			out = append(out, l.Number())
		}
	}
	for _, l := range leaves {
		for _, sc := range contScopes {
			if l.Scope == ScNone && sc == ScNone {
				out = append(out, Group(l).Aggregating().Number())
				continue
			}
			out = append(out, Group(l).Scoped(sc).Number(), FilterT(l).Scoped(sc).Number(), FilterE(l).Scoped(sc).Number())
		}
	}
	// three nodes: two leaves (restricted kinds) under a scoped group / in the two branches of a scoped filter
	small := []int{KStatus, KHeader, KFailure, KPingback}
	if tier != "thorough" {
		small = []int{KStatus, KHeader, KFailure}
	}
	var sl []*Node
	for _, k := range small {
		for _, sc := range leafScopes(k) {
			if sc == ScEmpty && tier != "thorough" {
				continue
			}
			sl = append(sl, Leaf(k).Scoped(sc))
		}
	}
	for _, a := range sl {
		for _, b := range sl {
			for _, sc := range contScopes {
				if sc == ScEmpty || (sc == ScBoth && tier != "thorough") {
					continue
				}
				if a.Scope == ScNone && b.Scope == ScNone && sc == ScNone {
					continue
				}
				out = append(out, FilterTE(a, b).Scoped(sc).Number())
				if tier == "thorough" || a.Kind != b.Kind {
					out = append(out, Group(a, b).Scoped(sc).Number())
				}
			}
		}
	}
	if tier == "thorough" {
		// a scoped container inside a scoped container
		for _, l := range leaves {
			if l.Scope == ScEmpty {
				continue
			}
			for _, s1 := range []int{ScNone, ScReq, ScRes} {
				for _, s2 := range []int{ScNone, ScReq, ScRes} {
					if s1 == ScNone && s2 == ScNone {
						continue
					}
					out = append(out, Group(Group(l).Scoped(s2)).Scoped(s1).Number(), FilterE(Group(l).Scoped(s2)).Scoped(s1).Number(), Group(FilterE(l).Scoped(s2)).Scoped(s1).Number())
				}
			}
		}
	}
	return out
}

// FilterKindTrees: for every filter kind other than querystring.Filter, a verifier of every kind in the true
// branch, in the else branch, a pair of verifiers in both branches, and the filter under a group.
func FilterKindTrees(tier string) []*Node {
	var out []*Node
	pairs := [][2]int{{KStatus, KHeader}, {KHeader, KStatus}, {KFailure, KPingback}, {KPingback, KFailure}, {KQuery, KURL}, {KMethod, KStatus}, {KHeader, KHeader}, {KStatus, KStatus}}
	if tier == "thorough" {
		pairs = nil
		for a := 0; a < NumLeafKinds; a++ {
			for b := 0; b < NumLeafKinds; b++ {
				pairs = append(pairs, [2]int{a, b})
			}
		}
	}
	for fk := 1; fk < NumFilterKinds; fk++ {
		for k := 0; k < NumLeafKinds; k++ {
			out = append(out, FilterT(Leaf(k)).With(fk).Number(), FilterE(Leaf(k)).With(fk).Number())
		}
		for _, p := range pairs {
			out = append(out, FilterTE(Leaf(p[0]), Leaf(p[1])).With(fk).Number())
		}
		out = append(out, Group(FilterTE(Leaf(KHeader), Leaf(KStatus)).With(fk), Leaf(KFailure)).Number())
		if tier == "thorough" {
			// a filter of this kind in a branch of another one (two selectors)
			for fk2 := 0; fk2 < NumFilterKinds; fk2++ {
				if (fk == FKURL && fk2 == FKURL) || (fk == FKMethod && fk2 == FKMethod) {
					continue // one carrier (host / method) cannot select two filters independently
				}
				out = append(out, FilterE(FilterTE(Leaf(KHeader), Leaf(KStatus)).With(fk2)).With(fk).Number(), FilterT(FilterE(Leaf(KHeader)).With(fk2)).With(fk).Number())
			}
		}
	}
	return out
}

// LongTrees: trees on which long runs of one message are played (see the "long" family in main.go).
func LongTrees() []*Node {
	var out []*Node
	for k := 0; k < NumLeafKinds; k++ {
		out = append(out, Leaf(k).Number())
	}
	out = append(out,
		Group(Leaf(KFailure), Leaf(KMethod)).Number(),
		Group(Group(Leaf(KHeader)), Leaf(KStatus)).Number(),
		FilterTE(Leaf(KFailure), Leaf(KStatus)).Number(),
		FilterE(Group(Leaf(KHeader), Leaf(KURL))).Number(),
	)
	return out
}

// GuardTrees: trees on which the wrong-method calls of the two handlers are played.
func GuardTrees() []*Node {
	var out []*Node
	for k := 0; k < NumLeafKinds; k++ {
		out = append(out, Leaf(k).Number())
	}
	out = append(out, Group(Leaf(KHeader), Leaf(KPingback)).Number(), FilterE(Leaf(KStatus)).Number(), FilterTE(Leaf(KFailure), Leaf(KHeader)).Number())
	return out
}

// FailQTrees: trees with one or two verifiers on which queries whose client goes away are played (the "failq"
// family in main.go).
func FailQTrees() []*Node {
	var out []*Node
	for k := 0; k < NumLeafKinds; k++ {
		out = append(out, Leaf(k).Number())
	}
	out = append(out,
		Group(Leaf(KFailure), Leaf(KStatus)).Number(),
		Group(Leaf(KHeader), Leaf(KPingback)).Number(),
		Group(Leaf(KMethod), Leaf(KQuery)).Number(),
		Group(Leaf(KURL), Leaf(KFailure)).Number(),
		FilterTE(Leaf(KFailure), Leaf(KStatus)).Number(),
		FilterE(Leaf(KHeader)).Number(),
	)
	return out
}

// ---- round 6: groups that also hold an ordinary modifier that can fail ("errmod"), and traffic that goes through
// a real martian.Proxy ("proxy") ----

// Err returns an err modifier node (KErr) with the given scope (ScNone: both sides, ScReq, ScRes).
func Err(scope int) *Node { return &Node{Kind: KErr, Scope: scope} }

// errSides tells on which sides some err modifier of the tree takes part.
func errSides(t *Node) (req, res bool) {
	var rec func(x *Node)
	rec = func(x *Node) {
		if x.Kind == KErr {
			req = req || t.Active(x.ID, SideReq)
			res = res || t.Active(x.ID, SideRes)
		}
		for _, k := range x.Kids {
			rec(k)
		}
	}
	rec(t)
	return
}

// AlphabetErr is the alphabet of a tree with err modifiers: every message of the original alphabet (routing x
// met/unmet decision paths, API-marked messages) x every subset of the sides on which an err modifier of the tree
// takes part (the message asks the err modifiers to fail on the request side, on the response side, on both, not
// at all).
func AlphabetErr(t *Node) []Msg {
	req, res := errSides(t)
	errs := []uint8{0}
	if req {
		errs = append(errs, ErrReq)
	}
	if res {
		errs = append(errs, ErrRes)
	}
	if req && res {
		errs = append(errs, ErrReq|ErrRes)
	}
	var out []Msg
	for _, m := range Alphabet(t) {
		for _, e := range errs {
			m.Err = e
			out = append(out, m)
		}
	}
	return out
}

// errScopes lists the scopes of an err modifier that share a side with a verifier of the given kind.
func errScopes(kind int) []int {
	switch kind {
	case KStatus:
		return []int{ScNone, ScRes}
	case KHeader:
		return []int{ScNone, ScReq, ScRes}
	}
	return []int{ScNone, ScReq}
}

// ErrTrees: a verifier of every kind before / after an err modifier (every scope that shares a side with the
// verifier) in a plain and in an aggregating group; an err modifier between two verifiers; a group with an err
// modifier nested in a group (every combination of aggregation); groups with an err modifier in the branches of a
// filter and an err modifier as the (only) branch of a filter in a group.
func ErrTrees(tier string) []*Node {
	var out []*Node
	grp := func(agg bool, kids ...*Node) *Node {
		g := Group(kids...)
		g.Agg = agg
		return g
	}
	for k := 0; k < NumLeafKinds; k++ {
		for _, es := range errScopes(k) {
			if tier != "thorough" && k != KHeader && es != ScNone {
				continue // quick: the scoped err modifiers only around the verifier that has both sides
			}
			for _, agg := range []bool{false, true} {
				out = append(out, grp(agg, Leaf(k), Err(es)).Number(), grp(agg, Err(es), Leaf(k)).Number())
			}
		}
	}
	pairs := [][2]int{{KHeader, KStatus}, {KFailure, KMethod}, {KStatus, KHeader}, {KPingback, KFailure}, {KURL, KQuery}}
	if tier == "thorough" {
		pairs = nil
		for a := 0; a < NumLeafKinds; a++ {
			for b := 0; b < NumLeafKinds; b++ {
				pairs = append(pairs, [2]int{a, b})
			}
		}
	}
	for _, p := range pairs {
		for _, agg := range []bool{false, true} {
			out = append(out, grp(agg, Leaf(p[0]), Err(ScNone), Leaf(p[1])).Number())
		}
	}
	for _, p := range [][2]int{{KHeader, KStatus}, {KFailure, KMethod}, {KStatus, KHeader}} {
		a, b := Leaf(p[0]), Leaf(p[1])
		for _, in := range []bool{false, true} {
			for _, outer := range []bool{false, true} {
				out = append(out, grp(outer, grp(in, a, Err(ScNone)), b).Number(), grp(outer, b, grp(in, Err(ScNone), a)).Number())
			}
		}
	}
	for _, p := range [][2]int{{KHeader, KStatus}, {KFailure, KFailure}} {
		a, b := Leaf(p[0]), Leaf(p[1])
		out = append(out,
			FilterE(Group(a, Err(ScNone))).Number(),
			FilterT(Group(Err(ScNone), a)).Number(),
			FilterTE(Group(a, Err(ScNone)), b).Number(),
			FilterTE(b, Group(Err(ScNone), a)).Number(),
		)
		for _, agg := range []bool{false, true} {
			out = append(out, grp(agg, FilterT(Err(ScNone)), a).Number(), grp(agg, FilterE(Err(ScNone)), a, b).Number())
		}
	}
	return out
}

// AlphabetProxy is the alphabet of the through-the-proxy family for a tree: every plain message of the original
// alphabet (routing x met/unmet decision paths), each also with the upstream round trip failing (the proxy answers
// 502 itself); a CONNECT whose target cannot be dialled (the proxy answers 502 itself), with the wanted header on
// the request as well if the tree holds a header verifier; for every routing path that reaches a verifier a request
// addressed to the proxy's own API with every expectation unmet.
func AlphabetProxy(t *Node) []Msg {
	var out []Msg
	seen := map[Msg]bool{}
	add := func(m Msg) {
		if !seen[m] {
			seen[m] = true
			out = append(out, m)
		}
	}
	base := Alphabet(t)
	for _, m := range base {
		if !m.API {
			add(m)
		}
	}
	for _, m := range base {
		if !m.API {
			m.Via = ViaFaultRT
			add(m)
		}
	}
	add(Msg{Via: ViaConnectFail})
	for _, l := range t.Leaves() {
		if l.Kind == KHeader {
			add(Msg{Via: ViaConnectFail, Met: bits(KHeader)})
			break
		}
	}
	for _, m := range base {
		if m.API && !m.Bad && m.Met == 0 {
			add(m)
		}
	}
	return out
}

// AlphabetRTReq is the alphabet of the rtreq family (round 8b: what the upstream round tripper puts into
// res.Request): the symbols of AlphabetProxy whose exchange gets a response from the upstream round tripper - every
// plain message and the requests addressed to the proxy's own API; the exchanges the proxy answers itself (failed
// round trip, failed CONNECT) have no upstream response and stay with the proxy family.
func AlphabetRTReq(t *Node) []Msg {
	var out []Msg
	for _, m := range AlphabetProxy(t) {
		if m.Via == 0 {
			out = append(out, m)
		}
	}
	return out
}

// ProxyTrees: the trees played through a real proxy.
func ProxyTrees(tier string) []*Node {
	var out []*Node
	for k := 0; k < NumLeafKinds; k++ {
		out = append(out, Leaf(k).Number())
	}
	out = append(out,
		Group(Leaf(KStatus), Group(Leaf(KHeader))).Number(),
		Group(Leaf(KFailure), Leaf(KStatus)).Number(),
		FilterE(Leaf(KStatus)).Number(),
		FilterT(Leaf(KHeader)).Number(),
		FilterTE(Leaf(KHeader), Leaf(KStatus)).Number(),
		FilterTE(Leaf(KStatus), Leaf(KStatus)).With(FKHeader).Number(),
	)
	if tier == "thorough" {
		for a := 0; a < NumLeafKinds; a++ {
			out = append(out, FilterE(Leaf(a)).With(FKCookie).Number(), FilterT(Leaf(a)).Number(), Group(Leaf(a)).Scoped(ScRes).Number())
			for b := 0; b < NumLeafKinds; b++ {
				if a != KStatus && a != KHeader && b != KStatus && b != KHeader {
					continue // at least one verifier with a response side
				}
				out = append(out, Group(Leaf(a), Leaf(b)).Number(), FilterTE(Leaf(a), Leaf(b)).Number())
			}
		}
	}
	return out
}

// ---- round 8: the same exchange again ("repeat") ----
//
// Every other family gives each exchange of a history an id of its own (the position in the history, carried in the
// URL), so no two error messages of a history are ever equal. In the repeat family the id belongs to the *symbol*:
// playing a symbol again is the same exchange again - same URL, same method, same headers, same status - as a client
// that retries a request produces it, and every verifier that misses its expectation builds the very same error
// message again. The statement counts evaluations, not distinct messages: "one error for each time a verifier's
// expectation was evaluated and not met".

// AlphabetRepeat is the alphabet of the repeat family and the id of each symbol: the alphabet of the variants family
// (routing x met/unmet decision paths, every shape that bears on a verifier kind of the tree, API-marked messages,
// responses that take the other branch of a header / cookie filter), plus, for every plain message without a shape
// that makes some verifier record a failure, a twin: the same message under another id, i.e. a different failing
// message in between two equal ones. Every symbol has an id of its own (an API-marked message too: a token that is
// reported although it should not be must stay attributable to one cause - API request, reset, duplicate).
func AlphabetRepeat(t *Node) (alpha []Msg, ids []int) {
	alpha = AlphabetX(t, true)
	for _, m := range append([]Msg(nil), alpha...) {
		if m.API || m.Shape != 0 || m.Flip != 0 {
			continue
		}
		records := false
		for _, r := range Eval(t, m, 0) {
			records = records || r.Kind != KPingback
		}
		if records {
			m.Twin = 1
			alpha = append(alpha, m)
		}
	}
	class := map[Msg]int{}
	for _, m := range alpha {
		if _, ok := class[m]; !ok {
			class[m] = len(class) + 1
		}
		ids = append(ids, class[m])
	}
	return alpha, ids
}

// RepeatTrees: every verifier kind in every parameterisation at the top level, in a group, in the true branch and in
// the else branch of a filter; the original parameterisations also in a nested group, in both branches of one filter
// and in a group in an else branch; pairs of verifiers under one group and in the two branches of a filter; filters of
// the other kinds (header and cookie filters route the response by the response). Thorough: all pairs, every kind
// under every filter kind, scoped header verifiers and aggregating groups.
func RepeatTrees(tier string) []*Node {
	var out []*Node
	for k := 0; k < NumLeafKinds; k++ {
		for _, v := range leafVars[k] {
			l := Leaf(k).With(v)
			out = append(out, l.Number(), Group(l).Number(), FilterT(l).Number(), FilterE(l).Number())
			if v == 0 {
				out = append(out, Group(Group(l)).Number(), FilterTE(l, l).Number(), FilterE(Group(l)).Number())
			}
		}
	}
	pairs := [][2]int{{KStatus, KHeader}, {KHeader, KStatus}, {KFailure, KMethod}, {KURL, KQuery}, {KStatus, KStatus}, {KHeader, KHeader}}
	if tier == "thorough" {
		pairs = nil
		for a := 0; a < NumLeafKinds; a++ {
			for b := 0; b < NumLeafKinds; b++ {
				pairs = append(pairs, [2]int{a, b})
			}
		}
	}
	for _, p := range pairs {
		out = append(out, Group(Leaf(p[0]), Leaf(p[1])).Number())
		if p[0] != p[1] {
			out = append(out, FilterTE(Leaf(p[0]), Leaf(p[1])).Number())
		}
	}
	for fk := 1; fk < NumFilterKinds; fk++ {
		out = append(out, FilterTE(Leaf(KStatus), Leaf(KHeader)).With(fk).Number())
		if tier == "thorough" {
			for k := 0; k < NumLeafKinds; k++ {
				out = append(out, FilterT(Leaf(k)).With(fk).Number(), FilterE(Leaf(k)).With(fk).Number())
			}
		}
	}
	if tier == "thorough" {
		for _, sc := range []int{ScReq, ScRes, ScBoth} {
			out = append(out, Leaf(KHeader).Scoped(sc).Number(), Group(Leaf(KHeader), Leaf(KStatus)).Scoped(sc).Number())
		}
		for k := 0; k < NumLeafKinds; k++ {
			out = append(out, Group(Leaf(k), Leaf(KFailure)).Aggregating().Number())
		}
	}
	return out
}
