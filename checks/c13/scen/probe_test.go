package scen

import (
	"fmt"
	"runtime/debug"
	"testing"
	"time"
)

func TestCount(t *testing.T) {
	for _, L := range []int{4, 5} {
		tot := 0.0
		for n := 1; n <= 4; n++ {
			trees := Trees(n)
			sum := 0.0
			maxA := 0
			for _, tr := range trees {
				a := len(Alphabet(tr)) + 2
				if a > maxA {
					maxA = a
				}
				h := 1.0
				for i := 0; i < L; i++ {
					h *= float64(a)
				}
				sum += h
			}
			tot += sum
			fmt.Printf("L=%d n=%d trees=%d histories=%.0f maxalpha=%d cum=%.0f\n", L, n, len(trees), sum, maxA, tot)
		}
	}
	tr := Trees(3)[100]
	fmt.Println(tr, tr.JSON())
	al := Alphabet(tr)
	fmt.Println(al)
	js := []byte(tr.JSON())
	pool := &Pool{}
	debug.SetGCPercent(400)
	start := time.Now()
	N := 20000
	for i := 0; i < N; i++ {
		h, err := NewHarnessDirect(js)
		if err != nil {
			t.Fatal(err)
		}
		md := NewModel(tr)
		for s := 0; s < 4; s++ {
			m := al[(i+s)%len(al)]
			x, _ := pool.Exchange(m, s+1, s)
			h.Request(x)
			h.Response(x)
			x.Remove()
			md.Traffic(m, s+1)
		}
		toks, raw, err := h.Query()
		if err != nil {
			t.Fatal(err, raw)
		}
		if d := md.Diff(toks); len(d) > 0 && i < 30 {
			fmt.Println(i, d, toks, md.Expected())
		}
	}
	fmt.Println("per history", time.Since(start)/time.Duration(N))
}
