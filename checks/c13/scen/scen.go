// Package scen holds what the C13 check (gosim build) and its auxiliary race pass (plain -race build) share:
// configuration trees and their JSON, traffic messages, the reference model written from the property
// statement, the driver of the real martian code and the list of concurrent scenarios.
//
// It must not import the gosim runtime (the race pass is built from the unrewritten /repo).
package scen

import (
	"encoding/json"
	"fmt"
	"net/http"
	"net/http/httptest"
	"net/url"
	"os"
	"sort"
	"strconv"
	"strings"

	"github.com/google/martian/v3"
	"github.com/google/martian/v3/martianhttp"
	"github.com/google/martian/v3/parse"
	"github.com/google/martian/v3/verify"

	// modifiers referenced by the generated JSON
	_ "github.com/google/martian/v3/cookie"
	_ "github.com/google/martian/v3/failure"
	_ "github.com/google/martian/v3/fifo"
	_ "github.com/google/martian/v3/header"
	_ "github.com/google/martian/v3/martianurl"
	_ "github.com/google/martian/v3/method"
	_ "github.com/google/martian/v3/pingback"
	_ "github.com/google/martian/v3/querystring"
	_ "github.com/google/martian/v3/status"
)

// Node kinds. The first NumLeafKinds are the verifiers.
const (
	KStatus = iota
	KHeader
	KMethod
	KURL
	KQuery
	KFailure
	KPingback
	KGroup    // fifo.Group, >= 1 children
	KFilterT  // querystring.Filter, child in the true branch, no else
	KFilterE  // querystring.Filter, non-verifier modifier in the true branch, child in the else branch
	KFilterTE // querystring.Filter, Kids[0] in the true branch, Kids[1] in the else branch
	KErr      // round 6: an ordinary (non-verifier) modifier that returns an error for the messages that ask for it (see ext.go)
)

const NumLeafKinds = 7

var KindNames = []string{"status", "header", "method", "url", "query", "failure", "pingback", "group", "filterT", "filterE", "filterTE", "err"}

// Node is a node of a configuration tree.
type Node struct {
	Kind int
	Kids []*Node
	ID   int // preorder index, set by Number

	// Extensions (see ext.go); the zero values give the original trees.
	Var   int  // verifier: parameterisation; filter: kind of filter (FKQuery, FKHeader, ...)
	Scope int  // "scope" of the JSON message: ScNone (absent), ScReq, ScRes, ScBoth, ScEmpty
	Agg   bool // fifo.Group: aggregateErrors

	ext  bool // root only, set by Number: some node of the tree uses an extension
	errs bool // root only, set by Number: the tree holds an err modifier
}

func Leaf(kind int) *Node       { return &Node{Kind: kind} }
func Group(kids ...*Node) *Node { return &Node{Kind: KGroup, Kids: kids} }
func FilterT(k *Node) *Node     { return &Node{Kind: KFilterT, Kids: []*Node{k}} }
func FilterE(k *Node) *Node     { return &Node{Kind: KFilterE, Kids: []*Node{k}} }
func FilterTE(t, e *Node) *Node { return &Node{Kind: KFilterTE, Kids: []*Node{t, e}} }
func (n *Node) IsLeaf() bool    { return n.Kind < NumLeafKinds }
func (n *Node) isFilter() bool  { return n.Kind >= KFilterT && n.Kind <= KFilterTE }
func (n *Node) clone() *Node {
	c := &Node{Kind: n.Kind, Var: n.Var, Scope: n.Scope, Agg: n.Agg}
	for _, k := range n.Kids {
		c.Kids = append(c.Kids, k.clone())
	}
	return c
}

// Number deep-copies the tree and assigns preorder ids.
func (n *Node) Number() *Node {
	c := n.clone()
	id := 0
	var rec func(x *Node)
	rec = func(x *Node) {
		x.ID = id
		id++
		if x.Var != 0 || x.Scope != 0 || x.Agg || x.Kind == KErr {
			c.ext = true
		}
		if x.Kind == KErr {
			c.errs = true
		}
		for _, k := range x.Kids {
			rec(k)
		}
	}
	rec(c)
	return c
}

// Size is the number of nodes.
func (n *Node) Size() int {
	s := 1
	for _, k := range n.Kids {
		s += k.Size()
	}
	return s
}

func (n *Node) String() string {
	name := KindNames[n.Kind] + n.extSuffix()
	if n.IsLeaf() || n.Kind == KErr {
		return name
	}
	var ks []string
	for _, k := range n.Kids {
		ks = append(ks, k.String())
	}
	return name + "(" + strings.Join(ks, ",") + ")"
}

// JSON renders the martian configuration message of the tree.
func (n *Node) JSON() string {
	if n.Var != 0 || n.Scope != 0 || n.Agg || n.Kind == KErr {
		return n.extJSON()
	}
	switch n.Kind {
	case KStatus:
		return `{"status.Verifier":{"statusCode":200}}`
	case KHeader:
		return `{"header.Verifier":{"name":"X-Vh","value":"ok"}}`
	case KMethod:
		return `{"method.Verifier":{"method":"GET"}}`
	case KURL:
		return `{"url.Verifier":{"host":"good.example"}}`
	case KQuery:
		return `{"querystring.Verifier":{"name":"qv","value":"ok"}}`
	case KFailure:
		return fmt.Sprintf(`{"failure.Verifier":{"message":"fail%d"}}`, n.ID)
	case KPingback:
		return `{"pingback.Verifier":{"path":"/ping"}}`
	case KGroup:
		var ks []string
		for _, k := range n.Kids {
			ks = append(ks, k.JSON())
		}
		return `{"fifo.Group":{"modifiers":[` + strings.Join(ks, ",") + `]}}`
	case KFilterT:
		return fmt.Sprintf(`{"querystring.Filter":{"name":"s%d","value":"1","modifier":%s}}`, n.ID, n.Kids[0].JSON())
	case KFilterE:
		return fmt.Sprintf(`{"querystring.Filter":{"name":"s%d","value":"1","modifier":{"header.Modifier":{"name":"X-Noop","value":"1"}},"else":%s}}`, n.ID, n.Kids[0].JSON())
	case KFilterTE:
		return fmt.Sprintf(`{"querystring.Filter":{"name":"s%d","value":"1","modifier":%s,"else":%s}}`, n.ID, n.Kids[0].JSON(), n.Kids[1].JSON())
	}
	panic("bad kind")
}

// Trees returns every tree with exactly n nodes (numbered), leaves first.
func Trees(n int) []*Node {
	var out []*Node
	for _, t := range treesOfSize(n) {
		out = append(out, t.Number())
	}
	return out
}

var treeMemo = map[int][]*Node{}

func treesOfSize(n int) []*Node {
	if n <= 0 {
		return nil
	}
	if t, ok := treeMemo[n]; ok {
		return t
	}
	var out []*Node
	if n == 1 {
		for k := 0; k < NumLeafKinds; k++ {
			out = append(out, Leaf(k))
		}
	} else {
		for _, kids := range seqs(n - 1) {
			out = append(out, Group(kids...))
		}
		for _, k := range treesOfSize(n - 1) {
			out = append(out, FilterT(k))
		}
		for _, k := range treesOfSize(n - 1) {
			out = append(out, FilterE(k))
		}
		for a := 1; a <= n-2; a++ {
			for _, t := range treesOfSize(a) {
				for _, e := range treesOfSize(n - 1 - a) {
					out = append(out, FilterTE(t, e))
				}
			}
		}
	}
	treeMemo[n] = out
	return out
}

// seqs returns all non-empty ordered sequences of trees with total size total.
func seqs(total int) [][]*Node {
	var out [][]*Node
	for s := 1; s <= total; s++ {
		for _, t := range treesOfSize(s) {
			if s == total {
				out = append(out, []*Node{t})
				continue
			}
			for _, rest := range seqs(total - s) {
				out = append(out, append([]*Node{t}, rest...))
			}
		}
	}
	return out
}

// Leaves returns the leaves in preorder.
func (n *Node) Leaves() []*Node {
	if n.IsLeaf() {
		return []*Node{n}
	}
	var out []*Node
	for _, k := range n.Kids {
		out = append(out, k.Leaves()...)
	}
	return out
}

// Where classifies the position of the node with the given id: else_branch (some ancestor filter holds it in
// its else branch), true_branch, group, top.
func (n *Node) Where(id int) string {
	res := ""
	var rec func(x *Node, els, tru, grp bool) bool
	rec = func(x *Node, els, tru, grp bool) bool {
		if x.ID == id {
			switch {
			case els:
				res = "else_branch"
			case tru:
				res = "true_branch"
			case grp:
				res = "group"
			default:
				res = "top"
			}
			return true
		}
		for i, k := range x.Kids {
			e, t, g := els, tru, grp
			switch x.Kind {
			case KGroup:
				g = true
			case KFilterT:
				t = true
			case KFilterE:
				e = true
			case KFilterTE:
				if i == 0 {
					t = true
				} else {
					e = true
				}
			}
			if rec(k, e, t, g) {
				return true
			}
		}
		return false
	}
	rec(n, false, false, false)
	return res
}

// ---- traffic messages ----

// Msg is one exchange (request + response) described by what it does to the tree: Sel bit i routes filter
// node i to its true branch; Met bit k makes the expectation of verifier kind k met (failure has no bit,
// it is never met; the header bit governs the request and the response header together); API marks the
// request as addressed to the proxy's own API.
type Msg struct {
	Sel uint32
	Met uint8
	API bool
	Bad bool // API requests only: the query additionally carries a pair that net/url refuses to parse ("bad=1;2")

	// Extensions (see ext.go); the zero values give the original messages.
	Flip  uint32 // filters with an own response condition (header, cookie): bit i = the response takes the other branch of filter node i than the request
	Shape uint8  // index into Shapes: concrete attributes that override what Met says (wrong value, several values, ...)
	Err   uint8  // round 6: ErrReq = the request asks the err modifiers (KErr) to fail, ErrRes = the response does
	Via   uint8  // round 6, through-the-proxy family only: ViaFaultRT = the upstream round trip fails (the proxy answers 502 itself), ViaConnectFail = a CONNECT whose target cannot be dialled
	Twin  uint8  // round 8, repeat family only: 1 = the same exchange under another id (another URL): a different message with the same outcome
}

// Bits of Msg.Err and values of Msg.Via.
const (
	ErrReq = 1
	ErrRes = 2

	ViaFaultRT     = 1
	ViaConnectFail = 2
)

func (m Msg) met(kind int) bool { return m.Met&(1<<uint(kind)) != 0 }

func (m Msg) String() string {
	var parts []string
	for i := 0; i < 32; i++ {
		if m.Sel&(1<<uint(i)) != 0 {
			parts = append(parts, "s"+strconv.Itoa(i))
		}
	}
	var met []string
	for k := 0; k < NumLeafKinds; k++ {
		if m.met(k) {
			met = append(met, KindNames[k])
		}
	}
	s := "msg{route:" + strings.Join(parts, "+") + " met:" + strings.Join(met, "+")
	if m.API {
		s += " API"
	}
	if m.Bad {
		s += " unparsable-query"
	}
	if m.Flip != 0 {
		s += fmt.Sprintf(" response-flips:%b", m.Flip)
	}
	if m.Shape != 0 {
		s += " shape:" + Shapes[m.Shape].Name
	}
	if m.Err&ErrReq != 0 {
		s += " request-fails-err-modifier"
	}
	if m.Err&ErrRes != 0 {
		s += " response-fails-err-modifier"
	}
	if m.Twin != 0 {
		s += " other-id"
	}
	switch m.Via {
	case ViaFaultRT:
		s += " round-trip-fails"
	case ViaConnectFail:
		s += " CONNECT-target-unreachable"
	}
	return s + "}"
}

// Alphabet returns the traffic messages enumerated for a tree: every decision path through the tree (at
// each filter reached: true/false; at each verifier kind reached for the first time: met/unmet; whatever
// is not reached keeps the default "selector absent"/"unmet"), and for API-marked requests every routing
// path that reaches at least one verifier, with all reached expectations unmet, plus - if the tree holds a
// pingback verifier, the only kind whose state changes on a *met* expectation - the same routing paths with
// all reached expectations met.
func Alphabet(t *Node) []Msg {
	var out []Msg
	seen := map[Msg]bool{}
	emit := func(m Msg) {
		if m.API && len(Reached(t, m)) == 0 {
			return
		}
		if !seen[m] {
			seen[m] = true
			out = append(out, m)
		}
		if m.API && !m.Bad {
			// the same API request with a query string http.Request.ParseForm rejects, where a query-string
			// verifier is reached (requests to the proxy's own API are never counted, whatever they look like)
			for _, l := range Reached(t, m) {
				if l.Kind == KQuery {
					mb := m
					mb.Bad = true
					if !seen[mb] {
						seen[mb] = true
						out = append(out, mb)
					}
					break
				}
			}
		}
	}
	// uniform: -1 = branch on every expectation, 0 = all unmet, 1 = all met
	var walk func(work []*Node, m Msg, assigned uint8, uniform int, api bool)
	walk = func(work []*Node, m Msg, assigned uint8, uniform int, api bool) {
		if len(work) == 0 {
			m.API = api
			emit(m)
			return
		}
		x := work[0]
		rest := work[1:]
		push := func(k *Node) []*Node { return append([]*Node{k}, rest...) }
		switch {
		case x.Kind == KErr:
			walk(rest, m, assigned, uniform, api)
		case x.Kind == KGroup:
			walk(append(append([]*Node{}, x.Kids...), rest...), m, assigned, uniform, api)
		case x.isFilter():
			m0, m1 := m, m
			m1.Sel |= 1 << uint(x.ID)
			switch x.Kind {
			case KFilterT:
				walk(rest, m0, assigned, uniform, api)
				walk(push(x.Kids[0]), m1, assigned, uniform, api)
			case KFilterE:
				walk(push(x.Kids[0]), m0, assigned, uniform, api)
				walk(rest, m1, assigned, uniform, api)
			case KFilterTE:
				walk(push(x.Kids[1]), m0, assigned, uniform, api)
				walk(push(x.Kids[0]), m1, assigned, uniform, api)
			}
		default:
			bit := uint8(1) << uint(x.Kind)
			if x.Kind == KFailure || assigned&bit != 0 {
				walk(rest, m, assigned, uniform, api)
				return
			}
			m1 := m
			m1.Met |= bit
			switch uniform {
			case -1:
				walk(rest, m, assigned|bit, uniform, api)
				walk(rest, m1, assigned|bit, uniform, api)
			case 0:
				walk(rest, m, assigned|bit, uniform, api)
			case 1:
				walk(rest, m1, assigned|bit, uniform, api)
			}
		}
	}
	walk([]*Node{t}, Msg{}, 0, -1, false)
	walk([]*Node{t}, Msg{}, 0, 0, true)
	for _, l := range t.Leaves() {
		if l.Kind == KPingback {
			walk([]*Node{t}, Msg{}, 0, 1, true)
			break
		}
	}
	return out
}

// Reached lists the verifier nodes message m is routed to.
func Reached(t *Node, m Msg) []*Node {
	var out []*Node
	var rec func(x *Node)
	rec = func(x *Node) {
		sel := m.Sel&(1<<uint(x.ID)) != 0
		switch x.Kind {
		case KGroup:
			for _, k := range x.Kids {
				rec(k)
			}
		case KFilterT:
			if sel {
				rec(x.Kids[0])
			}
		case KFilterE:
			if !sel {
				rec(x.Kids[0])
			}
		case KFilterTE:
			if sel {
				rec(x.Kids[0])
			} else {
				rec(x.Kids[1])
			}
		case KErr:
		default:
			out = append(out, x)
		}
	}
	rec(t)
	return out
}

// Build constructs the request and the response of the message; id makes its URL unique.
func (m Msg) Build(id int) (*http.Request, *http.Response) {
	if m.Flip != 0 || m.Shape != 0 || m.Err != 0 || m.Via != 0 {
		return m.BuildFor(nil, id)
	}
	host := "bad.example"
	if m.met(KURL) {
		host = "good.example"
	}
	path := "/other"
	if m.met(KPingback) {
		path = "/ping"
	}
	q := "id=" + strconv.Itoa(id)
	if m.met(KQuery) {
		q += "&qv=ok"
	}
	for i := 0; i < 32; i++ {
		if m.Sel&(1<<uint(i)) != 0 {
			q += "&s" + strconv.Itoa(i) + "=1"
		}
	}
	if m.Bad {
		q += "&bad=1;2"
	}
	method := "DELETE"
	if m.met(KMethod) {
		method = "GET"
	}
	req := &http.Request{
		Method: method,
		URL:    &url.URL{Scheme: "http", Host: host, Path: path, RawQuery: q},
		Proto:  "HTTP/1.1", ProtoMajor: 1, ProtoMinor: 1,
		Header: http.Header{},
		Body:   http.NoBody,
		Host:   host,
	}
	code := 500
	if m.met(KStatus) {
		code = 200
	}
	res := &http.Response{
		StatusCode: code,
		Status:     strconv.Itoa(code) + " " + http.StatusText(code),
		Proto:      "HTTP/1.1", ProtoMajor: 1, ProtoMinor: 1,
		Header:  http.Header{},
		Body:    http.NoBody,
		Request: req,
	}
	if m.met(KHeader) {
		req.Header.Set("X-Vh", "ok")
		res.Header.Set("X-Vh", "ok")
	}
	return req, res
}

// ---- reference model (from the statement, not from the code) ----

// Sides of an exchange.
const (
	SideReq = 0
	SideRes = 1
)

// Rec states.
const (
	Live   = 0 // counted: unmet evaluation since the last reset
	Erased = 1 // was live, a reset happened since
	APIReq = 2 // evaluation on an API request: never counted
)

// Rec is one evaluation of a verifier's expectation that was not met (or, for pingback, one sighting).
type Rec struct {
	Tok   string // what the verification answer must contain for it ("" for a pingback sighting)
	Leaf  int
	Kind  int
	Side  int
	MsgID int
	State int
}

// Eval lists what message m (taken as a non-API request) makes the verifiers of the tree record.
func Eval(t *Node, m Msg, id int) []Rec {
	if t.ext || m.Flip != 0 || m.Shape != 0 || m.Err != 0 || m.Via != 0 || ForceConcrete {
		recs, _, _ := evalX(t, m, id)
		return recs
	}
	var out []Rec
	var rec func(x *Node)
	rec = func(x *Node) {
		sel := m.Sel&(1<<uint(x.ID)) != 0
		switch x.Kind {
		case KGroup:
			for _, k := range x.Kids {
				rec(k)
			}
		case KFilterT:
			if sel {
				rec(x.Kids[0])
			}
		case KFilterE:
			if !sel {
				rec(x.Kids[0])
			}
		case KFilterTE:
			if sel {
				rec(x.Kids[0])
			} else {
				rec(x.Kids[1])
			}
		case KFailure:
			out = append(out, Rec{Tok: "failure" + strconv.Itoa(x.ID) + "#" + strconv.Itoa(id), Leaf: x.ID, Kind: KFailure, Side: SideReq, MsgID: id})
		case KPingback:
			if m.met(KPingback) {
				out = append(out, Rec{Tok: "", Leaf: x.ID, Kind: KPingback, Side: SideReq, MsgID: id})
			}
		case KHeader:
			if !m.met(KHeader) {
				out = append(out, Rec{Tok: "header:request#" + strconv.Itoa(id), Leaf: x.ID, Kind: KHeader, Side: SideReq, MsgID: id})
				out = append(out, Rec{Tok: "header:response#" + strconv.Itoa(id), Leaf: x.ID, Kind: KHeader, Side: SideRes, MsgID: id})
			}
		case KStatus:
			if !m.met(KStatus) {
				out = append(out, Rec{Tok: "status#" + strconv.Itoa(id), Leaf: x.ID, Kind: KStatus, Side: SideRes, MsgID: id})
			}
		default: // method, url, query: request side
			if !m.met(x.Kind) {
				out = append(out, Rec{Tok: KindNames[x.Kind] + "#" + strconv.Itoa(id), Leaf: x.ID, Kind: x.Kind, Side: SideReq, MsgID: id})
			}
		}
	}
	rec(t)
	return out
}

// Model is the reference model: per verifier, the unmet evaluations since the last reset.
type Model struct {
	Tree   *Node
	Recs   []Rec       // everything ever evaluated, with its state
	Seen   map[int]int // pingback leaf -> 0 never seen since reset, 1 seen
	PBHist map[int]int // pingback leaf -> bitmask: 1 = a sighting was erased by a reset, 2 = a sighting came from an API request
	Resets int
}

func NewModel(t *Node) *Model {
	m := &Model{Tree: t, Seen: map[int]int{}, PBHist: map[int]int{}}
	for _, l := range t.Leaves() {
		if l.Kind == KPingback && t.Active(l.ID, SideReq) {
			m.Seen[l.ID] = 0
		}
	}
	return m
}

// Traffic applies one exchange.
func (md *Model) Traffic(m Msg, id int) {
	for _, r := range Eval(md.Tree, m, id) {
		if r.Kind == KPingback {
			if m.API {
				md.PBHist[r.Leaf] |= 2
			} else {
				md.Seen[r.Leaf] = 1
			}
			continue
		}
		if m.API {
			r.State = APIReq
		}
		md.Recs = append(md.Recs, r)
	}
}

// Reset returns every verifier to its initial state.
func (md *Model) Reset() {
	for i := range md.Recs {
		if md.Recs[i].State == Live {
			md.Recs[i].State = Erased
		}
	}
	for l, s := range md.Seen {
		if s == 1 {
			md.PBHist[l] |= 1
		}
		md.Seen[l] = 0
	}
	md.Resets++
}

// Expected is the sorted list of tokens a verification query must return.
func (md *Model) Expected() []string {
	out := []string{}
	for _, r := range md.Recs {
		if r.State == Live {
			out = append(out, r.Tok)
		}
	}
	for _, s := range md.Seen {
		if s == 0 {
			out = append(out, "pingback")
		}
	}
	sort.Strings(out)
	return out
}

// Finding is one classified difference between the model's answer and the implementation's.
type Finding struct {
	Sig    string
	Detail string
}

var whereRank = map[string]int{"": 0, "top": 1, "group": 2, "true_branch": 3, "else_branch": 4}

// worse returns the more nested of two position classes.
func worse(a, b string) string {
	if whereRank[b] > whereRank[a] {
		return b
	}
	return a
}

func tokKind(tok string) string {
	if strings.HasPrefix(tok, "unknown") {
		return "unknown"
	}
	if i := strings.IndexByte(tok, '#'); i >= 0 {
		tok = tok[:i]
	}
	if strings.HasPrefix(tok, "failure") {
		return "failure"
	}
	if i := strings.IndexByte(tok, ':'); i >= 0 {
		tok = tok[:i]
	}
	return tok
}

// TokKind exports tokKind.
func TokKind(tok string) string { return tokKind(tok) }

// Diff compares an answer (sorted tokens) with the model and classifies every difference.
func (md *Model) Diff(actual []string) []Finding {
	exp := md.Expected()
	ec, ac := map[string]int{}, map[string]int{}
	for _, t := range exp {
		ec[t]++
	}
	for _, t := range actual {
		ac[t]++
	}
	var out []Finding
	seen := map[string]bool{}
	add := func(sig, detail string) {
		if !seen[sig] {
			seen[sig] = true
			out = append(out, Finding{sig, detail})
		}
	}
	keys := []string{}
	for t := range ec {
		keys = append(keys, t)
	}
	for t := range ac {
		if _, ok := ec[t]; !ok {
			keys = append(keys, t)
		}
	}
	sort.Strings(keys)
	for _, t := range keys {
		e, a := ec[t], ac[t]
		if e == a {
			continue
		}
		if t == "pingback" {
			if a > e {
				add("pingback:error_although_seen", fmt.Sprintf("answer has %d 'pingback never occurred' error(s), %d pingback verifier(s) have not seen their URL since the last reset", a, e))
				continue
			}
			// fewer errors than unseen verifiers
			hist := 0
			where := ""
			for l, s := range md.Seen {
				if s == 0 && md.PBHist[l] != 0 {
					hist |= md.PBHist[l]
					where = worse(where, md.Tree.Where(l))
				}
			}
			switch {
			case hist&2 != 0:
				add("api_request_counted:pingback", "a pingback verifier treats an API request as the awaited sighting")
			case hist&1 != 0:
				add("stale_after_reset:"+where+":request", "a pingback verifier still counts as satisfied after a reset")
			default:
				for l, s := range md.Seen {
					if s == 0 {
						where = worse(where, md.Tree.Where(l))
					}
				}
				add("lost:"+where+":request", fmt.Sprintf("answer has %d 'pingback never occurred' error(s), want %d", a, e))
			}
			continue
		}
		if a < e {
			where, sd := "", "request"
			for i := range md.Recs {
				if r := &md.Recs[i]; r.Tok == t && r.State == Live {
					where = worse(where, md.Tree.Where(r.Leaf))
					if r.Side == SideRes {
						sd = "response"
					}
				}
			}
			add("lost:"+where+":"+sd, fmt.Sprintf("unmet evaluation %s expected %d time(s), reported %d time(s)", t, e, a))
			continue
		}
		// a > e: look the token up in what was ever evaluated. Several verifiers of one kind yield the same
		// token; the position class is then the most nested one among the candidates (else > true > group > top).
		var api, erased, live *Rec
		erasedWhere := ""
		for i := range md.Recs {
			r := &md.Recs[i]
			if r.Tok != t {
				continue
			}
			switch r.State {
			case APIReq:
				api = r
			case Erased:
				erased = r
				erasedWhere = worse(erasedWhere, md.Tree.Where(r.Leaf))
			case Live:
				live = r
			}
		}
		side := func(r *Rec) string {
			if r.Side == SideRes {
				return "response"
			}
			return "request"
		}
		switch {
		case api != nil:
			add("api_request_counted:"+tokKind(t), fmt.Sprintf("%s was evaluated on an API request and is reported", t))
		case erased != nil:
			add("stale_after_reset:"+erasedWhere+":"+side(erased), fmt.Sprintf("%s was recorded before the last reset (by a verifier in position %s) and is still reported", t, erasedWhere))
		case live != nil:
			add("duplicated:"+tokKind(t), fmt.Sprintf("%s reported %d time(s), evaluated unmet %d time(s)", t, a, e))
		default:
			add("phantom:"+tokKind(t), fmt.Sprintf("%s reported but never evaluated as unmet", t))
		}
	}
	return out
}

// StateKey is a canonical rendering of the abstract state.
func (md *Model) StateKey() string {
	return strings.Join(md.Expected(), ",")
}

// StateHash is an order-independent 64-bit digest of the abstract state (multiset of live tokens and the
// pingback flags); used to count distinct states cheaply.
func (md *Model) StateHash() uint64 {
	var sum uint64
	for i := range md.Recs {
		if md.Recs[i].State == Live {
			h := uint64(14695981039346656037)
			for j := 0; j < len(md.Recs[i].Tok); j++ {
				h = (h ^ uint64(md.Recs[i].Tok[j])) * 1099511628211
			}
			sum += h
		}
	}
	for l, s := range md.Seen {
		if s == 1 {
			sum += uint64(l+1) * 0x9e3779b97f4a7c15
		}
	}
	return sum
}

// ---- observation: from error messages to tokens ----

// msgID extracts the decimal value of the id= query parameter of the URL quoted in an error message.
func msgID(msg string) string {
	for i := 0; i+3 < len(msg); i++ {
		if (msg[i] == '?' || msg[i] == '&') && msg[i+1] == 'i' && msg[i+2] == 'd' && msg[i+3] == '=' {
			j := i + 4
			for j < len(msg) && msg[j] >= '0' && msg[j] <= '9' {
				j++
			}
			if j > i+4 {
				return msg[i+4 : j]
			}
		}
	}
	// a CONNECT request has no query: its id travels in the first label of the target host (//x<id>.host:port)
	for i := 0; i+3 < len(msg); i++ {
		if msg[i] == '/' && msg[i+1] == '/' && msg[i+2] == 'x' {
			j := i + 3
			for j < len(msg) && msg[j] >= '0' && msg[j] <= '9' {
				j++
			}
			if j > i+3 && j < len(msg) && msg[j] == '.' {
				return msg[i+3 : j]
			}
		}
	}
	return "?"
}

// Normalize maps one error message of the verification answer to a token (kind[:side]#message-id).
func Normalize(msg string) string {
	if strings.Contains(msg, "pingback never occurred") {
		return "pingback"
	}
	id := msgID(msg)
	side := ""
	if strings.HasPrefix(msg, "response(") {
		side = "response"
	} else if strings.HasPrefix(msg, "request(") {
		side = "request"
	}
	switch {
	case strings.Contains(msg, "status code verify failure"):
		return "status#" + id
	case strings.Contains(msg, "header verify failure") && side != "":
		return "header:" + side + "#" + id
	case strings.Contains(msg, "method verification error"):
		return "method#" + id
	case strings.Contains(msg, "url verify failure"):
		return "url#" + id
	case strings.Contains(msg, "param verification error"):
		return "query#" + id
	}
	const fm = ") verification error: fail"
	if i := strings.LastIndex(msg, fm); i >= 0 {
		n := msg[i+len(fm):]
		if _, err := strconv.Atoi(n); err == nil {
			return "failure" + n + "#" + id
		}
	}
	return "unknown:" + msg
}

// ---- driver of the real code ----

// Harness is one instance of the system under test, wired as in cmd/proxy: a martianhttp.Modifier
// configured over its HTTP handler, queried through verify.Handler and verify.ResetHandler.
type Harness struct {
	Mod *martianhttp.Modifier
	VH  *verify.Handler
	RH  *verify.ResetHandler
}

func guard(err *error) {
	if r := recover(); r != nil {
		*err = fmt.Errorf("panic: %v", r)
	}
}

// NewHarness configures a fresh modifier with the tree's JSON.
func NewHarness(t *Node) (h *Harness, err error) {
	defer guard(&err)
	m := martianhttp.NewModifier()
	rec := httptest.NewRecorder()
	req := &http.Request{Method: "POST", URL: &url.URL{Scheme: "http", Host: "martian.proxy", Path: "/configure"}, Header: http.Header{},
		Body: readCloser{strings.NewReader(t.JSON())}}
	m.ServeHTTP(rec, req)
	if rec.Code != 200 {
		return nil, fmt.Errorf("configure: status %d: %s", rec.Code, rec.Body.String())
	}
	vh := verify.NewHandler()
	vh.SetRequestVerifier(m)
	vh.SetResponseVerifier(m)
	rh := verify.NewResetHandler()
	rh.SetRequestVerifier(m)
	rh.SetResponseVerifier(m)
	return &Harness{Mod: m, VH: vh, RH: rh}, nil
}

type readCloser struct{ *strings.Reader }

func (readCloser) Close() error { return nil }

// NewHarnessDirect does what the configuration handler does after reading the body (parse.FromJSON, then
// install both modifiers), without the HTTP detour; used for the bulk of the sequential histories.
func NewHarnessDirect(js []byte) (h *Harness, err error) {
	defer guard(&err)
	r, err := parse.FromJSON(js)
	if err != nil {
		return nil, err
	}
	m := martianhttp.NewModifier()
	m.SetRequestModifier(r.RequestModifier())
	m.SetResponseModifier(r.ResponseModifier())
	vh := verify.NewHandler()
	vh.SetRequestVerifier(m)
	vh.SetResponseVerifier(m)
	rh := verify.NewResetHandler()
	rh.SetRequestVerifier(m)
	rh.SetResponseVerifier(m)
	return &Harness{Mod: m, VH: vh, RH: rh}, nil
}

// Exchange is one in-flight request/response pair with its martian context.
type Exchange struct {
	Msg    Msg
	ID     int
	Req    *http.Request
	Res    *http.Response
	Remove func()
}

// NewExchange builds the messages and links a context to the request, marking it as an API request if asked.
func NewExchange(m Msg, id int) (x *Exchange, err error) {
	return NewExchangeFor(nil, m, id)
}

// NewExchangeFor is NewExchange for a message of an extended tree (the carriers of the routing bits depend on
// the kinds of the tree's filters).
func NewExchangeFor(t *Node, m Msg, id int) (x *Exchange, err error) {
	defer guard(&err)
	req, res := m.BuildFor(t, id)
	ctx, remove, err := martian.TestContext(req, nil, nil)
	if err != nil {
		return nil, err
	}
	if m.API {
		ctx.APIRequest()
	}
	return &Exchange{Msg: m, ID: id, Req: req, Res: res, Remove: remove}, nil
}

// Pool recycles request objects (and therefore their martian contexts, which are keyed by request
// pointer) across sequential histories: creating a context costs two reads of the system random source,
// which would dominate the enumeration. A recycled request is completely refilled; plain and API-marked
// requests come from separate pools because the API mark of a context cannot be taken back.
type Pool struct {
	reqs [2][]*http.Request
	Tree *Node // tree the messages are built for (nil: original trees)
}

// Exchange returns the exchange of message m using the request object of the given slot.
func (p *Pool) Exchange(m Msg, id, slot int) (x *Exchange, err error) {
	defer guard(&err)
	a := 0
	if m.API {
		a = 1
	}
	for len(p.reqs[a]) <= slot {
		req := &http.Request{}
		ctx, _, err := martian.TestContext(req, nil, nil)
		if err != nil {
			return nil, err
		}
		if m.API {
			ctx.APIRequest()
		}
		p.reqs[a] = append(p.reqs[a], req)
	}
	req, res := m.BuildFor(p.Tree, id)
	r := p.reqs[a][slot]
	*r = *req
	res.Request = r
	return &Exchange{Msg: m, ID: id, Req: r, Res: res, Remove: func() {}}, nil
}

// Request runs the request modifiers.
func (h *Harness) Request(x *Exchange) (err error) {
	defer guard(&err)
	return h.Mod.ModifyRequest(x.Req)
}

// Response runs the response modifiers.
func (h *Harness) Response(x *Exchange) (err error) {
	defer guard(&err)
	return h.Mod.ModifyResponse(x.Res)
}

var verifyURL = &url.URL{Scheme: "http", Host: "martian.proxy", Path: "/verify"}
var resetURL = &url.URL{Scheme: "http", Host: "martian.proxy", Path: "/verify/reset"}

// Query calls the verification handler and returns the sorted tokens of its answer.
func (h *Harness) Query() (toks []string, raw string, err error) {
	defer guard(&err)
	rec := httptest.NewRecorder()
	h.VH.ServeHTTP(rec, &http.Request{Method: "GET", URL: verifyURL, Header: http.Header{}, Body: http.NoBody})
	raw = rec.Body.String()
	if rec.Code != 200 {
		return nil, raw, fmt.Errorf("status %d", rec.Code)
	}
	var ans struct {
		Errors *[]struct {
			Message string `json:"message"`
		} `json:"errors"`
	}
	if e := json.Unmarshal(rec.Body.Bytes(), &ans); e != nil {
		return nil, raw, fmt.Errorf("bad JSON: %v", e)
	}
	if ans.Errors == nil {
		return nil, raw, fmt.Errorf("no errors array in answer")
	}
	toks = []string{}
	for _, e := range *ans.Errors {
		toks = append(toks, Normalize(e.Message))
	}
	sort.Strings(toks)
	return toks, raw, nil
}

// Reset calls the reset handler and returns its status code.
func (h *Harness) Reset() (code int, err error) {
	defer guard(&err)
	rec := httptest.NewRecorder()
	h.RH.ServeHTTP(rec, &http.Request{Method: "POST", URL: resetURL, Header: http.Header{}, Body: http.NoBody})
	return rec.Code, nil
}

// QueryWith calls the verification handler with another method than GET; it returns the status code, the Allow
// header and the body.
func (h *Harness) QueryWith(method string) (code int, allow, body string, err error) {
	defer guard(&err)
	rec := httptest.NewRecorder()
	h.VH.ServeHTTP(rec, &http.Request{Method: method, URL: verifyURL, Header: http.Header{}, Body: http.NoBody})
	return rec.Code, rec.Header().Get("Allow"), rec.Body.String(), nil
}

// failWriter is a ResponseWriter whose client goes away: it takes limit bytes in total, then every Write fails.
type failWriter struct {
	hdr    http.Header
	limit  int
	got    []byte
	failed bool
}

var errClientGone = fmt.Errorf("write: broken pipe (client went away)")

func (w *failWriter) Header() http.Header { return w.hdr }
func (w *failWriter) WriteHeader(int)     {}
func (w *failWriter) Write(p []byte) (int, error) {
	room := w.limit - len(w.got)
	if w.failed || room < 0 {
		room = 0
	}
	if !w.failed && len(p) <= room {
		w.got = append(w.got, p...)
		return len(p), nil
	}
	w.got = append(w.got, p[:room]...)
	w.failed = true
	return room, errClientGone
}

// QueryFailing calls the verification handler with a ResponseWriter that fails after limit bytes; it returns what
// the writer took.
func (h *Harness) QueryFailing(limit int) (got string, err error) {
	defer guard(&err)
	w := &failWriter{hdr: http.Header{}, limit: limit}
	h.VH.ServeHTTP(w, &http.Request{Method: "GET", URL: verifyURL, Header: http.Header{}, Body: http.NoBody})
	return string(w.got), nil
}

// ResetWith calls the reset handler with another method than POST.
func (h *Harness) ResetWith(method string) (code int, allow string, err error) {
	defer guard(&err)
	rec := httptest.NewRecorder()
	h.RH.ServeHTTP(rec, &http.Request{Method: method, URL: resetURL, Header: http.Header{}, Body: http.NoBody})
	return rec.Code, rec.Header().Get("Allow"), nil
}

// ---- concurrent scenarios (shared by the schedule exploration and the race pass) ----

// Conc is one concurrent scenario: after the Prime exchanges ran sequentially, every traffic thread runs its
// exchanges (request modifiers then response modifiers; request modifiers only if ReqOnly), Queries query
// threads call GET /verify once each and, if Reset, one thread calls POST /verify/reset.
type Conc struct {
	Name    string
	Tree    *Node
	Prime   []Msg
	Threads [][]Msg
	ReqOnly bool
	Queries int
	Reset   bool
	Heavy   bool   // thorough tier only
	Preempt int    // 0: every interleaving is explored; k > 0: every schedule with at most k preemptions
	Family  string // round 6: "" or "errmod" (prefix of the signature of an execution that does not terminate)
}

func (c Conc) String() string {
	return fmt.Sprintf("%s tree=%s prime=%v threads=%v reqOnly=%v queries=%d reset=%v preemptions<=%d(0=all)", c.Name, c.Tree, c.Prime, c.Threads, c.ReqOnly, c.Queries, c.Reset, c.Preempt)
}

func bits(kinds ...int) uint8 {
	var b uint8
	for _, k := range kinds {
		b |= 1 << uint(k)
	}
	return b
}

// ConcScenarios lists the scenarios of a tier. The lock operations of martian are the scheduling points and
// the explorer has no partial-order reduction, so the number of interleavings is multinomial in the number
// of lock operations per thread; the scenarios are sized for the tree *with* the missing locks and API
// exemptions added (each adds scheduling points). Two-thread and small three-thread scenarios are explored
// completely; the 3-4 thread scenarios of the design (2 traffic threads x 1-2 exchanges, query thread,
// optional reset thread) are explored completely up to a preemption bound (2 quick, 3 thorough), and the
// thorough tier adds complete explorations of mid-sized three-thread scenarios.
func ConcScenarios(tier string) []Conc {
	unmet := Msg{}
	var out []Conc
	add := func(c Conc) {
		c.Tree = c.Tree.Number()
		if c.Heavy && tier != "thorough" {
			return
		}
		if c.Family != "" && os.Getenv("C13_SKIP_R6") != "" {
			return // self-validation aid: the check as it was before round 6
		}
		out = append(out, c)
	}
	pb := 2
	if tier == "thorough" {
		pb = 3
	}
	one := [][]Msg{{unmet}}
	two := [][]Msg{{unmet}, {unmet}}
	twoTwo := [][]Msg{{unmet, unmet}, {unmet, unmet}}
	three := [][]Msg{{unmet}, {unmet}, {unmet}}
	seen := Msg{Met: bits(KPingback)}
	fte := FilterTE(Leaf(KFailure), Leaf(KFailure)).Number()
	viaTrue := Msg{Sel: 1 << uint(fte.ID)}
	gg := Group(Group(Leaf(KFailure)), Leaf(KFailure))
	mixed := Group(Leaf(KPingback), Leaf(KFailure))

	// ---- complete explorations: pairs of threads and small triples ----
	add(Conc{Name: "failure/1x1+query", Tree: Leaf(KFailure), Threads: one, Queries: 1})
	add(Conc{Name: "failure/2x1req", Tree: Leaf(KFailure), Threads: two, ReqOnly: true})
	add(Conc{Name: "failure/1x1req+reset", Tree: Leaf(KFailure), Prime: []Msg{unmet}, Threads: one, ReqOnly: true, Reset: true})
	add(Conc{Name: "failure/prime+query+reset", Tree: Leaf(KFailure), Prime: []Msg{unmet}, Queries: 1, Reset: true})
	add(Conc{Name: "failure/1x2req+query", Tree: Leaf(KFailure), Threads: [][]Msg{{unmet, unmet}}, ReqOnly: true, Queries: 1})
	add(Conc{Name: "header/1x1+query", Tree: Leaf(KHeader), Threads: one, Queries: 1})
	add(Conc{Name: "status/1x1+query", Tree: Leaf(KStatus), Threads: one, Queries: 1})
	add(Conc{Name: "group(failure)/1x1req+query", Tree: Group(Leaf(KFailure)), Threads: one, ReqOnly: true, Queries: 1})
	add(Conc{Name: "filterTE(failure,failure)/2x1req", Tree: fte, Threads: [][]Msg{{viaTrue}, {unmet}}, ReqOnly: true})
	add(Conc{Name: "filterE(status)/prime+query+reset", Tree: FilterE(Leaf(KStatus)), Prime: []Msg{unmet}, Queries: 1, Reset: true})
	add(Conc{Name: "filterT(status)/prime+query+reset", Tree: FilterT(Leaf(KStatus)), Prime: []Msg{{Sel: 1}}, Queries: 1, Reset: true})
	add(Conc{Name: "url/api+plain", Tree: Leaf(KURL), Threads: [][]Msg{{{API: true}}, {unmet}}, ReqOnly: true})
	add(Conc{Name: "pingback/1x1req+query", Tree: Leaf(KPingback), Threads: [][]Msg{{seen}}, ReqOnly: true, Queries: 1})
	add(Conc{Name: "pingback/1x1req+query+reset", Tree: Leaf(KPingback), Prime: []Msg{seen}, Threads: [][]Msg{{seen}}, ReqOnly: true, Queries: 1, Reset: true})

	// ---- the design's 3-4 thread scenarios, complete up to the preemption bound ----
	add(Conc{Name: "failure/2x1+query", Tree: Leaf(KFailure), Threads: two, Queries: 1, Preempt: pb})
	add(Conc{Name: "failure/2x1+query+reset", Tree: Leaf(KFailure), Prime: []Msg{unmet}, Threads: two, Queries: 1, Reset: true, Preempt: pb})
	add(Conc{Name: "failure/2x2+query", Tree: Leaf(KFailure), Threads: twoTwo, Queries: 1, Preempt: pb})
	add(Conc{Name: "header/2x1+query+reset", Tree: Leaf(KHeader), Prime: []Msg{unmet}, Threads: two, Queries: 1, Reset: true, Preempt: pb})
	add(Conc{Name: "group(group(failure),failure)/2x1+query", Tree: gg, Threads: two, Queries: 1, Preempt: pb})
	add(Conc{Name: "filterTE(failure,failure)/2x1+query+reset", Tree: fte, Prime: []Msg{viaTrue, unmet}, Threads: [][]Msg{{viaTrue}, {unmet}}, Queries: 1, Reset: true, Preempt: pb})
	add(Conc{Name: "filterE(status)/2x1+query+reset", Tree: FilterE(Leaf(KStatus)), Prime: []Msg{unmet}, Threads: two, Queries: 1, Reset: true, Preempt: pb})
	add(Conc{Name: "pingback/2x1+query+reset", Tree: Leaf(KPingback), Prime: []Msg{seen}, Threads: [][]Msg{{seen}, {unmet}}, Queries: 1, Reset: true, Preempt: pb})
	add(Conc{Name: "group(pingback,failure)/2x1+query+reset", Tree: mixed, Prime: []Msg{unmet}, Threads: [][]Msg{{seen}, {unmet}}, Queries: 1, Reset: true, Preempt: 2})
	add(Conc{Name: "status/3x1+query", Tree: Leaf(KStatus), Threads: three, Queries: 1, Preempt: pb, Heavy: true})
	add(Conc{Name: "failure/2x2+query+reset", Tree: Leaf(KFailure), Prime: []Msg{unmet}, Threads: twoTwo, Queries: 1, Reset: true, Preempt: 2, Heavy: true})

	// ---- result aliasing: a query result must not share storage with a verifier's list ----
	// The first verifier of a group (or the else branch of a filter, which is consulted first) holds n
	// failures with n below the capacity of its slice (3 of 4, 5/6/7 of 8), the next verifier holds one; the
	// query runs concurrently with traffic that fails the first verifier again. A result that aliases the
	// first verifier's backing array loses the second verifier's failure to the new one.
	gm := Group(Leaf(KFailure), Leaf(KMethod))
	gmu := Group(Leaf(KFailure), Leaf(KMethod), Leaf(KURL))
	fmf := FilterTE(Leaf(KMethod), Leaf(KFailure)).Number()
	primeN := func(n int, quiet, last Msg) []Msg {
		var p []Msg
		for i := 0; i < n-1; i++ {
			p = append(p, quiet)
		}
		return append(p, last)
	}
	metM := Msg{Met: bits(KMethod)}
	metMU := Msg{Met: bits(KMethod, KURL)}
	for _, n := range []int{3, 5, 6, 7} {
		heavy := n == 5 || n == 6
		add(Conc{Name: fmt.Sprintf("group(failure,method)/prime%d+1x1req+query", n), Tree: gm, Prime: primeN(n, metM, unmet), Threads: [][]Msg{{metM}}, ReqOnly: true, Queries: 1, Preempt: 2, Heavy: heavy})
	}
	add(Conc{Name: "group(failure,method,url)/prime5+2x1req+query", Tree: gmu, Prime: primeN(5, metMU, unmet), Threads: [][]Msg{{metMU}, {metMU}}, ReqOnly: true, Queries: 1, Preempt: 2})
	add(Conc{Name: "filterTE(method,failure)/prime3+1x1req+query", Tree: fmf, Prime: []Msg{unmet, unmet, unmet, {Sel: 1 << uint(fmf.ID)}}, Threads: one, ReqOnly: true, Queries: 1, Preempt: 2})
	add(Conc{Name: "group(failure,method)/prime3+1x1req+query/all", Tree: gm, Prime: primeN(3, metM, unmet), Threads: [][]Msg{{metM}}, ReqOnly: true, Queries: 1, Heavy: true})

	// ---- thorough tier: complete explorations of mid-sized triples ----
	add(Conc{Name: "failure/2x1req+query", Tree: Leaf(KFailure), Threads: two, ReqOnly: true, Queries: 1, Heavy: true})
	add(Conc{Name: "failure/1x1+query+reset", Tree: Leaf(KFailure), Prime: []Msg{unmet}, Threads: one, Queries: 1, Reset: true, Heavy: true})
	add(Conc{Name: "failure/1x1req+2query", Tree: Leaf(KFailure), Threads: one, ReqOnly: true, Queries: 2, Heavy: true})
	add(Conc{Name: "header/1x1req+query+reset", Tree: Leaf(KHeader), Prime: []Msg{unmet}, Threads: one, ReqOnly: true, Queries: 1, Reset: true, Heavy: true})
	add(Conc{Name: "group(group(failure),failure)/1x1req+query", Tree: gg, Threads: one, ReqOnly: true, Queries: 1, Heavy: true})
	add(Conc{Name: "filterTE(failure,failure)/1x1req+reset", Tree: fte, Prime: []Msg{viaTrue, unmet}, Threads: one, ReqOnly: true, Reset: true, Heavy: true})
	add(Conc{Name: "filterE(status)/1x1+query", Tree: FilterE(Leaf(KStatus)), Threads: one, Queries: 1, Heavy: true})
	add(Conc{Name: "url/api+plain+query", Tree: Leaf(KURL), Threads: [][]Msg{{{API: true}}, {unmet}}, ReqOnly: true, Queries: 1, Heavy: true})
	add(Conc{Name: "pingback/2x1req+query", Tree: Leaf(KPingback), Threads: [][]Msg{{seen}, {unmet}}, ReqOnly: true, Queries: 1, Heavy: true})

	// ---- added by the audit: two connections record the FIRST failure of a verifier of every kind at the same
	// time (only the failure verifier had such a scenario), all interleavings; thorough adds a racing query
	for _, k := range []int{KMethod, KURL, KQuery, KHeader} {
		add(Conc{Name: KindNames[k] + "/2x1req", Tree: Leaf(k), Threads: two, ReqOnly: true})
		add(Conc{Name: KindNames[k] + "/2x1req+query", Tree: Leaf(k), Threads: two, ReqOnly: true, Queries: 1, Heavy: true})
	}
	add(Conc{Name: "status/2x1", Tree: Leaf(KStatus), Threads: two})
	add(Conc{Name: "header/2x1", Tree: Leaf(KHeader), Threads: two, Preempt: pb})
	add(Conc{Name: "pingback/2x1req", Tree: Leaf(KPingback), Threads: [][]Msg{{seen}, {seen}}, ReqOnly: true})
	add(Conc{Name: "group(method,query)/2x1req", Tree: Group(Leaf(KMethod), Leaf(KQuery)), Threads: two, ReqOnly: true, Preempt: pb})

	// ---- two overlapping queries (a seeded change shared one tree walk between concurrent queries): each query is
	// judged on its own interval - every failure whose recording completed before THAT query began is in ITS answer.
	// The walk of the first query can be suspended after it has visited a verifier: a filter consults its else
	// branch first and takes no lock, a group in the true branch makes the walk wait for the request in flight in
	// it; a container's result is a snapshot, so what is recorded afterwards is missing from it.
	fgh := FilterTE(Group(Leaf(KFailure)), Leaf(KHeader)).Number()
	fghTrue := Msg{Sel: 1 << uint(fgh.ID)}
	add(Conc{Name: "group(failure)/1x1req+2query", Tree: Group(Leaf(KFailure)), Threads: one, ReqOnly: true, Queries: 2, Preempt: pb})
	add(Conc{Name: "filterTE(failure,failure)/1x1req+2query", Tree: fte, Threads: one, ReqOnly: true, Queries: 2, Preempt: pb})
	add(Conc{Name: "filterTE(group(failure),header)/2x1req+2query", Tree: fgh, Threads: [][]Msg{{fghTrue}, {unmet}}, ReqOnly: true, Queries: 2, Preempt: 2})
	add(Conc{Name: "filterE(status)/1x1+2query", Tree: FilterE(Leaf(KStatus)), Threads: one, Queries: 2, Preempt: pb})
	add(Conc{Name: "group(header,failure)/prime+1x1req+2query+reset", Tree: Group(Leaf(KHeader), Leaf(KFailure)), Prime: []Msg{unmet}, Threads: one, ReqOnly: true, Queries: 2, Reset: true, Preempt: 2, Heavy: true})
	add(Conc{Name: "filterTE(group(failure),header)/2x1+2query", Tree: fgh, Threads: [][]Msg{{fghTrue}, {unmet}}, Queries: 2, Preempt: 2, Heavy: true})

	// ---- round 6: a query / a reset arrives while a request is inside a group that also holds an ordinary modifier
	// which fails for that request (an err modifier, KErr): the group decides what to do with the error (stop, or
	// aggregate and go on) while the query is waiting for the group. Every query and reset must return (an execution
	// that cannot terminate is reported), the query must hold what was recorded before it began, and the verifiers
	// behind the failing modifier are evaluated only in an aggregating group.
	fails := Msg{Err: ErrReq}
	failsBoth := Msg{Err: ErrReq | ErrRes}
	agg := func(kids ...*Node) *Node { g := Group(kids...); g.Agg = true; return g }
	for _, v := range []struct {
		name string
		tree *Node
	}{
		{"group(header,err)", Group(Leaf(KHeader), Err(ScNone))},
		{"group(header,err)+agg", agg(Leaf(KHeader), Err(ScNone))},
		{"group(err,failure)", Group(Err(ScNone), Leaf(KFailure))},
		{"group(err,failure)+agg", agg(Err(ScNone), Leaf(KFailure))},
	} {
		add(Conc{Name: v.name + "/1x1req+query", Tree: v.tree, Threads: [][]Msg{{fails}}, ReqOnly: true, Queries: 1, Family: "errmod"})
		add(Conc{Name: v.name + "/prime+1x1req+reset", Tree: v.tree, Prime: []Msg{unmet}, Threads: [][]Msg{{fails}}, ReqOnly: true, Reset: true, Family: "errmod"})
	}
	add(Conc{Name: "group(status,err,header)+agg/1x1+query", Tree: agg(Leaf(KStatus), Err(ScNone), Leaf(KHeader)), Threads: [][]Msg{{failsBoth}}, Queries: 1, Preempt: pb, Family: "errmod"})
	add(Conc{Name: "group(group(header,err),failure)/2x1req+query", Tree: Group(Group(Leaf(KHeader), Err(ScNone)), Leaf(KFailure)), Threads: [][]Msg{{fails}, {unmet}}, ReqOnly: true, Queries: 1, Preempt: 2, Family: "errmod"})
	add(Conc{Name: "filterE(group(failure,err))/prime+1x1req+query+reset", Tree: FilterE(Group(Leaf(KFailure), Err(ScNone))), Prime: []Msg{unmet}, Threads: [][]Msg{{fails}}, ReqOnly: true, Queries: 1, Reset: true, Preempt: 2, Family: "errmod"})
	add(Conc{Name: "group(header,err,failure)+agg/2x1req+query+reset", Tree: agg(Leaf(KHeader), Err(ScNone), Leaf(KFailure)), Prime: []Msg{unmet}, Threads: [][]Msg{{fails}, {fails}}, ReqOnly: true, Queries: 1, Reset: true, Preempt: 2, Heavy: true, Family: "errmod"})
	add(Conc{Name: "group(header,err)/1x2+query", Tree: Group(Leaf(KHeader), Err(ScNone)), Threads: [][]Msg{{failsBoth, fails}}, Queries: 1, Preempt: 3, Heavy: true, Family: "errmod"})
	return out
}
