#!/bin/bash
# usage: mutant.sh <letter> <pkgs to go test...>
# Fresh scratch worktree of /repo + all proposed C13 fixes (those not yet in /repo) + one property-breaking edit
# (mutants.py); runs the package tests, then the quick check against the worktree; removes the worktree.
export GOFLAGS=-mod=mod GOPROXY=off GOSUMDB=off GOTOOLCHAIN=local
HERE="$(cd "$(dirname "$0")" && pwd)"; M=$1; shift
WT=/tmp/wt-c13m-$M
cd / && git -C /repo worktree remove --force $WT >/dev/null 2>&1
git -C /repo worktree add --detach $WT -q || exit 2
# mutants are applied on top of the proposed fixes, so that only the mutant's signatures show
for d in /verif/proposed_fixes/C13-*.diff; do git -C $WT apply $d 2>/dev/null || echo "note: $(basename $d) does not apply (already in /repo?)"; done
(cd $WT && python3 "$HERE/mutants.py" $M) || exit 2
(cd $WT && go build ./... && go test -count=1 "$@" 2>&1 | tail -8)
(cd /verif && VERIF_REPO=$WT ./check C13 quick 2>&1 | grep "sig=\|^C13 quick\|did not run\|ENGINE")
cd / && git -C /repo worktree remove --force $WT; rm -rf /verif/.build/c13-alt-*
