#!/bin/bash
# usage: mutant.sh <letter> <pkgs to test...>
export GOFLAGS=-mod=mod GOPROXY=off GOSUMDB=off GOTOOLCHAIN=local
HERE="$(cd "$(dirname "$0")" && pwd)"; M=$1; shift
WT=/tmp/wt-c13m-$M
git -C /repo worktree remove --force $WT >/dev/null 2>&1
git -C /repo worktree add --detach $WT HEAD >/dev/null 2>&1
# mutants are applied on top of the proposed fixes, so that only the mutant's signatures show
for d in /verif/proposed_fixes/C13-*.diff; do git -C $WT apply $d || exit 2; done
(cd $WT && python3 "$HERE/mutants.py" $M) || exit 2
(cd $WT && go build ./... && go test "$@" 2>&1 | tail -8)
"$(dirname "$0")/runwt.sh" $WT quick mut$M 2>&1 | grep -v "^      \|^  github\|^  main\|^  verif\|^Goroutine\|^$\|^Previous\|^Write\|^Read" | head -40
git -C /repo worktree remove --force $WT
