# Mutants of the audit round (AUDIT.md): each is a property-breaking edit of martian that keeps the package's own
# tests green and is reported only by one of the added families. Usage (in a scratch worktree): mutants_audit.py <name>
import sys


def sub(path, old, new):
    s = open(path).read()
    assert old in s, (path, old)
    s = s.replace(old, new, 1)
    open(path, 'w').write(s)


m = sys.argv[1]
if m == 'V1':  # header verifier (response side) treats a header with an empty value as absent
    sub('header/header_verifier.go', '''	vs, ok := h.All(v.name)
	if !ok {
		v.reserr.Add(fmt.Errorf(headerErrFormat, "response", res.Request.URL, v.name))
		return nil
	}''', '''	vs, ok := h.All(v.name)
	if !ok || (len(vs) == 1 && vs[0] == "") {
		v.reserr.Add(fmt.Errorf(headerErrFormat, "response", res.Request.URL, v.name))
		return nil
	}''')
elif m == 'V2':  # querystring verifier: the presence-only case is decided before the key is looked up
    sub('querystring/query_string_verifier.go', '''	vals, ok := req.Form[v.key]
	if !ok {''', '''	vals, ok := req.Form[v.key]
	if v.value == "" && len(req.Form) > 0 {
		return nil
	}
	if !ok {''')
elif m == 'V3':  # url verifier records one error per differing part
    sub('martianurl/url_verifier.go', '''	if len(failures) > 0 {
		err := fmt.Errorf(errFormat, u, strings.Join(failures, "\\n"))
		v.err.Add(err)
	}''', '''	for _, f := range failures {
		v.err.Add(fmt.Errorf(errFormat, u, strings.TrimSpace(f)))
	}''')
elif m == 'V4':  # pingback verifier ignores the host part
    sub('pingback/pingback_verifier.go', '''	case v.url.Host != "" && v.url.Host != u.Host:
''', '')
elif m == 'V5':  # header verifier with a blank value accepts an absent header on the request side
    sub('header/header_verifier.go', '''	vs, ok := h.All(v.name)
	if !ok {
		v.reqerr.Add(fmt.Errorf(headerErrFormat, "request", req.URL, v.name))
		return nil
	}''', '''	vs, ok := h.All(v.name)
	if !ok && v.value == "" {
		return nil
	}
	if !ok {
		v.reqerr.Add(fmt.Errorf(headerErrFormat, "request", req.URL, v.name))
		return nil
	}''')
elif m == 'S1':  # failure verifier built from JSON ignores its scope
    sub('failure/failure_verifier.go', '''	return parse.NewResult(v, msg.Scope)''', '''	return parse.NewResult(v, nil)''')
elif m == 'S2':  # fifo.Group from JSON ignores its scope
    sub('fifo/fifo_group.go', '''	return parse.NewResult(g, msg.Scope)''', '''	return parse.NewResult(g, nil)''')
elif m == 'S3':  # header verifier: a reset of the request side also clears the response side
    sub('header/header_verifier.go', '''func (v *verifier) ResetRequestVerifications() {
	v.reqerr = martian.NewMultiError()
}''', '''func (v *verifier) ResetRequestVerifications() {
	v.reqerr = martian.NewMultiError()
	v.reserr = v.reqerr
}''')
elif m == 'F1':  # header.Filter from JSON does not wire the else branch on the response side
    sub('header/header_filter.go', '''			filter.RequestWhenFalse(em.RequestModifier())
			filter.ResponseWhenFalse(em.ResponseModifier())''', '''			filter.RequestWhenFalse(em.RequestModifier())''')
elif m == 'F2':  # filter.Filter decides the branch of a response from the request condition
    sub('filter/filter.go', '''	match := f.rescond.MatchResponse(res)
	if match {''', '''	match := f.rescond.MatchResponse(res)
	if f.reqcond != nil && res.Request != nil {
		match = f.reqcond.MatchRequest(res.Request)
	}
	if match {''')
elif m == 'F3':  # cookie.Filter from JSON: else branch wired to the true slot on the request side when no... (swap)
    sub('cookie/cookie_filter.go', '''		filter.RequestWhenFalse(em.RequestModifier())
		filter.ResponseWhenFalse(em.ResponseModifier())''', '''		filter.RequestWhenFalse(em.RequestModifier())
		filter.ResponseWhenFalse(m.ResponseModifier())''')
elif m == 'F4':  # url.RegexFilter from JSON forgets the else branch of requests
    sub('martianurl/url_regex_filter.go', '''			filter.RequestWhenFalse(em.RequestModifier())
''', '')
elif m == 'F5':  # method.Filter from JSON wires the else branch's request modifier into the response slot
    sub('method/method_filter.go', '''			filter.ResponseWhenFalse(em.ResponseModifier())''', '''			filter.ResponseWhenFalse(m.ResponseModifier())''')
elif m == 'F6':  # cookie matcher decides the branch of a response from the cookies of its request
    sub('cookie/cookie_matcher.go', '''	for _, c := range res.Cookies() {''', '''	for _, c := range res.Request.Cookies() {''')
elif m == 'F7':  # header matcher: a response without the header inherits the decision of its request
    sub('header/header_matcher.go', '''	h := proxyutil.ResponseHeader(res)

	vs, ok := h.All(m.name)
	if !ok {
		return false
	}''', '''	h := proxyutil.ResponseHeader(res)

	vs, ok := h.All(m.name)
	if !ok && res.Request != nil {
		return m.MatchRequest(res.Request)
	}
	if !ok {
		return false
	}''')
elif m == 'F8':  # cookie matcher: a response that sets no cookie inherits the decision of its request
    sub('cookie/cookie_matcher.go', '''	for _, c := range res.Cookies() {''', '''	if len(res.Cookies()) == 0 && res.Request != nil {
		return m.MatchRequest(res.Request)
	}
	for _, c := range res.Cookies() {''')
elif m == 'C1':  # method verifier: copy-on-write of its collection, every access under its own mutex (race-free), the
    # read-copy-publish sequence is not atomic: two connections failing at the same time lose one failure
    sub('method/method_verifier.go', '''type verifier struct {
	method string
	err    *martian.MultiError
}''', '''type verifier struct {
	method string
	mu     sync.RWMutex
	err    *martian.MultiError
}''')
    sub('method/method_verifier.go', '''	"net/http"
''', '''	"net/http"
	"sync"
''')
    sub('method/method_verifier.go', '''		v.err.Add(err)
	}

	return nil''', '''		v.mu.RLock()
		old := v.err
		v.mu.RUnlock()
		next := martian.NewMultiError()
		if !old.Empty() {
			next.Add(old)
		}
		next.Add(err)
		v.mu.Lock()
		v.err = next
		v.mu.Unlock()
	}

	return nil''')
    sub('method/method_verifier.go', '''func (v *verifier) VerifyRequests() error {
	if v.err.Empty() {
		return nil
	}

	return v.err
}''', '''func (v *verifier) VerifyRequests() error {
	v.mu.RLock()
	defer v.mu.RUnlock()
	if v.err.Empty() {
		return nil
	}

	return v.err
}''')
    sub('method/method_verifier.go', '''func (v *verifier) ResetRequestVerifications() {
	v.err = martian.NewMultiError()''', '''func (v *verifier) ResetRequestVerifications() {
	v.mu.Lock()
	defer v.mu.Unlock()
	v.err = martian.NewMultiError()''')
elif m == 'P1':  # verify.Handler encodes into a pooled bytes.Buffer and puts it back after WriteTo - which only drains
    # the buffer when the write succeeds: after a failed write the remainder goes out ahead of the next report
    sub('verify/verify_handlers.go', '''import (
	"encoding/json"
	"net/http"
''', '''import (
	"bytes"
	"encoding/json"
	"net/http"
	"sync"
''')
    sub('verify/verify_handlers.go', '''	json.NewEncoder(rw).Encode(vres)
}''', '''	buf := reportBufs.Get().(*bytes.Buffer)
	json.NewEncoder(buf).Encode(vres)
	buf.WriteTo(rw) // drains buf
	reportBufs.Put(buf)
}

var reportBufs = sync.Pool{New: func() interface{} { return new(bytes.Buffer) }}''')
elif m == 'Q1':  # martianhttp.Modifier shares one tree walk between concurrent queries: a query that arrives while a walk
    # is in progress waits for that walk's result (which may predate failures recorded before this query began)
    sub('martianhttp/martianhttp.go', '''	reqmod martian.RequestModifier
	resmod martian.ResponseModifier
}''', '''	reqmod martian.RequestModifier
	resmod martian.ResponseModifier

	vmu    sync.Mutex
	vcond  *sync.Cond
	walk   [2]bool
	walks  [2]int
	result [2]error
}

// shared runs walk unless one is in progress for that side, in which case it waits for that one's result.
func (m *Modifier) shared(side int, walk func() error) error {
	m.vmu.Lock()
	if m.vcond == nil {
		m.vcond = sync.NewCond(&m.vmu)
	}
	if m.walk[side] {
		n := m.walks[side]
		for m.walks[side] == n {
			m.vcond.Wait()
		}
		err := m.result[side]
		m.vmu.Unlock()
		return err
	}
	m.walk[side] = true
	m.vmu.Unlock()

	err := walk()

	m.vmu.Lock()
	m.walk[side], m.result[side] = false, err
	m.walks[side]++
	m.vcond.Broadcast()
	m.vmu.Unlock()
	return err
}''')
    sub('martianhttp/martianhttp.go', '''func (m *Modifier) VerifyRequests() error {
	m.mu.RLock()''', '''func (m *Modifier) VerifyRequests() error {
	return m.shared(0, m.verifyRequests)
}

func (m *Modifier) verifyRequests() error {
	m.mu.RLock()''')
    sub('martianhttp/martianhttp.go', '''func (m *Modifier) VerifyResponses() error {
	m.mu.RLock()''', '''func (m *Modifier) VerifyResponses() error {
	return m.shared(1, m.verifyResponses)
}

func (m *Modifier) verifyResponses() error {
	m.mu.RLock()''')
elif m == 'G1':  # reset handler resets before it looks at the method
    sub('verify/verify_handlers.go', '''func (h *ResetHandler) ServeHTTP(rw http.ResponseWriter, req *http.Request) {
	if req.Method != "POST" {''', '''func (h *ResetHandler) ServeHTTP(rw http.ResponseWriter, req *http.Request) {
	if h.reqv != nil {
		h.reqv.ResetRequestVerifications()
	}
	if req.Method != "POST" {''')
elif m == 'L1':  # verification handler reports at most 16 errors per side
    sub('verify/verify_handlers.go', '''	for _, err := range merr.Errors() {
		vres.Errors = append(vres.Errors, verifyError{Message: err.Error()})
	}''', '''	for i, err := range merr.Errors() {
		if i == 16 {
			break
		}
		vres.Errors = append(vres.Errors, verifyError{Message: err.Error()})
	}''')
elif m == 'L2':  # MultiError.Add: flattening copies at most the first 8 errors of a nested collection
    sub('multierror.go', '''		merr.errs = append(merr.errs, merr2.Errors()...)
		return''', '''		errs := merr2.Errors()
		if len(errs) > 8 {
			errs = errs[:8]
		}
		merr.errs = append(merr.errs, errs...)
		return''')
else:
    raise SystemExit('unknown mutant')
