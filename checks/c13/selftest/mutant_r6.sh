#!/bin/bash
# usage: mutant_r6.sh <name> <pkgs to go test...>
# Scratch worktree /tmp/wt-c13-r6-<name> of /repo + one edit of mutants_r6.py; runs the package tests, then the check
# (a) as it was before round 6 (C13_SKIP_R6=1: no errmod / proxy histories, no errmod schedule scenarios) and (b) complete.
# A mutant counts for round 6 when (a) is silent and (b) reports it.
export GOFLAGS=-mod=mod GOPROXY=off GOSUMDB=off GOTOOLCHAIN=local
HERE="$(cd "$(dirname "$0")" && pwd)"; M=$1; shift
WT=/tmp/wt-c13-r6-$M
cd / && git -C /repo worktree remove --force $WT >/dev/null 2>&1
git -C /repo worktree add --detach $WT -q || exit 2
(cd $WT && python3 "$HERE/mutants_r6.py" $M) || exit 2
echo "== $M: package tests"
(cd $WT && go build ./... && go test -count=1 "$@" 2>&1 | tail -6)
echo "== $M: the check as it was before round 6"
(cd /verif && C13_SKIP_R6=1 VERIF_REPO=$WT ./check C13 quick 2>&1 | grep "sig=\|^C13 quick\|did not run\|ENGINE")
echo "== $M: complete check"
(cd /verif && VERIF_REPO=$WT ./check C13 quick 2>&1 | grep "sig=\|^C13 quick\|did not run\|ENGINE")
cd / && git -C /repo worktree remove --force $WT; rm -rf /verif/.build/c13-alt-*wt-c13-r6-$M*
