#!/bin/bash
# usage: mutant_audit.sh <name> <pkgs to go test...>
# Scratch worktree /tmp/audit-c13-wt-<name> of /repo + one edit of mutants_audit.py; runs the package tests, then
# (a) the original families alone, everything included (C13_SKIP_EXT=1), (b) the added sequential families
# (schedule part and race pass skipped). A mutant counts for a family when (a) is silent and (b) reports it.
export GOFLAGS=-mod=mod GOPROXY=off GOSUMDB=off GOTOOLCHAIN=local
HERE="$(cd "$(dirname "$0")" && pwd)"; M=$1; shift
WT=/tmp/audit-c13-wt-$M
cd / && git -C /repo worktree remove --force $WT >/dev/null 2>&1
git -C /repo worktree add --detach $WT -q || exit 2
(cd $WT && python3 "$HERE/mutants_audit.py" $M) || exit 2
echo "== $M: package tests"
(cd $WT && go build ./... && go test -count=1 "$@" 2>&1 | tail -6)
echo "== $M: original families only (sequential + schedules + race pass)"
(cd /verif && C13_SKIP_EXT=1 VERIF_REPO=$WT ./check C13 quick 2>&1 | grep "sig=\|^C13 quick\|did not run\|ENGINE")
echo "== $M: with the added families (sequential part only)"
(cd /verif && C13_SKIP_CONC=1 C13_SKIP_RACE=1 VERIF_REPO=$WT ./check C13 quick 2>&1 | grep "sig=\|^C13 quick\|ENGINE")
cd / && git -C /repo worktree remove --force $WT; rm -rf /verif/.build/c13-alt-*audit-c13-wt-$M*
