import sys
def sub(path, old, new):
    s=open(path).read()
    assert old in s, (path, old)
    s=s.replace(old,new,1)
    open(path,'w').write(s)
m=sys.argv[1]
if m=='A':  # fifo.Group.ResetResponseVerifications walks the request list (copy-paste slip)
    sub('fifo/fifo_group.go','''	g.resmu.Lock()
	defer g.resmu.Unlock()

	for _, resmod := range g.resmods {
		if resv, ok := resmod.(verify.ResponseVerifier); ok {
			resv.ResetResponseVerifications()
		}
	}''','''	g.resmu.Lock()
	defer g.resmu.Unlock()

	for _, reqmod := range g.reqmods {
		if resv, ok := reqmod.(verify.ResponseVerifier); ok {
			resv.ResetResponseVerifications()
		}
	}''')
elif m=='B':  # url.Verifier forgets the API exemption
    sub('martianurl/url_verifier.go','''	// skip requests to API
	ctx := martian.NewContext(req)
	if ctx.IsAPIRequest() {
		return nil
	}

	var failures []string''','''	var failures []string''')
elif m=='C':  # filter.VerifyRequests only consults the true branch
    sub('filter/filter.go','''	freqv, ok := f.freqmod.(verify.RequestVerifier)
	if ok {
		if ve := freqv.VerifyRequests(); ve != nil {
			merr.Add(ve)
		}
	}

	treqv, ok := f.treqmod.(verify.RequestVerifier)''','''	treqv, ok := f.treqmod.(verify.RequestVerifier)''')
elif m=='D':  # MultiError.Add: copy-on-write with the read lock, publish with the write lock (lost update)
    sub('multierror.go','''	merr.mu.Lock()
	defer merr.mu.Unlock()

	// Unwrap *MultiError to ensure that depth never exceeds 1.
	if merr2, ok := err.(*MultiError); ok {
		merr.errs = append(merr.errs, merr2.Errors()...)
		return
	}

	merr.errs = append(merr.errs, err)''','''	merr.mu.RLock()
	cur := merr.errs[:len(merr.errs):len(merr.errs)]
	merr.mu.RUnlock()

	// Unwrap *MultiError to ensure that depth never exceeds 1.
	if merr2, ok := err.(*MultiError); ok {
		cur = append(cur, merr2.Errors()...)
	} else {
		cur = append(cur, err)
	}

	merr.mu.Lock()
	merr.errs = cur
	merr.mu.Unlock()''')
elif m=='E':  # MultiError.Add without the lock
    sub('multierror.go','''func (merr *MultiError) Add(err error) {
	merr.mu.Lock()
	defer merr.mu.Unlock()
''','''func (merr *MultiError) Add(err error) {
''')
elif m=='F':  # status verifier: reset keeps the list when it is "small" -> reuse backing object instead of replacing
    sub('status/status_verifier.go','''func (v *Verifier) VerifyResponses() error {
	if v.err.Empty() {
		return nil
	}

	return v.err''','''func (v *Verifier) VerifyResponses() error {
	if v.err.Empty() {
		return nil
	}

	// hand the collected errors over and start a new collection
	err := v.err
	v.err = martian.NewMultiError()
	return err''')
elif m=='G':  # nested groups: Group.VerifyRequests keeps nested MultiErrors nested via fmt wrapping
    sub('fifo/fifo_group.go','''		if err := reqv.VerifyRequests(); err != nil {
			merr.Add(err)
		}''','''		if err := reqv.VerifyRequests(); err != nil {
			merr.Add(fmt.Errorf("%v", err))
		}''')
    sub('fifo/fifo_group.go','''import (
	"encoding/json"''','''import (
	"encoding/json"
	"fmt"''')
elif m=='H':  # martianhttp.Modifier resets with the read lock (reset may run concurrently with traffic)
    sub('martianhttp/martianhttp.go','''func (m *Modifier) ResetRequestVerifications() {
	m.mu.Lock()
	defer m.mu.Unlock()''','''func (m *Modifier) ResetRequestVerifications() {
	m.mu.RLock()
	defer m.mu.RUnlock()''')
else:
    raise SystemExit('unknown mutant')
