#!/bin/bash
# usage: runwt.sh <worktree> <tier> <tag>  — builds the C13 check against a patched copy of /repo and runs it
export GOFLAGS=-mod=mod GOPROXY=off GOSUMDB=off GOTOOLCHAIN=local
WT="$1"; TIER="$2"; TAG="$3"
OUT=/tmp/c13-selftest/$TAG; rm -rf "$OUT"; mkdir -p "$OUT"
cd /verif
.build/bin/vrewrite -repo "$WT" -rt /verif/rt -hooks /verif/hooks -out "$OUT" > "$OUT/vrewrite.log" 2>&1 || { cat "$OUT/vrewrite.log"; exit 2; }
python3 - "$WT" "$OUT" <<'PY'
import json,sys,subprocess
wt,out=sys.argv[1],sys.argv[2]
ov=json.load(open(out+'/overlay.json'))['Replace']
new={}
for k,v in ov.items():
    if k.startswith(wt+'/'): k='/repo/'+k[len(wt)+1:]
    new[k]=v
changed=subprocess.run(['git','-C',wt,'diff','--name-only','HEAD'],capture_output=True,text=True).stdout.split()
race={}
for f in changed:
    race['/repo/'+f]=wt+'/'+f
    if '/repo/'+f not in new: new['/repo/'+f]=wt+'/'+f
json.dump({'Replace':new},open(out+'/overlay_fixed.json','w'),indent=1)
json.dump({'Replace':race},open(out+'/overlay_race.json','w'),indent=1)
print('changed files:',changed)
PY
go build -tags verif -overlay "$OUT/overlay_fixed.json" -o "$OUT/check" ./checks/c13 || exit 2
shift; shift; shift
env C13_RACE_OVERLAY="$OUT/overlay_race.json" "$@" "$OUT/check" "$TIER"
