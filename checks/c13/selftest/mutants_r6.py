# Mutants of round 6 (AUDIT.md, section "Round 6"): property-breaking edits of martian that are reported only by the
# families added in round 6 (errmod, proxy). Usage (in a scratch worktree): mutants_r6.py <name>
import sys


def sub(path, old, new):
    s = open(path).read()
    assert old in s, (path, old)
    s = s.replace(old, new, 1)
    open(path, 'w').write(s)


m = sys.argv[1]
if m == 'R1':  # the 502 after a failed CONNECT is passed through the response modifiers twice
    sub('proxy.go', '''		res = proxyutil.NewResponse(502, nil, req)
		proxyutil.Warning(res.Header, cerr)

		if err := p.resmod.ModifyResponse(res); err != nil {''', '''		res = proxyutil.NewResponse(502, nil, req)
		proxyutil.Warning(res.Header, cerr)
		p.resmod.ModifyResponse(res)

		if err := p.resmod.ModifyResponse(res); err != nil {''')
elif m == 'R2':  # a non-aggregating group runs the remaining response modifiers after a failure and returns the first error at the end
    sub('fifo/fifo_group.go', '''	for _, resmod := range g.resmods {
		if err := resmod.ModifyResponse(res); err != nil {
			if g.aggregateErrors {
				merr.Add(err)
				continue
			}

			return err
		}
	}
''', '''	var first error
	for _, resmod := range g.resmods {
		if err := resmod.ModifyResponse(res); err != nil {
			if g.aggregateErrors {
				merr.Add(err)
				continue
			}
			if first == nil {
				first = err
			}
		}
	}
	if first != nil {
		return first
	}
''')
elif m == 'R3':  # an aggregating group gives up on the request side after the second... first failure of a filter child: it stops when the failing child is not the last one
    sub('fifo/fifo_group.go', '''	for _, reqmod := range g.reqmods {
		if err := reqmod.ModifyRequest(req); err != nil {
			if g.aggregateErrors {
				merr.Add(err)
				continue
			}
''', '''	for i, reqmod := range g.reqmods {
		if err := reqmod.ModifyRequest(req); err != nil {
			if g.aggregateErrors {
				merr.Add(err)
				if _, ok := err.(*martian.MultiError); !ok && i+2 < len(g.reqmods) {
					break
				}
				continue
			}
''')
elif m == 'R4':  # response side twin of the given m2: the group re-takes its response read lock to look at the aggregation setting
    sub('fifo/fifo_group.go', '''	for _, resmod := range g.resmods {
		if err := resmod.ModifyResponse(res); err != nil {
			if g.aggregateErrors {''', '''	for _, resmod := range g.resmods {
		if err := resmod.ModifyResponse(res); err != nil {
			g.resmu.RLock()
			agg := g.aggregateErrors
			g.resmu.RUnlock()
			if agg {''')
elif m == 'R5':  # the proxy keeps one context per connection: the API mark of a query sticks to the traffic after it (seeded C13-r4m1)
    import subprocess
    subprocess.check_call(['git', 'apply', '/verif/seeded/C13-r4m1/patch.diff'])
else:
    sys.exit('unknown mutant ' + m)
