// Round 6: the through-the-proxy family. Every other sequential family applies the modifiers directly
// (ModifyRequest, ModifyResponse on the configurable martianhttp.Modifier); here the same kind of history is played
// by a client over a (simulated) TCP connection through a real martian.Proxy wired like cmd/proxy - top group with
// the API forwarder behind a servemux filter, the httpspec stack, the configurable modifier inside the stack's inner
// group, /configure, /verify and /verify/reset on the API mux - so that the exchanges whose response the proxy makes
// up itself (the 502 after a failed round trip, the 502 after a failed CONNECT) and the requests addressed to the
// proxy's own API (real ones: the verification queries and resets themselves and a refused call of /configure) are
// evaluated the way the proxy evaluates them. The upstream is a synchronous round tripper (net/http's Transport
// cannot run under the controlled scheduler): it answers what the message says, fails for a message that says so,
// and hands API requests to the API mux like the real Transport hands them to the API server.
//
// Each history is one execution under the controlled scheduler on its default schedule (the client is sequential:
// one request at a time), on a fresh proxy.
package main

import (
	"bufio"
	"bytes"
	"context"
	"encoding/json"
	"errors"
	"fmt"
	"io"
	"net"
	"net/http"
	"net/http/httptest"
	"sort"
	"strconv"
	"strings"

	martian "github.com/google/martian/v3"
	mapi "github.com/google/martian/v3/api"
	"github.com/google/martian/v3/fifo"
	"github.com/google/martian/v3/httpspec"
	mlog "github.com/google/martian/v3/log"
	"github.com/google/martian/v3/martianhttp"
	"github.com/google/martian/v3/parse"
	"github.com/google/martian/v3/servemux"
	"github.com/google/martian/v3/verify"
	"github.com/google/martian/v3/zzverif/simnet"
	"github.com/google/martian/v3/zzverif/vrt"

	"verif/checks/c13/scen"
)

// martian logs every failed round trip and CONNECT at level Error; the level is lowered (the logger still takes its
// lock on every call, so the scheduling points of the schedule part are unchanged).
func init() { mlog.SetLevel(mlog.Silent) }

const (
	apiHost    = "martian.proxy"
	apiBackend = "localhost:8181"
)

// proxyModes: how the client uses connections.
var proxyModes = []string{
	"one keep-alive connection for traffic, queries and resets",
	"traffic on one keep-alive connection, queries and resets on a second one",
	"a new connection for every request",
}

// rtKinds (round 8b): what the upstream round tripper puts into res.Request. net/http documents Response.Request as
// "the request that was sent to obtain this Response"; a RoundTripper must not modify the request it is given, so one
// that has to add a header or a deadline sends a clone (req.Clone, req.WithContext) and http.Transport then reports
// that clone; a hand-written one may leave the field nil.
var rtKinds = []string{"the request it was given", "nil", "a clone (req.Clone(ctx))", "req.WithContext(another context)"}

const (
	rtSame = iota
	rtNil
	rtClone
	rtWithContext
)

// rtPairs lists the round trippers of the rtreq family as (kind for plain exchanges, kind for API exchanges); the
// pair (given, given) is the proxy family itself. quick: one class of exchanges differs, or both in the same way;
// thorough: every pair.
func rtPairs(tier string) [][2]int {
	var out [][2]int
	for a := range rtKinds {
		for b := range rtKinds {
			if a == rtSame && b == rtSame {
				continue
			}
			if tier != "thorough" && a != b && a != rtSame && b != rtSame {
				continue
			}
			out = append(out, [2]int{a, b})
		}
	}
	return out
}

type rtCtxKey struct{}

// answerFor sets res.Request the way a round tripper of the given kind does.
func answerFor(kind int, req *http.Request, res *http.Response) *http.Response {
	switch kind {
	case rtSame:
		res.Request = req
	case rtNil:
		res.Request = nil
	case rtClone:
		res.Request = req.Clone(req.Context())
	case rtWithContext:
		res.Request = req.WithContext(context.WithValue(req.Context(), rtCtxKey{}, "c13"))
	}
	return res
}

type proxyWorld struct {
	tree  *scen.Node
	rt    [2]int // rtKinds for plain exchanges and for API exchanges
	p     *martian.Proxy
	l     *simnet.Listener
	mux   *http.ServeMux
	mod   *martianhttp.Modifier
	msgs  map[int]scen.Msg
	rts   map[int]int // round trips per message id
	conn  [2]*pconn
	dials int
}

type pconn struct {
	c  *simnet.Conn
	br *bufio.Reader
}

var errUpstream = errors.New("c13: upstream unreachable")

// proxyWirings (round 8b): where the configurable modifier sits. The proxy family uses the first one only.
var proxyWirings = []string{
	"as in cmd/proxy: inside the inner group of the httpspec stack",
	"without the httpspec stack: top group = API forwarder behind the servemux filter + the configurable modifier",
}

func newProxyWorld(t *scen.Node, rt [2]int, bare bool) *proxyWorld {
	w := &proxyWorld{tree: t, rt: rt, msgs: map[int]scen.Msg{}, rts: map[int]int{}}
	p := martian.NewProxy()
	p.SetRoundTripper(w)
	p.SetDial(func(network, addr string) (net.Conn, error) { return nil, errUpstream })
	mux := http.NewServeMux()
	topg := fifo.NewGroup()
	apif := servemux.NewFilter(mux)
	apif.SetRequestModifier(mapi.NewForwarder("localhost", 8181))
	topg.AddRequestModifier(apif)
	m := martianhttp.NewModifier()
	if bare {
		topg.AddRequestModifier(m)
		topg.AddResponseModifier(m)
	} else {
		stack, fg := httpspec.NewStack("martian")
		topg.AddRequestModifier(stack)
		topg.AddResponseModifier(stack)
		fg.AddRequestModifier(m)
		fg.AddResponseModifier(m)
	}
	p.SetRequestModifier(topg)
	p.SetResponseModifier(topg)
	handle := func(pattern string, h http.Handler) {
		mux.Handle(apiHost+pattern, h)
		mux.Handle(apiBackend+pattern, h)
	}
	handle("/configure", m)
	vh := verify.NewHandler()
	vh.SetRequestVerifier(m)
	vh.SetResponseVerifier(m)
	handle("/verify", vh)
	rh := verify.NewResetHandler()
	rh.SetRequestVerifier(m)
	rh.SetResponseVerifier(m)
	handle("/verify/reset", rh)
	w.p, w.mux, w.mod = p, mux, m
	w.l = simnet.Listen("10.0.0.2:8080")
	vrt.GoNamed("c13-proxy-serve", func() { p.Serve(w.l) })
	return w
}

// RoundTrip is the upstream of the proxy.
func (w *proxyWorld) RoundTrip(req *http.Request) (*http.Response, error) {
	if req.URL.Host == apiBackend {
		// what the Transport and the API server (http.Serve(lAPI, mux)) do between them
		rec := httptest.NewRecorder()
		w.mux.ServeHTTP(rec, req)
		res := rec.Result()
		res.ContentLength = int64(rec.Body.Len())
		return answerFor(w.rt[1], req, res), nil
	}
	id, _ := strconv.Atoi(req.URL.Query().Get("id"))
	m, ok := w.msgs[id]
	if !ok {
		return nil, fmt.Errorf("c13 harness: round trip for an unknown message: %s", req.URL)
	}
	w.rts[id]++
	if m.Via == scen.ViaFaultRT {
		return nil, errUpstream
	}
	_, res := m.BuildFor(w.tree, id)
	return answerFor(w.rt[0], req, res), nil
}

func rawRequest(method, target, host string, hdr http.Header, body string) string {
	var b strings.Builder
	b.WriteString(method + " " + target + " HTTP/1.1\r\nHost: " + host + "\r\n")
	var names []string
	for k := range hdr {
		names = append(names, k)
	}
	sort.Strings(names)
	for _, k := range names {
		for _, v := range hdr[k] {
			b.WriteString(k + ": " + v + "\r\n")
		}
	}
	if body != "" {
		b.WriteString("Content-Type: application/json\r\nContent-Length: " + strconv.Itoa(len(body)) + "\r\n")
	}
	b.WriteString("\r\n" + body)
	return b.String()
}

type answer struct {
	Status int
	Header http.Header
	Body   []byte
}

// do sends one request on connection slot k and reads its answer.
func (w *proxyWorld) do(k int, fresh bool, method, raw string) (*answer, error) {
	if fresh && w.conn[k] != nil {
		w.conn[k].c.Close()
		w.conn[k] = nil
	}
	if w.conn[k] == nil {
		w.dials++
		c, err := w.l.Dial(fmt.Sprintf("client%d-%d", k, w.dials))
		if err != nil {
			return nil, fmt.Errorf("dial: %v", err)
		}
		w.conn[k] = &pconn{c: c, br: bufio.NewReader(c)}
	}
	pc := w.conn[k]
	drop := func() { pc.c.Close(); w.conn[k] = nil }
	if _, err := pc.c.Write([]byte(raw)); err != nil {
		drop()
		return nil, fmt.Errorf("write: %v", err)
	}
	res, err := http.ReadResponse(pc.br, &http.Request{Method: method})
	if err != nil {
		drop()
		return nil, fmt.Errorf("no answer: %v", err)
	}
	body, err := io.ReadAll(res.Body)
	if err != nil {
		drop()
		return nil, fmt.Errorf("answer cut short: %v", err)
	}
	if res.Close {
		drop()
	}
	return &answer{Status: res.StatusCode, Header: res.Header, Body: body}, nil
}

// traffic plays message m as exchange id; it returns the status the client saw.
func (w *proxyWorld) traffic(k int, fresh bool, m scen.Msg, id int) (*answer, error) {
	w.msgs[id] = m
	req, _ := m.BuildFor(w.tree, id)
	switch {
	case m.Via == scen.ViaConnectFail:
		return w.do(k, fresh, "CONNECT", rawRequest("CONNECT", req.URL.Host, req.URL.Host, req.Header, ""))
	case m.API:
		// a request to the proxy's own API that the API refuses (405): /configure takes GET and POST
		u := "http://" + apiHost + "/configure?" + req.URL.RawQuery
		return w.do(k, fresh, req.Method, rawRequest(req.Method, u, apiHost, req.Header, ""))
	}
	return w.do(k, fresh, req.Method, rawRequest(req.Method, req.URL.String(), req.URL.Host, req.Header, ""))
}

func (w *proxyWorld) configure(k int, js string) error {
	a, err := w.do(k, false, "POST", rawRequest("POST", "http://"+apiHost+"/configure", apiHost, nil, js))
	if err != nil {
		return err
	}
	if a.Status != 200 {
		return fmt.Errorf("configure: status %d: %s", a.Status, a.Body)
	}
	return nil
}

func (w *proxyWorld) configureDirect(js []byte) error {
	r, err := parse.FromJSON(js)
	if err != nil {
		return err
	}
	w.mod.SetRequestModifier(r.RequestModifier())
	w.mod.SetResponseModifier(r.ResponseModifier())
	return nil
}

// query asks GET /verify through the proxy (the request itself carries id so that an API request that is counted
// can be told from traffic).
func (w *proxyWorld) query(k int, fresh bool, id int) (toks []string, raw string, err error) {
	a, err := w.do(k, fresh, "GET", rawRequest("GET", "http://"+apiHost+"/verify?id="+strconv.Itoa(id), apiHost, nil, ""))
	if err != nil {
		return nil, "", err
	}
	raw = string(a.Body)
	if a.Status != 200 {
		return nil, raw, fmt.Errorf("status %d", a.Status)
	}
	var ans struct {
		Errors *[]struct {
			Message string `json:"message"`
		} `json:"errors"`
	}
	if e := json.Unmarshal(bytes.TrimSpace(a.Body), &ans); e != nil {
		return nil, raw, fmt.Errorf("bad JSON: %v", e)
	}
	if ans.Errors == nil {
		return nil, raw, fmt.Errorf("no errors array in answer")
	}
	toks = []string{}
	for _, e := range *ans.Errors {
		toks = append(toks, scen.Normalize(e.Message))
	}
	sort.Strings(toks)
	return toks, raw, nil
}

func (w *proxyWorld) reset(k int, fresh bool, id int) (int, error) {
	a, err := w.do(k, fresh, "POST", rawRequest("POST", "http://"+apiHost+"/verify/reset?id="+strconv.Itoa(id), apiHost, nil, ""))
	if err != nil {
		return 0, err
	}
	return a.Status, nil
}

// wantStatus is what the client must see for a traffic message (the premise of the model's evaluation of the
// response side).
func wantStatus(m scen.Msg) int {
	switch {
	case m.Via != 0:
		return 502
	case m.API:
		return 405
	case m.Met&(1<<uint(scen.KStatus)) != 0:
		return 200
	}
	return 500
}

// runProxyHistory is runHistory for the through-the-proxy family: one execution under the scheduler per history.
func runProxyHistory(out *shardOut, j *treeJob, js []byte, seq []int, viaHTTP bool, states map[uint64]bool, initial string) int {
	rank := j.Tree.Size()*100 + len(seq)
	hist := func(step int) []string { return histNames(j, seq[:min(step+1, len(seq))]) }
	replay := func(upto int) interface{} {
		n := min(upto+1, len(seq))
		return map[string]interface{}{"part": "seq", "family": j.Family, "mode": j.Mode, "rt": j.RT, "bare": j.Bare, "tree": j.Tree.String(), "config": string(js), "history": histNames(j, seq[:n]), "symbols": append([]int(nil), seq[:n]...), "final_query": upto >= len(seq)}
	}
	violate := func(step int, sig string, desc func() string) {
		n := min(step+1, len(seq))
		out.violateSeq(rank+step, j.sigPrefix()+sig, func() (string, interface{}) {
			how := proxyModes[j.Mode]
			if j.Family == "rtreq" {
				how += "; wiring " + proxyWirings[map[bool]int{false: 0, true: 1}[j.Bare]] + "; the upstream round tripper returns responses whose Request is " + rtKinds[j.RT[0]] + " for plain exchanges and " + rtKinds[j.RT[1]] + " for exchanges addressed to the proxy's API"
			}
			return "through the proxy (" + how + "): " + desc(), replay(step)
		}, j, seq[:n])
	}
	fail := -1
	nontrivial := false
	cur := 0
	body := func() {
		w := newProxyWorld(j.Tree, j.RT, j.Bare)
		// connection slots: traffic on 0; queries and resets on 0 or 1
		qk := 0
		if j.Mode == 1 {
			qk = 1
		}
		fresh := j.Mode == 2
		var err error
		if viaHTTP {
			err = w.configure(qk, string(js))
		} else {
			err = w.configureDirect(js)
		}
		if err != nil {
			violate(0, "configure:rejected", func() string { return fmt.Sprintf("tree %s: %v", j.Tree, err) })
			fail = 0
			return
		}
		md := scen.NewModel(j.Tree)
		// a query or a reset is itself a request to the proxy's own API: never counted
		apiQuery := scen.Msg{API: true, Met: 1 << uint(scen.KMethod)}
		apiReset := scen.Msg{API: true}
		query := func(step, id int) bool {
			md.Traffic(apiQuery, id)
			toks, raw, err := w.query(qk, fresh, id)
			out.Counters["seq_queries_compared"]++
			if err != nil {
				violate(step, "verify:bad_response", func() string {
					return fmt.Sprintf("tree %s history %v: GET /verify: %v (body %q)", j.Tree, hist(step), err, raw)
				})
				return false
			}
			exp := md.Expected()
			if strings.Join(exp, ",") != initial {
				nontrivial = true
			}
			fs := md.Diff(toks)
			for _, f := range fs {
				f := f
				violate(step, f.Sig, func() string {
					return fmt.Sprintf("tree %s history %v%s: GET /verify answered %v, model says %v: %s", j.Tree, hist(step), map[bool]string{true: " + final query", false: ""}[step >= len(seq)], toks, exp, f.Detail)
				})
			}
			return len(fs) == 0
		}
		for i, s := range seq {
			cur = i
			out.Counters["seq_steps"]++
			id := i + 1
			switch {
			case s < len(j.Alpha):
				m := j.Alpha[s]
				a, err := w.traffic(0, fresh, m, id)
				wantRT := 1
				if m.Via == scen.ViaConnectFail || m.API {
					wantRT = 0
				}
				if err != nil || a.Status != wantStatus(m) || w.rts[id] != wantRT {
					violate(i, "traffic:unexpected_answer", func() string {
						st := 0
						if a != nil {
							st = a.Status
						}
						return fmt.Sprintf("tree %s history %v: exchange %d: the client got status %d (error %v) after %d upstream round trip(s), want status %d after %d", j.Tree, hist(i), id, st, err, w.rts[id], wantStatus(m), wantRT)
					})
					fail = i
					return
				}
				md.Traffic(m, id)
			case s == len(j.Alpha):
				if !query(i, id) {
					fail = i
					return
				}
			default:
				md.Traffic(apiReset, id)
				code, err := w.reset(qk, fresh, id)
				if err != nil || code != 204 {
					violate(i, "reset:status", func() string {
						return fmt.Sprintf("tree %s history %v: POST /verify/reset returned %d %v, want 204", j.Tree, hist(i), code, err)
					})
					fail = i
					return
				}
				md.Reset()
			}
			if len(states) < 1<<21 {
				states[md.StateHash()] = true
			}
		}
		cur = len(seq)
		out.Counters["seq_steps"]++
		if !query(len(seq), len(seq)+1) {
			fail = len(seq)
		}
	}
	res := vrt.Run(vrt.Config{}, nil, body)
	out.Counters["proxy_points"] += int64(res.Points)
	if res.Outcome != "ok" {
		// the execution did not run to its end: a hang (nothing can run any more), a panic in the proxy ...
		step := cur
		violate(step, "execution:"+res.Outcome, func() string {
			return fmt.Sprintf("tree %s history %v: the execution ended with %s at step %d: %s threads %+v", j.Tree, hist(step), res.Outcome, step+1, res.Panic, res.Threads)
		})
		return min(step, len(seq))
	}
	if nontrivial {
		out.Counters["seq_nontrivial"]++
	}
	return fail
}
