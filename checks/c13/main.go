// C13 — verification reports exactly the unmet expectations since the last reset.
//
// Part 1 (programs x histories, exhaustive): every verifier-bearing configuration tree with <= n nodes over
// {status, header, method, url, querystring, failure, pingback verifiers} under fifo.Group and
// querystring.Filter (true branch only, else branch only, both) is parsed from JSON, wired as in cmd/proxy
// (martianhttp.Modifier + verify.Handler / verify.ResetHandler) and driven through every history of length
// <= L over {traffic message (every routing x met/unmet decision path, plain and API-marked), GET /verify,
// POST /verify/reset}; every verification answer is compared with the reference model of scen.Model.
// Part 2 (schedules, gosim): traffic threads, a query thread and optionally a reset thread on a few trees,
// all interleavings of the rewritten lock operations; interval oracle (see checkConc).
// Part 3 (race pass, auxiliary): the same thread bodies free-running on the unrewritten /repo built with
// -race (checks/c13race), started from here as a subprocess; every race report whose stack lies in martian
// code is a violation.
// Round 6 (AUDIT.md): groups that also hold an ordinary modifier which can fail (sequential family errmod + schedule
// scenarios; an execution that cannot terminate is reported as errmod:conc:deadlock, a hanging race pass as
// errmod:race:hang) and histories played by a client through a real martian.Proxy (family proxy, proxy.go).
package main

import (
	"bytes"
	"encoding/json"
	"fmt"
	"os"
	"os/exec"
	"path/filepath"
	"runtime"
	"runtime/debug"
	"runtime/pprof"
	"sort"
	"strconv"
	"strings"
	"sync"
	"syscall"
	"time"

	"github.com/google/martian/v3/zzverif/vrt"

	"verif/checks/c13/scen"
	"verif/lib"
)

type viol struct {
	Sig    string
	Desc   string
	Replay interface{}
	Rank   int // smaller = simpler case (for choosing the example that is reported first)

	job  *treeJob // sequential violations: what to minimise
	syms []int
}

type shardOut struct {
	Counters   map[string]int64
	Violations []viol
	Samples    []interface{}
	Incomplete string
	Outcomes   map[string]int
	PerSig     map[string]int // violating cases per signature (all of them, not only the listed ones)
}

func (o *shardOut) violate(rank int, sig, desc string, replay interface{}) {
	o.violateSeq(rank, sig, func() (string, interface{}) { return desc, replay }, nil, nil)
}

// violateSeq records a violating case; the description is only rendered for the few cases that are listed.
func (o *shardOut) violateSeq(rank int, sig string, render func() (string, interface{}), job *treeJob, syms []int) {
	o.Counters["violating_cases"]++
	if o.PerSig == nil {
		o.PerSig = map[string]int{}
	}
	o.PerSig[sig]++
	if o.PerSig[sig] > 4 {
		o.Counters["violations_not_listed"]++
		return
	}
	desc, replay := render()
	o.Violations = append(o.Violations, viol{Sig: sig, Desc: desc, Replay: replay, Rank: rank, job: job, syms: append([]int(nil), syms...)})
}

// ---------------------------------------------------------------------------------------------------
// Part 1: sequential histories

type treeJob struct {
	Tree  *scen.Node
	Alpha []scen.Msg
	Len   int
	Cost  float64
	Index int

	// families added by the audit (AUDIT.md); the zero values give the original family
	Family   string  // "", "variants", "scope", "filterkind", "guard", "long"
	Guard    bool    // the alphabet also holds the wrong-method calls of the two handlers
	Explicit [][]int // explicit histories instead of every sequence of length Len
	FailQ    bool    // the alphabet also holds the queries whose client goes away after k bytes
	Proxy    bool    // round 6: the history is played by a client through a real martian.Proxy (proxy.go)
	Mode     int     // Proxy: how the client uses connections (proxyModes)
	IDs      []int   // round 8 (repeat): the id of an exchange belongs to its symbol, not to its position - a symbol played again is the same exchange again
	RT       [2]int  // round 8b (rtreq, through the proxy): what the upstream round tripper puts into res.Request (rtKinds) for plain exchanges [0] and for exchanges addressed to the proxy's API [1]
	Bare     bool    // round 8b (rtreq): the configurable modifier sits directly in the proxy's top group, without the httpspec stack (proxyWirings)
}

// failCuts: where the client of a failing query goes away, in bytes of the would-be report (n = its size).
var failCuts = []string{"0 bytes", "1 byte", "25 bytes", "half", "all but the last byte"}

func failCut(kind, n int) int {
	k := 0
	switch kind {
	case 1:
		k = 1
	case 2:
		k = 25
	case 3:
		k = n / 2
	case 4:
		k = n - 1
	}
	if k > n-1 {
		k = n - 1
	}
	if k < 0 {
		k = 0
	}
	return k
}

// guardSyms are the wrong-method calls (symbols after GET /verify and POST /verify/reset).
var guardSyms = []struct{ Method, Path, Allow string }{
	{"POST", "/verify", "GET"},
	{"GET", "/verify/reset", "POST"},
	{"PUT", "/verify/reset", "POST"},
}

func (j *treeJob) nsyms() int {
	k := len(j.Alpha) + 2
	if j.Guard {
		k += len(guardSyms)
	}
	if j.FailQ {
		k += len(failCuts)
	}
	return k
}

// sigPrefix keeps the signatures of the added families apart from the original ones (and from each other).
func (j *treeJob) sigPrefix() string {
	switch j.Family {
	case "":
		return ""
	case "filterkind":
		for _, f := range filtersOf(j.Tree) {
			if f.Var != 0 {
				return "filterkind:" + scen.FilterKindNames[f.Var] + ":"
			}
		}
	}
	return j.Family + ":"
}

// splitFamily splits a signature of an added family into the family prefix and the rest ("" for the original ones).
func splitFamily(sig string) (fam, base string) {
	for _, f := range []string{"variants:", "scope:", "guard:", "long:", "failq:", "errmod:", "proxy:", "repeat:", "rtreq:"} {
		if strings.HasPrefix(sig, f) {
			return f, strings.TrimPrefix(sig, f)
		}
	}
	if strings.HasPrefix(sig, "filterkind:") {
		rest := strings.TrimPrefix(sig, "filterkind:")
		if i := strings.IndexByte(rest, ':'); i >= 0 {
			return "filterkind:" + rest[:i+1], rest[i+1:]
		}
	}
	return "", sig
}

func filtersOf(t *scen.Node) []*scen.Node {
	var out []*scen.Node
	if t.Kind >= scen.KFilterT && t.Kind <= scen.KFilterTE {
		out = append(out, t)
	}
	for _, k := range t.Kids {
		out = append(out, filtersOf(k)...)
	}
	return out
}

func extLen(tier string) int {
	if tier == "thorough" {
		return 4
	}
	return 3
}

// extJobs lists the jobs of the added families.
func extJobs(tier string) []treeJob {
	var jobs []treeJob
	L := extLen(tier)
	pow := func(k, l int) float64 {
		c := 1.0
		for i := 0; i < l; i++ {
			c *= float64(k)
		}
		return c
	}
	// every history of length l over the tree's alphabet, l being the largest length <= L whose number of
	// histories stays under the per-tree cap (at least 2: traffic, reset, final query)
	maxHist := 30000.0
	if tier == "thorough" {
		maxHist = 60000
	}
	addFam := func(fam string, trees []*scen.Node, l int, guard bool) {
		for _, t := range trees {
			j := treeJob{Tree: t, Alpha: scen.AlphabetX(t, fam == "variants"), Len: l, Family: fam, Guard: guard}
			for j.Len > 2 && pow(j.nsyms(), j.Len) > maxHist {
				j.Len--
			}
			j.Cost = pow(j.nsyms(), j.Len)
			jobs = append(jobs, j)
		}
	}
	addFam("variants", scen.VariantTrees(tier), L, false)
	addFam("scope", scen.ScopeTrees(tier), L, false)
	addFam("filterkind", scen.FilterKindTrees(tier), L, false)
	addFam("guard", scen.GuardTrees(), L, true)
	// failq: a query whose ResponseWriter fails after k bytes is neither lost state nor a reset - every later
	// complete query answers exactly the model's report. Histories of length <= 4 in both tiers.
	for _, t := range scen.FailQTrees() {
		j := treeJob{Tree: t, Alpha: scen.Alphabet(t), Len: 4, Family: "failq", FailQ: true}
		j.Cost = pow(j.nsyms(), j.Len)
		jobs = append(jobs, j)
	}
	// errmod (round 6): groups that also hold an ordinary modifier which fails for the messages that ask for it
	for _, t := range scen.ErrTrees(tier) {
		// what is particular to this family happens within one exchange (what is evaluated behind a failure): the trees
		// with larger alphabets get all histories of length 2 in quick
		capHist := maxHist
		if tier != "thorough" {
			capHist = 8000
		}
		j := treeJob{Tree: t, Alpha: scen.AlphabetErr(t), Len: L, Family: "errmod"}
		for j.Len > 2 && pow(j.nsyms(), j.Len) > capHist {
			j.Len--
		}
		j.Cost = pow(j.nsyms(), j.Len)
		jobs = append(jobs, j)
	}
	// proxy (round 6): histories played by a client through a real martian.Proxy; one scheduler execution each,
	// which costs about proxyCost direct histories
	for _, t := range scen.ProxyTrees(tier) {
		for mode := range proxyModes {
			j := treeJob{Tree: t, Alpha: scen.AlphabetProxy(t), Len: 3, Family: "proxy", Proxy: true, Mode: mode}
			if tier == "thorough" && j.nsyms() <= 10 {
				j.Len = 4
			}
			j.Cost = pow(j.nsyms(), j.Len) * proxyCost
			jobs = append(jobs, j)
		}
	}
	// rtreq (round 8b): the proxy family with one more dimension - what the upstream round tripper puts into
	// res.Request: the request it was given (what the proxy family does), nil, a clone (req.Clone), req.WithContext -
	// chosen independently for plain exchanges and for exchanges addressed to the proxy's API (configure, queries,
	// resets, the refused DELETE /configure). The symbols whose exchange has no upstream response (failed round trip,
	// failed CONNECT) are left to the proxy family. quick: the three uniform round trippers and the six that differ
	// from the proxy family's for one class of exchanges only; thorough: all 15 pairs. Two wirings: the configurable
	// modifier inside the httpspec stack as in cmd/proxy (all three connection modes) and directly in the top group
	// (quick: one keep-alive connection; thorough: all three modes) - the modifiers of the httpspec stack look at the
	// exchange's context themselves, so what the verifiers do with a response can only be seen without them once the
	// context is not found.
	if os.Getenv("C13_SKIP_R8B") == "" {
		for _, t := range scen.ProxyTrees("quick") {
			alpha := scen.AlphabetRTReq(t)
			for _, rt := range rtPairs(tier) {
				for _, bare := range []bool{false, true} {
					for mode := range proxyModes {
						if bare && mode != 0 && tier != "thorough" {
							continue // quick: the second wiring on one keep-alive connection only
						}
						j := treeJob{Tree: t, Alpha: alpha, Len: 3, Family: "rtreq", Proxy: true, Mode: mode, RT: rt, Bare: bare}
						j.Cost = pow(j.nsyms(), j.Len) * proxyCost
						jobs = append(jobs, j)
					}
				}
			}
		}
	}
	// repeat (round 8): the id of an exchange belongs to its symbol, so a symbol played again is the very same exchange
	// again (a retry) and every verifier builds the very same error message again. Two jobs per tree: every history of
	// the largest length <= 4 (thorough 5) under the cap, and the explicit patterns of repeatPatterns.
	if os.Getenv("C13_SKIP_R8") == "" {
		capHist, lmax := 5000.0, 4
		if tier == "thorough" {
			capHist, lmax = 60000, 5
		}
		for _, t := range scen.RepeatTrees(tier) {
			alpha, ids := scen.AlphabetRepeat(t)
			j := treeJob{Tree: t, Alpha: alpha, IDs: ids, Len: lmax, Family: "repeat"}
			for j.Len > 2 && pow(j.nsyms(), j.Len) > capHist {
				j.Len--
			}
			j.Cost = pow(j.nsyms(), j.Len)
			jobs = append(jobs, j)
			e := treeJob{Tree: t, Alpha: alpha, IDs: ids, Family: "repeat"}
			e.Explicit = repeatPatterns(&e)
			steps := 0
			for _, seq := range e.Explicit {
				steps += len(seq)
				if len(seq) > e.Len {
					e.Len = len(seq)
				}
			}
			e.Cost = float64(steps) / 4
			jobs = append(jobs, e)
		}
	}
	// long: runs of one plain message - N times, query, reset, N mod 3 times, (final query) - for every N up to a
	// bound beyond the growth steps of a slice (1, 2, 4, 8, 16 ...; thorough: ... 128)
	nmax := 20
	if tier == "thorough" {
		nmax = 132
	}
	for _, t := range scen.LongTrees() {
		j := treeJob{Tree: t, Alpha: scen.Alphabet(t), Family: "long"}
		q, r := len(j.Alpha), len(j.Alpha)+1
		steps := 0
		for mi, m := range j.Alpha {
			if m.API {
				continue
			}
			for n := 0; n <= nmax; n++ {
				var seq []int
				for i := 0; i < n; i++ {
					seq = append(seq, mi)
				}
				seq = append(seq, q, r)
				for i := 0; i < n%3; i++ {
					seq = append(seq, mi)
				}
				j.Explicit = append(j.Explicit, seq)
				steps += len(seq)
				if len(seq) > j.Len {
					j.Len = len(seq)
				}
			}
		}
		j.Cost = float64(steps) / 4
		jobs = append(jobs, j)
	}
	return jobs
}

// repeatPatterns lists the explicit histories of the repeat family (each is followed by the final query): for every
// symbol m the same exchange 2 and 3 times in a row, with a query in between, before and after a reset, after two
// resets; for every plain m and every other symbol p (an exchange that meets the expectations, one that misses them
// under another id or in another way, an API request with the same URL) the same exchange again after p, p before and
// between runs, before and after a reset.
func repeatPatterns(j *treeJob) [][]int {
	q, r := len(j.Alpha), len(j.Alpha)+1
	var out [][]int
	for m := range j.Alpha {
		out = append(out,
			[]int{m, m, q, m, q, r, q, m, m, q, m},
			[]int{m, m, m, r, m, m, m},
			[]int{m, r, m, m, r, r, m, m},
		)
		if j.Alpha[m].API {
			continue // an API request is never counted, however often it is repeated: the runs above
		}
		for p := range j.Alpha {
			if p == m {
				continue
			}
			out = append(out,
				[]int{m, p, m, q, m, q, r, m, p, m, m},
				[]int{p, m, m, r, p, m, p, m},
			)
		}
	}
	return out
}

// proxyCost: cost of one history through the proxy in units of one direct history (measured, see AUDIT.md).
const proxyCost = 16

func seqBounds(tier string) (maxN int, lenFor func(n int) int) {
	if tier == "thorough" {
		// histories of length 5 for trees of up to 3 nodes, length 4 for the (many) 4-node trees: the full
		// 4-node x length-5 product costs about 6000 CPU-seconds, well over the thorough budget on a shared machine
		return 4, func(n int) int {
			if n >= 4 {
				return 4
			}
			return 5
		}
	}
	return 3, func(int) int { return 4 }
}

func seqJobs(tier string) []treeJob {
	maxN, lenFor := seqBounds(tier)
	var jobs []treeJob
	for n := 1; n <= maxN; n++ {
		for _, t := range scen.Trees(n) {
			a := scen.Alphabet(t)
			c := 1.0
			for i := 0; i < lenFor(n); i++ {
				c *= float64(len(a) + 2)
			}
			jobs = append(jobs, treeJob{Tree: t, Alpha: a, Len: lenFor(n), Cost: c, Index: len(jobs)})
		}
	}
	if os.Getenv("C13_SKIP_EXT") == "" {
		for _, j := range extJobs(tier) {
			j.Index = len(jobs)
			jobs = append(jobs, j)
		}
	}
	if os.Getenv("C13_SKIP_R6") != "" {
		// self-validation aid: the check as it was before round 6
		var keep []treeJob
		for _, j := range jobs {
			if j.Family != "errmod" && j.Family != "proxy" && j.Family != "repeat" && j.Family != "rtreq" {
				keep = append(keep, j)
			}
		}
		jobs = keep
	}
	if only := os.Getenv("C13_ONLY_TREE"); only != "" {
		// development aid: only the jobs of one tree (its String())
		var keep []treeJob
		for _, j := range jobs {
			if j.Tree.String() == only {
				keep = append(keep, j)
			}
		}
		jobs = keep
	}
	if only := os.Getenv("C13_ONLY_FAM"); only != "" {
		// development aid: only the jobs of one added family
		var keep []treeJob
		for _, j := range jobs {
			if j.Family == only {
				keep = append(keep, j)
			}
		}
		jobs = keep
	}
	return jobs
}

// assign deals jobs to shards, largest first onto the least loaded shard (deterministic).
func assign(jobs []treeJob, nshards int) [][]treeJob {
	idx := make([]int, len(jobs))
	for i := range idx {
		idx[i] = i
	}
	sort.SliceStable(idx, func(a, b int) bool { return jobs[idx[a]].Cost > jobs[idx[b]].Cost })
	load := make([]float64, nshards)
	out := make([][]treeJob, nshards)
	for _, i := range idx {
		best := 0
		for s := 1; s < nshards; s++ {
			if load[s] < load[best] {
				best = s
			}
		}
		load[best] += jobs[i].Cost
		out[best] = append(out[best], jobs[i])
	}
	for s := range out {
		sort.SliceStable(out[s], func(a, b int) bool { return out[s][a].Index < out[s][b].Index })
	}
	return out
}

func symName(j *treeJob, s int) string {
	switch {
	case s < len(j.Alpha) && j.IDs != nil:
		return fmt.Sprintf("%s id=%d", j.Alpha[s], j.IDs[s])
	case s < len(j.Alpha):
		return j.Alpha[s].String()
	case s == len(j.Alpha):
		return "GET /verify"
	case s == len(j.Alpha)+1:
		return "POST /verify/reset"
	}
	if j.FailQ {
		return "GET /verify, client gone after " + failCuts[s-len(j.Alpha)-2] + " of the report"
	}
	g := guardSyms[s-len(j.Alpha)-2]
	return g.Method + " " + g.Path
}

func histNames(j *treeJob, seq []int) []string {
	var out []string
	for _, s := range seq {
		out = append(out, symName(j, s))
	}
	return out
}

// runHistory executes one history on a fresh instance, checking every step. It returns the index of the
// first failing step (len(seq) = the implicit final query) or -1.
func runHistory(out *shardOut, j *treeJob, js []byte, pool *scen.Pool, seq []int, viaHTTP bool, states map[uint64]bool, initial string) int {
	if j.Proxy {
		return runProxyHistory(out, j, js, seq, viaHTTP, states, initial)
	}
	var h *scen.Harness
	var err error
	if viaHTTP {
		h, err = scen.NewHarness(j.Tree)
	} else {
		h, err = scen.NewHarnessDirect(js)
	}
	rank := j.Tree.Size()*100 + len(seq)
	replay := func(upto int) interface{} {
		n := upto + 1
		if n > len(seq) {
			n = len(seq)
		}
		return map[string]interface{}{"part": "seq", "family": j.Family, "tree": j.Tree.String(), "config": string(js), "history": histNames(j, seq[:n]), "symbols": append([]int(nil), seq[:n]...), "final_query": upto >= len(seq)}
	}
	if err != nil {
		out.violate(rank, j.sigPrefix()+"configure:rejected", fmt.Sprintf("tree %s: configuration rejected or panicked: %v", j.Tree, err), nil)
		return 0
	}
	md := scen.NewModel(j.Tree)
	nontrivial := false
	violate := func(step int, sig string, desc func() string) {
		n := step + 1
		if n > len(seq) {
			n = len(seq)
		}
		out.violateSeq(rank+step, j.sigPrefix()+sig, func() (string, interface{}) { return desc(), replay(step) }, j, seq[:n])
	}
	lastRaw := ""
	if j.FailQ {
		// the handler may keep buffers between calls (a pool): complete queries at the end of the history, also
		// when it is cut short by a violation, so that nothing of this history reaches the next one
		defer func() { h.Query(); h.Query() }()
	}
	query := func(step int) bool {
		toks, raw, err := h.Query()
		lastRaw = raw
		out.Counters["seq_queries_compared"]++
		if err != nil {
			sig := "verify:bad_response"
			if strings.HasPrefix(err.Error(), "panic") {
				sig = "panic:verify"
			}
			violate(step, sig, func() string {
				return fmt.Sprintf("tree %s history %v: GET /verify: %v (body %q)", j.Tree, histNames(j, seq[:min(step+1, len(seq))]), err, raw)
			})
			return false
		}
		if j.FailQ && strings.TrimLeft(raw, " \t\r\n") != raw {
			// remains of an earlier, interrupted answer ahead of the report (white space does not stop a JSON parser)
			violate(step, "verify:bytes_before_report", func() string {
				return fmt.Sprintf("tree %s history %v: GET /verify answered %q: bytes ahead of the JSON document", j.Tree, histNames(j, seq[:min(step+1, len(seq))]), raw)
			})
			return false
		}
		exp := md.Expected()
		if strings.Join(exp, ",") != initial {
			nontrivial = true
		}
		fs := md.Diff(toks)
		for _, f := range fs {
			f := f
			violate(step, f.Sig, func() string {
				return fmt.Sprintf("tree %s history %v%s: GET /verify answered %v, model says %v: %s", j.Tree, histNames(j, seq[:min(step+1, len(seq))]), map[bool]string{true: " + final query", false: ""}[step >= len(seq)], toks, exp, f.Detail)
			})
		}
		return len(fs) == 0
	}
	for i, s := range seq {
		out.Counters["seq_steps"]++
		switch {
		case s < len(j.Alpha):
			m := j.Alpha[s]
			pool.Tree = j.Tree
			id := i + 1
			if j.IDs != nil {
				id = j.IDs[s] // the same symbol again is the same exchange again
			}
			x, err := pool.Exchange(m, id, i)
			if err == nil {
				// a modifier error is expected exactly where the model says that an err modifier fails (round 6); the
				// proxy goes on to the response modifiers after a request modifier error, so does the harness
				wantReq, wantRes := scen.EvalErr(j.Tree, m)
				err = h.Request(x)
				if err != nil && wantReq && !strings.HasPrefix(err.Error(), "panic") {
					out.Counters["seq_expected_modifier_errors"]++
					err = nil
				}
				if err == nil {
					err = h.Response(x)
					if err != nil && wantRes && !strings.HasPrefix(err.Error(), "panic") {
						out.Counters["seq_expected_modifier_errors"]++
						err = nil
					}
				}
			}
			if err != nil {
				sig := "traffic:modifier_error"
				if strings.HasPrefix(err.Error(), "panic") {
					sig = "panic:traffic"
				}
				violate(i, sig, func() string {
					return fmt.Sprintf("tree %s history %v: exchange %d: %v", j.Tree, histNames(j, seq[:i+1]), i+1, err)
				})
				return i
			}
			md.Traffic(m, id)
		case s == len(j.Alpha):
			if !query(i) {
				return i
			}
		case j.FailQ && s >= len(j.Alpha)+2:
			// a complete (judged) query gives the size n of the report, then the same query is made by a client that
			// goes away after k bytes; the model does not change
			if !query(i) {
				return i
			}
			cut := failCut(s-len(j.Alpha)-2, len(lastRaw))
			got, err := h.QueryFailing(cut)
			out.Counters["seq_failing_queries"]++
			if err != nil || !strings.HasPrefix(lastRaw, got) {
				sig := "failing_query:partial_report_not_a_prefix"
				if err != nil {
					sig = "panic:failing_query"
				}
				full := lastRaw
				violate(i, sig, func() string {
					return fmt.Sprintf("tree %s history %v: the client took %q (%v) of the report %q", j.Tree, histNames(j, seq[:i+1]), got, err, full)
				})
				return i
			}
		case s >= len(j.Alpha)+2:
			// a call with the wrong method is neither a query nor a reset: 405 + Allow, and nothing changes
			g := guardSyms[s-len(j.Alpha)-2]
			before, _, _ := h.Query()
			var code int
			var allow string
			var err error
			if g.Path == "/verify" {
				code, allow, _, err = h.QueryWith(g.Method)
			} else {
				code, allow, err = h.ResetWith(g.Method)
			}
			out.Counters["seq_wrong_method_calls"]++
			if err != nil || code != 405 || allow != g.Allow {
				sig := "wrong_method:status"
				if err != nil {
					sig = "panic:wrong_method"
				}
				violate(i, sig, func() string {
					return fmt.Sprintf("tree %s history %v: %s %s returned %d (Allow %q) %v, want 405 (Allow %q)", j.Tree, histNames(j, seq[:i+1]), g.Method, g.Path, code, allow, err, g.Allow)
				})
				return i
			}
			after, _, err := h.Query()
			if err != nil || strings.Join(after, ",") != strings.Join(before, ",") {
				violate(i, "wrong_method:state_changed", func() string {
					return fmt.Sprintf("tree %s history %v: GET /verify answered %v before and %v %v after %s %s (405)", j.Tree, histNames(j, seq[:i+1]), before, after, err, g.Method, g.Path)
				})
				return i
			}
			if !query(i) {
				return i
			}
		default:
			code, err := h.Reset()
			if err != nil || code != 204 {
				sig := "reset:status"
				if err != nil {
					sig = "panic:reset"
				}
				violate(i, sig, func() string {
					return fmt.Sprintf("tree %s history %v: POST /verify/reset returned %d %v, want 204", j.Tree, histNames(j, seq[:i+1]), code, err)
				})
				return i
			}
			md.Reset()
		}
		if len(states) < 1<<21 {
			states[md.StateHash()] = true
		}
	}
	out.Counters["seq_steps"]++
	ok := query(len(seq))
	if nontrivial {
		out.Counters["seq_nontrivial"]++
	}
	if !ok {
		return len(seq)
	}
	return -1
}

func seqPart(out *shardOut, jobs []treeJob, deadline time.Time) {
	pool := &scen.Pool{}
	for ji := range jobs {
		j := &jobs[ji]
		k := j.nsyms()
		L := j.Len
		cpu0 := cpuMillis()
		js := []byte(j.Tree.JSON())
		states := map[uint64]bool{}
		initial := strings.Join(scen.NewModel(j.Tree).Expected(), ",")
		seq := make([]int, L)
		var n int64
		first := true
		for ei, eseq := range j.Explicit {
			runHistory(out, j, js, pool, eseq, ei == 0, states, initial)
			n++
		}
		for j.Explicit == nil {
			fail := runHistory(out, j, js, pool, seq, first, states, initial)
			first = false
			n++
			if n%4096 == 0 && time.Now().After(deadline) {
				out.Incomplete = "sequential part: wall-clock cap reached"
				break
			}
			// next sequence; when step `fail` failed, every extension of that prefix is skipped
			pos := L - 1
			if fail >= 0 && fail < L {
				pos = fail
				for i := fail + 1; i < L; i++ {
					seq[i] = 0
				}
				out.Counters["seq_pruned_prefixes"]++
			}
			for pos >= 0 {
				seq[pos]++
				if seq[pos] < k {
					break
				}
				seq[pos] = 0
				pos--
			}
			if pos < 0 {
				break
			}
		}
		out.Counters["seq_histories"] += n
		out.Counters["seq_trees"]++
		out.Counters["seq_states"] += int64(len(states))
		if j.Family != "" {
			out.Counters["cpu_ms_fam_"+j.Family] += cpuMillis() - cpu0
			out.Counters["fam_"+j.Family+"_trees"]++
			out.Counters["fam_"+j.Family+"_histories"] += n
			if j.Explicit == nil {
				out.Counters[fmt.Sprintf("fam_%s_trees_len%d", j.Family, j.Len)]++
			}
		}
		if len(out.Samples) < 3 && j.Tree.Size() >= 3 && ji%7 == 0 {
			out.Samples = append(out.Samples, map[string]interface{}{"tree": j.Tree.String(), "config": string(js), "alphabet": len(j.Alpha) + 2, "length": L, "histories": n, "distinct_model_states": len(states)})
		}
		if out.Incomplete != "" {
			break
		}
	}
	minimise(out, pool)
}

// minimise shrinks the history of every listed sequential violation greedily (drop one step at a time while
// the same signature still fires), so that the reported example is a smallest one.
func minimise(out *shardOut, pool *scen.Pool) {
	for vi := range out.Violations {
		v := &out.Violations[vi]
		if v.job == nil {
			continue
		}
		j := v.job
		js := []byte(j.Tree.JSON())
		initial := strings.Join(scen.NewModel(j.Tree).Expected(), ",")
		fires := func(seq []int) *viol {
			tmp := &shardOut{Counters: map[string]int64{}, Outcomes: map[string]int{}}
			runHistory(tmp, j, js, pool, seq, false, map[uint64]bool{}, initial)
			for i := range tmp.Violations {
				if tmp.Violations[i].Sig == v.Sig {
					return &tmp.Violations[i]
				}
			}
			return nil
		}
		cur := append([]int(nil), v.syms...)
		best := fires(cur)
		if best == nil {
			continue
		}
		for changed := true; changed; {
			changed = false
			for i := 0; i < len(cur); i++ {
				cand := append(append([]int(nil), cur[:i]...), cur[i+1:]...)
				if w := fires(cand); w != nil {
					cur, best, changed = cand, w, true
					break
				}
			}
		}
		v.Desc, v.Replay, v.Rank = best.Desc, best.Replay, j.Tree.Size()*100+len(cur)
		v.job, v.syms = nil, nil
	}
}

func min(a, b int) int {
	if a < b {
		return a
	}
	return b
}

// ---------------------------------------------------------------------------------------------------
// Part 2: schedules

type span struct{ S, E int }

type trafficEv struct {
	Thread int
	X      *scen.Exchange
	Req    span
	Res    span
	Err    string // unexpected modifier error or panic
	Exp    int    // modifier errors that the model expects (an err modifier fails for the message)
}

type queryEv struct {
	Span span
	Toks []string
	Raw  string
	Err  string
	Name string
}

type resetEv struct {
	Span span
	Code int
	Err  string
}

type concRun struct {
	prime   []*scen.Exchange
	traffic []*trafficEv
	queries []*queryEv
	resets  []*resetEv
	setup   string
}

// concBody returns the body of one execution; it fills *run.
func concBody(sc scen.Conc, run *concRun, spawn func(func()) func() bool, joinAll func([]func() bool)) func() {
	return func() {
		*run = concRun{}
		clock := 0
		tick := func() int { clock++; return clock }
		h, err := scen.NewHarnessDirect([]byte(sc.Tree.JSON()))
		if err != nil {
			run.setup = err.Error()
			return
		}
		id := 0
		for _, m := range sc.Prime {
			id++
			x, err := scen.NewExchange(m, id)
			if err != nil {
				run.setup = err.Error()
				return
			}
			h.Request(x)
			h.Response(x)
			x.Remove()
			run.prime = append(run.prime, x)
		}
		var all []*scen.Exchange
		var joins []func() bool
		for ti, prog := range sc.Threads {
			var evs []*trafficEv
			for _, m := range prog {
				id++
				x, err := scen.NewExchange(m, id)
				if err != nil {
					run.setup = err.Error()
					return
				}
				all = append(all, x)
				ev := &trafficEv{Thread: ti, X: x}
				evs = append(evs, ev)
				run.traffic = append(run.traffic, ev)
			}
			joins = append(joins, spawn(func() {
				for _, ev := range evs {
					wantReq, wantRes := scen.EvalErr(sc.Tree, ev.X.Msg)
					ev.Req.S = tick()
					if err := h.Request(ev.X); err != nil {
						if wantReq && !strings.HasPrefix(err.Error(), "panic") {
							ev.Exp++
						} else {
							ev.Err = err.Error()
						}
					}
					ev.Req.E = tick()
					if sc.ReqOnly {
						continue
					}
					ev.Res.S = tick()
					if err := h.Response(ev.X); err != nil {
						if wantRes && !strings.HasPrefix(err.Error(), "panic") {
							ev.Exp++
						} else {
							ev.Err = err.Error()
						}
					}
					ev.Res.E = tick()
				}
			}))
		}
		for q := 0; q < sc.Queries; q++ {
			ev := &queryEv{Name: fmt.Sprintf("query%d", q)}
			run.queries = append(run.queries, ev)
			joins = append(joins, spawn(func() {
				ev.Span.S = tick()
				toks, raw, err := h.Query()
				ev.Span.E = tick()
				ev.Toks, ev.Raw = toks, raw
				if err != nil {
					ev.Err = err.Error()
				}
			}))
		}
		if sc.Reset {
			ev := &resetEv{}
			run.resets = append(run.resets, ev)
			joins = append(joins, spawn(func() {
				ev.Span.S = tick()
				code, err := h.Reset()
				ev.Span.E = tick()
				ev.Code = code
				if err != nil {
					ev.Err = err.Error()
				}
			}))
		}
		joinAll(joins)
		fin := &queryEv{Name: "final"}
		fin.Span.S = tick()
		toks, raw, err := h.Query()
		fin.Span.E = tick()
		fin.Toks, fin.Raw = toks, raw
		if err != nil {
			fin.Err = err.Error()
		}
		run.queries = append(run.queries, fin)
		for _, x := range all {
			x.Remove()
		}
		for _, ev := range run.traffic {
			vrt.Log("t%d x%d req%v res%v %s expected-errors=%d", ev.Thread, ev.X.ID, ev.Req, ev.Res, ev.Err, ev.Exp)
		}
		for _, ev := range run.resets {
			vrt.Log("reset %v -> %d %s", ev.Span, ev.Code, ev.Err)
		}
		for _, ev := range run.queries {
			vrt.Log("%s %v -> %v %s", ev.Name, ev.Span, ev.Toks, ev.Err)
		}
	}
}

// checkConc is the oracle of the concurrent part, straight from the statement:
//   - nothing appears twice (more often than it was evaluated), nothing appears that was never recorded
//     (its evaluation had not even begun when the query ended, or it belongs to an API request),
//   - every failure whose recording completed before the query began is present unless a reset may have
//     taken effect in between (some reset overlaps the window from the recording's start to the query's end),
//   - a failure whose recording completed before a reset began, that reset having completed before the query
//     began, is absent (reset returns every verifier to its initial state),
//   - pingback: the "never occurred" error is present when no sighting can have taken effect and absent
//     when one must have.
func checkConc(sc scen.Conc, run *concRun) []scen.Finding {
	var out []scen.Finding
	seen := map[string]bool{}
	add := func(sig, detail string) {
		if !seen[sig] {
			seen[sig] = true
			out = append(out, scen.Finding{Sig: sig, Detail: detail})
		}
	}
	if run.setup != "" {
		add("configure:rejected", run.setup)
		return out
	}
	type frec struct {
		scen.Rec
		span span
		api  bool
	}
	var recs []frec
	for _, x := range run.prime {
		for _, r := range scen.Eval(sc.Tree, x.Msg, x.ID) {
			recs = append(recs, frec{Rec: r, span: span{0, 0}, api: x.Msg.API})
		}
	}
	for _, ev := range run.traffic {
		if ev.Err != "" {
			sig := "traffic:modifier_error"
			if strings.HasPrefix(ev.Err, "panic") {
				sig = "panic:traffic"
			}
			add(sig, ev.Err)
		}
		for _, r := range scen.Eval(sc.Tree, ev.X.Msg, ev.X.ID) {
			sp := ev.Req
			if r.Side == scen.SideRes {
				if sc.ReqOnly {
					continue
				}
				sp = ev.Res
			}
			recs = append(recs, frec{Rec: r, span: sp, api: ev.X.Msg.API})
		}
	}
	for _, r := range run.resets {
		if r.Err != "" {
			add("panic:reset", r.Err)
		} else if r.Code != 204 {
			add("reset:status", fmt.Sprintf("reset returned %d", r.Code))
		}
	}
	side := func(r scen.Rec) string {
		if r.Side == scen.SideRes {
			return "response"
		}
		return "request"
	}
	for _, q := range run.queries {
		if q.Err != "" {
			sig := "verify:bad_response"
			if strings.HasPrefix(q.Err, "panic") {
				sig = "panic:verify"
			}
			add(sig, q.Err+" body "+q.Raw)
			continue
		}
		mayErase := func(f span) bool {
			for _, r := range run.resets {
				if r.Span.E > f.S && r.Span.S < q.Span.E {
					return true
				}
			}
			return false
		}
		mustErase := func(f span) bool {
			for _, r := range run.resets {
				if f.E < r.Span.S && r.Span.E < q.Span.S {
					return true
				}
			}
			return false
		}
		ac := map[string]int{}
		for _, t := range q.Toks {
			ac[t]++
		}
		mult := map[string]int{}
		whereOf := map[string]string{}
		first := map[string]frec{}
		apiTok := map[string]bool{}
		for _, f := range recs {
			if f.Kind == scen.KPingback {
				continue
			}
			if f.api {
				apiTok[f.Tok] = true
				continue
			}
			if mult[f.Tok] == 0 {
				first[f.Tok] = f
			}
			mult[f.Tok]++
			if w := sc.Tree.Where(f.Leaf); whereRank[w] > whereRank[whereOf[f.Tok]] {
				whereOf[f.Tok] = w
			}
		}
		for tok, a := range ac {
			if tok == "pingback" {
				continue
			}
			if mult[tok] == 0 {
				if apiTok[tok] {
					add("api_request_counted:"+scen.TokKind(tok), fmt.Sprintf("%s: %s was evaluated on an API request and is reported", q.Name, tok))
				} else {
					add("conc:phantom:"+scen.TokKind(tok), fmt.Sprintf("%s: %s reported, never evaluated", q.Name, tok))
				}
				continue
			}
			f := first[tok]
			switch {
			case a > mult[tok]:
				add("conc:duplicated:"+scen.TokKind(tok), fmt.Sprintf("%s: %s reported %d times, evaluated unmet %d time(s)", q.Name, tok, a, mult[tok]))
			case f.span.S >= q.Span.E:
				add("conc:phantom:"+scen.TokKind(tok), fmt.Sprintf("%s %v: %s reported although its evaluation began at %d", q.Name, q.Span, tok, f.span.S))
			case mustErase(f.span):
				add("stale_after_reset:"+whereOf[tok]+":"+side(f.Rec), fmt.Sprintf("%s %v: %s (recorded %v by a verifier in position %s) survived a reset that completed before the query began", q.Name, q.Span, tok, f.span, whereOf[tok]))
			}
		}
		for tok, m := range mult {
			f := first[tok]
			if ac[tok] < m && f.span.E < q.Span.S && !mayErase(f.span) {
				add("conc:lost:"+whereOf[tok]+":"+side(f.Rec), fmt.Sprintf("%s %v: %s was recorded during %v, no reset intervened, but it is reported %d of %d time(s)", q.Name, q.Span, tok, f.span, ac[tok], m))
			}
		}
		// pingback
		lo, hi := 0, 0
		apiSight, erasedSight, where, whereUnseen := false, false, "", ""
		for _, l := range sc.Tree.Leaves() {
			if l.Kind != scen.KPingback {
				continue
			}
			whereUnseen = sc.Tree.Where(l.ID)
			must, may := false, false
			for _, f := range recs {
				if f.Kind != scen.KPingback || f.Leaf != l.ID {
					continue
				}
				if f.api {
					apiSight = true
					continue
				}
				if f.span.E < q.Span.S && !mayErase(f.span) {
					must = true
				}
				if f.span.S < q.Span.E && !mustErase(f.span) {
					may = true
				}
				if mustErase(f.span) {
					erasedSight = true
					where = sc.Tree.Where(l.ID)
				}
			}
			if !may {
				lo++
			}
			if !must {
				hi++
			}
		}
		a := ac["pingback"]
		switch {
		case a > hi:
			add("conc:pingback:error_although_seen", fmt.Sprintf("%s %v: %d 'pingback never occurred' error(s), at most %d verifier(s) can be unsatisfied", q.Name, q.Span, a, hi))
		case a < lo && apiSight:
			add("api_request_counted:pingback", fmt.Sprintf("%s: a pingback verifier treats an API request as the awaited sighting", q.Name))
		case a < lo && erasedSight:
			add("stale_after_reset:"+where+":request", fmt.Sprintf("%s: a pingback verifier still counts as satisfied after a reset", q.Name))
		case a < lo:
			add("conc:lost:"+whereUnseen+":request", fmt.Sprintf("%s %v: %d 'pingback never occurred' error(s), at least %d verifier(s) cannot have seen their URL", q.Name, q.Span, a, lo))
		}
	}
	return out
}

var whereRank = map[string]int{"": 0, "top": 1, "group": 2, "true_branch": 3, "else_branch": 4}

func vrtSpawn(f func()) func() bool {
	t := vrt.GoNamed("c13-thread", f)
	return t.Done
}

// vrtJoinAll parks the root until every thread is done: one blocking point, so that the joins add no
// scheduling choices of their own.
func vrtJoinAll(done []func() bool) {
	vrt.WaitUntil("join-all", func() bool {
		for _, d := range done {
			if !d() {
				return false
			}
		}
		return true
	})
}

func concPart(out *shardOut, scs []scen.Conc, shard, nshards int, deadline time.Time, maxExecs int) {
	for si, sc := range scs {
		if nshards > 0 && si%nshards != shard {
			continue
		}
		sc := sc
		var run concRun
		body := concBody(sc, &run, vrtSpawn, vrtJoinAll)
		nviol := 0
		start := time.Now()
		cfg := vrt.ExploreConfig{Bound: -1, Deadline: deadline, MaxExecs: maxExecs}
		if sc.Preempt > 0 {
			cfg.Bound = sc.Preempt
			cfg.SwitchFree = true
		}
		st := vrt.Explore(cfg, body, func(prefix []int, r *vrt.Result) bool {
			out.Outcomes[r.Outcome]++
			if r.Outcome != "ok" {
				sig := "conc:" + r.Outcome
				if sc.Family != "" {
					// e.g. errmod:conc:deadlock - a query / reset and a request inside a group with a failing modifier block each other
					sig = sc.Family + ":" + sig
				}
				rank := 10000
				if sc.Family != "" {
					rank += len(sc.Tree.String()) + len(r.Choices) // the simplest scenario and schedule first
				}
				out.violate(rank, sig, fmt.Sprintf("scenario %s schedule %v: the execution cannot terminate (%s) %s threads %+v", sc, r.ChoiceSeq(), r.Outcome, r.Panic, r.Threads),
					map[string]interface{}{"part": "conc", "scenario": sc.Name, "schedule": r.ChoiceSeq()})
				nviol++
				return nviol < 20
			}
			fs := checkConc(sc, &run)
			if len(fs) > 0 && nviol < 8 {
				// a violation is only believed if the same schedule gives the same observations again
				if err := vrt.Confirm(cfg.Config, r, body, 3); err != nil {
					fmt.Fprintln(os.Stderr, "ENGINE ERROR:", sc.Name, err)
					os.Exit(2)
				}
			}
			for _, f := range fs {
				out.violate(10000+len(r.Choices), f.Sig, fmt.Sprintf("scenario %s schedule %v: %s; log %v", sc, r.ChoiceSeq(), f.Detail, r.Log),
					map[string]interface{}{"part": "conc", "scenario": sc.Name, "schedule": r.ChoiceSeq(), "log": r.Log})
				nviol++
			}
			return nviol < 2000
		})
		if st.EngineError != "" {
			fmt.Fprintln(os.Stderr, "ENGINE ERROR:", sc.Name, st.EngineError)
			os.Exit(2)
		}
		out.Counters["conc_scenarios"]++
		out.Counters["conc_executions"] += int64(st.Execs)
		out.Counters["conc_points"] += st.Points
		out.Counters["conc_distinct_histories"] += int64(st.DistinctLogs)
		if st.DistinctLogs > 1 {
			out.Counters["conc_scenarios_with_multiple_outcomes"]++
		}
		if !st.Exhaustive && nviol == 0 {
			out.Incomplete = fmt.Sprintf("concurrent part: scenario %s not exhausted (%d executions)", sc.Name, st.Execs)
		}
		if sc.Preempt > 0 {
			out.Counters["conc_scenarios_preemption_bounded"]++
		} else {
			out.Counters["conc_scenarios_all_interleavings"]++
		}
		out.Samples = append(out.Samples, map[string]interface{}{"scenario": sc.Name, "preemption_bound": sc.Preempt, "interleavings": st.Execs, "distinct_histories": st.DistinctLogs, "max_choice_points": st.MaxChoices, "exhaustive": st.Exhaustive, "seconds": time.Since(start).Seconds()})
	}
}

// ---------------------------------------------------------------------------------------------------
// Part 3: race pass (subprocess on the unrewritten tree, built with -race)

type raceResult struct {
	Hang       *raceHang // the free-running pass stopped making progress (round 6)
	Reports    []raceReport
	Iterations int64
	Scenarios  int64
	Err        string
	Seconds    float64
}

// raceHang: the free-running pass made no progress for raceStall inside one scenario (queries / resets and traffic
// that block each other for good); the goroutine dump comes from SIGQUIT.
type raceHang struct {
	Scenario string
	Dump     string
}

// raceStall: a scenario of the race pass is 50 / 300 runs of a few microseconds of work each (the whole pass of
// about 100 scenarios takes 10-40 s quick, 1-3 min thorough, even on a loaded machine); no new scenario for this
// long means the pass hangs.
const raceStall = 4 * time.Minute

type lockedBuf struct {
	mu   sync.Mutex
	b    bytes.Buffer
	last time.Time // when the last "C13RACE scenario" line arrived
	scen string
	part []byte
}

func (l *lockedBuf) Write(p []byte) (int, error) {
	l.mu.Lock()
	defer l.mu.Unlock()
	l.b.Write(p)
	l.part = append(l.part, p...)
	for {
		i := bytes.IndexByte(l.part, '\n')
		if i < 0 {
			break
		}
		line := string(l.part[:i])
		l.part = l.part[i+1:]
		if strings.HasPrefix(line, "C13RACE scenario ") {
			l.scen = strings.TrimPrefix(line, "C13RACE scenario ")
			l.last = time.Now()
		}
	}
	return len(p), nil
}

func (l *lockedBuf) progress() (time.Time, string) {
	l.mu.Lock()
	defer l.mu.Unlock()
	return l.last, l.scen
}

func (l *lockedBuf) String() string {
	l.mu.Lock()
	defer l.mu.Unlock()
	return l.b.String()
}

type raceReport struct {
	Sig      string
	Scenario string
	Funcs    [2]string
	Text     string
	Martian  bool
}

func goEnv() []string {
	env := os.Environ()
	return append(env, "GOFLAGS=-mod=mod", "GOPROXY=off", "GOSUMDB=off", "GOTOOLCHAIN=local")
}

func racePass(tier string) raceResult {
	start := time.Now()
	var rr raceResult
	dir := buildDir()
	os.MkdirAll(dir, 0o755)
	bin := filepath.Join(dir, "race")
	args := []string{"build", "-race"}
	if ov := os.Getenv("C13_RACE_OVERLAY"); ov != "" {
		args = append(args, "-overlay", ov)
	}
	if alt := os.Getenv("VERIF_ALT_REPO"); alt != "" {
		// ./check was pointed at a scratch copy of martian (VERIF_REPO): it left a go.mod replacing martian with
		// that copy next to the check binary; the race pass must look at the same tree.
		args = append(args, "-modfile="+filepath.Join(dir, "alt.mod"))
	}
	args = append(args, "-o", bin, "./checks/c13race")
	cmd := exec.Command("go", args...)
	cmd.Dir = lib.Root
	cmd.Env = goEnv()
	if b, err := cmd.CombinedOutput(); err != nil {
		rr.Err = fmt.Sprintf("go build -race failed: %v\n%s", err, b)
		return rr
	}
	iters := "50"
	if tier == "thorough" {
		iters = "300"
	}
	run := exec.Command(bin, tier, iters)
	run.Env = append(os.Environ(), "GORACE=halt_on_error=0 exitcode=0 history_size=2")
	var stdout bytes.Buffer
	stderr := &lockedBuf{last: time.Now()}
	run.Stdout = &stdout
	run.Stderr = stderr
	if err := run.Start(); err != nil {
		rr.Err = fmt.Sprintf("race pass binary failed: %v", err)
		return rr
	}
	waited := make(chan error, 1)
	go func() { waited <- run.Wait() }()
	var werr error
	for done := false; !done; {
		select {
		case werr = <-waited:
			done = true
		case <-time.After(5 * time.Second):
			if last, sc := stderr.progress(); time.Since(last) > raceStall {
				// hang guard: goroutine dump (SIGQUIT), then make sure it is gone
				mark := len(stderr.String())
				run.Process.Signal(syscall.SIGQUIT)
				select {
				case <-waited:
				case <-time.After(30 * time.Second):
					run.Process.Kill()
					<-waited
				}
				dump := stderr.String()
				if mark < len(dump) {
					dump = dump[mark:]
				}
				rr.Hang = &raceHang{Scenario: sc, Dump: dump}
				rr.Reports = parseRace(stderr.String())
				rr.Seconds = time.Since(start).Seconds()
				return rr
			}
		}
	}
	if werr != nil {
		rr.Err = fmt.Sprintf("race pass binary failed: %v\n%s", werr, tail(stderr.String(), 4000))
		return rr
	}
	var sum struct{ Scenarios, Iterations int64 }
	if err := json.Unmarshal(bytes.TrimSpace(stdout.Bytes()), &sum); err != nil {
		rr.Err = fmt.Sprintf("race pass: bad summary %q: %v", tail(stdout.String(), 400), err)
		return rr
	}
	rr.Scenarios, rr.Iterations = sum.Scenarios, sum.Iterations
	rr.Reports = parseRace(stderr.String())
	rr.Seconds = time.Since(start).Seconds()
	return rr
}

// buildDir is the directory ./check built this binary into (.build/c13, or .build/c13-alt-* for a scratch tree).
func buildDir() string {
	if exe, err := os.Executable(); err == nil && strings.Contains(exe, string(filepath.Separator)+".build"+string(filepath.Separator)) {
		return filepath.Dir(exe)
	}
	return filepath.Join(lib.Root, ".build", "c13")
}

func tail(s string, n int) string {
	if len(s) > n {
		return s[len(s)-n:]
	}
	return s
}

const modPrefix = "github.com/google/martian/v3"

// parseRace splits the race detector's output into reports and names, for each of the two conflicting
// accesses, the innermost frame that lies in martian code.
func parseRace(stderr string) []raceReport {
	var out []raceReport
	scenario := ""
	var block []string
	in := false
	flush := func() {
		if len(block) == 0 {
			return
		}
		text := strings.Join(block, "\n")
		block = nil
		if !strings.Contains(text, "WARNING: DATA RACE") {
			return
		}
		// sections are separated by blank lines; the first two describe the accesses
		var funcs []string
		martian := false
		sections := strings.Split(text, "\n\n")
		for _, sec := range sections {
			lines := strings.Split(strings.TrimLeft(sec, "\n"), "\n")
			hdr := -1
			for i, l := range lines {
				if strings.Contains(l, " by goroutine ") || strings.Contains(l, " by main goroutine") {
					hdr = i
					break
				}
			}
			if hdr < 0 {
				continue
			}
			top, inMartian := "", ""
			for _, l := range lines[hdr+1:] {
				if !strings.HasPrefix(l, "  ") || strings.HasPrefix(l, "      ") {
					continue
				}
				fn := strings.TrimSpace(l)
				if i := strings.LastIndex(fn, "("); i > 0 {
					fn = fn[:i]
				}
				if top == "" {
					top = fn
				}
				if inMartian == "" && strings.HasPrefix(fn, modPrefix) {
					inMartian = fn
				}
			}
			name := top
			if inMartian != "" {
				martian = true
				name = strings.TrimPrefix(inMartian, modPrefix)
				if strings.HasPrefix(name, "/") {
					name = name[1:]
				} else {
					name = "martian" + name
				}
			}
			funcs = append(funcs, name)
			if len(funcs) == 2 {
				break
			}
		}
		for len(funcs) < 2 {
			funcs = append(funcs, "?")
		}
		sort.Strings(funcs)
		out = append(out, raceReport{Sig: "race:" + funcs[0] + "|" + funcs[1], Scenario: scenario, Funcs: [2]string{funcs[0], funcs[1]}, Text: text, Martian: martian})
	}
	for _, l := range strings.Split(stderr, "\n") {
		if strings.HasPrefix(l, "C13RACE scenario ") {
			scenario = strings.TrimPrefix(l, "C13RACE scenario ")
			continue
		}
		if strings.HasPrefix(l, "==================") {
			if in {
				flush()
			}
			in = !in
			continue
		}
		if in {
			block = append(block, l)
		}
	}
	flush()
	return out
}

// ---------------------------------------------------------------------------------------------------

const nShards = 16

func main() {
	tier := lib.Tier()
	if os.Getenv("VERIF_REPLAY") != "" {
		replay(os.Getenv("VERIF_REPLAY"))
		return
	}
	if os.Getenv("C13_XCHECK") != "" {
		// cross-check: the original families judged by the concrete model of the added families
		scen.ForceConcrete = true
	}
	jobs := seqJobs(tier)
	scs := scen.ConcScenarios(tier)
	if i, n := lib.ShardEnv(); n > 0 {
		debug.SetGCPercent(400)
		if pf := os.Getenv("C13_CPUPROFILE"); pf != "" {
			f, _ := os.Create(pf)
			pprof.StartCPUProfile(f)
			defer pprof.StopCPUProfile()
		}
		out := &shardOut{Counters: map[string]int64{}, Outcomes: map[string]int{}}
		dl := time.Now().Add(4 * time.Minute)
		maxExecs := 400000
		if tier == "thorough" {
			dl = time.Now().Add(25 * time.Minute)
			maxExecs = 6000000
		}
		if v, err := strconv.Atoi(os.Getenv("C13_MAXEXECS")); err == nil {
			maxExecs = v
		}
		c0 := cpuMillis()
		var direct, proxied []treeJob
		for _, j := range assign(jobs, n)[i] {
			if j.Proxy {
				proxied = append(proxied, j)
			} else {
				direct = append(direct, j)
			}
		}
		if os.Getenv("C13_SKIP_SEQ") == "" {
			seqPart(out, direct, dl)
		}
		runtime.GOMAXPROCS(1) // baton passing: one P avoids cross-thread wake-ups
		if os.Getenv("C13_SKIP_SEQ") == "" && os.Getenv("C13_SKIP_PROXY") == "" {
			seqPart(out, proxied, dl)
		}
		c1 := cpuMillis()
		if os.Getenv("C13_SKIP_CONC") == "" {
			concPart(out, scs, i, n, dl, maxExecs)
		}
		out.Counters["cpu_ms_seq"] = c1 - c0
		out.Counters["cpu_ms_conc"] = cpuMillis() - c1
		b, _ := json.Marshal(out)
		os.WriteFile(os.Getenv("VERIF_SHARD_OUT"), b, 0o644)
		return
	}
	rep := lib.NewReport("C13", "model_checking")
	raceCh := make(chan raceResult, 1)
	go func() {
		if os.Getenv("C13_SKIP_RACE") != "" {
			raceCh <- raceResult{Err: "skipped by C13_SKIP_RACE"}
			return
		}
		raceCh <- racePass(tier)
	}()
	files, errs, outs := lib.RunShards(nShards, filepath.Join(buildDir(), "shards"))
	var all []viol
	outcomes := map[string]int{}
	perSig := map[string]int{}
	var concSamples []interface{}
	for i, f := range files {
		if errs[i] != nil {
			fmt.Fprintf(os.Stderr, "shard %d failed: %v\n%s\n", i, errs[i], tail(outs[i], 4000))
			os.Exit(2)
		}
		var so shardOut
		b, _ := os.ReadFile(f)
		if err := json.Unmarshal(b, &so); err != nil {
			fmt.Fprintf(os.Stderr, "shard %d: bad output: %v\n", i, err)
			os.Exit(2)
		}
		for k, v := range so.Counters {
			rep.Count(k, v)
		}
		all = append(all, so.Violations...)
		for _, s := range so.Samples {
			if m, ok := s.(map[string]interface{}); ok && m["scenario"] != nil {
				concSamples = append(concSamples, s)
			} else {
				rep.Sample(6, s)
			}
		}
		for k, v := range so.Outcomes {
			outcomes[k] += v
		}
		for k, v := range so.PerSig {
			perSig[k] += v
		}
		if so.Incomplete != "" {
			rep.Incomplete = so.Incomplete
		}
	}
	sort.SliceStable(all, func(a, b int) bool { return all[a].Rank < all[b].Rank })
	// A defect of the shared code (filter.go, fifo, MultiError ...) shows in the original family and again in every
	// added family. The copies "<family>:X" are folded into the original signature X when X itself fired in this
	// run and is not a listed known finding (then X is reported anyway, and a listed X must not hide anything).
	legacyFired := map[string]bool{}
	for _, v := range all {
		if fam, _ := splitFamily(v.Sig); fam == "" {
			legacyFired[v.Sig] = true
		}
	}
	findings := lib.LoadFindings()
	listed := func(sig string) bool {
		for _, f := range findings {
			if f.Kind != "finding" || f.Property != "C13" {
				continue
			}
			if f.Sig == sig || (strings.HasSuffix(f.Sig, "*") && strings.HasPrefix(sig, strings.TrimSuffix(f.Sig, "*"))) {
				return true
			}
		}
		return false
	}
	folded := map[string]int{}
	for _, v := range all {
		if fam, base := splitFamily(v.Sig); fam != "" && legacyFired[base] && !listed(base) {
			folded[v.Sig]++
			continue
		}
		rep.Violate(v.Sig, v.Desc, v.Replay)
	}
	rep.Coverage["signatures_folded_into_original"] = folded
	rr := <-raceCh
	raceSigs := map[string]int{}
	if rr.Err != "" {
		fmt.Fprintln(os.Stderr, "C13 race pass did not run:", rr.Err)
		rep.Incomplete = "race pass did not run: " + strings.SplitN(rr.Err, "\n", 2)[0]
	}
	if rr.Hang != nil {
		// queries / resets and traffic of a scenario block each other for good in the free-running pass: the query never
		// returns, so it loses whatever was recorded before it began
		sig := "race:hang"
		for _, sc := range scen.ConcScenarios("thorough") {
			if sc.Name == rr.Hang.Scenario && sc.Family != "" {
				sig = sc.Family + ":race:hang"
			}
		}
		rep.Violate(sig, fmt.Sprintf("free-running pass (unrewritten tree): scenario %s made no progress for %v: its traffic, query and reset threads block each other; goroutines:\n%s", rr.Hang.Scenario, raceStall, blockedGoroutines(rr.Hang.Dump)),
			map[string]interface{}{"part": "race", "scenario": rr.Hang.Scenario, "hang": true})
		rep.Incomplete = "race pass stopped at a scenario that hangs"
	}
	for _, r := range rr.Reports {
		if !r.Martian {
			fmt.Fprintln(os.Stderr, "C13 race pass: race report without a martian frame (harness problem):\n"+r.Text)
			rep.Incomplete = "race pass reported a race outside martian code (harness problem)"
			continue
		}
		raceSigs[r.Sig]++
		rep.Violate(r.Sig, fmt.Sprintf("data race between %s and %s in scenario %s (free-running -race build of the unrewritten tree):\n%s", r.Funcs[0], r.Funcs[1], r.Scenario, tail2(r.Text, 2500)),
			map[string]interface{}{"part": "race", "scenario": r.Scenario, "report": r.Text})
	}
	maxN, lenFor := seqBounds(tier)
	var extTrees int64
	for _, f := range []string{"variants", "scope", "filterkind", "guard", "long", "failq", "errmod", "proxy", "repeat", "rtreq"} {
		extTrees += rep.Counter("fam_" + f + "_trees")
	}
	rep.Coverage["states"] = rep.Counter("seq_states") + rep.Counter("conc_distinct_histories")
	rep.Coverage["transitions"] = rep.Counter("seq_steps") + rep.Counter("conc_points")
	rep.Coverage["traces_validated_against_impl"] = rep.Counter("seq_histories") + rep.Counter("conc_executions")
	rep.Coverage["evaluations"] = rep.Counter("seq_queries_compared") + rep.Counter("conc_executions")
	rep.Coverage["distinct_nontrivial"] = rep.Counter("seq_nontrivial")
	rep.Coverage["executions"] = rep.Counter("conc_executions")
	rep.Coverage["distinct_outcomes"] = rep.Counter("conc_distinct_histories")
	rep.Coverage["conc_outcome_kinds"] = outcomes
	rep.Coverage["violating_cases_by_signature"] = perSig
	rep.Coverage["conc_scenarios_detail"] = concSamples
	rep.Coverage["race_pass"] = map[string]interface{}{"scenarios": rr.Scenarios, "iterations": rr.Iterations, "reports": len(rr.Reports), "signatures": raceSigs, "seconds": rr.Seconds, "error": rr.Err}
	rep.Coverage["exhaustive"] = rep.Incomplete == ""
	fams := map[string]interface{}{}
	for _, f := range []string{"variants", "scope", "filterkind", "guard", "long", "failq", "errmod", "proxy", "repeat", "rtreq"} {
		fams[f] = map[string]int64{"trees": rep.Counter("fam_" + f + "_trees"), "histories": rep.Counter("fam_" + f + "_histories"), "cpu_ms": rep.Counter("cpu_ms_fam_" + f),
			"trees_with_all_histories_of_length_2": rep.Counter("fam_" + f + "_trees_len2"), "trees_with_all_histories_of_length_3": rep.Counter("fam_" + f + "_trees_len3"), "trees_with_all_histories_of_length_4": rep.Counter("fam_" + f + "_trees_len4"), "trees_with_all_histories_of_length_5": rep.Counter("fam_" + f + "_trees_len5")}
	}
	rep.Coverage["added_families"] = fams
	rep.Coverage["wrong_method_calls"] = rep.Counter("seq_wrong_method_calls")
	rep.Coverage["failing_queries"] = rep.Counter("seq_failing_queries")
	rep.Coverage["expected_modifier_errors"] = rep.Counter("seq_expected_modifier_errors")
	rep.Coverage["proxy_family"] = map[string]interface{}{"histories_each_one_scheduler_execution": rep.Counter("fam_proxy_histories"), "scheduler_points": rep.Counter("proxy_points"), "connection_modes": proxyModes,
		"rtreq_histories_each_one_scheduler_execution": rep.Counter("fam_rtreq_histories"), "rtreq_res_request_kinds": rtKinds, "rtreq_pairs_plain_api": rtPairs(tier), "rtreq_wirings": proxyWirings}
	rep.Coverage["rule"] = "sequential: every numbered tree with <= n nodes x every sequence of exactly L symbols over the tree's alphabet (all routing x met/unmet decision paths as plain messages; API-marked messages per routing path that reaches a verifier, with all expectations unmet, and also all met when a pingback verifier is present; GET /verify; POST /verify/reset), checked step by step so every shorter history is covered as a prefix, plus one final query; extensions of a failing prefix are skipped. A history is non-trivial when some query in it (explicit or final) has an expected answer different from the fresh tree's. Added families (same enumeration, judged by the concrete reference model of scen/ext.go; counts in added_families): variants = every verifier kind in every listed parameterisation (header: value / presence only / lower-case name; query: value / presence only; url: host / scheme+host+path; pingback: path / scheme+host+path) alone, in a group and in either branch of a filter x the original alphabet plus every shape (wrong value, two values of which the second is wanted, wanted on one side only, empty value, other scheme, other path) x {rest unmet, rest met} x {plain, API}; scope = every listed tree with <= 3 nodes in which some node carries a scope (absent, request, response, both, empty list; every combination the kinds accept) and aggregating groups; filterkind = header / cookie / url-regex / url / method filters with verifiers in the true, else and both branches, the alphabet extended by responses that take the other branch than their request (header and cookie filters decide that from the response); guard = the alphabet extended by POST /verify, GET and PUT /verify/reset (405 + Allow, nothing changes); long = for every plain message m and every N up to the bound: m^N, query, reset, m^(N mod 3), query; failq = trees with one or two verifiers, the alphabet extended by GET /verify from a client that goes away after k bytes of the report (k = 0, 1, 25, half, all but the last byte; a judged complete query first measures the report), all histories of length 4: every later complete query must answer exactly the model's report as one valid JSON document; errmod (round 6) = groups (plain and aggregating, nested, in filter branches) that also hold an ordinary modifier which returns an error for the messages that ask for it (header filter on X-Err around a header.Copy that cannot be carried out; scopes: both sides, request, response), verifiers before and after it, the alphabet extended by every subset of the sides on which the message makes that modifier fail: the verifiers behind a failing modifier are evaluated only in an aggregating group (documented at fifo.Group.SetAggregateErrors), the response modifiers run although the request modifiers returned an error (as in the proxy), a modifier error is accepted exactly where the model expects one; proxy (round 6) = the history is played by a client over a simulated TCP connection through a real martian.Proxy wired like cmd/proxy (API forwarder behind a servemux filter, httpspec stack, configurable modifier, /configure /verify /verify/reset on the API mux; upstream = synchronous round tripper), one scheduler execution per history on the default schedule, alphabet = every plain message, each also with the upstream round trip failing (502 made up by the proxy), a CONNECT whose target cannot be dialled (502 made up by the proxy), a real request to the proxy's own API per routing path (DELETE /configure, refused with 405), GET /verify and POST /verify/reset as real API requests (never counted themselves), x three ways of using connections (one keep-alive connection for everything; queries and resets on a second connection; a new connection per request); rtreq (round 8b) = the proxy family's trees and connection modes with one more dimension, what the upstream round tripper puts into res.Request: the request it was given, nil, a clone (req.Clone), req.WithContext(another context), chosen for plain exchanges and for exchanges addressed to the proxy's API (POST /configure, GET /verify, POST /verify/reset, the refused DELETE /configure) independently (quick: both alike, or one class as in the proxy family; thorough: all 15 pairs other than (given, given)), x two wirings (the configurable modifier inside the httpspec stack as in cmd/proxy with all three connection modes; directly in the proxy's top group behind the API filter, quick on one keep-alive connection, thorough with all three modes), alphabet = every plain message and the API requests (the exchanges without an upstream response stay with the proxy family), all histories of length 3 + final query; repeat (round 8) = the id of an exchange belongs to its symbol instead of its position, so a symbol played again is the very same exchange again (same URL, method, headers, status - a retry) and a verifier that misses its expectation builds the very same error message again: every verifier kind in every parameterisation at the top level, in a group, in a nested group, in the true / else / both branches of a filter, pairs under a group and in the two branches of a filter, filters of the other kinds; alphabet = the variants alphabet (all shapes) plus a twin (same message, other id) of every plain failing message; every history of the largest length <= 4 (thorough 5) under the per-tree cap plus, for every symbol m and every other symbol p, the explicit histories m m q m q r q m m q m / m m m r m m m / m r m m r r m m / m p m q m q r m p m m / p m m r p m p m, each with a final query; the model counts evaluations, not distinct messages. concurrent: every scenario in conc_scenarios_detail, each either over all interleavings of the rewritten lock operations (preemption_bound 0) or over all schedules up to the stated preemption bound."
	rep.Coverage["bounds"] = fmt.Sprintf("sequential: all %d trees with <= %d nodes x all histories of length <= %d over the per-tree alphabet; added families: %d trees, all histories of the largest length <= %d that stays under the per-tree cap (see added_families; long: N <= %d; proxy: length 3, thorough 4 for alphabets of <= 10 symbols); concurrent: %d scenarios explored over all interleavings of their lock operations (pairs of threads and small triples: traffic/query/reset) + %d scenarios (2-3 traffic threads x 1-2 exchanges, query thread, optional reset thread) explored over all schedules with at most 2 (quick) / 3 (thorough) preemptions; race pass: %d scenarios, %d free-running runs under -race", len(jobs)-int(extTrees), maxN, lenFor(maxN), extTrees, extLen(tier), map[bool]int{false: 20, true: 132}[tier == "thorough"], rep.Counter("conc_scenarios_all_interleavings"), rep.Counter("conc_scenarios_preemption_bounded"), rr.Scenarios, rr.Iterations)
	rep.Assumptions = []string{
		"traffic is applied as the proxy applies it (martian context linked to the request, ModifyRequest then ModifyResponse on the configurable martianhttp.Modifier); no sockets are involved; API requests are marked through the context exactly like api.Forwarder does",
		"original families: one parameterisation per verifier kind (status 200, header X-Vh: ok, method GET, url host, query qv=ok, failure message per node, pingback path), the header expectation toggled on request and response together, filters are querystring.Filter; the added families vary the parameterisation, the way an expectation is missed, the scope option and the filter kind on small trees (<= 3 nodes), not in combination with each other",
		"added families: a verifier or container whose scope excludes a side takes no part on that side (a scoped-out pingback verifier yields no 'never occurred' error); a url verifier records one error per request however many parts differ; a header present with the wanted value among several values, or present at all for a blank expectation, meets the expectation; a wrong-method call to either handler is neither a query nor a reset",
		"error messages are attributed to verifier kinds by their documented formats and to messages by a unique id= query parameter (repeat family: one id per symbol, so equal symbols give equal messages and the answer is compared as a multiset); order of errors in the answer is not constrained",
		"sequential histories recycle request objects (hence martian contexts) between histories; every history runs on a freshly parsed configuration (the first history of each tree through the /configure handler, the others through parse.FromJSON + SetRequestModifier/SetResponseModifier)",
		"schedule exploration interleaves at lock operations only (gosim) and has no partial-order reduction: the 3-4 thread scenarios are complete only up to a preemption bound (every added lock or API-exemption check in martian multiplies the interleavings, the scenario sizes are chosen for the repaired tree); unsynchronised accesses are the business of the auxiliary -race pass, which is a sampling of real schedules, not exhaustive",
		"errmod family: the failing modifier is a header.Filter on X-Err: 1 around header.Copy from a header that does not exist into Content-Length; fifo.Group stops at the first failing child unless aggregateErrors is set (its documentation), a filter returns what the branch it ran returns; nothing is demanded about the error value itself",
		"proxy family: the upstream of the proxy is a synchronous http.RoundTripper (it answers what the message says, fails for a failing round trip, serves API requests from the API mux as the Transport + API server of cmd/proxy would) and a dial function that always fails (CONNECT); the client checks the status it receives (200/500 from the origin, 502 made up by the proxy, 405 from /configure) and the number of upstream round trips per exchange, which are the premises of the model's evaluation of the response side; explored on the default schedule only (the client is sequential); rtreq family: Response.Request is, by net/http's documentation, the request that was sent to obtain the response - which of the listed values a round tripper puts there changes nothing about which exchange the response belongs to, so the reference model is the proxy family's",
		"pingback.Verifier makes no HTTP call in this version (it watches traffic for a URL); its expectation is modelled as 'one error while no matching non-API request was seen since the last reset'",
	}
	rep.Finish()
}

func cpuMillis() int64 {
	var ru syscall.Rusage
	syscall.Getrusage(syscall.RUSAGE_SELF, &ru)
	return (ru.Utime.Sec+ru.Stime.Sec)*1000 + int64(ru.Utime.Usec+ru.Stime.Usec)/1000
}

// blockedGoroutines keeps, of a goroutine dump, the goroutines with a martian frame (first frames only).
func blockedGoroutines(dump string) string {
	var out []string
	for _, g := range strings.Split(dump, "\n\n") {
		if !strings.HasPrefix(strings.TrimSpace(g), "goroutine ") || !strings.Contains(g, modPrefix) {
			continue
		}
		lines := strings.Split(strings.TrimSpace(g), "\n")
		var keep []string
		for i, l := range lines {
			if i == 0 || (!strings.HasPrefix(l, "\t") && len(keep) < 9) {
				keep = append(keep, l)
			}
		}
		out = append(out, strings.Join(keep, "\n  "))
		if len(out) == 6 {
			break
		}
	}
	return tail2(strings.Join(out, "\n"), 3000)
}

func tail2(s string, n int) string {
	if len(s) > n {
		return s[:n] + "..."
	}
	return s
}

func replay(path string) {
	b, err := os.ReadFile(path)
	if err != nil {
		fmt.Println(err)
		os.Exit(2)
	}
	var rp struct {
		First struct {
			Desc   string
			Replay struct {
				Part     string
				Family   string
				Mode     int
				RT       [2]int
				Bare     bool
				Tree     string
				Config   string
				Symbols  []int
				Scenario string
				Schedule []int
			}
		}
	}
	json.Unmarshal(b, &rp)
	r := rp.First.Replay
	switch r.Part {
	case "seq":
		for _, j := range seqJobs("thorough") {
			if j.Tree.String() == r.Tree && j.Tree.JSON() == r.Config && (r.Family == "" || (j.Family == r.Family && j.Mode == r.Mode && j.RT == r.RT && j.Bare == r.Bare)) {
				out := &shardOut{Counters: map[string]int64{}, Outcomes: map[string]int{}}
				j := j
				fail := runHistory(out, &j, []byte(r.Config), &scen.Pool{}, r.Symbols, true, map[uint64]bool{}, strings.Join(scen.NewModel(j.Tree).Expected(), ","))
				fmt.Printf("replay tree %s history %v: failing step %d\n", r.Tree, histNames(&j, r.Symbols), fail)
				for _, v := range out.Violations {
					fmt.Printf("  %s: %s\n", v.Sig, v.Desc)
				}
				return
			}
		}
		fmt.Println("tree not found")
	case "conc":
		for _, sc := range scen.ConcScenarios("thorough") {
			if sc.Name == r.Scenario {
				var run concRun
				body := concBody(sc, &run, vrtSpawn, vrtJoinAll)
				res := vrt.Run(vrt.Config{}, r.Schedule, body)
				fmt.Printf("replay scenario %s schedule %v: outcome %s %s\n", sc.Name, r.Schedule, res.Outcome, res.Panic)
				for _, l := range res.Log {
					fmt.Println("  ", l)
				}
				for _, f := range checkConc(sc, &run) {
					fmt.Printf("  %s: %s\n", f.Sig, f.Detail)
				}
				return
			}
		}
		fmt.Println("scenario not found")
	default:
		fmt.Println(rp.First.Desc)
	}
}
