// Package simconf validates the simnet TCP model against the kernel: every operation script over a small alphabet
// (write, close, half-close, read, deadline) is executed once on a simnet pipe under the scheduler and once on
// a real loopback TCP connection, and the observable results (byte counts, EOF, error kinds) must agree.
// It is an engine self-test (exit 2 on disagreement), not a property check.
package simconf

import (
	"errors"
	"fmt"
	"io"
	"net"
	"strings"
	"sync"
	"syscall"
	"time"

	"github.com/google/martian/v3/zzverif/simnet"
	"github.com/google/martian/v3/zzverif/vrt"

	"verif/lib"
)

// ops: aw<n> A writes n bytes; bw<n>; ac A closes; bc; ah A half-closes (CloseWrite); bh;
// ar A reads once (waits for data/EOF); br; ad A sets a 30ms read deadline then reads; bd
var alphabet = []string{"aw3", "bw2", "ac", "bc", "ah", "bh", "ar", "br", "ad", "bd"}

type endpoint interface {
	Read([]byte) (int, error)
	Write([]byte) (int, error)
	Close() error
	CloseWrite() error
	SetReadDeadline(time.Time) error
}

func kind(err error) string {
	if err == nil {
		return "ok"
	}
	var ne net.Error
	switch {
	case err == io.EOF:
		return "EOF"
	case errors.Is(err, net.ErrClosed) || strings.Contains(err.Error(), "use of closed"):
		return "closed"
	case errors.As(err, &ne) && ne.Timeout():
		return "timeout"
	case errors.Is(err, syscall.EPIPE) || errors.Is(err, syscall.ECONNRESET):
		return "reset"
	case errors.Is(err, syscall.ENOTCONN):
		return "notconn"
	}
	return "err:" + err.Error()
}

// exec runs the script; settle is called between operations (lets TCP propagate / the scheduler quiesce).
func exec(a, b endpoint, script []string, settle func(), now func() time.Time) []string {
	var obs []string
	closed := map[byte]bool{}
	for _, op := range script {
		who, e := op[0], a
		if who == 'b' {
			e = b
		}
		switch op[1] {
		case 'w':
			var n int
			fmt.Sscanf(op[2:], "%d", &n)
			m, err := e.Write(make([]byte, n))
			obs = append(obs, fmt.Sprintf("%s=%d/%s", op, m, kind(err)))
		case 'c':
			err := e.Close()
			closed[who] = true
			obs = append(obs, fmt.Sprintf("%s=%s", op, kind(err)))
		case 'h':
			err := e.CloseWrite()
			obs = append(obs, fmt.Sprintf("%s=%s", op, kind(err)))
		case 'r', 'd':
			// a plain read would block forever when nothing can arrive: always bound it, 'd' uses a short deadline
			d := 300 * time.Millisecond
			if op[1] == 'd' {
				d = 30 * time.Millisecond
			}
			if !closed[who] {
				e.SetReadDeadline(now().Add(d))
			}
			buf := make([]byte, 64)
			m, err := e.Read(buf)
			obs = append(obs, fmt.Sprintf("%c%c=%d/%s", who, 'r', m, kind(err)))
		}
		settle()
	}
	return obs
}

func runSim(script []string) []string {
	var obs []string
	r := vrt.Run(vrt.Config{}, nil, func() {
		a, b := simnet.Pipe("a", "b")
		obs = exec(a, b, script, func() { vrt.Sleep(50 * time.Millisecond) }, func() time.Time { return time.Now().Add(vrt.Now()) })
	})
	if r.Outcome != "ok" {
		return []string{"outcome:" + r.Outcome + " " + r.Panic}
	}
	return obs
}

var ln net.Listener
var dialMu sync.Mutex

func runTCP(script []string) []string {
	dialMu.Lock()
	cc := make(chan net.Conn, 1)
	go func() { c, _ := ln.Accept(); cc <- c }()
	a, err := net.Dial("tcp", ln.Addr().String())
	if err != nil {
		dialMu.Unlock()
		return []string{"dial:" + err.Error()}
	}
	b := <-cc
	dialMu.Unlock()
	defer a.Close()
	defer b.Close()
	return exec(a.(*net.TCPConn), b.(*net.TCPConn), script, func() { time.Sleep(15 * time.Millisecond) }, time.Now)
}

// Run executes every script of length 1..depth on simnet and on loopback TCP and returns the number of scripts and
// the disagreements (rendered). tcpAvailable is false when no loopback listener could be opened.
func Run(depth int) (scripts int, disagreements []string, tcpAvailable bool) {
	var err error
	ln, err = net.Listen("tcp", "127.0.0.1:0")
	if err != nil {
		return 0, nil, false
	}
	defer ln.Close()
	var all [][]string
	lib.Sequences(len(alphabet), depth, func(seq []int) {
		if len(seq) == 0 {
			return
		}
		var s []string
		for _, x := range seq {
			s = append(s, alphabet[x])
		}
		all = append(all, s)
	})
	tcp := make([][]string, len(all))
	lib.Parallel(len(all), func(i int) { tcp[i] = runTCP(all[i]) })
	for i, s := range all {
		sim := runSim(s)
		if strings.Join(sim, " ") != strings.Join(tcp[i], " ") {
			disagreements = append(disagreements, fmt.Sprintf("%v simnet=%v tcp=%v", s, sim, tcp[i]))
		}
	}
	return len(all), disagreements, true
}
