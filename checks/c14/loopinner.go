package main

// Round 8 families: the user group ("inner", the fifo.Group httpspec.NewStack returns for user modifiers) acts on
// the answer of a looping request.
//
// On the way back the inner group runs BEFORE the stack's Via modifier, so whatever a user modifier did to the
// (synthetic) response of a request whose Via names this instance - another status, a challenge, a redirect, new
// headers, a new body, an error - the statement still demands: never sent upstream, answered 400.
//
//   loop_inner        stack level: every loop spelling of the Via factor (14) + 4 controls without a loop
//                     x inner request behaviour {passive, adds a header, fails}
//                     x inner response behaviour (martian's own status / header / body / proxyauth modifiers and
//                       hand-written ones: status 200/204/302/400/401/407/500/502, redirect, challenge, end-to-end
//                       header, hop-by-hop headers, body, failure, and combinations), one fresh NewStack per
//                       behaviour pair; thorough: x 3 environments.
//   proxy_loop_inner  the same through a real martian.Proxy (one proxy + origin per behaviour): 4 loop spellings
//                     + 2 controls x 11 response behaviours x inner request behaviour {passive, fails}.
//   proxy_mitm_plain  plain HTTP spoken through a CONNECT tunnel of a MITM-enabled proxy + stack: every sequence
//                     of 1..2 request kinds on one tunnel; X-Forwarded-Proto / -Host / -Url / -For and Via as the
//                     stack stamped them (recorded at the end of the stack) and as the origin received them; a
//                     looping request inside the tunnel is answered 400 and not sent upstream.
//
// What the inner group did is not predicted but observed: a recorder at the end of the inner group notes status
// and header of the response as the stack's own response modifiers receive it. Oracle: loop => round trip
// skipped, error, final status 400 (whatever the recorder saw); no loop => final status = the recorded one; in
// both cases hop-by-hop headers of the recorded response do not survive, everything else does; an error of the
// user's response modifier is returned.

import (
	"bufio"
	"errors"
	"fmt"
	"net"
	"net/http"
	"os"
	"strconv"
	"strings"
	"sync"
	"sync/atomic"
	"time"

	"github.com/google/martian/v3"
	"github.com/google/martian/v3/auth"
	"github.com/google/martian/v3/body"
	"github.com/google/martian/v3/fifo"
	"github.com/google/martian/v3/header"
	"github.com/google/martian/v3/httpspec"
	"github.com/google/martian/v3/mitm"
	"github.com/google/martian/v3/proxyauth"
	"github.com/google/martian/v3/status"

	"verif/lib"
)

// innerRecorder notes the response as it leaves the inner group (keyed by the request's X-Case header through the
// proxy, "" on the stack) and the request header as it leaves the whole request side of the stack.
type innerRecorder struct {
	mu     sync.Mutex
	status map[string]int
	resH   map[string]http.Header
	reqH   map[string]http.Header
	reqURL map[string]string
}

func newInnerRecorder() *innerRecorder {
	return &innerRecorder{status: map[string]int{}, resH: map[string]http.Header{}, reqH: map[string]http.Header{}, reqURL: map[string]string{}}
}

func (r *innerRecorder) ModifyRequest(req *http.Request) error {
	r.mu.Lock()
	defer r.mu.Unlock()
	id := req.Header.Get("X-Case")
	r.reqH[id] = cloneHeader(req.Header)
	r.reqURL[id] = req.URL.String()
	return nil
}

func (r *innerRecorder) ModifyResponse(res *http.Response) error {
	r.mu.Lock()
	defer r.mu.Unlock()
	id := ""
	if res.Request != nil {
		id = res.Request.Header.Get("X-Case")
	}
	r.status[id] = res.StatusCode
	r.resH[id] = cloneHeader(res.Header)
	return nil
}

func (r *innerRecorder) take(id string) (st int, resH, reqH http.Header, u string) {
	r.mu.Lock()
	defer r.mu.Unlock()
	st, resH, reqH, u = r.status[id], r.resH[id], r.reqH[id], r.reqURL[id]
	delete(r.status, id)
	delete(r.resH, id)
	delete(r.reqH, id)
	delete(r.reqURL, id)
	return
}

type innerBeh struct {
	Name  string
	Class string // res_passive | res_status | res_header | res_body | res_error
	// install adds the behaviour's modifiers to the inner group (request side too where the behaviour needs it)
	install func(inner *fifo.Group)
	fails   bool // a failing response modifier follows the recorder
	skips   bool // the behaviour itself skips the round trip (proxyauth without credentials)
	proxy   bool // also run through the real proxy
}

func resFunc(f func(res *http.Response)) martian.ResponseModifier {
	return martian.ResponseModifierFunc(func(res *http.Response) error { f(res); return nil })
}

func setStatus(code int, kv ...string) martian.ResponseModifier {
	return resFunc(func(res *http.Response) {
		res.StatusCode = code
		res.Status = fmt.Sprintf("%d %s", code, http.StatusText(code))
		for i := 0; i+1 < len(kv); i += 2 {
			res.Header.Set(kv[i], kv[i+1])
		}
	})
}

func innerBehaviours() []innerBeh {
	out := []innerBeh{{Name: "passive", Class: "res_passive", install: func(*fifo.Group) {}, proxy: true}}
	for _, code := range []int{200, 204, 302, 400, 401, 407, 500, 502} {
		code := code
		out = append(out, innerBeh{Name: fmt.Sprintf("status.Modifier(%d)", code), Class: "res_status", proxy: code == 204 || code == 302 || code == 407 || code == 502,
			install: func(g *fifo.Group) { g.AddResponseModifier(status.NewModifier(code)) }})
	}
	out = append(out,
		innerBeh{Name: "redirect(302+Location)", Class: "res_status", proxy: true, install: func(g *fifo.Group) {
			g.AddResponseModifier(setStatus(302, "Location", "http://elsewhere.example/"))
		}},
		innerBeh{Name: "challenge(407+Proxy-Authenticate)", Class: "res_status", proxy: true, install: func(g *fifo.Group) {
			g.AddResponseModifier(setStatus(407, "Proxy-Authenticate", "Basic realm=inner"))
		}},
		innerBeh{Name: "challenge(401+WWW-Authenticate)", Class: "res_status", install: func(g *fifo.Group) {
			g.AddResponseModifier(setStatus(401, "WWW-Authenticate", "Basic realm=inner"))
		}},
		innerBeh{Name: "proxyauth.Modifier(no credentials)", Class: "res_status", skips: true, install: func(g *fifo.Group) {
			pa := proxyauth.NewModifier()
			pa.SetRequestModifier(martian.RequestModifierFunc(func(req *http.Request) error {
				auth.FromContext(martian.NewContext(req)).SetError(errors.New("no credentials"))
				return nil
			}))
			g.AddRequestModifier(pa)
			g.AddResponseModifier(pa)
		}},
		innerBeh{Name: "header.Modifier(X-Inner)", Class: "res_header", proxy: true, install: func(g *fifo.Group) {
			g.AddResponseModifier(header.NewModifier("X-Inner", "v"))
		}},
		innerBeh{Name: "hop_headers", Class: "res_header", proxy: true, install: func(g *fifo.Group) {
			g.AddResponseModifier(resFunc(func(res *http.Response) {
				res.Header["Connection"] = append(res.Header["Connection"], "x-inner-hop")
				res.Header["X-Inner-Hop"] = []string{"1"}
				res.Header["Keep-Alive"] = []string{"timeout=1"}
				res.Header["Proxy-Authenticate"] = []string{"Basic realm=inner"}
			}))
		}},
		innerBeh{Name: "body.Modifier", Class: "res_body", proxy: true, install: func(g *fifo.Group) {
			g.AddResponseModifier(body.NewModifier([]byte("inner body"), "text/plain"))
		}},
		innerBeh{Name: "status.Modifier(502)+body.Modifier", Class: "res_status", install: func(g *fifo.Group) {
			g.AddResponseModifier(status.NewModifier(502))
			g.AddResponseModifier(body.NewModifier([]byte("inner body"), "text/plain"))
		}},
		innerBeh{Name: "status.Modifier(204)+header.Modifier", Class: "res_status", install: func(g *fifo.Group) {
			g.AddResponseModifier(status.NewModifier(204))
			g.AddResponseModifier(header.NewModifier("X-Inner", "v"))
		}},
		innerBeh{Name: "fails", Class: "res_error", fails: true, proxy: true, install: func(*fifo.Group) {}},
		innerBeh{Name: "status.Modifier(302)+fails", Class: "res_status", fails: true, proxy: true, install: func(g *fifo.Group) {
			g.AddResponseModifier(status.NewModifier(302))
		}},
		innerBeh{Name: "challenge(407)+fails", Class: "res_status", fails: true, install: func(g *fifo.Group) {
			g.AddResponseModifier(setStatus(407, "Proxy-Authenticate", "Basic realm=inner"))
		}},
		innerBeh{Name: "hop_headers+fails", Class: "res_header", fails: true, install: func(g *fifo.Group) {
			g.AddResponseModifier(resFunc(func(res *http.Response) {
				res.Header["Connection"] = append(res.Header["Connection"], "x-inner-hop")
				res.Header["X-Inner-Hop"] = []string{"1"}
			}))
		}},
		innerBeh{Name: "body.Modifier+fails", Class: "res_body", fails: true, install: func(g *fifo.Group) {
			g.AddResponseModifier(body.NewModifier([]byte("inner body"), "text/plain"))
		}},
	)
	return out
}

var innerReqBehs = []string{"passive", "add_e2e", "error"}

// populate fills the inner group: user request modifier, the behaviour's modifiers, the recorder, and last (the
// group stops at the first error) the failing response modifier.
func populate(inner *fifo.Group, b innerBeh, reqBeh string, rec *innerRecorder) {
	inner.AddRequestModifier(&userMod{reqBeh: reqBeh})
	b.install(inner)
	inner.AddResponseModifier(rec)
	if b.fails {
		inner.AddResponseModifier(&userMod{resBeh: "error"})
	}
}

// loopInnerVias: the Via factor's values that name this instance (6..19) and four that do not.
func loopInnerVias() []int {
	out := []int{0, 1, 4, 5}
	for v := 6; v < nVia; v++ {
		out = append(out, v)
	}
	return out
}

func famLoopInner(x *xrep, tier string) {
	envIdx := []int{2}
	if tier == "thorough" {
		envIdx = histEnvs
	}
	var calls int64
	for _, b := range innerBehaviours() {
		for _, reqBeh := range innerReqBehs {
			outer, inner := httpspec.NewStack("martian")
			rec := newInnerRecorder()
			populate(inner, b, reqBeh, rec)
			// the identity is learnt from a stack of its own kind: a probe through this one (the behaviour may
			// fail the probe) is replaced by reading the entry the request side stamped
			lx := startExchange(outer, env(0), http.Header{})
			lx.finish(outer, nil)
			rec.take("")
			ents := flatten(lx.obs.Out["Via"])
			if lx.obs.Panic != "" || len(ents) != 1 || receivedBy(ents[0]) == "" {
				setIncomplete(x.rep, fmt.Sprintf("loop_inner family: probe through a stack with inner behaviour %s/%s: Via %q panic=%q", reqBeh, b.Name, lx.obs.Out["Via"], lx.obs.Panic))
				continue
			}
			id := identity{rb: receivedBy(ents[0])}
			id.other = otherBoundary(id.rb)
			for _, v := range loopInnerVias() {
				for _, ei := range envIdx {
					x.cases["loop_inner"]++
					x.nontrivial++
					in := baseHeader()
					if vl := viaLines(v, id); vl != nil {
						in["Via"] = vl
					}
					loop := loopAt(in["Via"], id) != 0
					lx := startExchange(outer, env(ei), in)
					lx.finish(outer, nil)
					calls += int64(lx.obs.transition)
					x.transitions += int64(lx.obs.transition)
					recStatus, recH, _, _ := rec.take("")
					x.states[fmt.Sprintf("loop_inner|%s|%s|%d|%d", b.Name, reqBeh, v, ei)] = struct{}{}
					obs := lx.obs
					var fs fails
					if reqBeh == "error" {
						rest, found := dropErrLine(obs.Err, userReqErr)
						if !found && !loop && obs.Panic == "" {
							fs.add("user_error_swallowed", "the user group's request modifier failed but ModifyRequest returned %q", obs.Err)
						}
						obs.Err = rest
					}
					if obs.Out != nil && reqBeh == "add_e2e" {
						obs.Out = cloneHeader(obs.Out)
						delete(obs.Out, "X-User-Added")
					}
					if !loop {
						// no loop: the answer keeps the status it had when it left the user group, and a round
						// trip the user group itself skipped is not the stack's doing
						if obs.ResStatus == recStatus && recStatus != 0 {
							obs.ResStatus = 200
						} else if obs.Panic == "" {
							fs.add("status_changed", "no loop: the response left the user group with status %d and the stack with %d", recStatus, obs.ResStatus)
							obs.ResStatus = 200
						}
						if b.skips {
							obs.Skip = false
						}
					}
					for _, f := range judgeStack("req", in, obs, lx.e, id) {
						fs.add(f.Sym, "%s", f.Desc())
					}
					if obs.Panic == "" {
						for _, f := range judgeResponseHeaders(recH, lx.resOut) {
							fs.add("res_"+f.Sym, "%s", f.Desc())
						}
						resErr := obs.ResErr
						if b.fails {
							rest, found := dropErrLine(resErr, userResErr)
							if !found {
								fs.add("user_error_swallowed", "the user group's response modifier failed but ModifyResponse returned %q", obs.ResErr)
							}
							resErr = rest
						}
						if !loop && resErr != "" {
							fs.add("res_spurious_error", "ModifyResponse returned %q", obs.ResErr)
						}
					}
					for _, f := range fs {
						x.violate("loop_inner", loopClass(in, id)+"_"+b.Class, f.Sym,
							fmt.Sprintf("user group of the stack: request modifier %s, response modifier(s) %s; request (%s from %s) {%s} -> {%s} err=%q skip=%v; the synthetic/origin 200 left the user group as %d {%s} and the stack as %d {%s} err=%q: %s",
								reqBeh, b.Name, lx.e.proto, lx.e.remote, headerString(in), headerString(lx.obs.Out), lx.obs.Err, lx.obs.Skip, recStatus, headerString(recH), lx.obs.ResStatus, headerString(lx.resOut), lx.obs.ResErr, f.Desc()),
							map[string]interface{}{"part": "loop_inner", "inner_response": b.Name, "inner_request": reqBeh, "via": in["Via"], "env": ei})
					}
				}
			}
		}
	}
	setCov(x.rep, "loop_inner_modifier_calls", calls)
}

// ---------------------------------------------------------------------------------------------------
// through the real proxy

func proxyLoopInner(out *xworkerOut, progress string) {
	for _, b := range innerBehaviours() {
		if !b.proxy {
			continue
		}
		for _, reqBeh := range []string{"passive", "error"} {
			rec := newInnerRecorder()
			w, err := newProxyWorldWith(func(p *martian.Proxy, inner *fifo.Group) { populate(inner, b, reqBeh, rec) })
			if err != nil {
				out.violate("proxy_loop_inner:forwarded_"+b.Class+":via_own_missing", fmt.Sprintf("calibration through the proxy (inner behaviour %s/%s) failed: %v", reqBeh, b.Name, err), nil)
				continue
			}
			for ki, v := range []int{0, 1, 6, 11, 16, 19} {
				in := baseHeader()
				if vl := viaLines(v, w.id); vl != nil {
					in["Via"] = vl
				}
				loop := loopAt(in["Via"], w.id) != 0
				os.WriteFile(progress, []byte(fmt.Sprintf("proxy_loop_inner %s %s via=%q", b.Name, reqBeh, in["Via"])), 0o644)
				if !loop && strings.Contains(b.Name, "(204)") {
					continue // a 204 put on the origin's 200-with-body: framing of the answer is C01's subject
				}
				out.Cases["proxy_loop_inner"]++
				id := "li" + strconv.FormatInt(atomic.AddInt64(&w.seq, 1), 10)
				ex := w.exchange(id, in, nil)
				recStatus, _, _, _ := rec.take(id)
				out.Exchanges++
				out.Outcomes[fmt.Sprintf("loop_inner:%s:loop=%v:%s:%d:origin_saw=%d", b.Name, loop, ex.Outcome, ex.Status, len(ex.Origin))]++
				out.States = append(out.States, fmt.Sprintf("proxy_loop_inner|%s|%s|%d", b.Name, reqBeh, ki))
				var fs fails
				if loop {
					fs = w.judgeProxyReq(in, ex, func() bool { return false })
				} else {
					switch {
					case len(ex.Origin) != 1:
						fs.add("not_forwarded", "no loop, but the origin received the request %d times (client got %s %d)", len(ex.Origin), ex.Outcome, ex.Status)
					case ex.Outcome != "response":
						fs.add("no_response", "request forwarded but the client got %s", ex.Outcome)
					case ex.Status != recStatus:
						fs.add("status_changed", "no loop: the response left the user group with status %d, the client got %d", recStatus, ex.Status)
					}
				}
				for _, f := range fs {
					out.violate("proxy_loop_inner:"+loopClass(in, w.id)+"_"+b.Class+":"+f.Sym,
						fmt.Sprintf("proxy + stack whose user group holds request modifier %s and response modifier(s) %s: client sent %q; origin saw %d request(s); the response left the user group with status %d; client got %s %d {%s}: %s",
							reqBeh, b.Name, ex.Sent, len(ex.Origin), recStatus, ex.Outcome, ex.Status, headerString(ex.ResH), f.Desc()),
						map[string]interface{}{"part": "proxy_loop_inner", "inner_response": b.Name, "inner_request": reqBeh, "via": in["Via"]})
				}
			}
			w.close()
		}
	}
}

// ---------------------------------------------------------------------------------------------------
// plain HTTP through a CONNECT tunnel of a MITM-enabled proxy

func proxyMITMPlain(out *xworkerOut, progress string) {
	ca, priv, err := mitm.NewAuthority("c14.proxy", "C14 Authority", 2*time.Hour)
	if err != nil {
		out.Outcomes["mitm_plain:authority_error"]++
		return
	}
	mc, err := mitm.NewConfig(ca, priv)
	if err != nil {
		out.Outcomes["mitm_plain:config_error"]++
		return
	}
	rec := newInnerRecorder()
	w, err := newProxyWorldWith(func(p *martian.Proxy, inner *fifo.Group) {
		p.SetMITM(mc)
		inner.AddRequestModifier(rec)
	})
	if err != nil {
		out.violate("proxy_mitm_plain:plain:via_own_missing", "calibration through the MITM-enabled proxy failed: "+err.Error(), nil)
		return
	}
	defer w.close()
	oaddr := w.origin.l.Addr().String()
	kinds := []exKind{
		{"plain", baseHeader(), nil},
		{"foreign_chain", with(baseHeader(), []string{"Via", "1.0 fred", "1.1 example.com (x)"}, []string{"X-Forwarded-For", "192.0.2.1"}), nil},
		{"existing_forwarded", with(baseHeader(), []string{"X-Forwarded-Proto", "https"}, []string{"X-Forwarded-Host", "orig.example"}, []string{"X-Forwarded-Url", "https://orig.example/p?q=1"}), nil},
		{"loop", with(baseHeader(), []string{"Via", "1.0 fred, 1.1 " + w.id.rb}), nil},
	}
	lib.Sequences(len(kinds), 2, func(seq []int) {
		if len(seq) == 0 {
			return
		}
		var names []string
		for _, i := range seq {
			names = append(names, kinds[i].Name)
		}
		os.WriteFile(progress, []byte("proxy_mitm_plain "+strings.Join(names, ",")), 0o644)
		out.Cases["proxy_mitm_plain"]++
		out.States = append(out.States, "proxy_mitm_plain|"+strings.Join(names, ","))
		c, err := net.DialTimeout("tcp", w.proxyAddr, 10*time.Second)
		if err != nil {
			out.Outcomes["mitm_plain:dial_error"]++
			return
		}
		defer c.Close()
		c.SetDeadline(time.Now().Add(20 * time.Second))
		br := bufio.NewReader(c)
		connectSent := "CONNECT " + oaddr + " HTTP/1.1\r\nHost: " + oaddr + "\r\nUser-Agent: c14\r\n\r\n"
		c.Write([]byte(connectSent))
		line, _, err := readMessage(br, true)
		out.Exchanges++
		if f := strings.Fields(line); err != nil || len(f) < 2 || f[1] != "200" {
			out.violate("proxy_mitm_plain:connect:no_tunnel", fmt.Sprintf("MITM-enabled proxy + stack: client sent %q and got %q (err %v), want 200", connectSent, line, err),
				map[string]interface{}{"part": "proxy_mitm_plain", "kinds": names})
			return
		}
		for pos, i := range seq {
			k := kinds[i]
			id := "mp" + strconv.FormatInt(atomic.AddInt64(&w.seq, 1), 10)
			var sb strings.Builder
			sb.WriteString("GET /c14?x=1 HTTP/1.1\r\nHost: " + oaddr + "\r\nX-Case: " + id + "\r\n")
			writeHeaderLines(&sb, k.Req)
			sb.WriteString("\r\n")
			ex := exchangeT{Sent: sb.String()}
			c.SetDeadline(time.Now().Add(20 * time.Second))
			if _, err := c.Write([]byte(ex.Sent)); err != nil {
				ex.Outcome = "closed_no_response"
			} else if line, h, err := readMessage(br, true); err != nil && h == nil {
				ex.Outcome = "closed_no_response"
				if ne, ok := err.(net.Error); ok && ne.Timeout() {
					ex.Outcome = "timeout"
				}
			} else {
				ex.Outcome, ex.ResH = "response", h
				if f := strings.Fields(line); len(f) > 1 {
					ex.Status, _ = strconv.Atoi(f[1])
				}
			}
			ex.Origin = w.origin.take(id)
			_, _, stamped, stackURL := rec.take(id)
			out.Exchanges++
			out.Outcomes[fmt.Sprintf("mitm_plain:%s:%s:%d:origin_saw=%d", k.Name, ex.Outcome, ex.Status, len(ex.Origin))]++
			loop := loopAt(k.Req["Via"], w.id) != 0
			fs := w.judgeProxyReq(k.Req, ex, func() bool { return false })
			if !loop {
				// the header map as the stack's request side left it (the recorder is the last request modifier)
				switch {
				case stamped == nil:
					fs.add("not_through_stack", "the request inside the tunnel never reached the end of the stack's request side (client got %s %d)", ex.Outcome, ex.Status)
				default:
					mfs := fails{}
					checkRequestManaged(&mfs, k.Req, stamped, w.id, "1.1", "127.0.0.1", "http", oaddr, "http://"+oaddr+"/c14?x=1", true)
					for _, f := range mfs {
						if !fs.has(f.Sym) {
							fs.add(f.Sym, "after the stack's ModifyRequest (request URL there: %s): %s", stackURL, f.Desc())
						}
					}
					if len(ex.Origin) == 0 {
						fs.add("not_forwarded", "plain HTTP request inside the tunnel passed the stack (URL %s) but never reached the origin; client got %s %d {%s}", stackURL, ex.Outcome, ex.Status, headerString(ex.ResH))
					}
				}
			}
			for _, f := range fs {
				var osaw []string
				for _, r := range ex.Origin {
					osaw = append(osaw, r.Line+" {"+headerString(r.H)+"}")
				}
				out.violate("proxy_mitm_plain:"+loopClass(k.Req, w.id)+":"+f.Sym, fmt.Sprintf("MITM-enabled proxy + stack, CONNECT %s answered 200, then plain HTTP requests %v through the tunnel; request %d (%s): client sent %q; after the stack {%s}; origin saw %q; client got %s %d {%s}: %s",
					oaddr, names, pos, k.Name, ex.Sent, headerString(stamped), osaw, ex.Outcome, ex.Status, headerString(ex.ResH), f.Desc()),
					map[string]interface{}{"part": "proxy_mitm_plain", "kinds": names, "position": pos})
			}
			if ex.Outcome != "response" {
				return
			}
			for _, t := range flatten(ex.ResH["Connection"]) {
				if strings.EqualFold(t, "close") {
					return
				}
			}
		}
	})
}
