package main

// Family "a Connection line names a header the stack itself manages". Via and X-Forwarded-For are stamped by
// the stack; when the client's Connection header lists them they are hop-by-hop like any other listed header:
// what the client sent under that name must not be forwarded, and the proxy's own stamp (one Via entry, the
// client address) must still be on the forwarded request - the statement's "gains exactly one Via entry" and
// "strips the headers named in Connection" hold together. Requests whose Via chain names this instance are not
// combined with a Connection line naming Via (whether such a request is a loop is not decided by the statement).
//
// Every combination of the small pools below is run on the real stack (direct ModifyRequest, fresh request and
// context per case).

import (
	"fmt"
	"net/http"
	"strings"

	"github.com/google/martian/v3"

	"verif/lib"
)

type managedCase struct {
	Conn []string `json:"connection"`
	Via  []string `json:"via"`
	XFF  []string `json:"xff"`
	XFoo []string `json:"xfoo"`
}

func runManagedListed(rep *lib.Report, w *stackWorld) {
	conns := [][]string{
		{"Via"}, {"via"}, {"close, Via"}, {" VIA ,X-Foo"}, {"close", "via"},
		{"X-Forwarded-For"}, {"x-forwarded-for, close"}, {"Via, X-Forwarded-For"}, {"X-Foo", "Via , x-forwarded-for"},
	}
	vias := [][]string{nil, {"1.1 other"}, {"1.0 a", "1.1 b (comment)"}, {"1.0 a, 1.1 b"}}
	xffs := [][]string{nil, {"192.0.2.7"}, {"192.0.2.7", "198.51.100.1, 198.51.100.2"}}
	xfoos := [][]string{nil, {"v"}}
	e := env(0)
	cases, fails := int64(0), int64(0)
	seen := map[string]bool{}
	for _, conn := range conns {
		for _, via := range vias {
			for _, xff := range xffs {
				for _, xfoo := range xfoos {
					mc := managedCase{conn, via, xff, xfoo}
					cases++
					in := http.Header{"Connection": conn, "Accept": {"a, b"}, "X-Baz": {"1", "2"}}
					if via != nil {
						in["Via"] = via
					}
					if xff != nil {
						in["X-Forwarded-For"] = xff
					}
					if xfoo != nil {
						in["X-Foo"] = xfoo
					}
					uc := *e.parsed
					req := &http.Request{Method: "POST", URL: &uc, Proto: e.proto, ProtoMajor: e.major, ProtoMinor: e.minor,
						Header: cloneHeader(in), Host: uc.Host, RemoteAddr: e.remote}
					ctx, remove, err := martian.TestContext(req, nil, nil)
					if err != nil {
						setIncomplete(rep, "managed-listed family: TestContext: "+err.Error())
						return
					}
					var problems []string
					add := func(sym, format string, a ...interface{}) {
						problems = append(problems, sym+"\x00"+fmt.Sprintf(format, a...))
					}
					func() {
						defer func() {
							if r := recover(); r != nil {
								add("panic", "panic: %v", r)
							}
						}()
						merr := w.stack.ModifyRequest(req)
						out := req.Header
						if merr != nil {
							add("spurious_error", "ModifyRequest returned %q", merr)
						}
						if ctx.SkippingRoundTrip() {
							add("false_loop_skipped", "the round trip is skipped although no Via entry names this instance")
						}
						hi := newHopInfo(conn)
						// Via
						var own, rest []string
						for _, en := range flatten(out["Via"]) {
							if receivedBy(en) == w.id.rb {
								own = append(own, en)
							} else {
								rest = append(rest, en)
							}
						}
						if len(own) != 1 {
							add("via_own_missing", "Connection %q, Via %q -> %q: %d entries for this proxy, want exactly 1", conn, via, out["Via"], len(own))
						}
						wantRest := flatten(via)
						if hi.kind("Via") == "listed" {
							wantRest = nil
							if len(rest) > 0 {
								add("hop_listed_survives", "Via entries %q named hop-by-hop by Connection %q were forwarded", rest, conn)
							}
						} else if !eqList(rest, wantRest) {
							add("via_existing_lost", "Via %q -> %q: existing entries not all kept in order", via, out["Via"])
						}
						// X-Forwarded-For
						fout := flatten(out["X-Forwarded-For"])
						wantF := append(append([]string{}, flatten(xff)...), e.ip)
						if hi.kind("X-Forwarded-For") == "listed" {
							wantF = []string{e.ip}
						}
						if !eqList(fout, wantF) {
							sym := "xff_client_not_appended"
							if hi.kind("X-Forwarded-For") == "listed" && len(fout) > 1 {
								sym = "hop_listed_survives"
							}
							add(sym, "Connection %q, X-Forwarded-For %q -> %q, want %q", conn, xff, out["X-Forwarded-For"], wantF)
						}
						// X-Foo and the rest
						if _, ok := out["X-Foo"]; ok && hi.kind("X-Foo") == "listed" {
							add("hop_listed_survives", "X-Foo named by Connection %q survives", conn)
						}
						if hi.kind("X-Foo") == "" && !eqList(out["X-Foo"], xfoo) {
							add("end_to_end_changed", "X-Foo %q -> %q", xfoo, out["X-Foo"])
						}
						if _, ok := out["Connection"]; ok {
							add("hop_fixed_survives", "Connection %q survives", out["Connection"])
						}
						if !eqList(out["Accept"], in["Accept"]) || !eqList(out["X-Baz"], in["X-Baz"]) {
							add("end_to_end_changed", "Accept/X-Baz changed: %q %q", out["Accept"], out["X-Baz"])
						}
					}()
					remove()
					if len(problems) > 0 {
						fails++
					}
					for _, p := range problems {
						parts := strings.SplitN(p, "\x00", 2)
						sig := "req:conn_names_managed_header:" + parts[0]
						seen[sig] = true
						rep.Violate(sig, fmt.Sprintf("%+v: %s", mc, parts[1]), map[string]interface{}{"part": "managed_listed", "case": mc})
					}
				}
			}
		}
	}
	setCov(rep, "managed_header_named_by_connection_cases", cases)
	setCov(rep, "managed_header_named_by_connection_failing", fails)
}
