// C14 — the spec-compliance stack strips hop-by-hop headers, stamps Via and stops loops.
//
// Every case is a header multiset described by 12 factors (Connection lines, listed end-to-end headers,
// fixed hop-by-hop headers, Via chain, X-Forwarded-For/-Proto/-Host/-Url, Content-Length, Transfer-Encoding,
// environment = protocol version x client address x URL). The factor groups are largely independent, so the
// space is enumerated as a union of full sub-products (see spaces()): the whole hop-by-hop group
// (Connection x listed x fixed), the hop group pairwise with each other group (x Via, x framing, x
// X-Forwarded-*), and the full product of all non-hop groups over a small set of Connection configurations.
//
// Part 1 (stack): every case is run on httpspec.NewStack directly (martian.TestContext), requests and
// responses, and compared with a reference model written from the property statement.
// Part 2 (proxy): a stated subset is sent as raw bytes over loopback TCP through a real martian.Proxy whose
// request and response modifier is the stack, to a raw origin that logs what it receives; the client parses
// the raw response. Runs in worker subprocesses (a panic in the proxy's connection goroutine cannot be
// recovered) and checks "never sent upstream and answered 400" plus what origin and client really receive.
//
// A failing obligation is minimised factor by factor (simplest value first) and the signature is built from
// the classes of the factors that are still needed plus the symptom, so one defect gives one signature.
package main

import (
	"bufio"
	"encoding/json"
	"fmt"
	"io"
	"net"
	"net/http"
	"net/http/httputil"
	"net/textproto"
	"net/url"
	"os"
	"os/exec"
	"sort"
	"strconv"
	"strings"
	"sync"
	"sync/atomic"
	"time"

	"github.com/google/martian/v3"
	"github.com/google/martian/v3/fifo"
	"github.com/google/martian/v3/httpspec"
	mlog "github.com/google/martian/v3/log"
	"github.com/google/martian/v3/proxyutil"

	"verif/lib"
)

// ---------------------------------------------------------------------------------------------------
// alphabet

const (
	fConn  = iota // Connection header lines (index into the connection configurations)
	fXFoo         // header X-Foo (listed by tokens X-Foo / x-foo): absent, one line, two lines
	fXBar         // header X-Bar (listed by token " X-Bar "): absent, present
	fFixed        // bit mask over fixedNames
	fVia          // index into the Via chains
	fXFF          // X-Forwarded-For: absent, one, two lines, two values on one line
	fXFP          // X-Forwarded-Proto: absent, one, two lines
	fXFH          // X-Forwarded-Host
	fXFU          // X-Forwarded-Url
	fCL           // Content-Length lines
	fTE           // Transfer-Encoding lines
	fEnv          // protocol version x client address x URL (requests only)
	nf
)

var factorNames = [nf]string{"conn", "xfoo", "xbar", "fixed", "via", "xff", "xfproto", "xfhost", "xfurl", "cl", "te", "env"}

// Case is one enumerated header multiset and the direction it travels in.
type Case struct {
	Dir   string  `json:"dir"`             // "req" or "res"
	Proxy bool    `json:"proxy,omitempty"` // through the real proxy
	F     [nf]int `json:"factors"`
}

var tokens = []string{"close", "keep-alive", "X-Foo", "x-foo", " X-Bar ", ""}

// connLists are the comma lists of 1..maxTokens tokens, shortest first.
var (
	connLists   []string
	connListIdx = map[string]int{}
)

func buildConnLists(maxTokens int) {
	connLists = nil
	connListIdx = map[string]int{}
	lib.Sequences(len(tokens), maxTokens, func(seq []int) {
		if len(seq) == 0 {
			return
		}
		parts := make([]string, len(seq))
		for i, t := range seq {
			parts[i] = tokens[t]
		}
		s := strings.Join(parts, ",")
		if _, ok := connListIdx[s]; ok { // e.g. never happens: tokens contain no comma, kept for safety
			return
		}
		connListIdx[s] = len(connLists)
		connLists = append(connLists, s)
	})
}

// connLines decodes a connection configuration: 0 = no Connection header, 1..n = one line, then two lines.
func connLines(idx int) []string {
	n := len(connLists)
	switch {
	case idx == 0:
		return nil
	case idx <= n:
		return []string{connLists[idx-1]}
	default:
		k := idx - n - 1
		return []string{connLists[k/n], connLists[k%n]}
	}
}

func connIndex(lines []string) int {
	n := len(connLists)
	at := func(s string) int {
		i, ok := connListIdx[s]
		if !ok || i >= n {
			panic("not a Connection list of this tier: " + s)
		}
		return i
	}
	switch len(lines) {
	case 0:
		return 0
	case 1:
		return 1 + at(lines[0])
	}
	return n + 1 + at(lines[0])*n + at(lines[1])
}

// shortConn lists the configurations whose lines have at most two tokens.
func shortConn() []int {
	n, short := len(connLists), 0
	for _, l := range connLists {
		if strings.Count(l, ",") < 2 {
			short++
		}
	}
	out := []int{0}
	for a := 0; a < short; a++ {
		out = append(out, 1+a)
	}
	for a := 0; a < short; a++ {
		for b := 0; b < short; b++ {
			out = append(out, n+1+a*n+b)
		}
	}
	return out
}

func connCount() int { n := len(connLists); return 1 + n + n*n }

// fixed hop-by-hop headers other than Connection and Transfer-Encoding (those have their own factors).
// Proxy-Connection is not fixed by the HTTP specification: it is exercised but the model does not care
// whether it survives.
var fixedNames = []string{"Keep-Alive", "Proxy-Authenticate", "Proxy-Authorization", "Te", "Trailer", "Upgrade", "Proxy-Connection"}
var fixedValues = []string{"timeout=5", "Basic realm=x", "Basic Zm9v", "trailers", "X-T", "websocket", "keep-alive"}

const trailerBit = 1 << 4

// always present end-to-end headers, never listed in Connection (X-Foo-Bar has a listed name as prefix).
var alwaysNames = []string{"Accept", "Cache-Control", "User-Agent", "X-Baz", "X-Foo-Bar"}
var alwaysValues = [][]string{{"a, b"}, {"no-cache"}, {"c14"}, {"1", "2"}, {"keep"}}

type identity struct {
	rb    string // received-by of this proxy instance (pseudonym + boundary), learnt from a probe request
	other string // same pseudonym, different boundary
}

const nVia = 20

func viaLines(v int, id identity) []string {
	own := "1.1 " + id.rb
	switch v {
	case 1:
		return []string{"1.0 fred"}
	case 2:
		return []string{"1.0 fred, 1.1 example.com (Apache/1.1)"}
	case 3:
		return []string{"1.0 fred", "1.1 example.com"}
	case 4:
		return []string{"1.0 a", "1.1 b", "1.1 c"}
	case 5:
		return []string{"1.0 fred, 1.1 " + id.other}
	case 6:
		return []string{own}
	case 7:
		return []string{own + ", 1.0 fred"}
	case 8:
		return []string{"1.0 fred, " + own}
	case 9:
		return []string{"HTTP/1.1 " + id.rb + " (comment)"}
	case 10:
		return []string{"1.0 fred", own}
	case 11:
		return []string{"1.0 fred", "1.1 example.com, " + own + " (comment)"}
	// this instance's entry as another hop may re-serialise it: any run of SP / HTAB separates the fields and
	// surrounds the list separator (RFC 7230 3.2.3, 5.7.1)
	case 12:
		return []string{"1.1\t" + id.rb}
	case 13:
		return []string{"1.1  " + id.rb}
	case 14:
		return []string{"1.1 \t" + id.rb}
	case 15:
		return []string{own + "\t(comment)"}
	case 16:
		return []string{"1.0 fred\t,\t" + own + " \t, 1.1 example.com"}
	case 17:
		return []string{"1.0 fred, 1.1\t" + id.rb}
	case 18:
		return []string{"1.0 fred", "1.1  " + id.rb}
	case 19:
		return []string{"1.0 fred", "1.1 example.com,\t1.1 \t" + id.rb + "  (comment)"}
	}
	return nil
}

var xffValues = [][]string{nil, {"192.0.2.1"}, {"192.0.2.1", "198.51.100.2"}, {"192.0.2.1, 198.51.100.2"}}
var xfpValues = [][]string{nil, {"https"}, {"https", "http"}}
var xfhValues = [][]string{nil, {"orig.example"}, {"orig.example", "second.example"}}
var xfuValues = [][]string{nil, {"http://orig.example/p?q=1"}, {"http://orig.example/p?q=1", "http://second.example/"}}
var clValues = [][]string{nil, {"5"}, {"5", "5"}, {"5, 5"}, {"5", "6"}, {"5, 6"}}
var teValues = [][]string{nil, {"chunked"}, {"gzip, chunked"}, {"gzip", "chunked"}, {"gzip"}, {"chunked, gzip"}, {"chunked", "gzip"}}

type envT struct {
	major, minor int
	remote, ip   string
	url          string
	parsed       *url.URL
	proto, ver   string
}

var envProtos = [][2]int{{1, 1}, {1, 0}}
var envRemotes = [][2]string{{"10.0.0.1:5000", "10.0.0.1"}, {"[2001:db8::1]:443", "2001:db8::1"}, {"10.0.0.9", "10.0.0.9"}}
var envURLs = []string{"http://example.com/path", "https://example.com:8443/p?x=1&y=2"}

const nEnv = 12

func env(e int) envT { return envs[e] }

var envs = func() (out [nEnv]envT) {
	for e := range out {
		p := envProtos[e%2]
		r := envRemotes[(e/2)%3]
		out[e] = envT{major: p[0], minor: p[1], remote: r[0], ip: r[1], url: envURLs[e/6]}
		out[e].parsed, _ = url.Parse(out[e].url)
		out[e].proto = fmt.Sprintf("HTTP/%d.%d", p[0], p[1])
		out[e].ver = fmt.Sprintf("%d.%d", p[0], p[1])
	}
	return
}()

// buildHeader returns the header multiset of a case (canonical keys, as net/http parses them off the wire).
func buildHeader(c Case, id identity) http.Header {
	h := http.Header{}
	if l := connLines(c.F[fConn]); l != nil {
		h["Connection"] = l
	}
	switch c.F[fXFoo] {
	case 1:
		h["X-Foo"] = []string{"1"}
	case 2:
		h["X-Foo"] = []string{"1", "2"}
	}
	if c.F[fXBar] == 1 {
		h["X-Bar"] = []string{"b"}
	}
	for i, n := range fixedNames {
		if c.F[fFixed]&(1<<i) != 0 {
			if c.Proxy && n == "Trailer" && c.F[fTE] != 0 {
				continue // a declared trailer on a chunked message is re-announced by net/http itself
			}
			h[n] = []string{fixedValues[i]}
		}
	}
	for i, n := range alwaysNames {
		h[n] = append([]string(nil), alwaysValues[i]...)
	}
	set := func(name string, v []string) {
		if v != nil {
			h[name] = append([]string(nil), v...)
		}
	}
	set("Via", viaLines(c.F[fVia], id))
	set("X-Forwarded-For", xffValues[c.F[fXFF]])
	set("X-Forwarded-Proto", xfpValues[c.F[fXFP]])
	set("X-Forwarded-Host", xfhValues[c.F[fXFH]])
	set("X-Forwarded-Url", xfuValues[c.F[fXFU]])
	set("Content-Length", clValues[c.F[fCL]])
	set("Transfer-Encoding", teValues[c.F[fTE]])
	return h
}

// ---------------------------------------------------------------------------------------------------
// reference model (from the statement)

// hop-by-hop headers fixed by the HTTP specification (RFC 2616 13.5.1 / RFC 7230 6.1): see specHopNames.

func trimOWS(s string) string { return strings.Trim(s, " \t") }

// flatten splits every line of a list-valued header on commas and trims the elements.
func flatten(lines []string) []string {
	var out []string
	for _, l := range lines {
		for _, e := range strings.Split(l, ",") {
			if e = trimOWS(e); e != "" {
				out = append(out, e)
			}
		}
	}
	return out
}

// hopInfo holds the trimmed tokens of a message's Connection lines.
type hopInfo struct{ listed []string }

func newHopInfo(conn []string) hopInfo { return hopInfo{listed: flatten(conn)} }

var specHopNames = []string{"Connection", "Keep-Alive", "Proxy-Authenticate", "Proxy-Authorization", "TE", "Trailer", "Trailers", "Transfer-Encoding", "Upgrade"}

// kind says whether the statement calls header name hop-by-hop: "fixed" (by the HTTP specification),
// "listed" (named by a Connection line, compared case-insensitively after trimming) or "".
func (hi hopInfo) kind(name string) string {
	for _, n := range specHopNames {
		if strings.EqualFold(n, name) {
			return "fixed"
		}
	}
	for _, t := range hi.listed {
		if strings.EqualFold(t, name) {
			return "listed"
		}
	}
	return ""
}

func hopKind(name string, conn []string) string { return newHopInfo(conn).kind(name) }

func receivedBy(entry string) string {
	f := strings.Fields(entry)
	if len(f) < 2 {
		return ""
	}
	return f[1]
}

var managed = map[string]bool{"Via": true, "X-Forwarded-For": true, "X-Forwarded-Proto": true, "X-Forwarded-Host": true,
	"X-Forwarded-Url": true, "Content-Length": true}

func eqList(a, b []string) bool {
	if len(a) != len(b) {
		return false
	}
	for i := range a {
		if a[i] != b[i] {
			return false
		}
	}
	return true
}

func hasPrefixList(a, prefix []string) bool {
	return len(a) >= len(prefix) && eqList(a[:len(prefix)], prefix)
}

// loopAt returns 0 when no Via entry names this instance, 1 when one on the first line does, 2 for a later line.
func loopAt(via []string, id identity) int {
	for i, l := range via {
		for _, e := range flatten([]string{l}) {
			if receivedBy(e) == id.rb {
				if i == 0 {
					return 1
				}
				return 2
			}
		}
	}
	return 0
}

func badCL(cl []string) bool {
	v := flatten(cl)
	for _, x := range v {
		if x != v[0] {
			return true
		}
	}
	return false
}

func badTE(te []string) bool {
	v := flatten(te)
	return len(v) > 0 && !strings.EqualFold(v[len(v)-1], "chunked")
}

type fail struct {
	Sym    string
	format string
	args   []interface{}
}

// Desc renders the description (lazily: most failing cases are only counted).
func (f fail) Desc() string { return fmt.Sprintf(f.format, f.args...) }

type fails []fail

func (fs *fails) add(sym, format string, a ...interface{}) {
	for _, f := range *fs {
		if f.Sym == sym {
			return
		}
	}
	*fs = append(*fs, fail{sym, format, a})
}

func (fs fails) has(sym string) bool {
	for _, f := range fs {
		if f.Sym == sym {
			return true
		}
	}
	return false
}

// checkHopAndOthers: no hop-by-hop header of in survives in out; every other unmanaged header is untouched;
// nothing but managed headers is added. own lists header names (lower case) that the observer's own hop may
// legitimately carry (through the proxy only) and which are judged by the caller.
func checkHopAndOthers(fs *fails, in, out http.Header, skip map[string]bool) {
	conn := in["Connection"]
	hi := newHopInfo(conn)
	for name, vals := range in {
		if skip[name] || name == "Proxy-Connection" {
			continue
		}
		switch hi.kind(name) {
		case "fixed":
			for k := range out {
				if strings.EqualFold(k, name) {
					fs.add("hop_fixed_survives", "fixed hop-by-hop header %s: %q survives", k, out[k])
				}
			}
		case "listed":
			for k := range out {
				if strings.EqualFold(k, name) {
					fs.add("hop_listed_survives", "header %s: %q named by Connection %q survives", k, out[k], conn)
				}
			}
		default:
			if managed[name] {
				continue
			}
			if !eqList(out[name], vals) {
				fs.add("end_to_end_changed", "end-to-end header %s: sent %q, came out as %q", name, vals, out[name])
			}
		}
	}
	for name := range out {
		if _, ok := in[name]; ok || managed[name] || skip[name] || name == "Proxy-Connection" {
			continue
		}
		fs.add("header_added", "header %s: %q was added", name, out[name])
	}
}

// checkRequestManaged: Via, X-Forwarded-* and Content-Length obligations on a request that is forwarded.
func checkRequestManaged(fs *fails, in, out http.Header, id identity, wantVer, ip, scheme, host, rawurl string, framingBad bool) {
	ein, eout := flatten(in["Via"]), flatten(out["Via"])
	var rest []string
	ownN, lastOwn := 0, false
	for i, e := range eout {
		if receivedBy(e) == id.rb {
			ownN++
			lastOwn = i == len(eout)-1
			if v := strings.Fields(e)[0]; v != wantVer && v != "HTTP/"+wantVer {
				fs.add("via_own_wrong_version", "own Via entry %q, protocol version should be %s", e, wantVer)
			}
			continue
		}
		rest = append(rest, e)
	}
	switch {
	case ownN == 0:
		fs.add("via_own_missing", "Via %q -> %q: no entry for this proxy (%s)", in["Via"], out["Via"], id.rb)
	case ownN > 1:
		fs.add("via_own_duplicated", "Via %q -> %q: %d entries for this proxy", in["Via"], out["Via"], ownN)
	case !lastOwn:
		fs.add("via_own_not_last", "Via %q -> %q: entry of this proxy is not after all existing ones", in["Via"], out["Via"])
	}
	if !eqList(rest, ein) {
		fs.add("via_existing_lost", "Via %q -> %q: existing entries %q not all kept in order", in["Via"], out["Via"], ein)
	}

	fin, fout := flatten(in["X-Forwarded-For"]), flatten(out["X-Forwarded-For"])
	if !hasPrefixList(fout, fin) {
		fs.add("xff_existing_lost", "X-Forwarded-For %q -> %q: existing values not all kept in order", in["X-Forwarded-For"], out["X-Forwarded-For"])
	} else if len(fout) != len(fin)+1 || fout[len(fout)-1] != ip {
		fs.add("xff_client_not_appended", "X-Forwarded-For %q -> %q: client address %s not appended exactly once", in["X-Forwarded-For"], out["X-Forwarded-For"], ip)
	}
	for _, x := range []struct{ name, sym, want string }{{"X-Forwarded-Proto", "xfproto", scheme}, {"X-Forwarded-Host", "xfhost", host}, {"X-Forwarded-Url", "xfurl", rawurl}} {
		iv, ov := in[x.name], out[x.name]
		if len(iv) > 0 {
			if !eqList(iv, ov) && !hasPrefixList(flatten(ov), flatten(iv)) {
				fs.add(x.sym+"_existing_lost", "%s %q -> %q: existing values neither preserved nor appended to", x.name, iv, ov)
			}
		} else if !eqList(ov, []string{x.want}) {
			fs.add(x.sym+"_wrong", "%s absent -> %q, want %q", x.name, ov, x.want)
		}
	}

	if !framingBad {
		cin, cout := flatten(in["Content-Length"]), flatten(out["Content-Length"])
		switch {
		case len(cin) == 0 && len(cout) > 0:
			fs.add("cl_added", "Content-Length %q appeared", out["Content-Length"])
		case len(cin) > 0 && len(cout) == 0:
			if len(in["Transfer-Encoding"]) == 0 {
				fs.add("cl_changed", "Content-Length %q removed", in["Content-Length"])
			}
		default:
			for _, v := range cout {
				if v != cin[0] {
					fs.add("cl_changed", "Content-Length %q -> %q", in["Content-Length"], out["Content-Length"])
				}
			}
		}
	}
}

// ---------------------------------------------------------------------------------------------------
// part 1: the stack, driven directly

type stackWorld struct {
	stack interface {
		martian.RequestModifier
		martian.ResponseModifier
	}
	id identity
}

func otherBoundary(rb string) string {
	b := []byte(rb)
	if b[len(b)-1] == '0' {
		b[len(b)-1] = '1'
	} else {
		b[len(b)-1] = '0'
	}
	return string(b)
}

func newStackWorld() (*stackWorld, error) {
	stack, _ := httpspec.NewStack("martian")
	w := &stackWorld{stack: stack}
	u, _ := url.Parse("http://example.com/")
	req := &http.Request{Method: "GET", URL: u, Proto: "HTTP/1.1", ProtoMajor: 1, ProtoMinor: 1, Header: http.Header{}, Host: u.Host, RemoteAddr: "10.0.0.1:5000"}
	_, remove, err := martian.TestContext(req, nil, nil)
	if err != nil {
		return nil, err
	}
	defer remove()
	if err := stack.ModifyRequest(req); err != nil {
		return nil, fmt.Errorf("probe request: %v", err)
	}
	e := flatten(req.Header["Via"])
	if len(e) != 1 || receivedBy(e[0]) == "" {
		return nil, fmt.Errorf("probe request without Via came out with Via %q", req.Header["Via"])
	}
	w.id = identity{rb: receivedBy(e[0])}
	w.id.other = otherBoundary(w.id.rb)
	return w, nil
}

type stackObs struct {
	In, Out    http.Header
	Err        string
	Skip       bool
	ResStatus  int
	ResErr     string
	Panic      string
	transition int
}

func cloneHeader(h http.Header) http.Header {
	o := make(http.Header, len(h)+4)
	for k, v := range h {
		o[k] = append([]string(nil), v...)
	}
	return o
}

func errStr(err error) string {
	if err == nil {
		return ""
	}
	s := err.Error()
	if s == "" {
		s = "(error)"
	}
	return s
}

// evalStack runs one case on the real stack and returns the violated obligations.
func (w *stackWorld) evalStack(c Case) (fs fails, obs stackObs) {
	in := buildHeader(c, w.id)
	obs.In = in
	e := env(0)
	if c.Dir == "req" {
		e = env(c.F[fEnv])
	}
	uc := *e.parsed
	u := &uc
	req := &http.Request{Method: "POST", URL: u, Proto: e.proto, ProtoMajor: e.major, ProtoMinor: e.minor,
		Header: http.Header{}, Host: u.Host, RemoteAddr: e.remote}
	ctx, remove, err := martian.TestContext(req, nil, nil)
	if err != nil {
		fs.add("harness", "TestContext: %v", err)
		return
	}
	defer remove()
	func() {
		defer func() {
			if r := recover(); r != nil {
				obs.Panic = fmt.Sprint(r)
			}
		}()
		if c.Dir == "req" {
			req.Header = cloneHeader(in)
			obs.transition++
			obs.Err = errStr(w.stack.ModifyRequest(req))
			obs.Skip = ctx.SkippingRoundTrip()
			obs.Out = req.Header
			res := proxyutil.NewResponse(200, nil, req)
			obs.transition++
			obs.ResErr = errStr(w.stack.ModifyResponse(res))
			obs.ResStatus = res.StatusCode
		} else {
			res := proxyutil.NewResponse(200, nil, req)
			res.Header = cloneHeader(in)
			obs.transition++
			obs.ResErr = errStr(w.stack.ModifyResponse(res))
			obs.ResStatus = res.StatusCode
			obs.Out = res.Header
		}
	}()
	fs = judgeStack(c.Dir, in, obs, e, w.id)
	return
}

// judgeStack applies the reference model to one observed exchange on the stack: in is what was put in (request
// headers for dir "req", response headers for "res"), obs what the stack made of it, e the request's environment.
func judgeStack(dir string, in http.Header, obs stackObs, e envT, id identity) (fs fails) {
	if obs.Panic != "" {
		fs.add("panic", "panic: %s", obs.Panic)
		return
	}

	if dir == "res" {
		checkHopAndOthers(&fs, in, obs.Out, nil)
		for name := range managed { // nothing is managed on the response side: everything else is untouched
			if hopKind(name, in["Connection"]) == "" && !eqList(in[name], obs.Out[name]) {
				fs.add("end_to_end_changed", "response header %s: %q came out as %q", name, in[name], obs.Out[name])
			}
		}
		if obs.ResStatus != 200 {
			fs.add("status_changed", "response status 200 became %d", obs.ResStatus)
		}
		if obs.ResErr != "" {
			fs.add("spurious_error", "ModifyResponse returned %q", obs.ResErr)
		}
		return
	}

	loop := loopAt(in["Via"], id)
	bad := badCL(in["Content-Length"]) || badTE(in["Transfer-Encoding"])
	if loop != 0 {
		switch {
		case !obs.Skip:
			fs.add("loop_not_skipped", "Via %q names this instance (%s) but the round trip is not skipped (err=%q, Via out %q)", in["Via"], id.rb, obs.Err, obs.Out["Via"])
		case obs.Err == "":
			fs.add("loop_no_error", "Via %q names this instance, round trip skipped but ModifyRequest returned no error", in["Via"])
		case obs.ResStatus != 400:
			fs.add("loop_response_not_400", "Via %q names this instance, response status is %d", in["Via"], obs.ResStatus)
		}
		return
	}
	if obs.Skip {
		fs.add("false_loop_skipped", "Via %q does not name this instance (%s) but the round trip is skipped", in["Via"], id.rb)
		return
	}
	if obs.ResStatus != 200 {
		fs.add("status_changed", "no loop, response status 200 became %d", obs.ResStatus)
	}
	if bad && obs.Err == "" {
		fs.add("framing_not_flagged", "Content-Length %q Transfer-Encoding %q: ModifyRequest returned no error", in["Content-Length"], in["Transfer-Encoding"])
	}
	if !bad && obs.Err != "" {
		fs.add("spurious_error", "ModifyRequest returned %q", obs.Err)
	}
	checkHopAndOthers(&fs, in, obs.Out, nil)
	checkRequestManaged(&fs, in, obs.Out, id, e.ver, e.ip, e.parsed.Scheme, e.parsed.Host, e.url, bad)
	return
}

// ---------------------------------------------------------------------------------------------------
// classes, minimisation, signatures

func classOf(c Case, f int) string {
	v := c.F[f]
	if v == 0 {
		return ""
	}
	switch f {
	case fConn:
		cl := "conn_one_line"
		if v > len(connLists) {
			cl = "conn_two_lines"
		}
		for _, t := range flatten(connLines(v)) {
			if strings.EqualFold(t, "close") {
				return cl + "_with_close"
			}
		}
		return cl
	case fXFoo, fXBar:
		return "listed_hdr"
	case fFixed:
		return "fixed_hdr"
	case fVia:
		switch {
		case v == 1 || v == 2:
			return "via_one_line"
		case v == 3 || v == 4:
			return "via_multi_line"
		case v == 5:
			return "via_same_name_other_boundary"
		case v <= 9:
			return "via_self_first_line"
		case v <= 11:
			return "via_self_later_line"
		case v <= 17:
			return "via_self_ws_variant_first_line"
		default:
			return "via_self_ws_variant_later_line"
		}
	case fXFF:
		if v == 2 {
			return "xff_multi_line"
		}
		return "xff_one_line"
	case fXFP, fXFH, fXFU:
		n := factorNames[f]
		if v == 2 {
			return n + "_multi_line"
		}
		return n + "_one"
	case fCL:
		switch {
		case v == 1:
			return "cl_one"
		case v <= 3:
			return "cl_dup_equal"
		}
		return "cl_conflict"
	case fTE:
		switch {
		case v == 1:
			return "te_chunked"
		case v <= 3:
			return "te_coded_chunked"
		}
		return "te_bad"
	case fEnv:
		return "env_alt"
	}
	return ""
}

func classes(c Case) string {
	var parts []string
	for f := 0; f < nf; f++ {
		if cl := classOf(c, f); cl != "" && (len(parts) == 0 || parts[len(parts)-1] != cl) {
			parts = append(parts, cl)
		}
	}
	if len(parts) == 0 {
		return "plain"
	}
	return strings.Join(parts, "+")
}

// candidates returns the simpler values to try for factor f of c, simplest first.
func candidates(c Case, f int) []int {
	v := c.F[f]
	if v == 0 {
		return nil
	}
	if f == fFixed {
		out := []int{0}
		for i := range fixedNames {
			if v&(1<<i) != 0 && v != 1<<i {
				out = append(out, 1<<i)
			}
		}
		return out
	}
	if f != fConn {
		out := make([]int, v)
		for i := range out {
			out[i] = i
		}
		return out
	}
	out := []int{0}
	seen := map[int]bool{0: true, v: true}
	lines := connLines(v)
	add := func(l []string) {
		if i := connIndex(l); !seen[i] {
			seen[i] = true
			out = append(out, i)
		}
	}
	for _, l := range lines { // single tokens, then whole lines
		for _, t := range strings.Split(l, ",") {
			add([]string{t})
		}
	}
	for _, l := range lines {
		add([]string{l})
	}
	if len(lines) == 2 {
		for _, a := range strings.Split(lines[0], ",") { // the same tokens on one line
			for _, b := range strings.Split(lines[1], ",") {
				add([]string{a + "," + b})
			}
		}
		for _, a := range strings.Split(lines[0], ",") {
			for _, b := range strings.Split(lines[1], ",") {
				add([]string{a, b})
			}
		}
	}
	return out
}

// minimise greedily replaces factor values by simpler ones while obligation sym still fails: first every
// factor is tried at its default, then the remaining ones at every simpler value, until nothing changes.
func minimise(c Case, sym string, eval func(Case) fails) Case {
	for f := 0; f < nf; f++ {
		if c.F[f] != 0 {
			d := c
			d.F[f] = 0
			if eval(d).has(sym) {
				c = d
			}
		}
	}
	for changed := true; changed; {
		changed = false
		for f := 0; f < nf; f++ {
			for _, v := range candidates(c, f) {
				d := c
				d.F[f] = v
				if eval(d).has(sym) {
					c = d
					changed = true
					break
				}
			}
		}
	}
	return c
}

// replayOf is what is needed to re-run a case: the factor tuple plus the Connection lines spelled out
// (the index of a Connection configuration depends on the tier).
func replayOf(part string, min, orig Case) map[string]interface{} {
	return map[string]interface{}{"part": part, "case": min, "conn_lines": connLines(min.F[fConn]), "original": orig, "original_conn_lines": connLines(orig.F[fConn])}
}

type sigMemo struct {
	mu sync.Mutex
	m  map[string]memoEntry
}

type memoEntry struct {
	sig string
	min Case
}

// signature returns the signature of a failed obligation: direction, classes of the minimised case, symptom.
// Results are memoised per (classes of the case, symptom); a case one of whose factors can be reset to its
// default takes the signature of the reduced case (usually already known: simpler cases come first), only a
// case no factor of which can be reset is minimised value by value.
func (sm *sigMemo) signature(prefix string, c Case, sym string, eval func(Case) fails) (string, Case) {
	key := prefix + "|" + classes(c) + "|" + sym
	sm.mu.Lock()
	e, ok := sm.m[key]
	sm.mu.Unlock()
	if ok {
		return e.sig, e.min
	}
	reduced := false
	for f := 0; f < nf && !reduced; f++ {
		if c.F[f] == 0 {
			continue
		}
		d := c
		d.F[f] = 0
		if eval(d).has(sym) {
			e.sig, e.min = sm.signature(prefix, d, sym, eval)
			reduced = true
		}
	}
	if !reduced {
		m := minimise(c, sym, eval)
		e = memoEntry{sig: prefix + ":" + classes(m) + ":" + sym, min: m}
	}
	sm.mu.Lock()
	sm.m[key] = e
	sm.mu.Unlock()
	return e.sig, e.min
}

// ---------------------------------------------------------------------------------------------------
// spaces

type space struct {
	Name string
	Dir  string
	Doms [nf][]int
}

func (s *space) size() int64 {
	n := int64(1)
	for f := 0; f < nf; f++ {
		n *= int64(len(s.Doms[f]))
	}
	return n
}

func (s *space) decode(idx int64) Case {
	c := Case{Dir: s.Dir}
	for f := nf - 1; f >= 0; f-- {
		d := s.Doms[f]
		c.F[f] = d[idx%int64(len(d))]
		idx /= int64(len(d))
	}
	return c
}

func (s *space) contains(c Case) bool {
	if s.Dir != c.Dir {
		return false
	}
	for f := 0; f < nf; f++ {
		found := false
		for _, v := range s.Doms[f] {
			if v == c.F[f] {
				found = true
				break
			}
		}
		if !found {
			return false
		}
	}
	return true
}

func seq(n int) []int {
	out := make([]int, n)
	for i := range out {
		out[i] = i
	}
	return out
}

func mkSpace(name, dir string, set map[int][]int) space {
	s := space{Name: name, Dir: dir}
	for f := 0; f < nf; f++ {
		s.Doms[f] = []int{0}
	}
	for f, d := range set {
		s.Doms[f] = d
	}
	return s
}

// smallConn: a few Connection configurations used where the hop group is not the subject.
func smallConn(n int) []int {
	all := []int{0,
		connIndex([]string{"close"}),
		connIndex([]string{"x-foo"}),
		connIndex([]string{" X-Bar "}),
		connIndex([]string{"keep-alive", "X-Foo"}),
		connIndex([]string{"close", " X-Bar "}),
	}
	all = append(all, connIndex([]string{"X-Foo, X-Bar "}))
	if n > len(all) {
		n = len(all)
	}
	return all[:n]
}

func stackSpaces(tier string) []space {
	allConn := seq(connCount())
	xfoo, xbar := seq(3), seq(2)
	allFixed := seq(1 << len(fixedNames))
	fixedNoneAll := []int{0, 1<<len(fixedNames) - 1}
	framing := map[int][]int{fCL: seq(len(clValues)), fTE: seq(len(teValues))}
	var fixedQuick []int // subsets of size 0, 1, n-1, n
	n := len(fixedNames)
	full := 1<<n - 1
	fixedQuick = append(fixedQuick, 0)
	for i := 0; i < n; i++ {
		fixedQuick = append(fixedQuick, 1<<i)
	}
	for i := 0; i < n; i++ {
		fixedQuick = append(fixedQuick, full&^(1<<i))
	}
	fixedQuick = append(fixedQuick, full)

	hop := func(extra map[int][]int) map[int][]int {
		m := map[int][]int{fConn: allConn, fXFoo: xfoo, fXBar: xbar}
		for k, v := range extra {
			m[k] = v
		}
		return m
	}
	xfAll := map[int][]int{fXFF: seq(4), fXFP: seq(3), fXFH: seq(3), fXFU: seq(3)}
	sc, envSel := smallConn(4), seq(nEnv)
	if tier == "quick" {
		sc, envSel = []int{0, connIndex([]string{"close", " X-Bar "})}, []int{0, 11}
	}
	xbarSmall := []int{0, 1}
	if tier == "quick" {
		xbarSmall = []int{1}
	}
	var out []space
	for _, dir := range []string{"req", "res"} {
		if tier == "quick" {
			out = append(out, mkSpace(dir+"/hop=Conn*XFoo*XBar*Fixed{0,1,n-1,n of 7}*TE{none,chunked}", dir, hop(map[int][]int{fFixed: fixedQuick, fTE: {0, 1}})))
		} else {
			// every subset of the fixed headers with Connection lists of up to 2 tokens, the small/large subsets with all lists
			out = append(out, mkSpace(dir+"/hop=Conn(<=2 tokens per line)*XFoo*XBar*Fixed(all subsets)*TE{none,chunked}", dir,
				map[int][]int{fConn: shortConn(), fXFoo: xfoo, fXBar: xbar, fFixed: allFixed, fTE: {0, 1}}))
			out = append(out, mkSpace(dir+"/hop=Conn*XFoo*XBar*Fixed{0,1,n-1,n of 7}", dir, hop(map[int][]int{fFixed: fixedQuick})))
		}
		// the hop group pairwise with every other group (full product of the pair)
		switch {
		case dir == "req" && tier == "quick":
			out = append(out, mkSpace(dir+"/hop*Via", dir, hop(map[int][]int{fVia: seq(nVia)})))
			out = append(out, mkSpace(dir+"/hop*CL*TE", dir, hop(framing)))
		case dir == "req":
			out = append(out, mkSpace(dir+"/hop*Via", dir, hop(map[int][]int{fVia: seq(nVia)})))
			out = append(out, mkSpace(dir+"/hop(<=2 tokens per line)*CL*TE", dir, map[int][]int{fConn: shortConn(), fXFoo: xfoo, fXBar: xbar, fCL: framing[fCL], fTE: framing[fTE]}))
			out = append(out, mkSpace(dir+"/hop*CL{none,5,5|6}*TE{none,chunked,gzip}", dir, hop(map[int][]int{fCL: {0, 1, 4}, fTE: {0, 1, 4}})))
			out = append(out, mkSpace(dir+"/hop*TE", dir, hop(map[int][]int{fTE: framing[fTE]})))
			out = append(out, mkSpace(dir+"/hop*CL", dir, hop(map[int][]int{fCL: framing[fCL]})))
		default: // nothing but the hop-by-hop modifier acts on a response: fewer values of the other groups
			out = append(out, mkSpace(dir+"/hop*Via{none,two lines,self on second line}", dir, hop(map[int][]int{fVia: {0, 3, 10}})))
			out = append(out, mkSpace(dir+"/hop*CL{none,5,5|6}*TE{none,chunked,gzip}", dir, hop(map[int][]int{fCL: {0, 1, 4}, fTE: {0, 1, 4}})))
		}
		// each X-Forwarded-* header: For varied on its own, all present together on one / two lines
		out = append(out, mkSpace(dir+"/hop*XFF", dir, hop(map[int][]int{fXFF: seq(4)})))
		out = append(out, mkSpace(dir+"/hop*XF{all one line}", dir, hop(map[int][]int{fXFF: {1}, fXFP: {1}, fXFH: {1}, fXFU: {1}})))
		out = append(out, mkSpace(dir+"/hop*XF{all two lines}", dir, hop(map[int][]int{fXFF: {2}, fXFP: {2}, fXFH: {2}, fXFU: {2}})))
		if tier != "quick" {
			m := map[int][]int{fConn: shortConn(), fXFoo: xfoo, fXBar: xbar}
			for k, v := range xfAll {
				m[k] = v
			}
			out = append(out, mkSpace(dir+"/hop(<=2 tokens per line)*XFF*XFProto*XFHost*XFUrl", dir, m))
		}
		// full product of all non-hop groups over a few Connection configurations
		m := map[int][]int{fConn: sc, fXFoo: {0, 2}, fXBar: xbarSmall, fFixed: fixedNoneAll, fVia: seq(nVia), fCL: framing[fCL], fTE: framing[fTE]}
		for k, v := range xfAll {
			m[k] = v
		}
		if dir == "req" {
			m[fEnv] = envSel
		}
		out = append(out, mkSpace(dir+"/fewConn*XFoo{0,2}*XBar*Fixed{none,all}*Via*XFF*XFProto*XFHost*XFUrl*CL*TE*Env", dir, m))
	}
	return out
}

func (s *space) describe() string {
	var parts []string
	for f := 0; f < nf; f++ {
		if len(s.Doms[f]) > 1 || s.Doms[f][0] != 0 {
			parts = append(parts, fmt.Sprintf("%s:%d", factorNames[f], len(s.Doms[f])))
		}
	}
	return fmt.Sprintf("%s [%s] = %d", s.Name, strings.Join(parts, " x "), s.size())
}

// nontrivial: the model demands something beyond stamping a plain message.
func nontrivial(c Case, in http.Header, id identity) bool {
	hi := newHopInfo(in["Connection"])
	for name := range in {
		if hi.kind(name) != "" {
			return true
		}
	}
	return c.F[fVia] != 0 || c.F[fXFF] != 0 || c.F[fXFP] != 0 || c.F[fXFH] != 0 || c.F[fXFU] != 0 || c.F[fCL] != 0
}

// stateKey: abstract state = direction, set of header names the model removes, classes of the managed groups.
func stateKey(c Case, in http.Header) uint64 {
	hi := newHopInfo(in["Connection"])
	k := uint64(0)
	if c.Dir == "res" {
		k = 1
	}
	bit := uint(1)
	for _, n := range stateNames {
		if _, ok := in[n]; ok && hi.kind(n) != "" {
			k |= 1 << bit
		}
		bit++
	}
	for _, f := range []int{fVia, fXFF, fXFP, fXFH, fXFU, fCL, fTE, fEnv} {
		k = k*9 + uint64(classCode(c, f))
	}
	return k
}

var stateNames = append([]string{"Connection", "X-Foo", "X-Bar", "Transfer-Encoding"}, fixedNames...)

// classCode numbers the classes of one factor (0 = default value).
func classCode(c Case, f int) int {
	cl := classOf(c, f)
	if cl == "" {
		return 0
	}
	return classCodeOf[cl]
}

var classCodeOf = map[string]int{"via_one_line": 1, "via_multi_line": 2, "via_same_name_other_boundary": 3, "via_self_first_line": 4, "via_self_later_line": 5, "via_self_ws_variant_first_line": 6, "via_self_ws_variant_later_line": 7,
	"xff_one_line": 1, "xff_multi_line": 2, "xfproto_one": 1, "xfproto_multi_line": 2, "xfhost_one": 1, "xfhost_multi_line": 2, "xfurl_one": 1, "xfurl_multi_line": 2,
	"cl_one": 1, "cl_dup_equal": 2, "cl_conflict": 3, "te_chunked": 1, "te_coded_chunked": 2, "te_bad": 3, "env_alt": 1}

func headerString(h http.Header) string {
	var keys []string
	for k := range h {
		keys = append(keys, k)
	}
	sort.Strings(keys)
	var sb strings.Builder
	for _, k := range keys {
		for _, v := range h[k] {
			fmt.Fprintf(&sb, "%s: %q; ", k, v)
		}
	}
	return sb.String()
}

// stackOut is what one stack shard (a worker process) reports.
type stackOut struct {
	Done                                              bool
	ID                                                string // received-by of this worker's stack instance
	Cases, Distinct, Nontrivial, Transitions, Failing int64
	MinEvals                                          int64
	States                                            []uint64
	Violations                                        []lib.Violation // described ones, at most 3 per signature
	SigCounts                                         map[string]int64
	Samples                                           []interface{}
	Incomplete                                        string
}

// stackShard enumerates the shard-th of n contiguous ranges of every stack space. The work is split over
// processes, not goroutines: martian's context table is behind one global mutex that every TestContext takes.
func stackShard(tier string, shard, n int, outFile string) {
	out := stackOut{SigCounts: map[string]int64{}}
	write := func() {
		b, _ := json.Marshal(out)
		os.WriteFile(outFile, b, 0o644)
	}
	w, err := newStackWorld()
	if err != nil {
		if shard == 0 {
			out.Violations = append(out.Violations, lib.Violation{Sig: "req:plain:via_own_missing", Desc: "calibration failed: " + err.Error()})
			out.SigCounts["req:plain:via_own_missing"] = 1
		}
		out.Done = true
		write()
		return
	}
	out.ID = w.id.rb
	spaces := stackSpaces(tier)
	memo := &sigMemo{m: map[string]memoEntry{}}
	states := map[uint64]struct{}{}
	described := map[string]int{}
	eval := func(c Case) fails { out.MinEvals++; fs, _ := w.evalStack(c); return fs }
	deadline := time.Now().Add(13 * time.Minute)
	for si := range spaces {
		s := &spaces[si]
		size := s.size()
		lo, hi := size*int64(shard)/int64(n), size*int64(shard+1)/int64(n)
		earlier := spaces[:si]
		for idx := lo; idx < hi; idx++ {
			if idx&1023 == 0 && time.Now().After(deadline) {
				out.Incomplete = "stack shard stopped at its 13 minute cap"
				break
			}
			c := s.decode(idx)
			fs, obs := w.evalStack(c)
			out.Cases++
			out.Transitions += int64(obs.transition)
			dup := false
			for ei := range earlier {
				if earlier[ei].contains(c) {
					dup = true
					break
				}
			}
			if !dup {
				out.Distinct++
				if nontrivial(c, obs.In, w.id) {
					out.Nontrivial++
				}
			}
			states[stateKey(c, obs.In)] = struct{}{}
			if idx == lo && len(out.Samples) < 2 && (si+shard)%5 == 0 {
				out.Samples = append(out.Samples, map[string]interface{}{"space": s.Name, "case": c, "conn_lines": connLines(c.F[fConn]), "in": headerString(obs.In), "out": headerString(obs.Out),
					"err": obs.Err, "skip_round_trip": obs.Skip, "response_status": obs.ResStatus})
			}
			if len(fs) == 0 {
				continue
			}
			out.Failing++
			for _, f := range fs {
				sig, min := memo.signature(c.Dir, c, f.Sym, eval)
				out.SigCounts[sig]++
				if described[sig] < 3 {
					described[sig]++
					mfs, mobs := w.evalStack(min)
					desc := f.Desc()
					for _, mf := range mfs {
						if mf.Sym == f.Sym {
							desc = mf.Desc()
						}
					}
					out.Violations = append(out.Violations, lib.Violation{Sig: sig,
						Desc:   fmt.Sprintf("%s stack, minimised case: in {%s} -> out {%s} err=%q skip=%v response=%d: %s", c.Dir, headerString(mobs.In), headerString(mobs.Out), mobs.Err, mobs.Skip, mobs.ResStatus, desc),
						Replay: replayOf("stack", min, c)})
				}
			}
		}
	}
	for k := range states {
		out.States = append(out.States, k)
	}
	out.Done = true
	write()
}

// covMu guards rep.Coverage and rep.Incomplete: the parts of the check run concurrently.
var covMu sync.Mutex

func setCov(rep *lib.Report, key string, v interface{}) {
	covMu.Lock()
	rep.Coverage[key] = v
	covMu.Unlock()
}

func setIncomplete(rep *lib.Report, why string) {
	covMu.Lock()
	rep.Incomplete = why
	covMu.Unlock()
}

// runStack returns the identities (received-by) of the stack instances of its worker processes.
func runStack(rep *lib.Report, tier string) (ids []string) {
	var descr []string
	for _, s := range stackSpaces(tier) {
		descr = append(descr, s.describe())
	}
	setCov(rep, "stack_spaces", descr)
	setCov(rep, "connection_configurations", connCount())
	dir, err := os.MkdirTemp("", "c14-stack-")
	if err != nil {
		setIncomplete(rep, "cannot create temp dir: "+err.Error())
		return
	}
	defer os.RemoveAll(dir)
	files, errs, outs := lib.RunShards(16, dir)
	states := map[uint64]struct{}{}
	sigCounts := map[string]int64{}
	stored := map[string]int64{}
	for i, f := range files {
		var so stackOut
		b, _ := os.ReadFile(f)
		json.Unmarshal(b, &so)
		if !so.Done {
			tail := outs[i]
			if len(tail) > 1500 {
				tail = tail[:1500]
			}
			rep.Violate("stack:worker:crash", fmt.Sprintf("stack shard %d died (%v): %s", i, errs[i], tail), nil)
			setIncomplete(rep, "a stack shard died")
			continue
		}
		if so.Incomplete != "" {
			setIncomplete(rep, so.Incomplete)
		}
		if so.ID != "" {
			ids = append(ids, so.ID)
		}
		rep.Count("stack_cases", so.Cases)
		rep.Count("stack_distinct_cases", so.Distinct)
		rep.Count("stack_nontrivial", so.Nontrivial)
		rep.Count("stack_transitions", so.Transitions)
		rep.Count("stack_failing_cases", so.Failing)
		rep.Count("stack_minimisation_evaluations", so.MinEvals)
		for _, h := range so.States {
			states[h] = struct{}{}
		}
		for _, smp := range so.Samples {
			rep.Sample(8, smp)
		}
		for _, v := range so.Violations {
			if stored[v.Sig] < 3 {
				stored[v.Sig]++
				rep.Violate(v.Sig, v.Desc, v.Replay)
			}
		}
		for sig, cnt := range so.SigCounts {
			sigCounts[sig] += cnt
		}
	}
	for sig, cnt := range sigCounts { // one Violate call per failing case; descriptions only for the first ones
		for k := stored[sig]; k < cnt; k++ {
			rep.Violate(sig, "", nil)
		}
	}
	rep.Count("stack_states", int64(len(states)))
	return
}

// ---------------------------------------------------------------------------------------------------
// part 2: through the real proxy (worker subprocess)

type originRec struct {
	Line string
	H    http.Header
}

type originT struct {
	l    net.Listener
	mu   sync.Mutex
	log  map[string][]originRec
	resp map[string][]byte
}

func newOrigin() (*originT, error) {
	l, err := net.Listen("tcp", "127.0.0.1:0")
	if err != nil {
		return nil, err
	}
	o := &originT{l: l, log: map[string][]originRec{}, resp: map[string][]byte{}}
	go func() {
		for {
			c, err := l.Accept()
			if err != nil {
				return
			}
			go o.serve(c)
		}
	}()
	return o, nil
}

// readMessage reads a start line, the raw header fields and the body as framed by the headers.
func readMessage(br *bufio.Reader, response bool) (string, http.Header, error) {
	tp := textproto.NewReader(br)
	line, err := tp.ReadLine()
	if err != nil {
		return "", nil, err
	}
	mh, err := tp.ReadMIMEHeader()
	if err != nil {
		return line, nil, err
	}
	h := http.Header(mh)
	te := flatten(h["Transfer-Encoding"])
	switch {
	case len(te) > 0 && strings.EqualFold(te[len(te)-1], "chunked"):
		if _, err := io.Copy(io.Discard, httputil.NewChunkedReader(br)); err != nil {
			return line, h, err
		}
		if _, err := tp.ReadMIMEHeader(); err != nil && err != io.EOF { // trailers and the final blank line
			return line, h, err
		}
	case len(h["Content-Length"]) > 0:
		n, err := strconv.Atoi(trimOWS(flatten(h["Content-Length"])[0]))
		if err != nil {
			return line, h, err
		}
		if _, err := io.CopyN(io.Discard, br, int64(n)); err != nil {
			return line, h, err
		}
	case response:
		if f := strings.Fields(line); len(f) > 1 && (f[1] == "204" || f[1] == "304" || strings.HasPrefix(f[1], "1")) {
			break
		}
		io.Copy(io.Discard, br)
	}
	return line, h, nil
}

const defaultResponse = "HTTP/1.1 200 OK\r\nContent-Length: 2\r\nX-Origin: yes\r\n\r\nok"

func (o *originT) serve(c net.Conn) {
	defer c.Close()
	br := bufio.NewReader(c)
	for {
		c.SetDeadline(time.Now().Add(60 * time.Second))
		line, h, err := readMessage(br, false)
		if err != nil {
			return
		}
		id := h.Get("X-Case")
		o.mu.Lock()
		o.log[id] = append(o.log[id], originRec{line, h})
		raw, ok := o.resp[id]
		o.mu.Unlock()
		if !ok {
			raw = []byte(defaultResponse)
		}
		if _, err := c.Write(raw); err != nil {
			return
		}
		rh := string(raw[:strings.Index(string(raw), "\r\n\r\n")+2])
		lower := strings.ToLower(rh)
		if !strings.Contains(lower, "\r\ncontent-length:") && !strings.Contains(lower, "\r\ntransfer-encoding:") {
			return // close-delimited
		}
		for _, l := range strings.Split(lower, "\r\n") {
			if strings.HasPrefix(l, "connection:") && strings.Contains(l, "close") {
				return
			}
		}
	}
}

func (o *originT) take(id string) []originRec {
	o.mu.Lock()
	defer o.mu.Unlock()
	r := o.log[id]
	delete(o.log, id)
	delete(o.resp, id)
	return r
}

type proxyWorld struct {
	origin    *originT
	proxyAddr string
	id        identity
	seq       int64
	refused   map[string]bool
	closers   []io.Closer
}

// close stops the world's listeners (families that build many worlds).
func (w *proxyWorld) close() {
	for _, c := range w.closers {
		c.Close()
	}
}

func newProxyWorld() (*proxyWorld, error) { return newProxyWorldWith(nil) }

// newProxyWorldWith: setup may configure the proxy and populate the stack's user group before serving starts.
func newProxyWorldWith(setup func(p *martian.Proxy, inner *fifo.Group)) (*proxyWorld, error) {
	mlog.SetLevel(mlog.Silent)
	o, err := newOrigin()
	if err != nil {
		return nil, err
	}
	p := martian.NewProxy()
	stack, inner := httpspec.NewStack("martian")
	if setup != nil {
		setup(p, inner)
	}
	p.SetRequestModifier(stack)
	p.SetResponseModifier(stack)
	l, err := net.Listen("tcp", "127.0.0.1:0")
	if err != nil {
		return nil, err
	}
	go p.Serve(l)
	w := &proxyWorld{origin: o, proxyAddr: l.Addr().String(), refused: map[string]bool{}, closers: []io.Closer{l, o.l}}
	// learn this instance's Via identity from what the origin receives for a plain request
	ex := w.exchange("probe", nil, nil)
	if len(ex.Origin) != 1 {
		return nil, fmt.Errorf("probe request: origin received %d requests, client outcome %s", len(ex.Origin), ex.Outcome)
	}
	e := flatten(ex.Origin[0].H["Via"])
	if len(e) != 1 || receivedBy(e[0]) == "" {
		return nil, fmt.Errorf("probe request without Via reached the origin with Via %q", ex.Origin[0].H["Via"])
	}
	w.id = identity{rb: receivedBy(e[0])}
	w.id.other = otherBoundary(w.id.rb)
	return w, nil
}

type exchangeT struct {
	Outcome string // "response", "closed_no_response", "dial_error", "timeout"
	Status  int
	ResH    http.Header
	Origin  []originRec
	Sent    string
	Served  string // raw response the origin was told to send ("" = default)
}

func writeHeaderLines(sb *strings.Builder, h http.Header) {
	var keys []string
	for k := range h {
		keys = append(keys, k)
	}
	sort.Strings(keys)
	for _, k := range keys {
		for _, v := range h[k] {
			sb.WriteString(k + ": " + v + "\r\n")
		}
	}
}

func bodyFor(h http.Header) string {
	switch {
	case len(h["Transfer-Encoding"]) > 0:
		return "5\r\nhello\r\n0\r\n\r\n"
	case len(h["Content-Length"]) > 0:
		n := 0
		for _, v := range flatten(h["Content-Length"]) {
			if k, _ := strconv.Atoi(v); k > n {
				n = k
			}
		}
		return "hello!!!"[:n]
	}
	return ""
}

// exchange sends one raw request through the proxy; reqH are the client's header fields (nil: plain GET),
// resH the origin's response header fields (nil: default response).
func (w *proxyWorld) exchange(id string, reqH, resH http.Header) exchangeT {
	var ex exchangeT
	oaddr := w.origin.l.Addr().String()
	if resH != nil {
		var sb strings.Builder
		sb.WriteString("HTTP/1.1 200 OK\r\n")
		writeHeaderLines(&sb, resH)
		sb.WriteString("\r\n")
		if b := bodyFor(resH); b != "" {
			sb.WriteString(b)
		} else {
			sb.WriteString("hello") // close-delimited
		}
		ex.Served = sb.String()
		w.origin.mu.Lock()
		w.origin.resp[id] = []byte(sb.String())
		w.origin.mu.Unlock()
	}
	method := "GET"
	if len(reqH["Content-Length"]) > 0 || len(reqH["Transfer-Encoding"]) > 0 {
		method = "POST"
	}
	var sb strings.Builder
	sb.WriteString(method + " http://" + oaddr + "/c14?x=1 HTTP/1.1\r\nHost: " + oaddr + "\r\nX-Case: " + id + "\r\n")
	if reqH == nil {
		reqH = http.Header{"User-Agent": {"c14"}}
	}
	writeHeaderLines(&sb, reqH)
	sb.WriteString("\r\n")
	sb.WriteString(bodyFor(reqH))
	ex.Sent = sb.String()

	// a connection to the in-process listener that could not be opened (seen once at load average 420: the 10 s
	// ran out) has sent nothing: dialling again is not a retry of the case
	var c net.Conn
	var err error
	for attempt := 0; attempt < 3; attempt++ {
		if c, err = net.DialTimeout("tcp", w.proxyAddr, 10*time.Second); err == nil {
			break
		}
	}
	if err != nil {
		ex.Outcome = "dial_error"
		return ex
	}
	defer c.Close()
	c.SetDeadline(time.Now().Add(20 * time.Second)) // generous hang deadline: an answer is demanded
	if _, err := c.Write([]byte(ex.Sent)); err != nil {
		ex.Outcome = "closed_no_response"
	} else {
		line, h, err := readMessage(bufio.NewReader(c), true)
		switch {
		case err != nil && h == nil:
			ex.Outcome = "closed_no_response"
			if ne, ok := err.(net.Error); ok && ne.Timeout() {
				ex.Outcome = "timeout"
			}
		default:
			ex.Outcome = "response"
			ex.ResH = h
			if f := strings.Fields(line); len(f) > 1 {
				ex.Status, _ = strconv.Atoi(f[1])
			}
		}
	}
	c.Close()
	ex.Origin = w.origin.take(id)
	return ex
}

// ownHop are the headers the observing side's own hop may carry (the proxy's own framing and connection
// management towards origin / client); only their values are checked.
var ownHop = map[string]bool{"Connection": true, "Transfer-Encoding": true, "Host": true, "Accept-Encoding": true, "X-Case": true}

func checkOwnHop(fs *fails, out http.Header) {
	for _, t := range flatten(out["Connection"]) {
		if lt := strings.ToLower(t); lt != "close" && lt != "keep-alive" {
			fs.add("hop_connection_token_forwarded", "Connection %q on the other side still carries the sender's token %q", out["Connection"], t)
		}
	}
	for _, t := range flatten(out["Transfer-Encoding"]) {
		if !strings.EqualFold(t, "chunked") {
			fs.add("hop_fixed_survives", "Transfer-Encoding %q forwarded", out["Transfer-Encoding"])
		}
	}
}

// refusedByParser says whether the request of c with the Via chain removed is dropped by the proxy without an
// answer and without reaching the origin, i.e. net/http's request parser refuses its framing.
func (w *proxyWorld) refusedByParser(c Case) bool {
	c.F[fVia] = 0
	key := fmt.Sprint(c.F)
	if r, ok := w.refused[key]; ok {
		return r
	}
	id := strconv.FormatInt(atomic.AddInt64(&w.seq, 1), 10)
	ex := w.exchange(id, buildHeader(c, w.id), nil)
	r := ex.Outcome == "closed_no_response" && len(ex.Origin) == 0
	w.refused[key] = r
	return r
}

func (w *proxyWorld) evalProxy(c Case) (fs fails, ex exchangeT) {
	in := buildHeader(c, w.id)
	id := strconv.FormatInt(atomic.AddInt64(&w.seq, 1), 10)
	if c.Dir == "res" {
		ex = w.exchange(id, nil, in)
		fs = w.judgeProxyRes(in, ex)
		return
	}
	ex = w.exchange(id, in, nil)
	fs = w.judgeProxyReq(in, ex, func() bool { return w.refusedByParser(c) })
	return
}

// judgeProxyRes: the origin answered with header in; ex is what the client got.
func (w *proxyWorld) judgeProxyRes(in http.Header, ex exchangeT) (fs fails) {
	{
		if len(ex.Origin) != 1 {
			fs.add("harness", "plain request reached the origin %d times (outcome %s)", len(ex.Origin), ex.Outcome)
			return
		}
		if ex.Outcome != "response" {
			fs.add("no_response", "origin answered but the client got %s", ex.Outcome)
			return
		}
		if ex.Status != 200 {
			if ex.Status == 502 { // net/http's client side refused the origin's response: outside C14
				return
			}
			fs.add("status_changed", "origin answered 200, client got %d", ex.Status)
			return
		}
		skip := map[string]bool{"Connection": true, "Transfer-Encoding": true, "Content-Length": true}
		checkHopAndOthers(&fs, in, ex.ResH, skip)
		checkOwnHop(&fs, ex.ResH)
		for name := range managed {
			if name != "Content-Length" && hopKind(name, in["Connection"]) == "" && !eqList(in[name], ex.ResH[name]) {
				fs.add("end_to_end_changed", "response header %s: origin sent %q, client got %q", name, in[name], ex.ResH[name])
			}
		}
		if len(ex.ResH["Warning"]) > 0 {
			fs.add("spurious_error", "client got Warning %q", ex.ResH["Warning"])
		}
		return
	}
}

// judgeProxyReq: the client sent header in; ex is what origin and client saw. refused says whether the same
// message without its Via chain is dropped by net/http's request parser.
func (w *proxyWorld) judgeProxyReq(in http.Header, ex exchangeT, refused func() bool) (fs fails) {
	oaddr := w.origin.l.Addr().String()
	loop := loopAt(in["Via"], w.id)
	bad := badCL(in["Content-Length"]) || badTE(in["Transfer-Encoding"])
	if loop != 0 {
		switch {
		case len(ex.Origin) > 0:
			fs.add("loop_sent_upstream", "Via %q names this instance (%s) but the origin received the request (Via there: %q); client got %s %d", in["Via"], w.id.rb, ex.Origin[0].H["Via"], ex.Outcome, ex.Status)
		case ex.Outcome == "closed_no_response" && refused():
			// the same message without the loop is refused by net/http's request parser too: no modifier ever ran
		case ex.Outcome != "response" || ex.Status != 400:
			fs.add("loop_response_not_400", "Via %q names this instance, not sent upstream, but the client got %s %d", in["Via"], ex.Outcome, ex.Status)
		}
		return
	}
	if len(ex.Origin) == 0 {
		if ex.Outcome == "response" && ex.Status == 400 && len(ex.ResH["Warning"]) > 0 && strings.Contains(strings.Join(ex.ResH["Warning"], " "), "loop") {
			fs.add("false_loop_skipped", "Via %q does not name this instance (%s) but the request was answered 400 and not sent upstream", in["Via"], w.id.rb)
		}
		return // refused before forwarding (net/http's request parser): nothing passed through the stack
	}
	if len(ex.Origin) > 1 {
		fs.add("harness", "request reached the origin %d times", len(ex.Origin))
		return
	}
	if ex.Outcome != "response" {
		fs.add("no_response", "request forwarded but the client got %s", ex.Outcome)
		return
	}
	flagged := len(ex.ResH["Warning"]) > 0
	if bad && !flagged {
		fs.add("framing_not_flagged", "Content-Length %q Transfer-Encoding %q forwarded upstream and the response carries no Warning", in["Content-Length"], in["Transfer-Encoding"])
	}
	if !bad && flagged {
		fs.add("spurious_error", "client got Warning %q", ex.ResH["Warning"])
	}
	if !bad && ex.Status != 200 {
		fs.add("status_changed", "origin answered 200, client got %d", ex.Status)
	}
	got := ex.Origin[0].H
	skip := map[string]bool{"Connection": true, "Transfer-Encoding": true, "Host": true, "Accept-Encoding": true, "X-Case": true}
	checkHopAndOthers(&fs, in, got, skip)
	checkOwnHop(&fs, got)
	mfs := fails{}
	checkRequestManaged(&mfs, in, got, w.id, "1.1", "127.0.0.1", "http", oaddr, "http://"+oaddr+"/c14?x=1", true)
	for _, f := range mfs {
		fs.add(f.Sym, "%s", f.Desc())
	}
	return
}

func proxySpaces(tier string) []space {
	conn := []int{0}
	for _, t := range tokens {
		conn = append(conn, connIndex([]string{t}))
	}
	conn = append(conn, connIndex([]string{"close,X-Foo"}), connIndex([]string{"x-foo, X-Bar "}))
	for _, a := range []string{"close", "X-Foo"} {
		for _, b := range []string{"x-foo", " X-Bar ", ""} {
			conn = append(conn, connIndex([]string{a, b}))
		}
	}
	fixedNoneAll := []int{0, 1<<len(fixedNames) - 1}
	reqSet := map[int][]int{fConn: conn, fXFoo: {0, 2}, fXBar: {0, 1}, fFixed: fixedNoneAll, fVia: seq(nVia),
		fXFF: seq(4), fCL: seq(len(clValues)), fTE: seq(len(teValues))}
	reqXF := map[int][]int{fConn: {0, connIndex([]string{"x-foo"})}, fVia: {0, 3, 10}, fXFF: seq(4), fXFP: seq(3), fXFH: seq(3), fXFU: seq(3), fCL: {0, 1}}
	resSet := map[int][]int{fConn: conn, fXFoo: {0, 2}, fXBar: {0, 1}, fFixed: fixedNoneAll, fVia: {0, 1, 3, 10}, fXFF: {0, 2}, fCL: {0, 1}, fTE: {0, 1}}
	if tier == "quick" {
		reqSet[fCL] = []int{0, 1, 2, 4}
		reqSet[fTE] = []int{0, 1, 4}
		reqSet[fXFF] = []int{0, 2}
	}
	return []space{
		mkSpace("proxy req/Conn*XFoo{0,2}*XBar*Fixed{none,all}*Via*XFF*CL*TE", "req", reqSet),
		mkSpace("proxy req/Conn{none,x-foo}*Via{none,two lines,self later}*XFF*XFProto*XFHost*XFUrl*CL{none,5}", "req", reqXF),
		mkSpace("proxy res/Conn*XFoo{0,2}*XBar*Fixed{none,all}*Via{none,one,two lines,self}*XFF{none,two lines}*CL{none,5}*TE{none,chunked}", "res", resSet),
	}
}

type workerOut struct {
	Done       bool
	Counters   map[string]int64
	States     []string
	Violations []lib.Violation
	Counts     map[string]int
	Samples    []interface{}
	Outcomes   map[string]int64
}

// proxyWorker runs the cases i (mod n) == shard starting at global position start.
func proxyWorker(tier string, shard, n int, start int64, outFile string) {
	out := workerOut{Counters: map[string]int64{}, Counts: map[string]int{}, Outcomes: map[string]int64{}}
	progress := outFile + ".progress"
	w, err := newProxyWorld()
	if err != nil {
		out.Violations = append(out.Violations, lib.Violation{Sig: "proxy_req:plain:via_own_missing", Desc: "calibration through the proxy failed: " + err.Error()})
		out.Counts["proxy_req:plain:via_own_missing"] = 1
		out.Done = true
		b, _ := json.Marshal(out)
		os.WriteFile(outFile, b, 0o644)
		return
	}
	spaces := proxySpaces(tier)
	memo := &sigMemo{m: map[string]memoEntry{}}
	states := map[string]struct{}{}
	var pos int64
	for si := range spaces {
		s := &spaces[si]
		for idx := int64(0); idx < s.size(); idx, pos = idx+1, pos+1 {
			if pos%int64(n) != int64(shard) || pos < start {
				continue
			}
			c := s.decode(idx)
			c.Proxy = true
			os.WriteFile(progress, []byte(strconv.FormatInt(pos, 10)), 0o644)
			fs, ex := w.evalProxy(c)
			out.Counters["proxy_cases"]++
			out.Counters["proxy_transitions"]++
			in := buildHeader(c, w.id)
			if nontrivial(c, in, w.id) {
				out.Counters["proxy_nontrivial"]++
			}
			oc := c.Dir + ":" + ex.Outcome + ":" + strconv.Itoa(ex.Status) + ":origin_saw=" + strconv.Itoa(len(ex.Origin))
			out.Outcomes[oc]++
			states[fmt.Sprintf("proxy|%d|%s", stateKey(c, in), oc)] = struct{}{}
			if len(out.Samples) < 3 && pos%997 == int64(shard) {
				out.Samples = append(out.Samples, map[string]interface{}{"space": s.Name, "case": c, "sent": ex.Sent, "outcome": oc})
			}
			if len(fs) == 0 {
				continue
			}
			out.Counters["proxy_failing_cases"]++
			for _, f := range fs {
				sig, min := memo.signature("proxy_"+c.Dir, c, f.Sym, func(d Case) fails {
					out.Counters["proxy_minimisation_evaluations"]++
					out.Counters["proxy_transitions"]++
					r, _ := w.evalProxy(d)
					return r
				})
				out.Counts[sig]++
				if out.Counts[sig] <= 2 {
					mfs, mex := w.evalProxy(min)
					desc := f.Desc()
					for _, mf := range mfs {
						if mf.Sym == f.Sym {
							desc = mf.Desc()
						}
					}
					var osaw []string
					for _, r := range mex.Origin {
						osaw = append(osaw, r.Line+" {"+headerString(r.H)+"}")
					}
					out.Violations = append(out.Violations, lib.Violation{Sig: sig,
						Desc:   fmt.Sprintf("through the proxy (%s), minimised case: client sent %q; origin saw %q; origin answered %q; client got %s %d {%s}: %s", c.Dir, mex.Sent, osaw, mex.Served, mex.Outcome, mex.Status, headerString(mex.ResH), desc),
						Replay: replayOf("proxy", min, c)})
				}
			}
		}
	}
	for k := range states {
		out.States = append(out.States, k)
	}
	out.Done = true
	b, _ := json.Marshal(out)
	os.WriteFile(outFile, b, 0o644)
}

func runProxy(rep *lib.Report, tier string) {
	dir, err := os.MkdirTemp("", "c14-proxy-")
	if err != nil {
		setIncomplete(rep, "cannot create temp dir: "+err.Error())
		return
	}
	defer os.RemoveAll(dir)
	n := 16
	var descr []string
	var totalCases int64
	for _, s := range proxySpaces(tier) {
		descr = append(descr, s.describe())
		totalCases += s.size()
	}
	setCov(rep, "proxy_spaces", descr)
	states := map[string]struct{}{}
	outcomes := map[string]int64{}
	var mu sync.Mutex
	var wg sync.WaitGroup
	for i := 0; i < n; i++ {
		wg.Add(1)
		go func(i int) {
			defer wg.Done()
			start := int64(0)
			for attempt := 0; attempt < 50; attempt++ {
				outFile := fmt.Sprintf("%s/w%d-%d.json", dir, i, attempt)
				cmd := exec.Command(os.Args[0], tier)
				cmd.Env = append(os.Environ(), fmt.Sprintf("C14_PROXY_WORKER=%d/%d", i, n), "C14_START="+strconv.FormatInt(start, 10), "C14_OUT="+outFile, "GOMAXPROCS=2")
				outb, _ := cmd.CombinedOutput()
				var wo workerOut
				b, _ := os.ReadFile(outFile)
				json.Unmarshal(b, &wo)
				if wo.Done {
					mu.Lock()
					for k, v := range wo.Counters {
						rep.Count(k, v)
					}
					for _, s := range wo.States {
						states[s] = struct{}{}
					}
					for k, v := range wo.Outcomes {
						outcomes[k] += v
					}
					for _, s := range wo.Samples {
						rep.Sample(12, s)
					}
					stored := map[string]int{}
					for _, v := range wo.Violations {
						rep.Violate(v.Sig, v.Desc, v.Replay)
						stored[v.Sig]++
					}
					for sig, cnt := range wo.Counts {
						for k := stored[sig]; k < cnt; k++ {
							rep.Violate(sig, "", nil)
						}
					}
					mu.Unlock()
					return
				}
				// the worker died: attribute the crash to the case it was running
				pb, _ := os.ReadFile(outFile + ".progress")
				pos, perr := strconv.ParseInt(strings.TrimSpace(string(pb)), 10, 64)
				tail := string(outb)
				if len(tail) > 1500 {
					tail = tail[:1500]
				}
				if perr != nil {
					rep.Violate("proxy:worker:crash_before_first_case", "worker died before its first case: "+tail, nil)
					setIncomplete(rep, "a proxy worker could not start")
					return
				}
				c := proxyCaseAt(tier, pos)
				kind := "crash"
				if strings.Contains(tail, "panic:") {
					kind = "panic"
				}
				rep.Violate("proxy_"+c.Dir+":"+classes(c)+":"+kind, fmt.Sprintf("proxy worker died on case %+v: %s", c, tail), map[string]interface{}{"part": "proxy", "case": c})
				rep.Count("proxy_cases", 1)
				start = pos + 1
			}
			setIncomplete(rep, "a proxy worker crashed more than 50 times")
		}(i)
	}
	wg.Wait()
	rep.Count("proxy_states", int64(len(states)))
	setCov(rep, "proxy_outcomes", outcomes)
	setCov(rep, "proxy_space_size", totalCases)
}

func proxyCaseAt(tier string, pos int64) Case {
	for _, s := range proxySpaces(tier) {
		if pos < s.size() {
			c := s.decode(pos)
			c.Proxy = true
			return c
		}
		pos -= s.size()
	}
	return Case{}
}

// ---------------------------------------------------------------------------------------------------

func replay(path string) {
	b, err := os.ReadFile(path)
	if err != nil {
		fmt.Println("cannot read replay:", err)
		os.Exit(2)
	}
	var r struct {
		Sig   string
		First struct {
			Replay struct {
				Part      string
				Case      Case
				ConnLines []string `json:"conn_lines"`
			}
		}
	}
	if err := json.Unmarshal(b, &r); err != nil {
		fmt.Println("cannot parse replay:", err)
		os.Exit(2)
	}
	auditFamily := ""
	for _, f := range []string{"hist", "user_group", "multi_instance", "conn_spelling", "framing_spelling", "env", "res_status", "loop_inner", "proxy_seq", "proxy_connect", "proxy_res_status", "proxy_loop_inner", "proxy_mitm_plain"} {
		if strings.HasPrefix(r.Sig, f+":") {
			auditFamily = f
		}
	}
	if part := auditFamily; part != "" {
		// a case of one of the audit families: the (small) families are re-run in full and the signature looked up
		fmt.Printf("replaying %s by re-running the audit families\n", r.Sig)
		scratch := lib.NewReport("C14", "model_checking")
		if strings.HasPrefix(part, "proxy_") {
			runProxyExtra(scratch, lib.Tier())
		} else {
			runExtra(scratch, "thorough", nil)
		}
		if d, ok := extraSigs.Load(r.Sig); ok {
			fmt.Printf("FAILED %s: %s\n", r.Sig, d)
			os.Exit(1)
		}
		fmt.Println("holds")
		os.Exit(0)
	}
	c := r.First.Replay.Case
	c.F[fConn] = connIndex(r.First.Replay.ConnLines)
	fmt.Printf("replaying %s: %+v\n", r.Sig, c)
	var fs fails
	if c.Proxy {
		w, err := newProxyWorld()
		if err != nil {
			fmt.Println("proxy world:", err)
			os.Exit(1)
		}
		var ex exchangeT
		fs, ex = w.evalProxy(c)
		fmt.Printf("sent %q\norigin saw %d request(s), answered %q\nclient got %s %d {%s}\n", ex.Sent, len(ex.Origin), ex.Served, ex.Outcome, ex.Status, headerString(ex.ResH))
		for _, o := range ex.Origin {
			fmt.Printf("  origin: %s {%s}\n", o.Line, headerString(o.H))
		}
	} else {
		w, err := newStackWorld()
		if err != nil {
			fmt.Println("stack world:", err)
			os.Exit(1)
		}
		var obs stackObs
		fs, obs = w.evalStack(c)
		fmt.Printf("in  {%s}\nout {%s}\nerr=%q skip=%v response=%d\n", headerString(obs.In), headerString(obs.Out), obs.Err, obs.Skip, obs.ResStatus)
	}
	for _, f := range fs {
		fmt.Printf("FAILED %s: %s\n", f.Sym, f.Desc())
	}
	if len(fs) > 0 {
		os.Exit(1)
	}
	fmt.Println("holds")
	os.Exit(0)
}

func main() {
	mlog.SetLevel(mlog.Silent)
	tier := lib.Tier()
	maxTokens := 2
	if tier == "thorough" {
		maxTokens = 3
	}
	buildConnLists(3) // indices of the short lists are the same in both tiers
	if maxTokens == 2 {
		n := 0
		for _, l := range connLists {
			if strings.Count(l, ",") < 2 {
				n++
			}
		}
		connLists = connLists[:n]
	}
	if p := os.Getenv("VERIF_REPLAY"); p != "" {
		buildConnLists(3)
		replay(p)
	}
	if i, n := lib.ShardEnv(); n > 0 && os.Getenv("C14_PROXY_WORKER") == "" && os.Getenv("C14_EXTRA_WORKER") == "" {
		stackShard(tier, i, n, os.Getenv("VERIF_SHARD_OUT"))
		return
	}
	if os.Getenv("C14_EXTRA_WORKER") != "" {
		proxyExtraWorker(os.Getenv("C14_OUT"))
		return
	}
	if wk := os.Getenv("C14_PROXY_WORKER"); wk != "" {
		parts := strings.Split(wk, "/")
		i, _ := strconv.Atoi(parts[0])
		n, _ := strconv.Atoi(parts[1])
		start, _ := strconv.ParseInt(os.Getenv("C14_START"), 10, 64)
		proxyWorker(tier, i, n, start, os.Getenv("C14_OUT"))
		return
	}

	rep := lib.NewReport("C14", "model_checking")
	// The parts run concurrently (worker processes of the stack part, of the proxy part, the -race build and run,
	// the audit families): C14_ONLY = stack | proxy | extra | race restricts the run to one of them.
	only := os.Getenv("C14_ONLY")
	var wg sync.WaitGroup
	part := func(name string, f func()) {
		if only != "" && only != name {
			return
		}
		wg.Add(1)
		go func() {
			defer wg.Done()
			t0 := time.Now()
			f()
			setCov(rep, name+"_wall_s", time.Since(t0).Seconds())
		}()
	}
	var race lib.RaceResult
	raceRan := false
	part("race", func() {
		// auxiliary race pass: concurrent messages through one shared stack on the unrewritten tree under -race
		raceIters := "20"
		if tier == "thorough" {
			raceIters = "200"
		}
		race = lib.RacePass("c14", "racebodies", "c14", raceIters)
		raceRan = true
	})
	var shardIDs []string
	stackDone := make(chan struct{})
	part("stack", func() {
		defer close(stackDone)
		shardIDs = runStack(rep, tier)
		if sw, err := newStackWorld(); err != nil {
			setIncomplete(rep, "managed-listed family: "+err.Error())
		} else {
			runManagedListed(rep, sw)
		}
	})
	if only != "" && only != "stack" {
		close(stackDone)
	}
	part("extra", func() {
		runProxyExtra(rep, tier)
		<-stackDone // the identities of the stack workers' instances take part in the uniqueness check
		runExtra(rep, tier, shardIDs)
	})
	part("proxy", func() { runProxy(rep, tier) })
	wg.Wait()

	cases := rep.Counter("stack_cases") + rep.Counter("proxy_cases") + rep.Counter("extra_cases") + rep.Counter("extra_proxy_cases")
	rep.Coverage["states"] = rep.Counter("stack_states") + rep.Counter("proxy_states") + rep.Counter("extra_states") + rep.Counter("extra_proxy_states")
	rep.Coverage["transitions"] = rep.Counter("stack_transitions") + rep.Counter("proxy_transitions") + rep.Counter("extra_transitions") + rep.Counter("extra_proxy_transitions")
	rep.Coverage["traces_validated_against_impl"] = cases
	rep.Coverage["evaluations"] = cases + rep.Counter("stack_minimisation_evaluations") + rep.Counter("proxy_minimisation_evaluations")
	rep.Coverage["distinct_nontrivial"] = rep.Counter("stack_nontrivial") + rep.Counter("extra_nontrivial")
	rep.Coverage["exhaustive"] = rep.Incomplete == ""
	rep.Coverage["rule"] = "cases = every tuple of each listed sub-product of the 12 header factors (mixed-radix decode, simplest values first), for requests and " +
		"responses, each run on httpspec.NewStack with martian.TestContext and compared with the reference model; the proxy sub-products are sent as raw bytes " +
		"through martian.NewProxy + stack over loopback. distinct_nontrivial counts stack cases not contained in an earlier sub-product of the same direction " +
		"for which the model demands more than stamping a plain message: a present header that must be removed (fixed or Connection-listed), or pre-existing " +
		"Via / X-Forwarded-* / Content-Length values that must be kept, a loop that must be refused, or bad framing that must be flagged. states = distinct " +
		"(direction, set of header names the model removes, classes of Via/X-Forwarded/framing factors[, wire outcome]). Audit families (audit_family_cases, " +
		"audit_proxy_family_cases; every one a full product of explicit pools, all counted as non-trivial because each input carries something the model must act on or two exchanges that must not " +
		"influence each other): hist = all interleavings of the request / response steps of 2 and 3 exchanges on one stack; user_group = the stack's inner group populated with passive / adding / failing " +
		"modifiers; multi_instance = all paths of a request through several stack instances, identity uniqueness, SetBoundary; conn_spelling, framing_spelling, env = single messages with spellings, " +
		"token counts and environments outside the 12 factors; proxy_seq = all sequences of 1..3 exchanges on one keep-alive client connection through the real proxy; proxy_connect = CONNECT requests " +
		"(direct and through a downstream proxy); res_status / proxy_res_status = upstream responses of 13 statuses x fixed hop-by-hop subsets x Connection lists, on the stack and through the real proxy; " +
		"loop_inner / proxy_loop_inner = the user group of the stack populated with modifiers that change the answer (status, challenge, redirect, headers, body) and / or fail x every loop spelling of the Via factor " +
		"and controls without a loop, on the stack and through the real proxy; proxy_mitm_plain = sequences of plain HTTP requests through a CONNECT tunnel of a MITM-enabled proxy + stack."
	rep.Coverage["bounds"] = fmt.Sprintf("Connection: 0..2 lines, each a comma list of 1..%d tokens of {close, keep-alive, X-Foo, x-foo, ' X-Bar ', ''} (%d configurations); "+
		"X-Foo {absent, one, two lines}, X-Bar {absent, present}; subsets of 7 fixed hop-by-hop headers (%s); 5 unlisted end-to-end headers always present; "+
		"%d Via chains (none, foreign one/two/three lines, same pseudonym other boundary, this instance alone/first/last/protocol-name form/second line/second line with comment, and 8 whitespace variants of this instance's entry: HTAB, two SP, SP+HTAB between the fields, HTAB before a comment, OWS around the list separator, at first / middle / last position and on a second line); "+
		"X-Forwarded-For {absent, one, two lines, two values on one line}, -Proto/-Host/-Url {absent, one, two lines}; Content-Length {none, 5, 5|5, '5, 5', 5|6, '5, 6'}; "+
		"Transfer-Encoding {none, chunked, 'gzip, chunked', gzip|chunked, gzip, 'chunked, gzip', chunked|gzip}; env = {HTTP/1.1, 1.0} x {ipv4:port, [ipv6]:port, ipv4} x {http URL, https URL with port and query}; "+
		"sub-products as listed in stack_spaces / proxy_spaces. Audit families: 7 exchange kinds {plain, loop, loop re-spelled on a later line, foreign chain, Connection-listed, conflicting Content-Length, loop + bad Transfer-Encoding}, "+
		"pairs x 6 interleavings and triples x 90 interleavings (4 kinds in quick); user modifier behaviours 3 (request) x 6 (response); instances {martian, martian, proxy.example:8080[, martian-1, M]} paths of length <= 3 [4]; "+
		"8 token spellings x 8 positions, token counts {1,2,7,8,9,10,15,16,17,33,64} x 3 layouts, Connection naming 7 further headers; 15 Content-Length and 24 Transfer-Encoding spellings, 23 empty-line inputs; "+
		"3 protocol versions x 7 client addresses x 11 URLs; 155 keep-alive sequences; 12 CONNECT cases; response statuses {101, 200, 204, 206, 301, 304, 401, 407, 416, 426, 500, 502, 503} x subsets of the 7 fixed hop-by-hop headers "+
		"(sizes 0, 1, n-1, n in quick, all 128 in thorough) x 10 Connection lists on the stack, and x {none, each alone, all} (quick) / all subsets (thorough) x 4 Connection lists through the real proxy (the origin answers with that status); "+
		"loop_inner: 23 response behaviours of the user group (martian's status.Modifier 200/204/302/400/401/407/500/502, proxyauth.Modifier without credentials, header.Modifier, body.Modifier, hand-written redirect / 407 / 401 challenge / hop-by-hop headers, "+
		"combinations, each of status / header / body also followed by a failing modifier) x 3 request behaviours {passive, adds a header, fails} x 18 Via chains (the 14 that name this instance, 4 that do not) [x 3 environments in thorough], a fresh NewStack per behaviour pair; "+
		"proxy_loop_inner: 12 of the behaviours x {passive, fails} x 6 Via chains (4 loops, 2 controls) with a proxy of its own each; proxy_mitm_plain: every sequence of 1..2 of {plain, foreign chain + X-Forwarded-For, existing X-Forwarded-Proto/-Host/-Url, loop} on one tunnel (20 tunnels)", maxTokens, connCount(), strings.Join(fixedNames, ", "), nVia)
	rep.Assumptions = []string{
		"header keys are canonical (as net/http produces them when parsing a message); the identity (pseudonym-boundary) of the stack's Via modifier is learnt from the Via entry it stamps on a plain probe request",
		"Proxy-Connection is not a hop-by-hop header fixed by the HTTP specification: the model accepts it removed or kept",
		"Content-Length is a framing-managed header: equal duplicates may be collapsed to the single value, and it may be dropped when Transfer-Encoding is present; any other change is a violation",
		"flagged as an error = ModifyRequest returns a non-nil error (stack level) / the proxy adds a Warning header to the response (proxy level); a request that net/http's parser refuses before any modifier runs never passed through the stack and is only counted (proxy_outcomes)",
		"through the proxy the observer's own hop may carry Connection: close/keep-alive, Transfer-Encoding: chunked, Host and the transport's Accept-Encoding (C01's subject); Trailer is not combined with chunked messages in the proxy subset because net/http re-announces forwarded trailers itself",
		"for a request whose Via names this instance only the loop obligations (error, round trip skipped, 400, origin log empty) are checked; its headers go nowhere",
		"list elements are compared after trimming SP and HTAB, transfer-coding names case-insensitively (RFC 7230); inputs the statement leaves open (Content-Length 5 vs 05, empty list elements in Content-Length, a trailing comma or an empty line in Transfer-Encoding) are run but their framing verdict is not judged",
		"a managed header (Via, X-Forwarded-*, Content-Length) that the sender's Connection header names counts as not sent: it must not be forwarded and the stack's own stamp is still due",
		"hop-by-hop headers a user-group modifier adds to a response must not reach the client (the user group runs before the stack's own response modifiers); what a user-group modifier adds to a request is its own business and not judged",
		"the hop-by-hop obligations on a response do not depend on its status (a 407 or 401 from upstream is stripped like a 200); for statuses without a body (101, 204, 304) only the status and the header fields are judged; a response the proxy generated itself because net/http's client side refused the origin's (recognised by the missing X-Origin-Status marker) is counted, not judged",
		"what the user group did to a response is observed by a recorder at the end of the user group, not predicted: a looping request must be answered 400 whatever the recorder saw, a request without a loop keeps the recorded status; a round trip skipped by the user group itself (proxyauth without credentials) is not the stack's doing",
		"plain HTTP inside a CONNECT tunnel of a MITM-enabled proxy: the original URL is http://<Host of the request>/<request target>; the header map is judged as the last request modifier of the stack's user group sees it and as the origin receives it",
		"a CONNECT counts as sent upstream when the target accepts a connection (direct) or the downstream proxy accepts one; 150 ms are allowed for a dial that must not happen to show up",
	}
	if raceRan {
		rep.ReportRaces(race)
	}
	rep.Finish()
}
