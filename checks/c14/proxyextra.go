package main

// Audit families that need a real martian.Proxy (run in one worker process: a panic in a connection goroutine of
// the proxy cannot be recovered and is attributed to the case in progress).
//
//   proxy_seq      several exchanges on ONE client connection (keep-alive) through proxy + stack: every sequence
//                  of 1..3 exchange kinds (plain, loop, loop re-spelled on a later line, foreign chain, Connection-
//                  listed request with a Connection-listed response). Each exchange is judged as if it were alone:
//                  what was decided for an earlier request of the connection (session) must not leak into a later one.
//   proxy_connect  CONNECT requests through proxy + stack (blind tunnel), dialled directly and through a
//                  downstream proxy: a CONNECT whose Via names this instance is never sent upstream (no dial, no
//                  CONNECT to the downstream proxy) and is answered 400; a forwarded CONNECT (downstream proxy)
//                  carries no hop-by-hop header, gained exactly one Via entry and the client address.

import (
	"bufio"
	"encoding/json"
	"fmt"
	"net"
	"net/http"
	"net/textproto"
	"net/url"
	"os"
	"os/exec"
	"strconv"
	"strings"
	"sync"
	"sync/atomic"
	"time"

	"github.com/google/martian/v3"
	"github.com/google/martian/v3/httpspec"
	mlog "github.com/google/martian/v3/log"

	"verif/lib"
)

type kaClient struct {
	w          *proxyWorld
	c          net.Conn
	br         *bufio.Reader
	used       int
	reconnects int
}

func (k *kaClient) close() {
	if k.c != nil {
		k.c.Close()
		k.c, k.br, k.used = nil, nil, 0
	}
}

// do performs one exchange on the client's connection (opened on demand). A connection the proxy closed after
// the previous answer is replaced once if nothing of this request reached the origin.
func (k *kaClient) do(id string, reqH, resH http.Header) exchangeT {
	w := k.w
	var ex exchangeT
	oaddr := w.origin.l.Addr().String()
	if resH != nil {
		var sb strings.Builder
		sb.WriteString("HTTP/1.1 200 OK\r\n")
		writeHeaderLines(&sb, resH)
		sb.WriteString("\r\n")
		sb.WriteString(bodyFor(resH))
		ex.Served = sb.String()
		w.origin.mu.Lock()
		w.origin.resp[id] = []byte(sb.String())
		w.origin.mu.Unlock()
	}
	var sb strings.Builder
	sb.WriteString("GET http://" + oaddr + "/c14?x=1 HTTP/1.1\r\nHost: " + oaddr + "\r\nX-Case: " + id + "\r\n")
	writeHeaderLines(&sb, reqH)
	sb.WriteString("\r\n")
	ex.Sent = sb.String()
	for attempt := 0; attempt < 2; attempt++ {
		if k.c == nil {
			c, err := net.DialTimeout("tcp", w.proxyAddr, 10*time.Second)
			if err != nil {
				ex.Outcome = "dial_error"
				return ex
			}
			k.c, k.br, k.used = c, bufio.NewReader(c), 0
		}
		reused := k.used > 0
		k.used++
		k.c.SetDeadline(time.Now().Add(20 * time.Second))
		_, werr := k.c.Write([]byte(ex.Sent))
		var line string
		var h http.Header
		var rerr error
		if werr == nil {
			line, h, rerr = readMessage(k.br, true)
		}
		if werr != nil || (rerr != nil && h == nil) {
			ex.Outcome = "closed_no_response"
			if ne, ok := rerr.(net.Error); ok && ne.Timeout() {
				ex.Outcome = "timeout"
			}
			k.close()
			w.origin.mu.Lock()
			seen := len(w.origin.log[id])
			w.origin.mu.Unlock()
			if reused && seen == 0 && ex.Outcome != "timeout" {
				k.reconnects++
				continue
			}
			break
		}
		ex.Outcome = "response"
		ex.ResH = h
		if f := strings.Fields(line); len(f) > 1 {
			ex.Status, _ = strconv.Atoi(f[1])
		}
		for _, t := range flatten(h["Connection"]) {
			if strings.EqualFold(t, "close") {
				k.close()
			}
		}
		if rerr != nil {
			k.close()
		}
		break
	}
	ex.Origin = w.origin.take(id)
	return ex
}

type xworkerOut struct {
	Done       bool
	Violations []lib.Violation
	Cases      map[string]int64
	Exchanges  int64
	Reconnects int
	States     []string
	Outcomes   map[string]int64
}

func (o *xworkerOut) violate(sig, desc string, replay interface{}) {
	o.Violations = append(o.Violations, lib.Violation{Sig: sig, Desc: desc, Replay: replay})
}

func proxySeq(out *xworkerOut, progress string) {
	w, err := newProxyWorld()
	if err != nil {
		out.violate("proxy_seq:plain:via_own_missing", "calibration through the proxy failed: "+err.Error(), nil)
		return
	}
	resListed := http.Header{"Connection": {"X-Bar , keep-alive"}, "X-Bar": {"b"}, "Keep-Alive": {"timeout=5"}, "Content-Length": {"5"}, "X-Baz": {"1", "2"}}
	kinds := []exKind{
		{"plain", baseHeader(), nil},
		{"loop", with(baseHeader(), []string{"Via", "1.1 " + w.id.rb}), nil},
		{"foreign_chain", with(baseHeader(), []string{"Via", "1.0 fred", "1.1 example.com (x)"}, []string{"X-Forwarded-For", "192.0.2.1"}), nil},
		{"listed", with(baseHeader(), []string{"Connection", "x-foo"}, []string{"X-Foo", "1", "2"}, []string{"Keep-Alive", "timeout=5"}), resListed},
		{"loop_later_line", with(baseHeader(), []string{"Via", "1.0 fred", "1.1 \t" + w.id.rb + " (c)"}), resListed},
	}
	states := map[string]struct{}{}
	lib.Sequences(len(kinds), 3, func(seq []int) {
		if len(seq) == 0 {
			return
		}
		var names []string
		for _, i := range seq {
			names = append(names, kinds[i].Name)
		}
		os.WriteFile(progress, []byte("proxy_seq "+strings.Join(names, ",")), 0o644)
		out.Cases["proxy_seq"]++
		states["proxy_seq|"+strings.Join(names, ",")] = struct{}{}
		cl := &kaClient{w: w}
		defer cl.close()
		for pos, i := range seq {
			k := kinds[i]
			id := "s" + strconv.FormatInt(atomic.AddInt64(&w.seq, 1), 10)
			ex := cl.do(id, k.Req, k.Res)
			out.Exchanges++
			out.Outcomes[fmt.Sprintf("%s:%s:%d:origin_saw=%d", k.Name, ex.Outcome, ex.Status, len(ex.Origin))]++
			fs := w.judgeProxyReq(k.Req, ex, func() bool { return false })
			if k.Res != nil && loopAt(k.Req["Via"], w.id) == 0 && len(fs) == 0 {
				for _, f := range w.judgeProxyRes(k.Res, ex) {
					fs.add("res_"+f.Sym, "%s", f.Desc())
				}
			}
			if ex.Outcome == "response" && ex.Status == 200 && loopAt(k.Req["Via"], w.id) == 0 && k.Res == nil && ex.ResH.Get("X-Origin") != "yes" {
				fs.add("response_not_from_origin", "the client's 200 does not carry the origin's X-Origin header: {%s}", headerString(ex.ResH))
			}
			for _, f := range fs {
				var osaw []string
				for _, r := range ex.Origin {
					osaw = append(osaw, r.Line+" {"+headerString(r.H)+"}")
				}
				out.violate("proxy_seq:"+loopClass(k.Req, w.id)+":"+f.Sym, fmt.Sprintf("exchanges %v on one client connection, exchange %d (%s): client sent %q; origin saw %q; client got %s %d {%s}: %s",
					names, pos, k.Name, ex.Sent, osaw, ex.Outcome, ex.Status, headerString(ex.ResH), f.Desc()),
					map[string]interface{}{"part": "proxy_seq", "kinds": names, "position": pos})
			}
		}
		out.Reconnects += cl.reconnects
	})
	for k := range states {
		out.States = append(out.States, k)
	}
}

// ---------------------------------------------------------------------------------------------------
// CONNECT

type tcpLog struct {
	l       net.Listener
	mu      sync.Mutex
	accepts int
	heads   []originRec // downstream proxy only: CONNECT request heads received
}

// newTarget: accepts connections, counts them and echoes what it reads. With asProxy it first reads a CONNECT
// request head, records it and answers 200.
func newTarget(asProxy bool) (*tcpLog, error) {
	l, err := net.Listen("tcp", "127.0.0.1:0")
	if err != nil {
		return nil, err
	}
	t := &tcpLog{l: l}
	go func() {
		for {
			c, err := l.Accept()
			if err != nil {
				return
			}
			t.mu.Lock()
			t.accepts++
			t.mu.Unlock()
			go func() {
				defer c.Close()
				c.SetDeadline(time.Now().Add(30 * time.Second))
				br := bufio.NewReader(c)
				if asProxy {
					tp := textproto.NewReader(br)
					line, err := tp.ReadLine()
					if err != nil {
						return
					}
					mh, err := tp.ReadMIMEHeader()
					if err != nil {
						return
					}
					t.mu.Lock()
					t.heads = append(t.heads, originRec{line, http.Header(mh)})
					t.mu.Unlock()
					if _, err := c.Write([]byte("HTTP/1.1 200 Connection established\r\n\r\n")); err != nil {
						return
					}
				}
				buf := make([]byte, 512)
				for {
					n, err := br.Read(buf)
					if n > 0 {
						c.Write(buf[:n])
					}
					if err != nil {
						return
					}
				}
			}()
		}
	}()
	return t, nil
}

func (t *tcpLog) snapshot() (int, []originRec) {
	t.mu.Lock()
	defer t.mu.Unlock()
	return t.accepts, append([]originRec(nil), t.heads...)
}

func proxyConnect(out *xworkerOut, progress string) {
	mlog.SetLevel(mlog.Silent)
	for _, route := range []string{"direct", "downstream"} {
		stack, _ := httpspec.NewStack("martian")
		id, err := probeIdentity(stack)
		if err != nil {
			out.violate("proxy_connect:plain:via_own_missing", "calibration failed: "+err.Error(), nil)
			return
		}
		p := martian.NewProxy()
		p.SetRequestModifier(stack)
		p.SetResponseModifier(stack)
		var down *tcpLog
		if route == "downstream" {
			if down, err = newTarget(true); err != nil {
				return
			}
			p.SetDownstreamProxy(&url.URL{Host: down.l.Addr().String()})
		}
		pl, err := net.Listen("tcp", "127.0.0.1:0")
		if err != nil {
			return
		}
		go p.Serve(pl)
		kinds := []exKind{
			{"plain", baseHeader(), nil},
			{"foreign_chain", with(baseHeader(), []string{"Via", "1.0 fred", "1.1 example.com (x)"}, []string{"X-Forwarded-For", "192.0.2.1"}), nil},
			{"listed", with(baseHeader(), []string{"Connection", "x-foo, keep-alive"}, []string{"X-Foo", "1", "2"}, []string{"Keep-Alive", "timeout=5"}, []string{"Proxy-Authorization", "Basic Zm9v"}), nil},
			{"via_self", with(baseHeader(), []string{"Via", "1.1 " + id.rb}), nil},
			{"via_self", with(baseHeader(), []string{"Via", "1.0 fred", "1.1 example.com,\t1.1 \t" + id.rb + "  (comment)"}), nil},
			{"via_self", with(baseHeader(), []string{"Via", "1.0 fred, 1.1 " + id.rb}, []string{"Connection", "x-foo"}, []string{"X-Foo", "1"}), nil},
		}
		for ki, k := range kinds {
			os.WriteFile(progress, []byte(fmt.Sprintf("proxy_connect %s %s #%d", route, k.Name, ki)), 0o644)
			out.Cases["proxy_connect"]++
			target, err := newTarget(false)
			if err != nil {
				return
			}
			taddr := target.l.Addr().String()
			var sb strings.Builder
			sb.WriteString("CONNECT " + taddr + " HTTP/1.1\r\nHost: " + taddr + "\r\n")
			writeHeaderLines(&sb, k.Req)
			sb.WriteString("\r\n")
			sent := sb.String()
			status, outcome, echoed := 0, "", false
			var resH http.Header
			downBefore := 0
			if down != nil {
				downBefore, _ = down.snapshot()
			}
			func() {
				c, err := net.DialTimeout("tcp", pl.Addr().String(), 10*time.Second)
				if err != nil {
					outcome = "dial_error"
					return
				}
				defer c.Close()
				c.SetDeadline(time.Now().Add(20 * time.Second))
				if _, err := c.Write([]byte(sent)); err != nil {
					outcome = "closed_no_response"
					return
				}
				br := bufio.NewReader(c)
				tp := textproto.NewReader(br)
				line, err := tp.ReadLine()
				if err != nil {
					outcome = "closed_no_response"
					return
				}
				mh, _ := tp.ReadMIMEHeader()
				resH = http.Header(mh)
				outcome = "response"
				if f := strings.Fields(line); len(f) > 1 {
					status, _ = strconv.Atoi(f[1])
				}
				if status == 200 {
					c.SetDeadline(time.Now().Add(5 * time.Second))
					if _, err := c.Write([]byte("ping\n")); err == nil {
						if l, err := br.ReadString('\n'); err == nil && l == "ping\n" {
							echoed = true
						}
					}
				}
			}()
			loop := loopAt(k.Req["Via"], id) != 0
			if loop { // grace period for a dial that must not happen to show up
				time.Sleep(150 * time.Millisecond)
			}
			accepts, _ := target.snapshot()
			target.l.Close()
			var heads []originRec
			downAccepts := 0
			if down != nil {
				var n int
				n, heads = down.snapshot()
				downAccepts = n - downBefore
				down.mu.Lock()
				down.heads = nil
				down.mu.Unlock()
			}
			out.Exchanges++
			out.Outcomes[fmt.Sprintf("connect_%s:%s:%s:%d:target_accepts=%d:downstream_heads=%d", route, k.Name, outcome, status, accepts, len(heads))]++
			out.States = append(out.States, fmt.Sprintf("proxy_connect|%s|%s|%d", route, k.Name, ki))
			var fs fails
			upstream := accepts
			if route == "downstream" {
				upstream = downAccepts
			}
			switch {
			case loop:
				if upstream > 0 {
					what := fmt.Sprintf("the target was dialled (%d connection(s) accepted)", accepts)
					if route == "downstream" {
						what = fmt.Sprintf("the downstream proxy was contacted (%d connection(s), CONNECT heads received: %d)", downAccepts, len(heads))
					}
					fs.add("loop_sent_upstream", "CONNECT with Via %q names this instance (%s) but %s; client got %s %d", k.Req["Via"], id.rb, what, outcome, status)
				}
				if outcome != "response" || status != 400 {
					fs.add("loop_response_not_400", "CONNECT with Via %q names this instance (%s) but the client got %s %d", k.Req["Via"], id.rb, outcome, status)
				}
			case outcome != "response" || status != 200:
				fs.add("no_tunnel", "CONNECT without a loop: client got %s %d {%s}", outcome, status, headerString(resH))
			case !echoed:
				fs.add("no_tunnel", "CONNECT answered 200 but the tunnel does not carry bytes to the target and back")
			case route == "downstream":
				if len(heads) != 1 {
					fs.add("harness", "the downstream proxy received %d CONNECT heads", len(heads))
					break
				}
				got := heads[0].H
				skip := map[string]bool{"Connection": true, "Transfer-Encoding": true, "Host": true, "Accept-Encoding": true, "X-Forwarded-Proto": true, "X-Forwarded-Host": true, "X-Forwarded-Url": true, "Content-Length": true}
				checkHopAndOthers(&fs, k.Req, got, skip)
				checkOwnHop(&fs, got)
				mfs := fails{}
				checkRequestManaged(&mfs, k.Req, got, id, "1.1", "127.0.0.1", "http", taddr, "", true)
				for _, f := range mfs {
					if strings.HasPrefix(f.Sym, "via_") || strings.HasPrefix(f.Sym, "xff_") {
						fs.add(f.Sym, "%s", f.Desc())
					}
				}
			}
			for _, f := range fs {
				var hs []string
				for _, h := range heads {
					hs = append(hs, h.Line+" {"+headerString(h.H)+"}")
				}
				out.violate("proxy_connect:"+k.Name+":"+f.Sym, fmt.Sprintf("CONNECT through proxy + stack, route %s: client sent %q; target accepted %d connection(s); downstream proxy saw %q; client got %s %d: %s",
					route, sent, accepts, hs, outcome, status, f.Desc()), map[string]interface{}{"part": "proxy_connect", "route": route, "kind": k.Name, "request_header": k.Req})
			}
		}
		pl.Close()
		p.Close()
	}
}

func proxyExtraWorker(outFile string) {
	out := &xworkerOut{Cases: map[string]int64{}, Outcomes: map[string]int64{}}
	progress := outFile + ".progress"
	proxySeq(out, progress)
	proxyConnect(out, progress)
	proxyResStatus(out, progress, lib.Tier())
	proxyLoopInner(out, progress)
	proxyMITMPlain(out, progress)
	out.Done = true
	b, _ := json.Marshal(out)
	os.WriteFile(outFile, b, 0o644)
}

func runProxyExtra(rep *lib.Report, tier string) {
	dir, err := os.MkdirTemp("", "c14-proxyextra-")
	if err != nil {
		setIncomplete(rep, "cannot create temp dir: "+err.Error())
		return
	}
	defer os.RemoveAll(dir)
	outFile := dir + "/out.json"
	cmd := exec.Command(os.Args[0], tier)
	cmd.Env = append(os.Environ(), "C14_EXTRA_WORKER=1", "C14_OUT="+outFile, "GOMAXPROCS=4", "VERIF_REPLAY=")
	outb, _ := cmd.CombinedOutput()
	var wo xworkerOut
	b, _ := os.ReadFile(outFile)
	json.Unmarshal(b, &wo)
	if !wo.Done {
		pb, _ := os.ReadFile(outFile + ".progress")
		tail := string(outb)
		if len(tail) > 1500 {
			tail = tail[:1500]
		}
		kind := "crash"
		if strings.Contains(tail, "panic:") {
			kind = "panic"
		}
		fam := "proxy_seq"
		for _, f := range []string{"proxy_connect", "proxy_res_status", "proxy_loop_inner", "proxy_mitm_plain"} {
			if strings.HasPrefix(string(pb), f) {
				fam = f
			}
		}
		rep.Violate(fam+":worker:"+kind, fmt.Sprintf("the worker died while running %q: %s", pb, tail), map[string]interface{}{"part": fam, "case": string(pb)})
		setIncomplete(rep, "the proxy audit worker died")
		return
	}
	for _, v := range wo.Violations {
		extraSigs.Store(v.Sig, v.Desc)
		rep.Violate(v.Sig, v.Desc, v.Replay)
	}
	var total int64
	for _, n := range wo.Cases {
		total += n
	}
	rep.Count("extra_proxy_cases", total)
	rep.Count("extra_proxy_transitions", wo.Exchanges)
	rep.Count("extra_proxy_states", int64(len(wo.States)))
	setCov(rep, "audit_proxy_family_cases", wo.Cases)
	setCov(rep, "audit_proxy_outcomes", wo.Outcomes)
	setCov(rep, "audit_proxy_seq_reconnects", wo.Reconnects)
}
