package main

// Family res_status / proxy_res_status: the response-status dimension of the hop-by-hop clause. The statement
// makes no exception for any status: whatever status the upstream response carries, none of its hop-by-hop
// headers (fixed by the specification or named by its Connection header) reaches the client, and end-to-end
// headers such as WWW-Authenticate are untouched.
//
//   statuses x subsets of the 7 fixed hop-by-hop headers x Connection lists, on the stack (direct ModifyResponse)
//   and through the real proxy (the origin answers with that status). For the statuses net/http gives no body
//   (101, 204, 304) only header fields and the status are judged.
//
// Signatures: <family>:status_<code>:<symptom>; a symptom that shows for every status is reported once as
// <family>:all_statuses:<symptom>.

import (
	"fmt"
	"net/http"
	"os"
	"sort"
	"strconv"
	"strings"
	"sync/atomic"

	"github.com/google/martian/v3/proxyutil"
)

var resStatuses = []int{101, 200, 204, 206, 301, 304, 401, 407, 416, 426, 500, 502, 503}

func bodyless(status int) bool { return status/100 == 1 || status == 204 || status == 304 }

// fixedSubsets: every subset (thorough) or the subsets of size 0, 1, n-1, n (quick) of fixedNames.
func fixedSubsets(tier string) []int {
	n := len(fixedNames)
	full := 1<<n - 1
	if tier == "thorough" {
		return seq(1 << n)
	}
	out := []int{0}
	for i := 0; i < n; i++ {
		out = append(out, 1<<i)
	}
	for i := 0; i < n; i++ {
		out = append(out, full&^(1<<i))
	}
	return append(out, full)
}

// statusHeader is the upstream response of one case: always-present end-to-end headers (among them the
// authentication challenge of the origin itself), the chosen fixed hop-by-hop headers, the Connection lines and
// the headers they may name.
func statusHeader(status, fixed int, conn []string) http.Header {
	h := http.Header{"Www-Authenticate": {`Basic realm="origin"`}, "X-Baz": {"1", "2"}, "Cache-Control": {"no-cache"},
		"X-Foo": {"1", "2"}, "X-Bar": {"b"}, "X-Origin-Status": {strconv.Itoa(status)}}
	for i, n := range fixedNames {
		if fixed&(1<<i) != 0 {
			h[n] = []string{fixedValues[i]}
		}
	}
	if conn != nil {
		h["Connection"] = append([]string(nil), conn...)
	}
	return h
}

type statusFail struct {
	desc   string
	replay interface{}
}

// statusAgg groups the failures of a status family by symptom and status.
type statusAgg struct {
	bySym map[string]map[int]statusFail
	count map[string]map[int]int
}

func newStatusAgg() *statusAgg {
	return &statusAgg{bySym: map[string]map[int]statusFail{}, count: map[string]map[int]int{}}
}

func (a *statusAgg) add(sym string, status int, desc func() string, replay interface{}) {
	if a.bySym[sym] == nil {
		a.bySym[sym] = map[int]statusFail{}
		a.count[sym] = map[int]int{}
	}
	a.count[sym][status]++
	if _, ok := a.bySym[sym][status]; !ok {
		a.bySym[sym][status] = statusFail{desc(), replay}
	}
}

// flush reports every (symptom, status) once per failing case; all statuses failing collapse into one class.
func (a *statusAgg) flush(family string, violate func(sig, desc string, replay interface{})) {
	var syms []string
	for s := range a.bySym {
		syms = append(syms, s)
	}
	sort.Strings(syms)
	for _, sym := range syms {
		m := a.bySym[sym]
		if len(m) == len(resStatuses) {
			total := 0
			for _, n := range a.count[sym] {
				total += n
			}
			f := m[200]
			for k := 0; k < total; k++ {
				if k == 0 {
					violate(family+":all_statuses:"+sym, f.desc, f.replay)
				} else {
					violate(family+":all_statuses:"+sym, "", nil)
				}
			}
			continue
		}
		var sts []int
		for st := range m {
			sts = append(sts, st)
		}
		sort.Ints(sts)
		for _, st := range sts {
			for k := 0; k < a.count[sym][st]; k++ {
				if k == 0 {
					violate(fmt.Sprintf("%s:status_%d:%s", family, st, sym), m[st].desc, m[st].replay)
				} else {
					violate(fmt.Sprintf("%s:status_%d:%s", family, st, sym), "", nil)
				}
			}
		}
	}
}

var stackStatusConns = [][]string{nil, {"close"}, {"x-foo"}, {" X-Bar "}, {"keep-alive, X-Foo"}, {"close", " X-Bar "}, {"X-Foo, X-Bar ,close"},
	{"proxy-authenticate"}, {"Upgrade"}, {"www-authenticate-x, TE"}}

func famResStatus(x *xrep, w *stackWorld, tier string) {
	agg := newStatusAgg()
	e := env(0)
	for _, status := range resStatuses {
		for _, fixed := range fixedSubsets(tier) {
			for ci, conn := range stackStatusConns {
				x.cases["res_status"]++
				x.nontrivial++
				in := statusHeader(status, fixed, conn)
				lx := startExchange(w.stack, e, http.Header{})
				var out http.Header
				gotStatus, resErr := 0, ""
				if lx.remove != nil {
					res := proxyutil.NewResponse(status, nil, lx.req)
					res.Header = cloneHeader(in)
					guard(&lx.obs.Panic, func() {
						lx.obs.transition++
						resErr = errStr(w.stack.ModifyResponse(res))
						gotStatus, out = res.StatusCode, res.Header
					})
					lx.remove()
				}
				x.transitions += int64(lx.obs.transition)
				x.states[fmt.Sprintf("res_status|%d|%d|%d", status, fixed, ci)] = struct{}{}
				var fs fails
				if lx.obs.Panic != "" {
					fs.add("panic", "panic: %s", lx.obs.Panic)
				} else {
					fs = judgeResponseHeaders(in, out)
					if gotStatus != status {
						fs.add("status_changed", "response status %d became %d", status, gotStatus)
					}
					if resErr != "" {
						fs.add("spurious_error", "ModifyResponse returned %q", resErr)
					}
				}
				for _, f := range fs {
					f := f
					agg.add(f.Sym, status, func() string {
						return fmt.Sprintf("response with status %d on the stack: in {%s} -> %d {%s}: %s", status, headerString(in), gotStatus, headerString(out), f.Desc())
					}, map[string]interface{}{"part": "res_status", "status": status, "fixed": fixed, "connection": conn})
				}
			}
		}
	}
	agg.flush("res_status", func(sig, desc string, replay interface{}) {
		parts := strings.SplitN(sig, ":", 3)
		x.violate(parts[0], parts[1], parts[2], desc, replay)
	})
}

// through the real proxy: no "close" together with listed names (net/http's Transport removes a Connection
// header containing close before any modifier runs: known finding of the older proxy family)
var proxyStatusConns = [][]string{nil, {"x-foo"}, {"X-Bar , keep-alive"}, {"x-foo", " X-Bar "}}

func proxyResStatus(out *xworkerOut, progress, tier string) {
	w, err := newProxyWorld()
	if err != nil {
		out.violate("proxy_res_status:all_statuses:via_own_missing", "calibration through the proxy failed: "+err.Error(), nil)
		return
	}
	fixedSel := fixedSubsets(tier)
	if tier != "thorough" { // none, each alone, all
		fixedSel = fixedSel[:1+len(fixedNames)]
		fixedSel = append(fixedSel, 1<<len(fixedNames)-1)
	}
	agg := newStatusAgg()
	for _, status := range resStatuses {
		for _, fixed := range fixedSel {
			for ci, conn := range proxyStatusConns {
				os.WriteFile(progress, []byte(fmt.Sprintf("proxy_res_status status=%d fixed=%d conn=%q", status, fixed, conn)), 0o644)
				out.Cases["proxy_res_status"]++
				in := statusHeader(status, fixed, conn)
				var sb strings.Builder
				text := http.StatusText(status)
				sb.WriteString(fmt.Sprintf("HTTP/1.1 %d %s\r\n", status, text))
				served := cloneHeader(in)
				if !bodyless(status) {
					served["Content-Length"] = []string{"5"}
				}
				writeHeaderLines(&sb, served)
				sb.WriteString("\r\n")
				if !bodyless(status) {
					sb.WriteString("hello")
				}
				id := "r" + strconv.FormatInt(atomic.AddInt64(&w.seq, 1), 10)
				w.origin.mu.Lock()
				w.origin.resp[id] = []byte(sb.String())
				w.origin.mu.Unlock()
				ex := w.exchange(id, nil, nil)
				ex.Served = sb.String()
				out.Exchanges++
				fromOrigin := ex.Outcome == "response" && ex.ResH.Get("X-Origin-Status") == strconv.Itoa(status)
				out.Outcomes[fmt.Sprintf("res_status_%d:%s:%d:origin_saw=%d:from_origin=%v", status, ex.Outcome, ex.Status, len(ex.Origin), fromOrigin)]++
				out.States = append(out.States, fmt.Sprintf("proxy_res_status|%d|%d|%d", status, fixed, ci))
				var fs fails
				switch {
				case len(ex.Origin) != 1:
					fs.add("harness", "plain request reached the origin %d times (outcome %s)", len(ex.Origin), ex.Outcome)
				case ex.Outcome != "response":
					fs.add("no_response", "origin answered %d but the client got %s", status, ex.Outcome)
				case !fromOrigin:
					// net/http's client side refused the origin's response and the proxy answered itself: outside C14
				default:
					if ex.Status != status {
						fs.add("status_changed", "origin answered %d, client got %d", status, ex.Status)
					}
					skip := map[string]bool{"Connection": true, "Transfer-Encoding": true, "Content-Length": true}
					checkHopAndOthers(&fs, served, ex.ResH, skip)
					checkOwnHop(&fs, ex.ResH)
					if len(ex.ResH["Warning"]) > 0 {
						fs.add("spurious_error", "client got Warning %q", ex.ResH["Warning"])
					}
				}
				for _, f := range fs {
					f := f
					agg.add(f.Sym, status, func() string {
						return fmt.Sprintf("through the proxy: origin answered %q; client got %s %d {%s}: %s", ex.Served, ex.Outcome, ex.Status, headerString(ex.ResH), f.Desc())
					}, map[string]interface{}{"part": "proxy_res_status", "status": status, "fixed": fixed, "connection": conn})
				}
			}
		}
	}
	agg.flush("proxy_res_status", out.violate)
}
