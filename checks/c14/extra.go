package main

// Families added by the audit of this check (AUDIT.md lists the gaps they close). All of them drive the real
// httpspec.NewStack with direct calls (fresh request and context per message) and judge with the reference model
// of main.go (judgeStack, checkHopAndOthers, checkRequestManaged); each is a full product of small explicit pools.
//
//   hist            two / three exchanges interleaved on ONE stack: every order of the 2k steps (request step,
//                   response step of each exchange) that keeps each exchange's own order, over a pool of
//                   exchange kinds (plain, loop, loop on a later line, foreign chain, Connection-listed, bad
//                   framing, loop + bad framing). Each exchange is judged exactly as if it were alone.
//   user_group      the inner group returned by NewStack is populated with a modifier that is passive, adds an
//                   end-to-end header, adds hop-by-hop headers to the response, and / or returns an error.
//   multi_instance  several stacks (same and different pseudonyms) and every path of a request through them.
//   conn_spelling   spellings (case, SP / HTAB padding, empty elements, position) of a listed token, long token
//                   lists (1..64 tokens: one line, one per line, two lines), Connection naming the remaining
//                   managed headers and fixed headers; requests and responses.
//   framing_spelling Content-Length lists of three values, Transfer-Encoding case / OWS / three codings /
//                   look-alikes of "chunked"; empty header lines in front of / behind Via and X-Forwarded-* values.
//   env             HTTP/2.0 and 1.0 messages, bare IPv6 / zone / port-less client addresses, unusual URLs.

import (
	"errors"
	"fmt"
	"net/http"
	"net/url"
	"sort"
	"strings"
	"sync"

	"github.com/google/martian/v3"
	"github.com/google/martian/v3/fifo"
	"github.com/google/martian/v3/header"
	"github.com/google/martian/v3/httpspec"
	"github.com/google/martian/v3/proxyutil"

	"verif/lib"
)

type stackT interface {
	martian.RequestModifier
	martian.ResponseModifier
}

// xrep collects what the audit families did.
type xrep struct {
	mu          sync.Mutex
	rep         *lib.Report
	cases       map[string]int64
	nontrivial  int64
	transitions int64
	failing     map[string]int64
	states      map[string]struct{}
}

func newXrep(rep *lib.Report) *xrep {
	return &xrep{rep: rep, cases: map[string]int64{}, failing: map[string]int64{}, states: map[string]struct{}{}}
}

// extraSigs records the signatures the audit families reported (replays re-run a family and look here).
var extraSigs sync.Map

func (x *xrep) violate(family, class, sym, desc string, replay interface{}) {
	x.failing[family]++
	extraSigs.Store(family+":"+class+":"+sym, desc)
	x.rep.Violate(family+":"+class+":"+sym, desc, replay)
}

func mkEnv(major, minor int, remote, ip, rawurl string) envT {
	e := envT{major: major, minor: minor, remote: remote, ip: ip, url: rawurl}
	e.parsed, _ = url.Parse(rawurl)
	e.proto = fmt.Sprintf("HTTP/%d.%d", major, minor)
	e.ver = fmt.Sprintf("%d.%d", major, minor)
	return e
}

// liveExchange is one exchange on a stack whose request and response steps can be run at different times.
type liveExchange struct {
	e      envT
	reqIn  http.Header
	resIn  http.Header
	req    *http.Request
	ctx    *martian.Context
	remove func()
	obs    stackObs
	resOut http.Header
}

func guard(panicked *string, f func()) {
	defer func() {
		if r := recover(); r != nil {
			*panicked = fmt.Sprint(r)
		}
	}()
	f()
}

func startExchange(st stackT, e envT, reqIn http.Header) *liveExchange {
	uc := *e.parsed
	lx := &liveExchange{e: e, reqIn: reqIn}
	lx.req = &http.Request{Method: "POST", URL: &uc, Proto: e.proto, ProtoMajor: e.major, ProtoMinor: e.minor,
		Header: cloneHeader(reqIn), Host: uc.Host, RemoteAddr: e.remote}
	lx.obs.In = reqIn
	ctx, remove, err := martian.TestContext(lx.req, nil, nil)
	if err != nil {
		lx.obs.Panic = "TestContext: " + err.Error()
		return lx
	}
	lx.ctx, lx.remove = ctx, remove
	guard(&lx.obs.Panic, func() {
		lx.obs.transition++
		lx.obs.Err = errStr(st.ModifyRequest(lx.req))
		lx.obs.Skip = ctx.SkippingRoundTrip()
		lx.obs.Out = lx.req.Header
	})
	return lx
}

// finish runs the response step: what the proxy would pass to the response modifier (a fresh 200 for a skipped
// round trip, else the origin's response with header resIn; nil = no header fields).
func (lx *liveExchange) finish(st stackT, resIn http.Header) {
	if lx.remove == nil {
		return
	}
	defer lx.remove()
	lx.resIn = resIn
	res := proxyutil.NewResponse(200, nil, lx.req)
	if resIn != nil {
		res.Header = cloneHeader(resIn)
	}
	guard(&lx.obs.Panic, func() {
		lx.obs.transition++
		lx.obs.ResErr = errStr(st.ModifyResponse(res))
		lx.obs.ResStatus = res.StatusCode
		lx.resOut = res.Header
	})
}

// judgeResponseHeaders: nothing but hop-by-hop removal happens to a response's header fields.
func judgeResponseHeaders(in, out http.Header) (fs fails) {
	if in == nil {
		in = http.Header{}
	}
	checkHopAndOthers(&fs, in, out, nil)
	for name := range managed {
		if hopKind(name, in["Connection"]) == "" && !eqList(in[name], out[name]) {
			fs.add("end_to_end_changed", "response header %s: %q came out as %q", name, in[name], out[name])
		}
	}
	return
}

type exKind struct {
	Name string
	Req  http.Header
	Res  http.Header
}

func baseHeader() http.Header {
	return http.Header{"Accept": {"a, b"}, "X-Baz": {"1", "2"}, "User-Agent": {"c14"}}
}

func with(h http.Header, kv ...[]string) http.Header {
	o := cloneHeader(h)
	for _, e := range kv {
		o[e[0]] = append([]string(nil), e[1:]...)
	}
	return o
}

func exchangeKinds(id identity) []exKind {
	own := "1.1 " + id.rb
	listedRes := with(baseHeader(), []string{"Connection", "X-Bar , keep-alive"}, []string{"X-Bar", "b"}, []string{"Keep-Alive", "timeout=5"}, []string{"Via", "1.1 origin-side"})
	return []exKind{
		{"plain", baseHeader(), nil},
		{"loop", with(baseHeader(), []string{"Via", own}), nil},
		{"foreign_chain", with(baseHeader(), []string{"Via", "1.0 fred", "1.1 example.com (x)"}, []string{"X-Forwarded-For", "192.0.2.1"}), with(baseHeader(), []string{"Via", "1.0 a", "1.1 b"})},
		{"listed", with(baseHeader(), []string{"Connection", "close, x-foo"}, []string{"X-Foo", "1", "2"}, []string{"Keep-Alive", "timeout=5"}), listedRes},
		{"loop_later_line", with(baseHeader(), []string{"Via", "1.0 fred", "1.1\t" + id.rb + " (c)"}), listedRes},
		{"cl_conflict", with(baseHeader(), []string{"Content-Length", "5", "6"}), nil},
		{"loop_te_bad", with(baseHeader(), []string{"Via", "1.0 fred, " + own}, []string{"Transfer-Encoding", "gzip"}), nil},
	}
}

// interleavings calls f with every order of the 2n steps of n exchanges in which each exchange's request step
// precedes its response step; a step is the exchange's index.
func interleavings(n int, f func(order []int)) {
	done := make([]int, n)
	var order []int
	var rec func()
	rec = func() {
		if len(order) == 2*n {
			f(order)
			return
		}
		for i := 0; i < n; i++ {
			if done[i] < 2 {
				done[i]++
				order = append(order, i)
				rec()
				order = order[:len(order)-1]
				done[i]--
			}
		}
	}
	rec()
}

var histEnvs = []int{0, 2, 4} // HTTP/1.1, three different client addresses

func famHist(x *xrep, tier string) {
	w, err := newStackWorld()
	if err != nil {
		setIncomplete(x.rep, "hist family: "+err.Error())
		return
	}
	kinds := exchangeKinds(w.id)
	run := func(n, nk int) {
		idx := make([]int, n)
		var rec func(p int)
		rec = func(p int) {
			if p < n {
				for k := 0; k < nk; k++ {
					idx[p] = k
					rec(p + 1)
				}
				return
			}
			interleavings(n, func(order []int) {
				x.cases["hist"]++
				x.nontrivial++
				live := make([]*liveExchange, n)
				for _, i := range order {
					k := kinds[idx[i]]
					if live[i] == nil {
						live[i] = startExchange(w.stack, env(histEnvs[i]), k.Req)
					} else {
						live[i].finish(w.stack, k.Res)
					}
				}
				var names []string
				for i := range live {
					names = append(names, kinds[idx[i]].Name)
				}
				x.states["hist|"+strings.Join(names, ",")+"|"+shape(order)] = struct{}{}
				for i, lx := range live {
					x.transitions += int64(lx.obs.transition)
					k := kinds[idx[i]]
					fs := judgeStack("req", k.Req, lx.obs, lx.e, w.id)
					if lx.obs.Panic == "" {
						for _, f := range judgeResponseHeaders(k.Res, lx.resOut) {
							fs.add("res_"+f.Sym, "%s", f.Desc())
						}
						if loopAt(k.Req["Via"], w.id) == 0 && lx.obs.ResErr != "" {
							fs.add("res_spurious_error", "ModifyResponse returned %q", lx.obs.ResErr)
						}
					}
					for _, f := range fs {
						x.violate("hist", loopClass(k.Req, w.id), f.Sym, fmt.Sprintf("exchanges %v on one stack, steps in order %v (index = exchange; first occurrence = its request, second = its response); exchange %d (%s): request {%s} -> {%s} err=%q skip=%v; response %d {%s}: %s",
							names, order, i, k.Name, headerString(k.Req), headerString(lx.obs.Out), lx.obs.Err, lx.obs.Skip, lx.obs.ResStatus, headerString(lx.resOut), f.Desc()),
							map[string]interface{}{"part": "hist", "kinds": names, "order": append([]int(nil), order...)})
					}
				}
			})
		}
		rec(0)
	}
	run(2, len(kinds))
	if tier == "thorough" {
		run(3, len(kinds))
	} else {
		run(3, 4)
	}
}

// loopClass: signatures of the history families name only whether the failing exchange is a loop or is forwarded.
func loopClass(req http.Header, id identity) string {
	if loopAt(req["Via"], id) != 0 {
		return "loop"
	}
	return "forwarded"
}

func shape(order []int) string {
	var sb strings.Builder
	for _, i := range order {
		sb.WriteByte(byte('0' + i))
	}
	return sb.String()
}

// ---------------------------------------------------------------------------------------------------
// user group

type userMod struct {
	reqBeh, resBeh     string
	reqCalls, resCalls int
}

const userReqErr, userResErr = "user request modifier failed", "user response modifier failed"

func (u *userMod) ModifyRequest(req *http.Request) error {
	u.reqCalls++
	switch u.reqBeh {
	case "add_e2e":
		req.Header["X-User-Added"] = []string{"u"}
	case "error":
		return errors.New(userReqErr)
	}
	return nil
}

func (u *userMod) ModifyResponse(res *http.Response) error {
	u.resCalls++
	if strings.Contains(u.resBeh, "add_hop") {
		res.Header["Connection"] = append(res.Header["Connection"], "x-user-hop")
		res.Header["X-User-Hop"] = []string{"1"}
		res.Header["Keep-Alive"] = []string{"timeout=1"}
		res.Header["Upgrade"] = []string{"h2c"}
	}
	if strings.Contains(u.resBeh, "add_e2e") {
		res.Header["X-User-Added"] = []string{"u"}
	}
	if strings.Contains(u.resBeh, "error") {
		return errors.New(userResErr)
	}
	return nil
}

func dropErrLine(s, line string) (string, bool) {
	var keep []string
	found := false
	for _, l := range strings.Split(s, "\n") {
		if strings.Contains(l, line) && !found {
			found = true
			continue
		}
		if l != "" {
			keep = append(keep, l)
		}
	}
	return strings.Join(keep, "\n"), found
}

func famUserGroup(x *xrep) {
	outer, inner := httpspec.NewStack("martian")
	um := &userMod{}
	inner.AddRequestModifier(um)
	inner.AddResponseModifier(um)
	id, err := probeIdentity(outer)
	if err != nil {
		setIncomplete(x.rep, "user_group family: "+err.Error())
		return
	}
	um.reqCalls, um.resCalls = 0, 0
	kinds := exchangeKinds(id)
	for _, k := range kinds {
		for _, reqBeh := range []string{"passive", "add_e2e", "error"} {
			for _, resBeh := range []string{"passive", "add_hop", "add_e2e", "error", "add_hop+error", "add_hop+add_e2e"} {
				resIns := []http.Header{nil}
				if k.Res != nil {
					resIns = append(resIns, k.Res)
				}
				for _, resIn := range resIns {
					x.cases["user_group"]++
					x.nontrivial++
					um.reqBeh, um.resBeh = reqBeh, resBeh
					lx := startExchange(outer, env(2), k.Req)
					lx.finish(outer, resIn)
					x.transitions += int64(lx.obs.transition)
					x.states[fmt.Sprintf("user_group|%s|%s|%s|%v", k.Name, reqBeh, resBeh, resIn != nil)] = struct{}{}
					obs := lx.obs
					var fs fails
					loop := loopAt(k.Req["Via"], id) != 0
					// the user's own doings are accounted for first, the rest is judged as without a user group
					if reqBeh == "error" {
						rest, found := dropErrLine(obs.Err, userReqErr)
						if !found && !loop && obs.Panic == "" {
							fs.add("user_error_swallowed", "the user group's request modifier failed but ModifyRequest returned %q", obs.Err)
						}
						obs.Err = rest
					}
					if obs.Out != nil && reqBeh == "add_e2e" {
						obs.Out = cloneHeader(obs.Out)
						delete(obs.Out, "X-User-Added")
					}
					for _, f := range judgeStack("req", k.Req, obs, lx.e, id) {
						fs.add(f.Sym, "%s", f.Desc())
					}
					if obs.Panic == "" {
						eff := http.Header{}
						if resIn != nil {
							eff = cloneHeader(resIn)
						}
						if strings.Contains(resBeh, "add_hop") {
							eff["Connection"] = append(eff["Connection"], "x-user-hop")
							eff["X-User-Hop"], eff["Keep-Alive"], eff["Upgrade"] = []string{"1"}, []string{"timeout=1"}, []string{"h2c"}
						}
						if strings.Contains(resBeh, "add_e2e") {
							eff["X-User-Added"] = []string{"u"}
						}
						for _, f := range judgeResponseHeaders(eff, lx.resOut) {
							fs.add("res_"+f.Sym, "%s", f.Desc())
						}
						resErr := obs.ResErr
						if strings.Contains(resBeh, "error") {
							rest, found := dropErrLine(resErr, userResErr)
							if !found {
								fs.add("user_error_swallowed", "the user group's response modifier failed but ModifyResponse returned %q", obs.ResErr)
							}
							resErr = rest
						}
						if !loop && resErr != "" {
							fs.add("res_spurious_error", "ModifyResponse returned %q", obs.ResErr)
						}
					}
					for _, f := range fs {
						x.violate("user_group", loopClass(k.Req, id), f.Sym,
							fmt.Sprintf("user group modifier (request: %s, response: %s): request {%s} -> {%s} err=%q skip=%v; response in {%s} -> %d {%s} err=%q: %s",
								reqBeh, resBeh, headerString(k.Req), headerString(lx.obs.Out), lx.obs.Err, lx.obs.Skip, headerString(resIn), lx.obs.ResStatus, headerString(lx.resOut), lx.obs.ResErr, f.Desc()),
							map[string]interface{}{"part": "user_group", "kind": k.Name, "req_behaviour": reqBeh, "res_behaviour": resBeh, "origin_response_header": resIn != nil})
					}
				}
			}
		}
	}
	setCov(x.rep, "user_group_modifier_calls", map[string]int{"request": um.reqCalls, "response": um.resCalls})
}

func probeIdentity(st stackT) (identity, error) {
	lx := startExchange(st, env(0), http.Header{})
	lx.finish(st, nil)
	if lx.obs.Panic != "" || lx.obs.Err != "" {
		return identity{}, fmt.Errorf("probe request: err=%q panic=%q", lx.obs.Err, lx.obs.Panic)
	}
	e := flatten(lx.obs.Out["Via"])
	if len(e) != 1 || receivedBy(e[0]) == "" {
		return identity{}, fmt.Errorf("probe request without Via came out with Via %q", lx.obs.Out["Via"])
	}
	id := identity{rb: receivedBy(e[0])}
	id.other = otherBoundary(id.rb)
	return id, nil
}

// ---------------------------------------------------------------------------------------------------
// several instances

type instance struct {
	name  string
	stack *fifo.Group
	id    identity
}

func famMultiInstance(x *xrep, tier string, foreignIDs []string) {
	names := []string{"martian", "martian", "proxy.example:8080"}
	maxLen := 3
	if tier == "thorough" {
		names = append(names, "martian-1", "M")
		maxLen = 4
	}
	var inst []instance
	for _, n := range names {
		st, _ := httpspec.NewStack(n)
		id, err := probeIdentity(st)
		if err != nil {
			setIncomplete(x.rep, "multi_instance family: "+err.Error())
			return
		}
		inst = append(inst, instance{n, st, id})
	}
	// identities: pseudonym-boundary, pairwise distinct between instances (also those of the other worker
	// processes of this run, which all use the pseudonym "martian")
	seen := map[string]string{}
	for i, in := range inst {
		x.cases["multi_instance"]++
		if !strings.HasPrefix(in.id.rb, in.name+"-") || len(in.id.rb) <= len(in.name)+1 {
			x.violate("multi_instance", "pseudonym", "via_own_wrong_pseudonym", fmt.Sprintf("NewStack(%q) stamps received-by %q, want %q followed by a boundary", in.name, in.id.rb, in.name+"-"), nil)
		}
		if prev, ok := seen[in.id.rb]; ok {
			x.violate("multi_instance", "identity", "boundary_not_unique", fmt.Sprintf("two stack instances (%s and instance %d) stamp the same received-by %q: each would take the other's requests for its own", prev, i, in.id.rb), nil)
		}
		seen[in.id.rb] = fmt.Sprintf("instance %d", i)
	}
	for i, rb := range foreignIDs {
		x.cases["multi_instance"]++
		if prev, ok := seen[rb]; ok {
			x.violate("multi_instance", "identity", "boundary_not_unique", fmt.Sprintf("stack instances in different processes (%s and worker %d) stamp the same received-by %q", prev, i, rb), nil)
		}
		seen[rb] = fmt.Sprintf("worker process %d", i)
	}
	setCov(x.rep, "distinct_instance_identities", len(seen))

	famSetBoundary(x)

	initial := [][]string{nil, {"1.0 fred", "1.1 example.com"}}
	lib.Sequences(len(inst), maxLen, func(path []int) {
		if len(path) == 0 {
			return
		}
		visited := map[int]bool{}
		for k, i := range path { // a loop ends the path: only paths whose loop (if any) is at the last hop
			if visited[i] && k != len(path)-1 {
				return
			}
			visited[i] = true
		}
		for _, via0 := range initial {
			x.cases["multi_instance"]++
			x.nontrivial++
			x.states[fmt.Sprintf("multi|%v|%v", path, via0 != nil)] = struct{}{}
			h := baseHeader()
			if via0 != nil {
				h["Via"] = via0
			}
			wantVia := flatten(via0)
			var wantXFF []string
			been := map[int]bool{}
			for k, i := range path {
				in := inst[i]
				e := mkEnv(1, 1, fmt.Sprintf("10.0.%d.1:5000", k), fmt.Sprintf("10.0.%d.1", k), "http://example.com/path")
				lx := startExchange(in.stack, e, h)
				lx.finish(in.stack, nil)
				x.transitions += int64(lx.obs.transition)
				var fs fails
				obs := lx.obs
				switch {
				case obs.Panic != "":
					fs.add("panic", "panic: %s", obs.Panic)
				case been[i]:
					if !obs.Skip || obs.Err == "" || obs.ResStatus != 400 {
						fs.add("loop_not_skipped", "the request comes back to instance %d (%s) with Via %q but err=%q skip=%v response=%d", i, in.id.rb, h["Via"], obs.Err, obs.Skip, obs.ResStatus)
					}
				default:
					if obs.Skip || obs.Err != "" || obs.ResStatus != 200 {
						fs.add("false_loop_skipped", "instance %d (%s) never saw this request (Via %q) but err=%q skip=%v response=%d", i, in.id.rb, h["Via"], obs.Err, obs.Skip, obs.ResStatus)
						break
					}
					wantVia = append(wantVia, "1.1 "+in.id.rb)
					wantXFF = append(wantXFF, e.ip)
					if got := flatten(obs.Out["Via"]); !eqList(got, wantVia) {
						fs.add("via_chain_wrong", "after hop %d Via is %q, want the entries %q", k, obs.Out["Via"], wantVia)
					}
					if got := flatten(obs.Out["X-Forwarded-For"]); !eqList(got, wantXFF) {
						fs.add("xff_chain_wrong", "after hop %d X-Forwarded-For is %q, want the values %q", k, obs.Out["X-Forwarded-For"], wantXFF)
					}
				}
				for _, f := range fs {
					x.violate("multi_instance", "chain", f.Sym, fmt.Sprintf("path of instances %v (pseudonyms %q), initial Via %q, hop %d: %s", path, names, via0, k, f.Desc()),
						map[string]interface{}{"part": "multi_instance", "path": append([]int(nil), path...), "pseudonyms": names, "initial_via": via0})
				}
				if len(fs) > 0 || been[i] {
					break
				}
				been[i] = true
				h = cloneHeader(obs.Out)
			}
		}
	})
}

// viaOnly lets the exchange runner drive a bare ViaModifier.
type viaOnly struct{ *header.ViaModifier }

// famSetBoundary: the Via modifier's only setter. The stack does not expose it, so the modifier is driven
// directly: after SetBoundary(b) the entry stamped is pseudonym-b, a chain naming pseudonym-b is a loop, and a
// chain naming the identity the modifier had before is not.
func famSetBoundary(x *xrep) {
	for _, b := range []string{"abc", "0", "a-b", "0123456789abcdef0123"} {
		for _, name := range []string{"martian", "p.example:80"} {
			vm := viaOnly{header.NewViaModifier(name)}
			before, err := probeIdentity(vm)
			if err != nil {
				setIncomplete(x.rep, "set_boundary family: "+err.Error())
				return
			}
			vm.SetBoundary(b)
			now := identity{rb: name + "-" + b}
			for ci, c := range []struct {
				via  []string
				loop bool
			}{
				{nil, false}, {[]string{"1.0 fred"}, false}, {[]string{"1.1 " + before.rb}, false}, {[]string{"1.0 fred, 1.1 " + now.rb}, true},
				{[]string{"1.0 fred", "1.1\t" + now.rb + " (c)"}, true}, {[]string{"1.1 " + before.rb, "1.1 " + now.rb}, true},
			} {
				x.cases["multi_instance"]++
				x.nontrivial++
				x.states[fmt.Sprintf("set_boundary|%s|%s|%d", name, b, ci)] = struct{}{}
				h := baseHeader()
				if c.via != nil {
					h["Via"] = c.via
				}
				lx := startExchange(vm, env(0), h)
				lx.finish(vm, nil)
				x.transitions += int64(lx.obs.transition)
				obs := lx.obs
				var fs fails
				switch {
				case obs.Panic != "":
					fs.add("panic", "panic: %s", obs.Panic)
				case c.loop:
					if !obs.Skip || obs.Err == "" || obs.ResStatus != 400 {
						fs.add("loop_not_skipped", "Via %q names %s: err=%q skip=%v response=%d", c.via, now.rb, obs.Err, obs.Skip, obs.ResStatus)
					}
				default:
					want := append(flatten(c.via), "1.1 "+now.rb)
					if obs.Skip || obs.Err != "" || obs.ResStatus != 200 {
						fs.add("false_loop_skipped", "Via %q does not name %s: err=%q skip=%v response=%d", c.via, now.rb, obs.Err, obs.Skip, obs.ResStatus)
					} else if got := flatten(obs.Out["Via"]); !eqList(got, want) {
						fs.add("via_chain_wrong", "Via %q -> %q, want the entries %q", c.via, obs.Out["Via"], want)
					}
				}
				for _, f := range fs {
					x.violate("multi_instance", "set_boundary", f.Sym, fmt.Sprintf("ViaModifier(%q) after SetBoundary(%q) (identity before: %s): %s", name, b, before.rb, f.Desc()),
						map[string]interface{}{"part": "set_boundary", "pseudonym": name, "boundary": b, "via": c.via})
				}
			}
		}
	}
}

// ---------------------------------------------------------------------------------------------------
// single messages with explicit headers

type single struct {
	Family, Class string
	Dir           string
	In            http.Header
	E             envT
	// Model is the header the model is applied to when it differs from In (a managed header named by Connection
	// counts as not sent); Either lists obligations the statement leaves open for this input.
	Model  http.Header
	Either []string
}

func runSingles(x *xrep, w *stackWorld, list []single) {
	for _, s := range list {
		x.cases[s.Family]++
		x.nontrivial++
		x.states[s.Family+"|"+s.Class+"|"+s.Dir+"|"+headerString(s.In)+"|"+s.E.remote+s.E.url+s.E.proto] = struct{}{}
		var obs stackObs
		if s.Dir == "req" {
			lx := startExchange(w.stack, s.E, s.In)
			lx.finish(w.stack, nil)
			obs = lx.obs
		} else {
			lx := startExchange(w.stack, s.E, http.Header{})
			lx.finish(w.stack, s.In)
			obs = stackObs{In: s.In, Out: lx.resOut, ResErr: lx.obs.ResErr, ResStatus: lx.obs.ResStatus, Panic: lx.obs.Panic, transition: lx.obs.transition}
		}
		x.transitions += int64(obs.transition)
		model := s.In
		if s.Model != nil {
			model = s.Model
		}
		fs := judgeStack(s.Dir, model, obs, s.E, w.id)
		if s.Model != nil && obs.Panic == "" { // what the model was not shown must not come out either
			for name := range s.In {
				if _, shown := model[name]; !shown && managed[name] && name != "Via" && !strings.HasPrefix(name, "X-Forwarded-") {
					if _, ok := obs.Out[name]; ok {
						fs.add("hop_listed_survives", "header %s: %q named by Connection %q survives", name, obs.Out[name], s.In["Connection"])
					}
				}
			}
		}
	next:
		for _, f := range fs {
			for _, e := range s.Either {
				if e == f.Sym {
					continue next
				}
			}
			x.violate(s.Family, s.Class, f.Sym, fmt.Sprintf("%s on the stack (%s %s from %s): in {%s} -> out {%s} err=%q skip=%v response=%d: %s", s.Dir, s.E.proto, s.E.url, s.E.remote,
				headerString(s.In), headerString(obs.Out), obs.Err, obs.Skip, obs.ResStatus, f.Desc()),
				map[string]interface{}{"part": s.Family, "dir": s.Dir, "header": s.In, "proto": s.E.proto, "remote": s.E.remote, "url": s.E.url})
		}
	}
}

func connSpellingCases(tier string) []single {
	var out []single
	e := env(0)
	spellings := []struct{ class, s string }{
		{"canonical", "X-Listed"}, {"lower", "x-listed"}, {"upper", "X-LISTED"}, {"mixed", "x-LiStEd"},
		{"htab_before", "\tX-Listed"}, {"htab_after", "X-Listed\t"}, {"sp_htab_both", " \t x-listed \t "}, {"sp_after", "X-Listed  "},
	}
	positions := []struct {
		class string
		lines func(s string) []string
	}{
		{"alone", func(s string) []string { return []string{s} }},
		{"first", func(s string) []string { return []string{s + ",close"} }},
		{"last", func(s string) []string { return []string{"keep-alive," + s} }},
		{"middle", func(s string) []string { return []string{"close," + s + ",Upgrade"} }},
		{"second_line", func(s string) []string { return []string{"close", s} }},
		{"between_empty_elements", func(s string) []string { return []string{",," + s + ",, "} }},
		{"second_line_after_te", func(s string) []string { return []string{"TE", "foo ," + s} }},
		{"after_connection_token", func(s string) []string { return []string{"Connection, " + s} }},
	}
	for _, dir := range []string{"req", "res"} {
		for _, sp := range spellings {
			for _, pos := range positions {
				h := with(baseHeader(), append([]string{"Connection"}, pos.lines(sp.s)...), []string{"X-Listed", "1", "2"}, []string{"X-Listed-2", "keep"}, []string{"X-Liste", "keep"},
					[]string{"Upgrade", "websocket"}, []string{"Te", "trailers"}, []string{"Foo", "f"})
				out = append(out, single{Family: "conn_spelling", Class: "token_" + sp.class, Dir: dir, In: h, E: e})
			}
		}
		// long lists: n distinct tokens, every one names a present header; one more header is not named
		counts := []int{1, 2, 7, 8, 9, 10, 15, 16, 17, 33, 64}
		for _, n := range counts {
			var toks []string
			h := baseHeader()
			for i := 0; i < n; i++ {
				t := fmt.Sprintf("X-H%d", i)
				toks = append(toks, t)
				h[t] = []string{fmt.Sprint(i)}
			}
			h[fmt.Sprintf("X-H%d", n)] = []string{"not listed"}
			h["Keep-Alive"] = []string{"timeout=5"}
			arr := map[string][]string{"one_line": {strings.Join(toks, ", ")}, "one_per_line": toks}
			if n >= 2 {
				arr["two_lines"] = []string{strings.Join(toks[:n/2], ","), strings.Join(toks[n/2:], " ,")}
			}
			var keys []string
			for k := range arr {
				keys = append(keys, k)
			}
			sort.Strings(keys)
			for _, k := range keys {
				out = append(out, single{Family: "conn_spelling", Class: "many_tokens_" + k, Dir: dir, In: with(h, append([]string{"Connection"}, arr[k]...)), E: e})
			}
		}
	}
	// Connection names a header the stack manages (the ones the older family does not use) or a fixed one
	type mh struct {
		name string
		vals [][]string
	}
	for _, m := range []mh{
		{"X-Forwarded-Proto", [][]string{nil, {"https"}, {"https", "ftp"}}},
		{"X-Forwarded-Host", [][]string{nil, {"orig.example"}, {"orig.example", "second.example"}}},
		{"X-Forwarded-Url", [][]string{nil, {"http://orig.example/p?q=1"}}},
		{"Content-Length", [][]string{nil, {"5"}, {"5", "5"}}},
		{"Transfer-Encoding", [][]string{nil, {"chunked"}, {"gzip, chunked"}}},
		{"Keep-Alive", [][]string{{"timeout=5"}}},
		{"Connection", [][]string{nil}},
	} {
		for _, tok := range []string{m.name, strings.ToLower(m.name), " " + strings.ToUpper(m.name) + "\t"} {
			for _, conn := range [][]string{{tok}, {"close, " + tok}, {"X-Foo", tok + " , close"}} {
				for _, v := range m.vals {
					for _, dir := range []string{"req", "res"} {
						h := with(baseHeader(), append([]string{"Connection"}, conn...), []string{"X-Foo", "1"})
						if v != nil {
							h[m.name] = v
						}
						s := single{Family: "conn_spelling", Class: "names_" + strings.ToLower(m.name), Dir: dir, In: h, E: e}
						if dir == "req" && managed[m.name] {
							s.Model = cloneHeader(h)
							delete(s.Model, m.name)
						}
						out = append(out, s)
					}
				}
			}
		}
	}
	return out
}

func framingSpellingCases(id identity) []single {
	var out []single
	e := env(0)
	type fv struct {
		class  string
		v      []string
		either bool
	}
	either := []string{"spurious_error", "framing_not_flagged", "cl_changed", "cl_added"}
	cls := []fv{
		{"cl_three_last_differs", []string{"5", "5", "6"}, false}, {"cl_three_last_differs", []string{"5, 5, 6"}, false}, {"cl_three_last_differs", []string{"5", "5, 6"}, false},
		{"cl_three_first_differs", []string{"6", "5", "5"}, false}, {"cl_three_middle_differs", []string{"5, 6, 5"}, false}, {"cl_three_middle_differs", []string{"5", "6", "5"}, false},
		{"cl_three_equal", []string{"5", "5", "5"}, false}, {"cl_three_equal", []string{"5,5, 5"}, false}, {"cl_ows", []string{"5 ,\t5"}, false}, {"cl_ows", []string{"5\t, 5", "5"}, false},
		{"cl_ows_conflict", []string{"5 ,\t6"}, false},
		{"cl_leading_zero", []string{"5", "05"}, true}, {"cl_empty_element", []string{"5,"}, true}, {"cl_empty_element", []string{"5", ""}, true}, {"cl_empty_element", []string{"", "5"}, true},
	}
	tes := []fv{
		{"te_case", []string{"Chunked"}, false}, {"te_case", []string{"CHUNKED"}, false}, {"te_case", []string{"gzip, Chunked"}, false}, {"te_case", []string{"GZIP", "chunked"}, false},
		{"te_ows", []string{"gzip,chunked"}, false}, {"te_ows", []string{"gzip ,\tchunked"}, false}, {"te_ows", []string{"gzip\t,chunked"}, false},
		{"te_three", []string{"gzip, deflate, chunked"}, false}, {"te_three", []string{"gzip", "deflate", "chunked"}, false}, {"te_three", []string{"gzip", "deflate, chunked"}, false},
		{"te_three_bad", []string{"gzip, chunked, deflate"}, false}, {"te_three_bad", []string{"chunked", "chunked", "gzip"}, false}, {"te_three_bad", []string{"chunked", "gzip, deflate"}, false},
		{"te_three_bad", []string{"gzip", "chunked", "deflate"}, false},
		{"te_lookalike", []string{"xchunked"}, false}, {"te_lookalike", []string{"gzip, not-chunked"}, false}, {"te_lookalike", []string{"chunkedx"}, false}, {"te_lookalike", []string{"chunke"}, false},
		{"te_lookalike", []string{"gzip", "x chunked"}, false}, {"te_lookalike", []string{"identity"}, false},
		{"te_empty_element", []string{"chunked,"}, true}, {"te_empty_element", []string{"chunked", ""}, true}, {"te_empty_element", []string{""}, true}, {"te_empty_element", []string{"gzip,"}, false},
	}
	clCombo := [][]string{nil, {"5"}, {"5", "6"}}
	for _, c := range cls {
		for _, te := range [][]string{nil, {"chunked"}, {"gzip"}} {
			h := with(baseHeader(), append([]string{"Content-Length"}, c.v...))
			if te != nil {
				h["Transfer-Encoding"] = te
			}
			s := single{Family: "framing_spelling", Class: c.class, Dir: "req", In: h, E: e}
			if c.either {
				s.Either = either
			}
			out = append(out, s)
		}
	}
	for _, t := range tes {
		for _, cl := range clCombo {
			h := with(baseHeader(), append([]string{"Transfer-Encoding"}, t.v...))
			if cl != nil {
				h["Content-Length"] = cl
			}
			s := single{Family: "framing_spelling", Class: t.class, Dir: "req", In: h, E: e}
			if t.either {
				s.Either = either
			}
			out = append(out, s)
		}
	}
	// empty header lines before / after / instead of the values of the headers the stack appends to or preserves
	own := "1.1 " + id.rb
	for _, m := range []struct {
		name string
		vals [][]string
	}{
		{"Via", [][]string{{""}, {"", "1.0 fred"}, {"1.0 fred", ""}, {"1.0 fred", "", "1.1 b"}, {"", own}, {"1.0 fred", "", own}, {", 1.0 fred,"}, {" ,", own + " ,"}}},
		{"X-Forwarded-For", [][]string{{""}, {"", "192.0.2.1"}, {"192.0.2.1", ""}, {"192.0.2.1", "", "198.51.100.2"}}},
		{"X-Forwarded-Proto", [][]string{{""}, {"", "https"}, {"https", ""}}},
		{"X-Forwarded-Host", [][]string{{""}, {"", "orig.example"}, {"orig.example", ""}}},
		{"X-Forwarded-Url", [][]string{{""}, {"", "http://orig.example/p"}, {"http://orig.example/p", ""}}},
	} {
		for _, v := range m.vals {
			class := "empty_line_" + strings.ToLower(m.name)
			if m.name == "Via" && loopAt(v, id) != 0 {
				class += "_self"
			}
			out = append(out, single{Family: "framing_spelling", Class: class, Dir: "req", In: with(baseHeader(), append([]string{m.name}, v...)), E: e})
		}
	}
	return out
}

func envCases() []single {
	var out []single
	protos := [][2]int{{1, 1}, {1, 0}, {2, 0}}
	remotes := [][2]string{{"10.0.0.1:5000", "10.0.0.1"}, {"[2001:db8::1]:443", "2001:db8::1"}, {"2001:db8::1", "2001:db8::1"}, {"[fe80::1%eth0]:80", "fe80::1%eth0"},
		{"10.0.0.9", "10.0.0.9"}, {"client.example:80", "client.example"}, {"127.0.0.1:0", "127.0.0.1"}}
	urls := []string{"http://example.com/path", "http://example.com", "http://example.com/", "http://example.com/?", "http://example.com/a%2Fb%20c?x=%26&y=a+b",
		"https://example.com:8443/p?x=1&y=2", "http://[2001:db8::2]:8080/x", "http://user:pw@example.com/p", "http://EXAMPLE.com/CaSe", "http://example.com/p;v=1?q=http://other/", "http://example.com//double//slash"}
	hdrs := []http.Header{baseHeader(), with(baseHeader(), []string{"Via", "1.0 fred"}, []string{"X-Forwarded-For", "192.0.2.1"}, []string{"X-Forwarded-Proto", "https"})}
	for _, p := range protos {
		for _, r := range remotes {
			for _, u := range urls {
				for hi, h := range hdrs {
					class := "plain"
					if hi == 1 {
						class = "existing_values"
					}
					out = append(out, single{Family: "env", Class: class, Dir: "req", In: h, E: mkEnv(p[0], p[1], r[0], r[1], u)})
				}
			}
		}
	}
	return out
}

// runExtra runs the in-process audit families and the two proxy families (in a worker process).
func runExtra(rep *lib.Report, tier string, foreignIDs []string) {
	x := newXrep(rep)
	famHist(x, tier)
	famUserGroup(x)
	famLoopInner(x, tier)
	famMultiInstance(x, tier, foreignIDs)
	if w, err := newStackWorld(); err != nil {
		setIncomplete(rep, "audit families: "+err.Error())
	} else {
		runSingles(x, w, connSpellingCases(tier))
		runSingles(x, w, framingSpellingCases(w.id))
		runSingles(x, w, envCases())
		famResStatus(x, w, tier)
	}
	var total int64
	for _, n := range x.cases {
		total += n
	}
	setCov(rep, "audit_family_cases", x.cases)
	setCov(rep, "audit_family_failing", x.failing)
	rep.Count("extra_cases", total)
	rep.Count("extra_nontrivial", x.nontrivial)
	rep.Count("extra_transitions", x.transitions)
	rep.Count("extra_states", int64(len(x.states)))
}
