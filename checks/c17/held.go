// Family held (round 8, AUDIT.md): request and response bodies that are environment events.
//
// In the other concurrent scenarios every operation runs to completion on its own: the bodies are in memory. Here
// the body of one (or two) of the recorded messages arrives from a peer: a Read of it parks its thread at a gate
// until the driver - the peer - lets the rest of the body through. While the body is held, the other threads make
// every other call of the log; "the same outcomes when the calls are made concurrently from many connections"
// then says that
//   - every call that does not itself wait for the peer returns while the body is still held (the driver waits
//     for quiescence - nothing can move without the peer - and looks at who has not returned), and
//   - once the body has been let through, the call/return history of all calls is linearizable with respect to
//     the list model, as in the other concurrent scenarios.
//
// A second mode (free) opens the gates from a thread of their own, at any point of the schedule: the body arrives
// while the other calls are in progress.
package main

import (
	"fmt"
	"io"
	"net/http"
	"os"
	"strings"
	"time"

	"github.com/google/martian/v3/har"
	"github.com/google/martian/v3/zzverif/vrt"

	"verif/lib"
)

// heldOp builds the operation "record a message for id whose body is held before its chunk number at" (the body
// has two chunks; at = 2 holds the end of the body).
func heldOp(kind int, id string, at int) op { return op{kind, fmt.Sprintf("%s@%d", id, at)} }

// heldID splits the ID of a held operation.
func heldID(o op) (id string, at int) {
	i := strings.IndexByte(o.ID, '@')
	if i < 0 {
		return o.ID, 0
	}
	fmt.Sscanf(o.ID[i+1:], "%d", &at)
	return o.ID[:i], at
}

// heldBody delivers its chunks one Read at a time and parks the reader at the gate before chunk number holdAt
// (before the end of the body when holdAt = len(chunks)).
type heldBody struct {
	chunks []string
	i      int
	holdAt int
	gate   *vrt.Gate
	passed bool
	inRead bool // the reader is parked at the gate
	reads  int
}

func (b *heldBody) Read(p []byte) (int, error) {
	b.reads++
	if b.i == b.holdAt && !b.passed {
		b.inRead = true
		b.gate.Wait()
		b.inRead = false
		b.passed = true
	}
	if b.i >= len(b.chunks) {
		return 0, io.EOF
	}
	n := copy(p, b.chunks[b.i])
	if n < len(b.chunks[b.i]) {
		b.chunks[b.i] = b.chunks[b.i][n:]
	} else {
		b.i++
	}
	return n, nil
}
func (b *heldBody) Close() error { return nil }

func newHeldBody(text string, at int, g *vrt.Gate) *heldBody {
	h := len(text) / 2
	return &heldBody{chunks: []string{text[:h], text[h:]}, holdAt: at, gate: g}
}

// applyHeld makes the call of a held operation; hb is the body of its message.
func applyHeld(l *har.Logger, o op, tag int, hb *heldBody) string {
	id, _ := heldID(o)
	if o.Kind == opReqHeld {
		req, _ := http.NewRequest("POST", fmt.Sprintf("http://example.com/r%d", tag), hb)
		req.ContentLength = int64(len(reqBody(tag)))
		req.Header.Set("Content-Type", "text/plain")
		if err := l.RecordRequest(id, req); err != nil {
			if strings.Contains(err.Error(), "Duplicate") {
				return "dup"
			}
			return "err:" + err.Error()
		}
		return "ok"
	}
	res := &http.Response{StatusCode: 200 + tag, Proto: "HTTP/1.1", ProtoMajor: 1, ProtoMinor: 1, Header: http.Header{"Content-Type": {"text/plain"}},
		Body: hb, ContentLength: int64(len(resBody(tag)))}
	if err := l.RecordResponse(id, res); err != nil {
		return "err:" + err.Error()
	}
	return "ok"
}

func isHandlerOp(k int) bool { return k >= opExportH && k <= opRefusedH }

// heldPart explores the scenarios that have holders. Threads 0..H-1 are the holders (in the order in which their
// bodies are let through), the others follow.
func heldPart(out *shardOut, scen []scenario, shard, nshards int, deadline time.Time) {
	for si, sc := range scen {
		if nshards > 0 && si%nshards != shard {
			continue
		}
		sc := sc
		var evs []*event
		var base *model
		var blocked []string
		var heldAtQuiescence, bodyReads int
		body := func() {
			evs, blocked, heldAtQuiescence, bodyReads = nil, nil, 0, 0
			clock := 0
			l := har.NewLogger()
			base = &model{}
			tag := 0
			for _, o := range sc.Prime {
				tag++
				applyImpl(l, o, tag)
				base.apply(o, tag)
			}
			nh := len(sc.Holders)
			gates := make([]*vrt.Gate, nh)
			bodies := make([]*heldBody, nh)
			var ths []*vrt.Thread
			var doing []string // what each thread is inside of ("" = between calls)
			run := func(ti int, o op, tg int, call func() string) {
				ev := &event{Thread: ti, Op: o, Tag: tg}
				evs = append(evs, ev)
				clock++
				ev.Call = clock
				doing[ti] = o.String()
				ev.Result = call()
				doing[ti] = ""
				clock++
				ev.Ret = clock
				ev.returned = true
			}
			doing = make([]string, nh+len(sc.Threads))
			for hi, o := range sc.Holders {
				hi, o := hi, o
				tag++
				tg := tag
				gates[hi] = &vrt.Gate{}
				_, at := heldID(o)
				text := reqBody(tg)
				if o.Kind == opRespHeld {
					text = resBody(tg)
				}
				bodies[hi] = newHeldBody(text, at, gates[hi])
				ths = append(ths, vrt.Go(func() {
					run(hi, o, tg, func() string { return applyHeld(l, o, tg, bodies[hi]) })
				}))
			}
			for ti, prog := range sc.Threads {
				ti, prog := nh+ti, prog
				myTags := make([]int, len(prog))
				for i := range prog {
					tag++
					myTags[i] = tag
				}
				ths = append(ths, vrt.Go(func() {
					for i, o := range prog {
						o, tg := o, myTags[i]
						run(ti, o, tg, func() string { return applyImpl(l, o, tg) })
					}
				}))
			}
			var releasers []*vrt.Thread
			if sc.Free {
				// the bodies arrive at a moment of the peers' choosing
				for hi := range gates {
					g := gates[hi]
					releasers = append(releasers, vrt.Go(func() { g.Open() }))
				}
			}
			// The peer of holder k lets its body through only when nothing else can happen any more. At that moment
			// every thread that is not waiting for a peer has finished its program.
			for k := 0; k <= nh; k++ {
				vrt.WaitQuiescent()
				var waiting []string
				for hi := k; hi < nh; hi++ {
					if bodies[hi].inRead {
						waiting = append(waiting, sc.Holders[hi].String())
					}
				}
				if len(waiting) > 0 {
					heldAtQuiescence++
				}
				for ti, t := range ths {
					if (ti >= nh || ti < k) && !t.Done() {
						blocked = append(blocked, fmt.Sprintf("t%d inside %s while the body of %v is held", ti, doing[ti], waiting))
					}
				}
				if k < nh {
					gates[k].Open()
				}
			}
			for _, t := range ths {
				vrt.Join(t)
			}
			for _, t := range releasers {
				vrt.Join(t)
			}
			for _, b := range bodies {
				bodyReads += b.reads
			}
			fin := &event{Thread: -1, Op: op{Kind: opExport}, Tag: 0}
			clock++
			fin.Call = clock
			fin.Result = renderHAR(l.Export())
			clock++
			fin.Ret = clock
			fin.returned = true
			evs = append(evs, fin)
			for _, b := range blocked {
				vrt.Log("BLOCKED %s", b)
			}
			for _, e := range evs {
				vrt.Log("t%d %s#%d [%d,%d] -> %s", e.Thread, e.Op, e.Tag, e.Call, e.Ret, e.Result)
			}
		}
		nops := len(sc.Holders)
		handlers := false
		for _, prog := range sc.Threads {
			nops += len(prog)
			for _, o := range prog {
				handlers = handlers || isHandlerOp(o.Kind)
			}
		}
		// unlock points as in the other concurrent scenarios: where a handler serialises what it was handed after
		// the critical section, and for the small scenarios
		up := handlers || nops <= 2 || (lib.Tier() == "thorough" && nops <= 3)
		hk := kindName(sc.Holders[0].Kind)
		var withHeld, reads int64
		st := vrt.Explore(vrt.ExploreConfig{Bound: -1, Deadline: deadline, Config: vrt.Config{UnlockPoints: up}}, body, func(prefix []int, r *vrt.Result) bool {
			rp := map[string]interface{}{"part": "held", "scenario": sc, "schedule": r.ChoiceSeq()}
			if r.Outcome != "ok" {
				out.Violations = append(out.Violations, lib.Violation{Sig: "held:" + r.Outcome,
					Desc: fmt.Sprintf("scenario %s schedule %v: %s %s", sc, r.ChoiceSeq(), r.Outcome, r.Panic), Replay: rp})
				return len(out.Violations) < 50
			}
			if heldAtQuiescence > 0 {
				withHeld++
			}
			reads += int64(bodyReads)
			if len(blocked) > 0 {
				out.Violations = append(out.Violations, lib.Violation{Sig: "held:" + hk + ":others_blocked_while_body_held",
					Desc:   fmt.Sprintf("scenario %s schedule %v: with nothing left that can happen until a peer sends the rest of its body, these calls have not returned: %v (history after the bodies were let through: %v)", sc, r.ChoiceSeq(), blocked, r.Log),
					Replay: rp})
			} else if !linearizable(base, evs) {
				out.Violations = append(out.Violations, lib.Violation{Sig: "held:not_linearizable",
					Desc: fmt.Sprintf("scenario %s schedule %v: history %v is not linearizable w.r.t. the list model", sc, r.ChoiceSeq(), r.Log), Replay: rp})
			}
			return len(out.Violations) < 50
		})
		if st.EngineError != "" {
			fmt.Fprintln(os.Stderr, "ENGINE ERROR:", st.EngineError)
			os.Exit(2)
		}
		out.Counters["held_scenarios"]++
		if sc.Free {
			out.Counters["held_scenarios_free_release"]++
		}
		if len(sc.Holders) > 1 {
			out.Counters["held_scenarios_two_bodies"]++
		}
		if up {
			out.Counters["held_scenarios_with_unlock_points"]++
		}
		out.Counters["held_executions"] += int64(st.Execs)
		if !sc.Free {
			// (with a free release the body may have been let through before anything waited for it)
			out.Counters["held_executions_driver_release"] += int64(st.Execs)
			out.Counters["held_executions_driver_release_body_held_at_quiescence"] += withHeld
			_, at := heldID(sc.Holders[0])
			out.Counters[fmt.Sprintf("held_executions_body_held_before_chunk_%d", at)] += withHeld
		}
		out.Counters["held_executions_body_held_at_quiescence"] += withHeld
		out.Counters["held_body_reads"] += reads
		out.Counters["held_points"] += st.Points
		out.Counters["held_distinct_histories"] += int64(st.DistinctLogs)
		if st.DistinctLogs > 1 {
			out.Counters["held_scenarios_with_multiple_outcomes"]++
		}
		if !st.Exhaustive {
			out.Incomplete = "deadline or violation cap reached during the held-body part"
		}
		if len(out.Violations) >= 50 {
			break
		}
	}
}

// heldAts: the positions at which a body is held (chunk index; 2 = before the end of the body).
func heldAts(tier string) []int {
	if tier == "thorough" {
		return []int{0, 1, 2}
	}
	return []int{0, 2}
}

// heldScenarios: one holder - RecordRequest or RecordResponse for id a, its body held before its first chunk, its
// second chunk or its end - against one thread of 1-2 operations or two threads of one operation over every other
// call of the log (direct and through the handlers, ids a and b), from an empty and a primed log; two holders (in
// both orders of release) against one thread of one operation; and the free-release variant of the one-holder
// scenarios. quick: hold positions {first chunk, end}, two-operation programs over a reduced alphabet.
func heldScenarios(tier string) []scenario {
	direct := alphabet([]string{"a", "b"})
	full := append(append([]op{}, direct...), op{opExportH, "GET"}, op{opExportResetH, "POST ?return=true"}, op{opResetH, "DELETE"})
	red := []op{{opReq, "a"}, {opResp, "a"}, {opReq, "b"}, {Kind: opExport}, {Kind: opExportReset}, {Kind: opReset}, {opExportH, "GET"}}
	two := red
	ats := heldAts(tier)
	if tier == "thorough" {
		two = full
	}
	var others [][][]op // thread sets
	for _, o := range full {
		others = append(others, [][]op{{o}})
	}
	for _, o1 := range two {
		for _, o2 := range two {
			others = append(others, [][]op{{o1, o2}}, [][]op{{o1}, {o2}})
		}
	}
	primes := [][]op{nil, {{opReq, "a"}, {opReq, "b"}, {opResp, "b"}}}
	var out []scenario
	for _, pr := range primes {
		for _, kind := range []int{opReqHeld, opRespHeld} {
			for _, at := range ats {
				for _, th := range others {
					out = append(out, scenario{Prime: pr, Holders: []op{heldOp(kind, "a", at)}, Threads: th})
				}
			}
			// the body arrives at any moment
			for _, th := range others {
				if len(th) == 1 && len(th[0]) <= 2 {
					out = append(out, scenario{Prime: pr, Holders: []op{heldOp(kind, "a", 1)}, Threads: th, Free: true})
				}
			}
		}
		// two bodies held at the same time, let through one after the other
		var hs []op
		for _, kind := range []int{opReqHeld, opRespHeld} {
			for _, id := range []string{"a", "b"} {
				hs = append(hs, heldOp(kind, id, 0))
			}
		}
		for _, h1 := range hs {
			for _, h2 := range hs {
				for _, o := range full {
					out = append(out, scenario{Prime: pr, Holders: []op{h1, h2}, Threads: [][]op{{o}}})
				}
			}
		}
	}
	return out
}
