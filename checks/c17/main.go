// C17 — the HAR log returns every exchange once, in arrival order, across any history.
//
// Part 1 (histories): every operation sequence up to length L over {RecordRequest(a|b|c),
// RecordResponse(a|b|c), Export, ExportAndReset, Reset} is run on a fresh har.Logger and compared step by
// step with a reference model (an ordered list of (id, response marker)).
// Part 2 (schedules): 2-3 threads with 1-2 operations each on colliding ids run under the gosim scheduler;
// every interleaving of the logger's lock operations is enumerated and the recorded call/return history
// must be linearizable with respect to the same model.
// Further families (families.go; see AUDIT.md): front (the calls made through the HTTP handlers of
// har_handlers.go), errs (requests and responses whose body fails while it is being logged), ring (logs of up to
// ten entries in every pending/completed pattern over several export-and-reset rounds), and concurrent
// scenarios whose exports and resets go through the handlers.
package main

import (
	"encoding/json"
	"errors"
	"fmt"
	"io"
	"net/http"
	"net/http/httptest"
	"os"
	"strings"
	"time"

	"github.com/google/martian/v3/har"
	mlog "github.com/google/martian/v3/log"
	"github.com/google/martian/v3/zzverif/vrt"

	"verif/lib"
)

const (
	opReq = iota
	opResp
	opExport
	opExportReset
	opReset
	// the body of the message fails while the logger reads it: the call reports an error and records nothing
	opReqFail
	opRespFail
	// the same calls made the way a client of the proxy makes them: through the handlers of har_handlers.go
	// (ID holds the spelling "<METHOD> <query>")
	opExportH
	opExportResetH
	opResetH
	// a call the handlers refuse (ID = "<export|reset> <METHOD> <query> <status>"): not an export, not a reset
	opRefusedH
	// the body of the message arrives from a peer: reading it waits until the driver lets it through (held.go;
	// ID = "<id>@<chunk before which the body is held>")
	opReqHeld
	opRespHeld
)

type op struct {
	Kind int
	ID   string
}

func (o op) String() string {
	switch o.Kind {
	case opReq:
		return "Req(" + o.ID + ")"
	case opResp:
		return "Resp(" + o.ID + ")"
	case opExport:
		return "Export"
	case opExportReset:
		return "ExportAndReset"
	case opReqFail:
		return "ReqFail(" + o.ID + ")"
	case opRespFail:
		return "RespFail(" + o.ID + ")"
	case opExportH:
		return "ExportH(" + o.ID + ")"
	case opExportResetH:
		return "ExportAndResetH(" + o.ID + ")"
	case opResetH:
		return "ResetH(" + o.ID + ")"
	case opRefusedH:
		return "RefusedH(" + o.ID + ")"
	case opReqHeld:
		return "ReqHeld(" + o.ID + ")"
	case opRespHeld:
		return "RespHeld(" + o.ID + ")"
	}
	return "Reset"
}

// parseOp is the inverse of String (replays).
func parseOp(name string) (op, bool) {
	switch name {
	case "Export":
		return op{Kind: opExport}, true
	case "ExportAndReset":
		return op{Kind: opExportReset}, true
	case "Reset":
		return op{Kind: opReset}, true
	}
	i := strings.IndexByte(name, '(')
	if i < 0 || !strings.HasSuffix(name, ")") {
		return op{}, false
	}
	kinds := map[string]int{"Req": opReq, "Resp": opResp, "ReqFail": opReqFail, "RespFail": opRespFail, "ExportH": opExportH,
		"ExportAndResetH": opExportResetH, "ResetH": opResetH, "RefusedH": opRefusedH, "ReqHeld": opReqHeld, "RespHeld": opRespHeld}
	k, ok := kinds[name[:i]]
	return op{Kind: k, ID: name[i+1 : len(name)-1]}, ok
}

func alphabet(ids []string) []op {
	var a []op
	for _, id := range ids {
		a = append(a, op{opReq, id})
	}
	for _, id := range ids {
		a = append(a, op{opResp, id})
	}
	return append(a, op{Kind: opExport}, op{Kind: opExportReset}, op{Kind: opReset})
}

// ---- reference model ----

type mentry struct {
	id      string
	reqTag  int // tag of the request (unique per operation)
	respTag int // 0 = no response
}

type model struct{ entries []mentry }

func (m *model) clone() *model { return &model{entries: append([]mentry(nil), m.entries...)} }

// apply returns the expected observable result of the operation.
func (m *model) apply(o op, tag int) string {
	switch o.Kind {
	case opReqHeld, opRespHeld:
		// a body that arrives slowly changes when the call returns, not what it does
		id, _ := heldID(o)
		return m.apply(op{map[int]int{opReqHeld: opReq, opRespHeld: opResp}[o.Kind], id}, tag)
	case opReq:
		for _, e := range m.entries {
			if e.id == o.ID {
				return "dup"
			}
		}
		m.entries = append(m.entries, mentry{id: o.ID, reqTag: tag})
		return "ok"
	case opResp:
		for i := range m.entries {
			if m.entries[i].id == o.ID {
				m.entries[i].respTag = tag
			}
		}
		return "ok"
	case opReqFail:
		// the request could not be read, so there is nothing to record (a duplicate id is an error as well)
		return "err"
	case opRespFail:
		for _, e := range m.entries {
			if e.id == o.ID {
				return "err"
			}
		}
		// the statement only says that a response for an unknown id is ignored: whether its body is looked at
		// first is not fixed
		return "any"
	case opRefusedH:
		// refused with its status, and the log is what it was (looked at directly, right after the call)
		f := strings.Fields(o.ID)
		return "status:" + f[len(f)-1] + " log:" + render(m.entries)
	case opExport, opExportH:
		return render(m.entries)
	case opExportReset, opExportResetH:
		var done, keep []mentry
		for _, e := range m.entries {
			if e.respTag != 0 {
				done = append(done, e)
			} else {
				keep = append(keep, e)
			}
		}
		m.entries = keep
		return render(done)
	default:
		m.entries = nil
		return "ok"
	}
}

// match compares an observed result with the model's ("any" = the statement does not fix it).
func match(want, got string) bool { return want == got || want == "any" }

func render(es []mentry) string {
	var sb strings.Builder
	sb.WriteString("[")
	for i, e := range es {
		if i > 0 {
			sb.WriteString(" ")
		}
		fmt.Fprintf(&sb, "%s:%d:%d", e.id, e.reqTag, e.respTag)
	}
	sb.WriteString("]")
	return sb.String()
}

// ---- implementation driver ----

func mkReq(tag int) *http.Request {
	req, _ := http.NewRequest("GET", fmt.Sprintf("http://example.com/r%d", tag), nil)
	return req
}

// reqBody is the body of the request recorded with the given tag in the families that upload one.
func reqBody(tag int) string {
	return fmt.Sprintf("request-body-of-operation-%d-%s", tag, strings.Repeat("y", tag%5))
}

// mkReqBody is a POST whose body the logger has to read (post data logging is on by default).
func mkReqBody(tag int) *http.Request {
	b := reqBody(tag)
	req, _ := http.NewRequest("POST", fmt.Sprintf("http://example.com/r%d", tag), io.NopCloser(strings.NewReader(b)))
	req.ContentLength = int64(len(b))
	req.Header.Set("Content-Type", "text/plain")
	return req
}

var errBody = errors.New("c17: body read failed")

// failBody yields n bytes and then fails.
type failBody struct {
	n int
}

func (f *failBody) Read(p []byte) (int, error) {
	if f.n <= 0 || len(p) == 0 {
		return 0, errBody
	}
	f.n--
	p[0] = 'z'
	return 1, nil
}
func (f *failBody) Close() error { return nil }

// mkReqFail is a POST whose body fails after tag%3 bytes.
func mkReqFail(tag int) *http.Request {
	req, _ := http.NewRequest("POST", fmt.Sprintf("http://example.com/r%d", tag), &failBody{n: tag % 3})
	req.ContentLength = 10
	req.Header.Set("Content-Type", "text/plain")
	return req
}

// resBody is the body of the response recorded with the given tag (distinct per tag, different lengths).
func resBody(tag int) string {
	return fmt.Sprintf("response-body-of-operation-%d-%s", tag, strings.Repeat("x", tag%7))
}

func mkRes(tag int) *http.Response {
	b := resBody(tag)
	return &http.Response{StatusCode: 200 + tag, Proto: "HTTP/1.1", ProtoMajor: 1, ProtoMinor: 1, Header: http.Header{"Content-Type": {"text/plain"}},
		Body: io.NopCloser(strings.NewReader(b)), ContentLength: int64(len(b))}
}

// mkResFail is a response whose body fails after tag%3 bytes.
func mkResFail(tag int) *http.Response {
	return &http.Response{StatusCode: 200 + tag, Proto: "HTTP/1.1", ProtoMajor: 1, ProtoMinor: 1, Header: http.Header{"Content-Type": {"text/plain"}},
		Body: &failBody{n: tag % 3}, ContentLength: 10}
}

func renderHAR(h *har.HAR) string {
	if h == nil || h.Log == nil {
		return "<no log>"
	}
	var es []mentry
	for _, e := range h.Log.Entries {
		if e == nil {
			es = append(es, mentry{id: "<nil>"})
			continue
		}
		me := mentry{id: e.ID, reqTag: -1}
		if e.Request != nil {
			fmt.Sscanf(e.Request.URL, "http://example.com/r%d", &me.reqTag)
			// the logged post data is the body recorded with this request
			if e.Request.PostData != nil && e.Request.PostData.Text != reqBody(me.reqTag) {
				me.id += "!postdata"
			}
		}
		if e.Response != nil {
			me.respTag = e.Response.Status - 200
			// "each response attached to its own request": the logged content is the body recorded with it
			if e.Response.Content == nil || string(e.Response.Content.Text) != resBody(me.respTag) {
				me.id += "!content"
			}
		}
		es = append(es, me)
	}
	return render(es)
}

// bodies makes Req operations upload a body (families errs and ring): the logger then reads a body on the
// successful path too.
type implOpts struct{ bodies bool }

func applyImpl(l *har.Logger, o op, tag int) string {
	r, _ := applyImplH(l, o, tag, implOpts{})
	return r
}

// safeApply is applyImplH for the single-threaded families: a panic inside the logger becomes the result of the
// operation that caused it (in the concurrent part the scheduler attributes panics itself).
func safeApply(l *har.Logger, o op, tag int, opts implOpts) (res string, h *har.HAR) {
	defer func() {
		if r := recover(); r != nil {
			res, h = fmt.Sprintf("panic: %v", r), nil
		}
	}()
	return applyImplH(l, o, tag, opts)
}

// symptom names the kind of disagreement for the signature.
func symptom(got string) string {
	if strings.HasPrefix(got, "panic: ") {
		return "panic"
	}
	return "mismatch"
}

// serve makes one call to a handler; spelling = "<METHOD> <query>".
func serve(h http.Handler, spelling string) *httptest.ResponseRecorder {
	f := strings.Fields(spelling)
	target := "http://martian.proxy/logs"
	if len(f) > 1 {
		target += f[1]
	}
	req, err := http.NewRequest(f[0], target, nil)
	if err != nil {
		panic(err)
	}
	rw := httptest.NewRecorder()
	h.ServeHTTP(rw, req)
	return rw
}

// harOfJSON reads what a handler wrote the way its client does.
func harOfJSON(rw *httptest.ResponseRecorder) string {
	if rw.Code != 200 {
		return fmt.Sprintf("status:%d", rw.Code)
	}
	if ct := rw.Header().Get("Content-Type"); !strings.HasPrefix(ct, "application/json") {
		return "content-type:" + ct
	}
	var h har.HAR
	if err := json.Unmarshal(rw.Body.Bytes(), &h); err != nil {
		return "badjson:" + err.Error()
	}
	return renderHAR(&h)
}

// applyImplH performs the operation on the logger; for Export and ExportAndReset it also returns the object
// that was handed out (so that it can be looked at again later).
func applyImplH(l *har.Logger, o op, tag int, opts implOpts) (string, *har.HAR) {
	switch o.Kind {
	case opReq, opReqFail:
		req := mkReq(tag)
		if o.Kind == opReqFail {
			req = mkReqFail(tag)
		} else if opts.bodies {
			req = mkReqBody(tag)
		}
		if err := l.RecordRequest(o.ID, req); err != nil {
			if o.Kind == opReqFail {
				return "err", nil
			}
			if strings.Contains(err.Error(), "Duplicate") {
				return "dup", nil
			}
			return "err:" + err.Error(), nil
		}
		return "ok", nil
	case opResp, opRespFail:
		res := mkRes(tag)
		if o.Kind == opRespFail {
			res = mkResFail(tag)
		}
		if err := l.RecordResponse(o.ID, res); err != nil {
			if o.Kind == opRespFail {
				return "err", nil
			}
			return "err:" + err.Error(), nil
		}
		return "ok", nil
	case opExport:
		h := l.Export()
		return renderHAR(h), h
	case opExportReset:
		h := l.ExportAndReset()
		return renderHAR(h), h
	case opExportH:
		return harOfJSON(serve(har.NewExportHandler(l), o.ID)), nil
	case opExportResetH:
		return harOfJSON(serve(har.NewResetHandler(l), o.ID)), nil
	case opResetH:
		rw := serve(har.NewResetHandler(l), o.ID)
		if rw.Code != http.StatusNoContent || rw.Body.Len() != 0 {
			return fmt.Sprintf("status:%d body:%q", rw.Code, rw.Body.String()), nil
		}
		return "ok", nil
	case opRefusedH:
		f := strings.Fields(o.ID)
		var h http.Handler = har.NewExportHandler(l)
		if f[0] == "reset" {
			h = har.NewResetHandler(l)
		}
		rw := serve(h, strings.Join(f[1:len(f)-1], " "))
		return fmt.Sprintf("status:%d log:%s", rw.Code, renderHAR(l.Export())), nil
	default:
		l.Reset()
		return "ok", nil
	}
}

// nolog keeps martian's own logging (a global lock, stderr) out of the scenarios.
type nolog struct{}

func (nolog) Infof(string, ...interface{})  {}
func (nolog) Debugf(string, ...interface{}) {}
func (nolog) Errorf(string, ...interface{}) {}

func init() { mlog.SetLogger(nolog{}) }

// ---- part 1: sequential histories ----

type shardOut struct {
	Counters   map[string]int64
	Violations []lib.Violation
	Samples    []interface{}
	Incomplete string
}

func seqPart(out *shardOut, maxLen int, shard, nshards int) {
	alpha := alphabet([]string{"a", "b", "c"})
	k := len(alpha)
	states := map[string]bool{}
	var n, nontrivial int64
	// enumerate sequences of exactly maxLen ops: every shorter sequence is a prefix and is checked step by step;
	// sharding is on the first two operations.
	seq := make([]int, maxLen)
	var snaps []snap
	var snapChecks int64
	total := 1
	for i := 0; i < maxLen; i++ {
		total *= k
	}
	first := k * k
	if maxLen < 2 {
		first = 1
	}
	per := total / first
	for f := 0; f < first; f++ {
		if nshards > 0 && f%nshards != shard {
			continue
		}
		for r := 0; r < per; r++ {
			// decode sequence
			x := f*per + r
			for i := maxLen - 1; i >= 0; i-- {
				seq[i] = x % k
				x /= k
			}
			l := har.NewLogger()
			m := &model{}
			bad := false
			exported := map[int]int{}
			snaps = snaps[:0]
			for i := 0; i < maxLen && !bad; i++ {
				o := alpha[seq[i]]
				tag := i + 1
				want := m.apply(o, tag)
				got, handed := safeApply(l, o, tag, implOpts{})
				if handed != nil {
					snaps = append(snaps, snap{i, o, handed, got})
				}
				if want != got {
					var hist []string
					for j := 0; j <= i; j++ {
						hist = append(hist, alpha[seq[j]].String())
					}
					sig := fmt.Sprintf("seq:%s:%s", kindName(o.Kind), symptom(got))
					out.Violations = append(out.Violations, lib.Violation{Sig: sig,
						Desc:   fmt.Sprintf("history %v: step %d %s returned %s, model says %s", hist, i+1, o, got, want),
						Replay: map[string]interface{}{"part": "seq", "history": hist}})
					bad = true
				}
				if o.Kind == opExportReset {
					// exactly-once over the life of the log (a request tag is exported at most once)
					for _, e := range parseTags(got) {
						exported[e]++
						if exported[e] > 1 {
							out.Violations = append(out.Violations, lib.Violation{Sig: "seq:export_and_reset:duplicate", Desc: fmt.Sprintf("request tag %d exported twice", e)})
							bad = true
						}
					}
				}
			}
			// what an export handed out stays what it was, whatever is done with the log afterwards
			for _, sn := range snaps {
				if now := renderHAR(sn.h); now != sn.at && !bad {
					var hist []string
					for j := 0; j < maxLen; j++ {
						hist = append(hist, alpha[seq[j]].String())
					}
					out.Violations = append(out.Violations, lib.Violation{Sig: fmt.Sprintf("seq:%s:snapshot_changed", kindName(sn.o.Kind)),
						Desc:   fmt.Sprintf("history %v: what step %d %s returned was %s and reads %s after the rest of the history", hist, sn.step+1, sn.o, sn.at, now),
						Replay: map[string]interface{}{"part": "seq", "history": hist}})
					bad = true
				}
			}
			snapChecks += int64(len(snaps))
			n++
			if len(m.entries) > 0 {
				nontrivial++
			}
			st := render(m.entries)
			if len(states) < 1<<20 {
				states[st] = true
			}
			if n%200000 == 1 && len(out.Samples) < 4 {
				var hist []string
				for j := 0; j < maxLen; j++ {
					hist = append(hist, alpha[seq[j]].String())
				}
				out.Samples = append(out.Samples, map[string]interface{}{"history": hist, "final_model_state": st})
			}
			if len(out.Violations) > 50 {
				out.Incomplete = "stopped after 50 violations"
				break
			}
		}
	}
	out.Counters["seq_histories"] += n
	out.Counters["seq_steps"] += n * int64(maxLen)
	out.Counters["seq_nontrivial_final"] += nontrivial
	out.Counters["seq_distinct_final_states"] += int64(len(states))
	out.Counters["snapshots_rechecked"] += snapChecks
}

// snap is something an Export or ExportAndReset handed out, with what it said at that moment.
type snap struct {
	step int
	o    op
	h    *har.HAR
	at   string
}

// bulkPart: long logs. A prefix of n completed exchanges (distinct ids) with one request left pending - recorded
// before or after the others - is followed by every suffix of up to sufLen operations over
// {Req, Resp} x {a new id, the pending id, the first and the last completed id} + Export, ExportAndReset, Reset,
// compared step by step with the list model (thresholds that only long logs reach: flushes of many entries,
// rebuilt indexes, grown maps).
func bulkPart(out *shardOut, sizes []int, sufLen int, shard, nshards int) {
	idx := 0
	var n, steps int64
	for _, size := range sizes {
		for _, pendLast := range []bool{false, true} {
			prefix := []op{}
			if !pendLast {
				prefix = append(prefix, op{opReq, "p"})
			}
			for i := 0; i < size; i++ {
				id := fmt.Sprintf("x%d", i)
				prefix = append(prefix, op{opReq, id}, op{opResp, id})
			}
			if pendLast {
				prefix = append(prefix, op{opReq, "p"})
			}
			alpha := alphabet([]string{"a", "p", "x0", fmt.Sprintf("x%d", size-1)})
			k := len(alpha)
			total := 1
			for i := 0; i < sufLen; i++ {
				total *= k
			}
			for x := 0; x < total; x++ {
				idx++
				if nshards > 0 && idx%nshards != shard {
					continue
				}
				suffix := make([]op, sufLen)
				y := x
				for i := sufLen - 1; i >= 0; i-- {
					suffix[i] = alpha[y%k]
					y /= k
				}
				l := har.NewLogger()
				m := &model{}
				hist := append(append([]op{}, prefix...), suffix...)
				for i, o := range hist {
					tag := i + 1
					want := m.apply(o, tag)
					got, _ := safeApply(l, o, tag, implOpts{})
					steps++
					if want != got {
						var hs []string
						for _, h := range suffix {
							hs = append(hs, h.String())
						}
						where := "suffix"
						if i < len(prefix) {
							where = "prefix"
						}
						out.Violations = append(out.Violations, lib.Violation{Sig: fmt.Sprintf("bulk:%s:%s", kindName(o.Kind), symptom(got)),
							Desc:   fmt.Sprintf("log of %d completed exchanges + pending request (recorded last=%v), then %v: step %d (%s, in the %s) returned %.200s, model says %.200s", size, pendLast, hs, i+1, o, where, got, want),
							Replay: map[string]interface{}{"part": "bulk", "size": size, "pend_last": pendLast, "suffix": hs}})
						break
					}
				}
				n++
				if len(out.Violations) > 50 {
					out.Incomplete = "stopped after 50 violations"
					return
				}
			}
		}
	}
	out.Counters["bulk_histories"] += n
	out.Counters["bulk_steps"] += steps
}

func parseTags(s string) []int {
	var out []int
	s = strings.Trim(s, "[]")
	for _, f := range strings.Fields(s) {
		parts := strings.Split(f, ":")
		if len(parts) == 3 {
			var t int
			fmt.Sscanf(parts[1], "%d", &t)
			out = append(out, t)
		}
	}
	return out
}

func kindName(k int) string {
	return [...]string{"record_request", "record_response", "export", "export_and_reset", "reset", "record_request_failing_body",
		"record_response_failing_body", "export_handler", "reset_handler_return", "reset_handler", "handler_refusal",
		"record_request", "record_response"}[k]
}

// ---- part 2: concurrent executions ----

type event struct {
	Thread   int
	Op       op
	Tag      int
	Call     int // logical time of call
	Ret      int // logical time of return
	Result   string
	returned bool
}

type scenario struct {
	Prime   []op   // operations applied sequentially before the threads start
	Threads [][]op // per-thread programs
	// family held (held.go): calls whose message body is held by its peer (one thread each, in the order in which
	// the bodies are let through); Free = the bodies are let through at any point of the schedule
	Holders []op `json:",omitempty"`
	Free    bool `json:",omitempty"`
}

func (s scenario) String() string {
	if len(s.Holders) > 0 {
		return fmt.Sprintf("prime=%v holders=%v free_release=%v threads=%v", s.Prime, s.Holders, s.Free, s.Threads)
	}
	return fmt.Sprintf("prime=%v threads=%v", s.Prime, s.Threads)
}

// linearizable searches for a total order of the completed events that respects real-time order and in
// which every result equals the model's.
func linearizable(base *model, evs []*event) bool {
	n := len(evs)
	used := make([]bool, n)
	var rec func(m *model, done int) bool
	rec = func(m *model, done int) bool {
		if done == n {
			return true
		}
		for i := 0; i < n; i++ {
			if used[i] {
				continue
			}
			// i may go next only if no unused event returned before i was called
			ok := true
			for j := 0; j < n; j++ {
				if !used[j] && j != i && evs[j].Ret < evs[i].Call {
					ok = false
					break
				}
			}
			if !ok {
				continue
			}
			m2 := m.clone()
			if !match(m2.apply(evs[i].Op, evs[i].Tag), evs[i].Result) {
				continue
			}
			used[i] = true
			if rec(m2, done+1) {
				used[i] = false
				return true
			}
			used[i] = false
		}
		return false
	}
	return rec(base, 0)
}

func concPart(out *shardOut, scen []scenario, shard, nshards int, deadline time.Time) {
	for si, sc := range scen {
		if nshards > 0 && si%nshards != shard {
			continue
		}
		sc := sc
		var evs []*event
		var base *model
		body := func() {
			evs = nil
			clock := 0
			l := har.NewLogger()
			base = &model{}
			tag := 0
			for _, o := range sc.Prime {
				tag++
				applyImpl(l, o, tag)
				base.apply(o, tag)
			}
			var ths []*vrt.Thread
			for ti, prog := range sc.Threads {
				ti, prog := ti, prog
				myTags := make([]int, len(prog))
				for i := range prog {
					tag++
					myTags[i] = tag
				}
				ths = append(ths, vrt.Go(func() {
					for i, o := range prog {
						ev := &event{Thread: ti, Op: o, Tag: myTags[i]}
						evs = append(evs, ev)
						clock++
						ev.Call = clock
						ev.Result = applyImpl(l, o, myTags[i])
						clock++
						ev.Ret = clock
						ev.returned = true
					}
				}))
			}
			for _, t := range ths {
				vrt.Join(t)
			}
			// final state observation
			fin := &event{Thread: -1, Op: op{Kind: opExport}, Tag: 0}
			clock++
			fin.Call = clock
			fin.Result = renderHAR(l.Export())
			clock++
			fin.Ret = clock
			fin.returned = true
			evs = append(evs, fin)
			for _, e := range evs {
				vrt.Log("t%d %s#%d [%d,%d] -> %s", e.Thread, e.Op, e.Tag, e.Call, e.Ret, e.Result)
			}
		}
		// unlocks are scheduling points too where that is affordable (code that runs after a critical section, such
		// as the caller reading what Export handed out, then interleaves with the other threads): in quick for the
		// scenarios with two operations and for those that go through the handlers, in thorough for all scenarios
		// of up to four operations
		nops := 0
		class := "conc"
		for _, prog := range sc.Threads {
			nops += len(prog)
			for _, o := range prog {
				if o.Kind >= opExportH {
					// a handler serialises what it was handed after the logger's critical section: always with
					// unlock points
					class = "concfront"
				}
			}
		}
		// (thorough: up to four operations; with unlock points one scenario of three threads and five operations
		// has 2*10^5 interleavings and the 6250 of them could never be completed - they keep the lock points only)
		up := (lib.Tier() == "thorough" && nops <= 4) || nops <= 2 || class == "concfront"
		if up {
			out.Counters["conc_scenarios_with_unlock_points"]++
		}
		if class == "concfront" {
			out.Counters["conc_scenarios_through_handlers"]++
		}
		st := vrt.Explore(vrt.ExploreConfig{Bound: -1, Deadline: deadline, Config: vrt.Config{UnlockPoints: up}}, body, func(prefix []int, r *vrt.Result) bool {
			if r.Outcome != "ok" {
				out.Violations = append(out.Violations, lib.Violation{Sig: class + ":" + r.Outcome,
					Desc:   fmt.Sprintf("scenario %s schedule %v: %s %s", sc, r.ChoiceSeq(), r.Outcome, r.Panic),
					Replay: map[string]interface{}{"part": "conc", "scenario": sc, "schedule": r.ChoiceSeq()}})
				return len(out.Violations) < 50
			}
			if !linearizable(base, evs) {
				out.Violations = append(out.Violations, lib.Violation{Sig: class + ":not_linearizable",
					Desc:   fmt.Sprintf("scenario %s schedule %v: history %v is not linearizable w.r.t. the list model", sc, r.ChoiceSeq(), r.Log),
					Replay: map[string]interface{}{"part": "conc", "scenario": sc, "schedule": r.ChoiceSeq(), "log": r.Log}})
			}
			return len(out.Violations) < 50
		})
		if st.EngineError != "" {
			fmt.Fprintln(os.Stderr, "ENGINE ERROR:", st.EngineError)
			os.Exit(2)
		}
		out.Counters["conc_scenarios"]++
		out.Counters["conc_executions"] += int64(st.Execs)
		out.Counters["conc_points"] += st.Points
		out.Counters["conc_distinct_histories"] += int64(st.DistinctLogs)
		if st.DistinctLogs > 1 {
			out.Counters["conc_scenarios_with_multiple_outcomes"]++
		}
		if !st.Exhaustive {
			out.Incomplete = "deadline or violation cap reached during concurrent part"
		}
		if len(out.Samples) < 6 && st.DistinctLogs > 2 {
			out.Samples = append(out.Samples, map[string]interface{}{"scenario": sc.String(), "interleavings": st.Execs, "distinct_histories": st.DistinctLogs})
		}
		if len(out.Violations) >= 50 {
			break
		}
	}
}

func scenarios(tier string) []scenario {
	alpha := alphabet([]string{"a", "b"})
	var progs [][]op
	for _, o := range alpha {
		progs = append(progs, []op{o})
	}
	for _, o1 := range alpha {
		for _, o2 := range alpha {
			progs = append(progs, []op{o1, o2})
		}
	}
	primes := [][]op{nil, {{opReq, "a"}, {opReq, "b"}, {opResp, "b"}}}
	var out []scenario
	for _, pr := range primes {
		for _, p1 := range progs {
			for _, p2 := range progs {
				out = append(out, scenario{Prime: pr, Threads: [][]op{p1, p2}})
			}
		}
		// three threads, one op each
		for _, o1 := range alpha {
			for _, o2 := range alpha {
				for _, o3 := range alpha {
					out = append(out, scenario{Prime: pr, Threads: [][]op{{o1}, {o2}, {o3}}})
				}
			}
		}
	}
	if tier == "thorough" {
		// three threads: two ops, one op, one op over a reduced alphabet with colliding id a
		red := []op{{opReq, "a"}, {opResp, "a"}, {Kind: opExport}, {Kind: opExportReset}, {Kind: opReset}}
		for _, pr := range primes {
			for _, o1 := range red {
				for _, o2 := range red {
					for _, o3 := range red {
						for _, o4 := range red {
							for _, o5 := range red {
								out = append(out, scenario{Prime: pr, Threads: [][]op{{o1, o2}, {o3, o4}, {o5}}})
							}
						}
					}
				}
			}
		}
	}
	return out
}

func main() {
	tier := lib.Tier()
	maxLen := 6
	if tier == "thorough" {
		maxLen = 7
	}
	scen := scenarios(tier)
	// the new families: quick / thorough bounds
	frontLen, errsLen, frontOps := 5, 5, 3
	rings := [][2]int{{1, 8}, {2, 5}, {3, 2}} // (rounds, most new requests per round)
	if tier == "thorough" {
		frontLen, errsLen, frontOps = 6, 6, 4
		rings = [][2]int{{1, 12}, {2, 6}, {3, 3}, {4, 2}}
	}
	scen = append(scen, frontScenarios(frontOps)...)
	held := heldScenarios(tier)
	if os.Getenv("VERIF_REPLAY") != "" {
		replay(os.Getenv("VERIF_REPLAY"))
		return
	}
	if i, n := lib.ShardEnv(); n > 0 {
		out := &shardOut{Counters: map[string]int64{}}
		t0 := time.Now()
		lap := func(what string) {
			if os.Getenv("C17_TIMING") != "" && i == 0 {
				fmt.Fprintf(os.Stderr, "shard 0: %-8s %6d ms\n", what, time.Since(t0).Milliseconds())
			}
			t0 = time.Now()
		}
		if only := os.Getenv("C17_ONLY"); only != "" {
			// development aid (measuring one family; the report is then not a verdict on the property)
			if only == "held" {
				heldPart(out, held, i, n, time.Now().Add(40*time.Minute))
			}
			b, _ := json.Marshal(out)
			os.WriteFile(os.Getenv("VERIF_SHARD_OUT"), b, 0o644)
			return
		}
		seqPart(out, maxLen, i, n)
		lap("seq")
		if tier == "thorough" {
			bulkPart(out, []int{1, 8, 63, 64, 65, 127, 128, 129, 255, 256, 257, 1000}, 3, i, n)
		} else {
			bulkPart(out, []int{1, 63, 64, 65, 200}, 2, i, n)
		}
		lap("bulk")
		allHistories(out, "front", frontAlphabet(), frontLen, implOpts{}, i, n)
		lap("front")
		allHistories(out, "errs", errsAlphabet(), errsLen, implOpts{bodies: true}, i, n)
		lap("errs")
		for _, rg := range rings {
			ringPart(out, rg[0], rg[1], i, n)
		}
		lap("ring")
		dl := time.Now().Add(10 * time.Minute)
		if tier == "thorough" {
			dl = time.Now().Add(40 * time.Minute)
		}
		concPart(out, scen, i, n, dl)
		lap("conc")
		heldPart(out, held, i, n, dl)
		lap("held")
		b, _ := json.Marshal(out)
		os.WriteFile(os.Getenv("VERIF_SHARD_OUT"), b, 0o644)
		return
	}
	rep := lib.NewReport("C17", "model_checking")
	if os.Getenv("C17_ONLY") != "" {
		rep.Incomplete = "C17_ONLY is set: only one family was run"
	}
	files, errs, outs := lib.RunShards(16, lib.Root+"/.build/c17/shards")
	for i, f := range files {
		if errs[i] != nil {
			fmt.Fprintf(os.Stderr, "shard %d failed: %v\n%s\n", i, errs[i], outs[i])
			os.Exit(2)
		}
		var so shardOut
		b, _ := os.ReadFile(f)
		if err := json.Unmarshal(b, &so); err != nil {
			fmt.Fprintf(os.Stderr, "shard %d: bad output: %v\n", i, err)
			os.Exit(2)
		}
		for k, v := range so.Counters {
			rep.Count(k, v)
		}
		for _, v := range so.Violations {
			rep.Violate(v.Sig, v.Desc, v.Replay)
		}
		for _, s := range so.Samples {
			rep.Sample(8, s)
		}
		if so.Incomplete != "" {
			rep.Incomplete = so.Incomplete
		}
	}
	added := rep.Counter("front_histories") + rep.Counter("errs_histories") + rep.Counter("ring_histories")
	rep.Coverage["states"] = rep.Counter("seq_distinct_final_states") + rep.Counter("conc_distinct_histories") + rep.Counter("held_distinct_histories")
	rep.Coverage["transitions"] = rep.Counter("seq_steps") + rep.Counter("conc_points") + rep.Counter("held_points") + rep.Counter("bulk_steps") + rep.Counter("front_steps") + rep.Counter("errs_steps") + rep.Counter("ring_steps")
	rep.Coverage["traces_validated_against_impl"] = rep.Counter("seq_histories") + rep.Counter("conc_executions") + rep.Counter("held_executions") + rep.Counter("bulk_histories") + added
	rep.Coverage["evaluations"] = rep.Counter("seq_steps") + rep.Counter("bulk_steps") + rep.Counter("front_steps") + rep.Counter("errs_steps") + rep.Counter("ring_steps") + rep.Counter("snapshots_rechecked") + rep.Counter("conc_executions") + rep.Counter("held_executions")
	rep.Coverage["distinct_nontrivial"] = rep.Counter("seq_nontrivial_final") + rep.Counter("front_nontrivial") + rep.Counter("errs_nontrivial") + rep.Counter("ring_nontrivial") + rep.Counter("conc_scenarios_with_multiple_outcomes") + rep.Counter("held_scenarios_with_multiple_outcomes")
	rep.Coverage["rule"] = "histories: every sequence of the family's alphabet up to its length bound (seq, front, errs), every (size, position of the pending request, suffix) (bulk), every (new requests, completed subset) per round (ring) - enumerated without repetition, nothing sampled; a seq history is non-trivial when the model's log is not empty at its end, a front/errs/ring history when one of its exports or export-and-resets lists at least one entry; concurrent: every scenario of scenarios()+frontScenarios()+heldScenarios() x every interleaving of its scheduling points, a scenario is non-trivial when its interleavings produce more than one distinct call/return history; evaluations = steps compared with the model + exported objects read again + executions judged for linearizability (held: and for calls that have not returned while a peer holds a body)"
	rep.Coverage["executions"] = rep.Counter("conc_executions") + rep.Counter("held_executions")
	rep.Coverage["exhaustive"] = rep.Incomplete == ""
	rep.Coverage["bounds"] = fmt.Sprintf("sequential: all %d^%d operation sequences (and their prefixes) over ids {a,b,c}; long logs: 1..200 (1000 thorough) completed exchanges plus a pending request followed by every suffix of 2 (3) operations; concurrent: %d scenarios of 2-3 threads x 1-2 ops on ids {a,b} from an empty and a primed log, all interleavings (unbounded), of which %d read and clear the log through the HTTP handlers (2 threads, <= %d operations, unlock points); front: all %d^%d sequences with Export / ExportAndReset / Reset made through the handlers in 2 spellings each plus 3 refused calls, ids {a,b}; errs: all %d^%d sequences with failing request and response bodies, ids {a,b}; ring: [rounds, most new requests per round] in %v, a round = (new requests, every subset of the pending ones completed, Export, ExportAndReset, Export), then drain and id reuse; every object handed out by Export / ExportAndReset is read again at the end of its history; held: %d scenarios in which RecordRequest / RecordResponse (id a) reads a body that its peer holds before chunk %v of 2 (2 = the end) while one thread of 1-2 operations or two threads of one operation make every other call (direct and through the handlers, ids a,b), from an empty and a primed log, the body let through only at quiescence; %d of them with two bodies held and let through one after the other, %d with the body let through at any point of the schedule; all interleavings", 9, maxLen, len(scen), rep.Counter("conc_scenarios_through_handlers"), frontOps, len(frontAlphabet()), frontLen, len(errsAlphabet()), errsLen, rings, len(held), heldAts(tier), rep.Counter("held_scenarios_two_bodies"), rep.Counter("held_scenarios_free_release"))
	rep.Coverage["explanation"] = "every trace is an execution of the real har.Logger (rewritten only so that its mutex is a scheduling point); states = distinct final model states + distinct concurrent histories"
	rep.Assumptions = []string{
		"scheduling points are the logger lock operations; unsynchronised accesses are the business of the auxiliary free-running -race pass (sampling)",
		"ids limited to {a,b,c} (x0..x9 in the ring family); request shapes: bodiless GET, POST with a text body, POST whose body fails; responses: 2xx with a text body, or a body that fails",
		"held bodies: two chunks, one Read each; the peer lets a body through only when no thread can move (the longest possible stall) or, in the free-release scenarios, at any scheduling point; a body is held at one position per scenario",
		"the handlers are called with a ResponseRecorder (no network); martian's own logging is switched off (log.SetLogger) so that its global lock adds no scheduling points",
	}
	// auxiliary race pass: the same kind of thread bodies free-running on the unrewritten tree under -race
	raceIters := "30"
	if lib.Tier() == "thorough" {
		raceIters = "300"
	}
	rep.ReportRaces(lib.RacePass("c17", "racebodies", "c17", raceIters))
	rep.Finish()
}

func replay(path string) {
	b, err := os.ReadFile(path)
	if err != nil {
		fmt.Println(err)
		os.Exit(2)
	}
	var rp struct {
		First struct {
			Replay struct {
				Part     string
				History  []string
				Bodies   bool
				Scenario scenario
				Schedule []int
			}
		}
	}
	json.Unmarshal(b, &rp)
	r := rp.First.Replay
	bad := false
	if r.Part == "front" || r.Part == "errs" || r.Part == "ring" {
		var hist []op
		for _, name := range r.History {
			o, ok := parseOp(name)
			if !ok {
				fmt.Println("cannot parse operation", name)
				os.Exit(2)
			}
			hist = append(hist, o)
		}
		var steps int64
		if v := runHistory(r.Part, hist, implOpts{bodies: r.Bodies}, &steps); v != nil {
			fmt.Println(v.Sig, v.Desc)
			bad = true
		}
	} else if r.Part == "seq" {
		// re-run the recorded operation history on a fresh logger against the model
		l := har.NewLogger()
		m := &model{}
		for i, name := range r.History {
			var o op
			for _, cand := range alphabet([]string{"a", "b", "c"}) {
				if cand.String() == name {
					o = cand
				}
			}
			want := m.apply(o, i+1)
			got := applyImpl(l, o, i+1)
			fmt.Printf("step %d %s: impl=%s model=%s\n", i+1, name, got, want)
			if want != got {
				bad = true
			}
		}
		// and all clauses (snapshots read again at the end) on the same history
		var hist []op
		for _, name := range r.History {
			if o, ok := parseOp(name); ok {
				hist = append(hist, o)
			}
		}
		var steps int64
		if v := runHistory("seq", hist, implOpts{}, &steps); v != nil {
			fmt.Println(v.Sig, v.Desc)
			bad = true
		}
	} else {
		out := &shardOut{Counters: map[string]int64{}}
		// explore only the recorded scenario; the recorded schedule is among its interleavings
		if len(r.Scenario.Holders) > 0 {
			heldPart(out, []scenario{r.Scenario}, 0, 0, time.Now().Add(time.Minute))
		} else {
			concPart(out, []scenario{r.Scenario}, 0, 0, time.Now().Add(time.Minute))
		}
		for _, v := range out.Violations {
			fmt.Println(v.Desc)
			bad = true
		}
	}
	if bad {
		fmt.Printf("VIOLATION property=C17 replay=%s\n", path)
		os.Exit(1)
	}
	fmt.Println("replay: no violation")
}
