// Families added by the audit (AUDIT.md): front, errs, ring, and the concurrent scenarios through the handlers.
package main

import (
	"fmt"

	"github.com/google/martian/v3/har"

	"verif/lib"
)

// runHistory runs one operation history on a fresh logger against the list model, step by step, with all
// oracle clauses: every result equals the model's; a request is returned by ExportAndReset at most once over
// the life of the log; what an export handed out does not change afterwards. It returns the first violation.
func runHistory(family string, hist []op, opts implOpts, steps *int64) *lib.Violation {
	v, _ := runHistoryN(family, hist, opts, steps)
	return v
}

// runHistoryN also reports whether the history is non-trivial: some export or export-and-reset in it listed at
// least one entry.
func runHistoryN(family string, hist []op, opts implOpts, steps *int64) (*lib.Violation, bool) {
	nontrivial := false
	v := func() *lib.Violation {
		l := har.NewLogger()
		m := &model{}
		exported := map[int]bool{}
		var snaps []snap
		names := func() []string {
			var hs []string
			for _, h := range hist {
				hs = append(hs, h.String())
			}
			return hs
		}
		for i, o := range hist {
			tag := i + 1
			want := m.apply(o, tag)
			got, handed := safeApply(l, o, tag, opts)
			*steps++
			if !match(want, got) {
				return &lib.Violation{Sig: fmt.Sprintf("%s:%s:%s", family, kindName(o.Kind), symptom(got)),
					Desc:   fmt.Sprintf("history %v: step %d %s returned %.300s, model says %.300s", names(), i+1, o, got, want),
					Replay: map[string]interface{}{"part": family, "history": names(), "bodies": opts.bodies}}
			}
			if handed != nil {
				snaps = append(snaps, snap{i, o, handed, got})
			}
			if (o.Kind == opExport || o.Kind == opExportReset || o.Kind == opExportH || o.Kind == opExportResetH) && got != "[]" {
				nontrivial = true
			}
			if o.Kind == opExportReset || o.Kind == opExportResetH {
				for _, t := range parseTags(got) {
					if exported[t] {
						return &lib.Violation{Sig: family + ":export_and_reset:duplicate",
							Desc:   fmt.Sprintf("history %v: the request recorded at step %d is returned a second time by step %d %s", names(), t, i+1, o),
							Replay: map[string]interface{}{"part": family, "history": names(), "bodies": opts.bodies}}
					}
					exported[t] = true
				}
			}
		}
		for _, sn := range snaps {
			if now := renderHAR(sn.h); now != sn.at {
				return &lib.Violation{Sig: fmt.Sprintf("%s:%s:snapshot_changed", family, kindName(sn.o.Kind)),
					Desc:   fmt.Sprintf("history %v: what step %d %s returned was %.300s and reads %.300s after the rest of the history", names(), sn.step+1, sn.o, sn.at, now),
					Replay: map[string]interface{}{"part": family, "history": names(), "bodies": opts.bodies}}
			}
		}
		return nil
	}()
	return v, nontrivial
}

// allHistories enumerates every sequence of exactly n operations of alpha (shorter ones are prefixes, judged step
// by step), sharded on the sequence number.
func allHistories(out *shardOut, family string, alpha []op, n int, opts implOpts, shard, nshards int) {
	k := len(alpha)
	total := 1
	for i := 0; i < n; i++ {
		total *= k
	}
	var cnt, steps, nontriv int64
	hist := make([]op, n)
	for x := 0; x < total; x++ {
		if nshards > 0 && x%nshards != shard {
			continue
		}
		y := x
		for i := n - 1; i >= 0; i-- {
			hist[i] = alpha[y%k]
			y /= k
		}
		v, nt := runHistoryN(family, hist, opts, &steps)
		if v != nil {
			out.Violations = append(out.Violations, *v)
			if len(out.Violations) > 50 {
				out.Incomplete = "stopped after 50 violations"
				break
			}
		}
		if nt {
			nontriv++
		}
		cnt++
	}
	out.Counters[family+"_nontrivial"] += nontriv
	out.Counters[family+"_histories"] += cnt
	out.Counters[family+"_steps"] += steps
}

// frontAlphabet: the log is fed directly (RecordRequest / RecordResponse, as the proxy's modifiers do) and read
// and cleared the way its users do it: GET on the export handler, POST or DELETE on the reset handler with and
// without return=<bool>, plus the calls the handlers refuse (wrong method, return value that is not a boolean),
// which are neither an export nor a reset.
func frontAlphabet() []op {
	return []op{
		{opReq, "a"}, {opReq, "b"}, {opResp, "a"}, {opResp, "b"},
		{opExportH, "GET"},
		{opExportResetH, "POST ?return=true"}, {opExportResetH, "DELETE ?return=1"},
		{opResetH, "POST"}, {opResetH, "DELETE ?return=false"},
		{opRefusedH, "reset GET ?return=true 405"}, {opRefusedH, "export DELETE 405"}, {opRefusedH, "reset POST ?return=maybe 400"},
	}
}

// errsAlphabet: requests and responses whose body fails while the logger reads it, next to the ones that work.
func errsAlphabet() []op {
	return []op{
		{opReq, "a"}, {opReq, "b"}, {opReqFail, "a"}, {opReqFail, "b"},
		{opResp, "a"}, {opResp, "b"}, {opRespFail, "a"}, {opRespFail, "b"},
		{Kind: opExport}, {Kind: opExportReset}, {Kind: opReset},
	}
}

// ringPart: logs of many entries in every pending/completed pattern, over several rounds. A round records k new
// requests (0..maxNew; at least one in the first round), completes one subset of all the requests that are
// pending (every subset is enumerated), and then calls Export, ExportAndReset, Export. After the last round every
// request still pending is completed and ExportAndReset must return them all, in arrival order; then the id
// that was flushed first is used again. Ids are distinct (x0, x1, ...), so the log holds up to rounds*maxNew entries.
func ringPart(out *shardOut, rounds, maxNew int, shard, nshards int) {
	var cnt, steps, nontriv int64
	maxEntries := 0
	idx := 0
	var rec func(round int, hist []op, pending []string, nextID int, firstFlushed string)
	rec = func(round int, hist []op, pending []string, nextID int, firstFlushed string) {
		if len(out.Violations) > 50 {
			return
		}
		if round == rounds {
			idx++
			if nshards > 0 && idx%nshards != shard {
				return
			}
			h := append([]op{}, hist...)
			for _, id := range pending {
				h = append(h, op{opResp, id})
			}
			h = append(h, op{Kind: opExportReset}, op{Kind: opExport})
			if firstFlushed != "" {
				h = append(h, op{opReq, firstFlushed}, op{opResp, firstFlushed}, op{Kind: opExport}, op{Kind: opExportReset}, op{Kind: opExport})
			}
			v, nt := runHistoryN("ring", h, implOpts{bodies: true}, &steps)
			if v != nil {
				out.Violations = append(out.Violations, *v)
			}
			if nt {
				nontriv++
			}
			cnt++
			return
		}
		lo := 0
		if round == 0 {
			lo = 1
		}
		for k := lo; k <= maxNew; k++ {
			h := append([]op{}, hist...)
			p := append([]string{}, pending...)
			for i := 0; i < k; i++ {
				id := fmt.Sprintf("x%d", nextID+i)
				h = append(h, op{opReq, id})
				p = append(p, id)
			}
			if len(p) > maxEntries {
				maxEntries = len(p)
			}
			for mask := 0; mask < 1<<uint(len(p)); mask++ {
				h2 := append([]op{}, h...)
				var keep []string
				ff := firstFlushed
				for i, id := range p {
					if mask&(1<<uint(i)) != 0 {
						h2 = append(h2, op{opResp, id})
						if ff == "" {
							ff = id
						}
					} else {
						keep = append(keep, id)
					}
				}
				h2 = append(h2, op{Kind: opExport}, op{Kind: opExportReset}, op{Kind: opExport})
				rec(round+1, h2, keep, nextID+k, ff)
			}
		}
	}
	rec(0, nil, nil, 0, "")
	if len(out.Violations) > 50 {
		out.Incomplete = "stopped after 50 violations"
	}
	out.Counters["ring_nontrivial"] += nontriv
	out.Counters["ring_histories"] += cnt
	out.Counters["ring_steps"] += steps
	_ = maxEntries
}

// frontScenarios: concurrent scenarios in which the log is read and cleared through the handlers while other
// threads record. The handler serialises what Export / ExportAndReset handed it after the logger's critical
// section, so these run with unlock points. Two threads; every pair of programs of 1-2 operations with at most
// maxOps operations in total and at least one handler call.
func frontScenarios(maxOps int) []scenario {
	alpha := []op{{opReq, "a"}, {opReq, "b"}, {opResp, "a"}, {opResp, "b"},
		{opExportH, "GET"}, {opExportResetH, "POST ?return=true"}, {opResetH, "DELETE"}}
	var progs [][]op
	for _, o := range alpha {
		progs = append(progs, []op{o})
	}
	for _, o1 := range alpha {
		for _, o2 := range alpha {
			progs = append(progs, []op{o1, o2})
		}
	}
	handler := func(p []op) bool {
		for _, o := range p {
			if o.Kind >= opExportH {
				return true
			}
		}
		return false
	}
	primes := [][]op{nil, {{opReq, "a"}, {opReq, "b"}, {opResp, "b"}}}
	var out []scenario
	for _, pr := range primes {
		for _, p1 := range progs {
			for _, p2 := range progs {
				if len(p1)+len(p2) > maxOps || !(handler(p1) || handler(p2)) {
					continue
				}
				out = append(out, scenario{Prime: pr, Threads: [][]op{p1, p2}})
			}
		}
	}
	return out
}
