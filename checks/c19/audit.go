// Families added by the coverage audit (see AUDIT.md): what the first version of the check enumerated but did
// not judge, fixed to one value, or never executed at all.
//
//	space D  length and index fields beyond 16 bits (header name/value >= 64 KiB, one Read >= 64 KiB / 16 MiB,
//	         data index >= 65536)
//	space E  bodies and consumers outside the "fill the buffer, stop at the first error" pattern (short reads,
//	         no-progress reads, transient errors, zero-length buffers, reads after io.EOF / after an error)
//	space N  bodies that are empty by construction: http.NoBody itself (marbl special-cases its identity), nil
//	space S  Modifier with a context marked SkipLogging
//	space A2 message shapes (RawPath, userinfo, authority-form, "*", other protocols, odd header names)
//	space W  a stream writer that fails (once / from then on; error / short write)
//	space X  Stream.Close while bodies are still being read, logging after Close
//	space H  marbl.Handler (the writer the proxy really uses) behind the stream: websocket subscribers that keep
//	         up, stall (the 16384-frame buffer overflows) or disconnect
//	conc F5  a subscriber that connects / disconnects while a message is being logged (all interleavings)
//	space M, conc F6 (round 7, fanout.go)  several subscribers, some stalled, in every visiting order
//	space P  (round 8b, wire.go) messages parsed from wire bytes by http.ReadRequest / ReadResponse, judged
//	         against the header lines on the wire (explicit Content-Length: 0, Host, Transfer-Encoding)
//	reader   sources that deliver the stream in other pieces than bytes.Reader (one byte at a time, data
//	         together with EOF, half reads, a non-EOF error) x every truncation offset of a stream whose frames
//	         straddle bufio's 4096-byte buffer
package main

import (
	"bufio"
	"bytes"
	"encoding/base64"
	"errors"
	"fmt"
	"io"
	"net"
	"net/http"
	"strings"
	"testing/iotest"
	"time"

	"github.com/google/martian/v3/marbl"
	"github.com/google/martian/v3/zzverif/vrt"
)

const nBaseHdr = 8 // hdrVariants[:nBaseHdr] are the shapes of the first version (space A)

const (
	hdrRawPath = nBaseHdr + iota
	hdrConnect
	hdrStar
	hdrBig    // name of 65541 bytes, value of 70000 bytes
	hdrHuge   // value of 2^24+3 bytes
	hdrSmall0 // same as variant 0 (no headers): the smallest message, used where frames are counted
)

func init() {
	u3 := hdrVariant{URL: "http://user:pw@example.com:80/a%2Fb/c;p=1?x=1&y=%2F#frag", Scheme: "http", Authority: "example.com:80", Path: "/a%2Fb/c;p=1", Query: "x=1&y=%2F",
		Method: "PATCH", Remote: "[fe80::1%25eth0]:1", Host: "", CL: -1, Status: 200, StatusLine: "200 OK", Proto: "HTTP/2.0", RProto: "HTTP/1.1",
		Pairs: []kv{{"", []string{"v"}}, {"X Y:Z", []string{"w"}}}}
	u4 := hdrVariant{URL: "//example.com:443", Scheme: "", Authority: "example.com:443", Path: "", Query: "",
		Method: "CONNECT", Remote: "10.0.0.1:1234", Host: "example.com:443", CL: -1, Status: 200, StatusLine: "200 Connection established"}
	u5 := hdrVariant{URL: "*", Scheme: "", Authority: "", Path: "*", Query: "",
		Method: "OPTIONS", Remote: "", Host: "example.com", CL: -1, Status: 999, StatusLine: "999", Proto: "HTTP/1.0", RProto: "HTTP/2.0",
		Pairs: []kv{{"Set-Cookie", []string{"a=1", "b=2", "a=1"}}, {"X-Space", []string{" x "}}}}
	base := hdrVariants[0]
	big := base
	big.Pairs = []kv{{strings.Repeat("N", 65541), []string{strings.Repeat("v", 70000)}}}
	huge := base
	huge.Pairs = []kv{{"X-Huge", []string{strings.Repeat("w", 1<<24+3)}}}
	hdrVariants = append(hdrVariants, u3, u4, u5, big, huge, base)
}

// sigClass is the scenario class of a round-trip case in violation signatures. The spaces of the first
// version and the extensions that vary the same dimensions keep "roundtrip".
func sigClass(c rtCase) string {
	switch {
	case c.Space == "M":
		return "handler_fanout"
	case c.Space == "P":
		return "wire_message"
	case len(c.Subs) > 0:
		return "handler"
	case c.W != nil:
		return "failing_writer"
	case c.EarlyClose > 0:
		return "closed_stream"
	}
	for _, m := range c.Msgs {
		if m.Body.Nil {
			return "nil_body"
		}
	}
	return "roundtrip"
}

// checkCase judges one round-trip execution with the oracle that fits the case.
func checkCase(c rtCase, obs *observation, add violSink) (nframes int, stateKeys []string, multiData int) {
	j := judge{wrapper: true}
	switch {
	case c.W != nil:
		j.mode = "writer"
	case c.EarlyClose > 0:
		j.mode = "closed"
	}
	nframes, stateKeys, multiData = checkWrites(obs, obs.rec.writes, j, add)
	if len(obs.subs) > 0 {
		stateKeys = append(stateKeys, checkSubscribers(obs, add)...)
	}
	stateKeys = append(stateKeys, wireKeys(obs)...)
	return
}

// checkLossy is the oracle for a failing writer. What the statement still demands: the wrapper stays
// transparent, nothing hangs or panics (judged by the caller), and what the writer accepted is made of whole
// frames of the logged messages (unless the writer itself tore a frame by a short write).
func checkLossy(obs *observation, writes [][]byte, add violSink) (nframes int, stateKeys []string, multiData int) {
	for _, m := range obs.msgs {
		who := fmt.Sprintf("%s(kind=%d id=%q)", m.label, m.spec.Kind, m.wireID)
		if m.logErr != nil {
			add("log_error", fmt.Sprintf("%s: logging returned %v", who, m.logErr))
		}
		checkWrapper(m, who, add)
		stateKeys = append(stateKeys, fmt.Sprintf("lossy/mt%d/rejected=%s/short=%v/eof=%v", m.mt, bucket(obs.rec.rejected), obs.rec.fail.Short, m.sawEOF))
	}
	if obs.rec.fail.Short {
		return 0, stateKeys, 0
	}
	rest := bytes.Join(writes, nil)
	total := len(rest)
	for len(rest) > 0 {
		f, n, err := parseFrame(rest)
		if err != nil {
			add("stream_unparseable", fmt.Sprintf("what the writer accepted does not parse at offset %d: %v", total-len(rest), err))
			break
		}
		known := false
		for _, m := range obs.msgs {
			if m.wireID == f.ID && m.mt == f.MT {
				known = true
			}
		}
		if !known {
			add("foreign_frames", fmt.Sprintf("accepted frame %v belongs to no logged message", f))
			break
		}
		nframes++
		rest = rest[n:]
	}
	return nframes, stateKeys, 0
}

// ===================================================================================================
// enumeration of the added round-trip spaces
// ===================================================================================================

func auditCases(tier string) []rtCase {
	var out []rtCase
	thorough := tier == "thorough"
	one := func(space string, via int, m msgSpec) rtCase {
		switch via {
		case 0:
			m.ID = "id-00003"
		case 1:
			m.ID = "0123456789abcdef"
		}
		c := rtCase{Space: space, Msgs: []msgSpec{m}}
		if via == 2 {
			c.Via = 1
		}
		return c
	}
	untilErr := func(bufs ...int) consSpec { return consSpec{Bufs: bufs, CloseAfter: -1} }

	// ---- space D: length and index fields beyond 16 bits ----
	for kind := 0; kind < 2; kind++ {
		// header name and value lengths need the third length byte (thorough: the fourth)
		out = append(out, one("D", 0, msgSpec{Kind: kind, Hdr: hdrBig, Body: bodySpec{Size: 1, ErrAt: -1}, Cons: untilErr(7)}))
		if thorough {
			out = append(out, one("D", 0, msgSpec{Kind: kind, Hdr: hdrHuge, Body: bodySpec{Size: 1, ErrAt: -1}, Cons: untilErr(7)}))
		}
		// one Read returns 64 KiB or more: the data length needs the third byte (thorough: the fourth)
		sizes := []int{65535, 65536, 65537, 1 << 20}
		if thorough {
			sizes = append(sizes, 1<<24-1, 1<<24, 1<<24+1)
		}
		for _, sz := range sizes {
			for _, comb := range []bool{false, true} {
				out = append(out, one("D", 0, msgSpec{Kind: kind, Hdr: 1, Body: bodySpec{Size: sz, Combined: comb, ErrAt: -1}, Cons: untilErr(sz + 7)}))
			}
			out = append(out, one("D", 2, msgSpec{Kind: kind, Hdr: 1, Body: bodySpec{Size: sz, ErrAt: -1}, Cons: untilErr(65536, 1<<20)}))
		}
		// more than 65536 data frames: the index needs the third byte
		out = append(out, one("D", 0, msgSpec{Kind: kind, Hdr: hdrSmall0, Body: bodySpec{Size: 65600, ErrAt: -1}, Cons: untilErr(1)}))
		if thorough {
			out = append(out, one("D", 2, msgSpec{Kind: kind, Hdr: hdrSmall0, Body: bodySpec{Size: 140000, Combined: true, ErrAt: -1}, Cons: untilErr(1, 2)}))
		}
	}

	// ---- space E: other bodies and consumers ----
	eSizes := []int{0, 1, 10, 100}
	if thorough {
		eSizes = []int{0, 1, 2, 10, 100, 5000}
	}
	// (buffer sequences and no-progress periods are chosen so that they never line up: every cycle makes progress)
	eBufs := [][]int{{7}, {0, 7, 7}, {1, 0, 7, 4096, 0, 3}}
	for kind := 0; kind < 2; kind++ {
		for _, sz := range eSizes {
			for _, chunk := range []int{0, 3} {
				for _, stutter := range []int{0, 2, 3} {
					if stutter == 3 && !thorough {
						continue
					}
					type errSpec struct {
						at        int
						transient bool
					}
					errs := []errSpec{{-1, false}}
					seen := map[int]bool{}
					for _, e := range []int{0, 5, sz} {
						if e <= sz && !seen[e] {
							seen[e] = true
							errs = append(errs, errSpec{e, false}, errSpec{e, true})
						}
					}
					for _, e := range errs {
						for _, comb := range []bool{false, true} {
							for _, bufs := range eBufs {
								for after := 0; after <= 2; after++ {
									if chunk == 0 && stutter == 0 && !e.transient && after == 0 && len(bufs) == 1 {
										continue // the pattern of spaces A and B
									}
									out = append(out, one("E", 0, msgSpec{Kind: kind, Hdr: 2,
										Body: bodySpec{Size: sz, Combined: comb, ErrAt: e.at, Transient: e.transient, Chunk: chunk, Stutter: stutter},
										Cons: consSpec{Bufs: bufs, CloseAfter: -1, After: after}}))
								}
							}
						}
					}
				}
			}
		}
	}

	// ---- space N: http.NoBody itself and nil bodies ----
	for kind := 0; kind < 2; kind++ {
		for via := 0; via < 3; via++ {
			for _, h := range []int{0, 4} {
				for _, api := range []bool{false, true} {
					for _, cons := range []consSpec{{Bufs: []int{7}, CloseAfter: -1}, {Bufs: []int{7}, CloseAfter: 0}, {Bufs: []int{1, 0}, CloseAfter: -1, After: 2}, {Bufs: []int{4096}, CloseAfter: 1}} {
						out = append(out, one("N", via, msgSpec{Kind: kind, API: api, Hdr: h, Body: bodySpec{NoBody: true, Real: true, ErrAt: -1}, Cons: cons}))
					}
					out = append(out, one("N", via, msgSpec{Kind: kind, API: api, Hdr: h, Body: bodySpec{Nil: true, ErrAt: -1}, Cons: consSpec{Bufs: []int{7}, CloseAfter: -1}}))
				}
			}
		}
	}
	// request with http.NoBody and its response with a body (and the reverse) through one stream
	for _, via := range []int{0, 1} {
		for _, real := range [][2]bool{{true, false}, {false, true}, {true, true}} {
			mk := func(kind int, r bool, same bool) msgSpec {
				m := msgSpec{Kind: kind, Hdr: 2, SameReq: same, Body: bodySpec{Size: 10, ErrAt: -1}, Cons: consSpec{Bufs: []int{7}, CloseAfter: -1}}
				if r {
					m.Body = bodySpec{NoBody: true, Real: true, ErrAt: -1}
				}
				if via == 0 {
					m.ID = "exch-002"
				}
				return m
			}
			out = append(out, rtCase{Space: "N", Via: via, Msgs: []msgSpec{mk(0, real[0], false), mk(1, real[1], true)}})
		}
	}

	// ---- space S: Modifier and SkipLogging ----
	for kind := 0; kind < 2; kind++ {
		for _, api := range []bool{false, true} {
			for _, h := range []int{1, 4} {
				for _, b := range []bodySpec{{NoBody: true, Real: true, ErrAt: -1}, {Size: 0, ErrAt: -1}, {Size: 10, ErrAt: -1, Combined: true}, {Size: 10, ErrAt: 5}} {
					for _, j := range []int{-1, 0} {
						out = append(out, one("S", 2, msgSpec{Kind: kind, API: api, Hdr: h, Skip: true, Body: b, Cons: consSpec{Bufs: []int{7}, CloseAfter: j}}))
					}
				}
			}
		}
	}
	small := bodySpec{Size: 10, ErrAt: -1}
	c7 := consSpec{Bufs: []int{7}, CloseAfter: -1}
	for _, pat := range [][3]bool{ // {request skipped, response of the same exchange, second message marks the skip}
		{true, true, false},  // the request's context is marked: neither the request nor its response is logged
		{false, true, true},  // marked between request and response: the request is logged, the response is not
		{true, false, false}, // a skipped request, then another exchange's request that is logged
		{false, false, true}, // a logged request, then another exchange's request that is skipped
	} {
		for k2 := 0; k2 < 2; k2++ {
			if pat[1] && k2 == 0 {
				continue
			}
			out = append(out, rtCase{Space: "S", Via: 1, Msgs: []msgSpec{
				{Kind: 0, Hdr: 1, Skip: pat[0], Body: small, Cons: c7},
				{Kind: k2, Hdr: 4, SameReq: pat[1], Skip: pat[2], Body: small, Cons: c7}}})
		}
	}
	// the Stream API does not consult the context: a marked message handed to LogRequest/LogResponse is logged
	for kind := 0; kind < 2; kind++ {
		out = append(out, one("S", 0, msgSpec{Kind: kind, Hdr: 1, Skip: true, Body: small, Cons: c7}))
	}

	// ---- space A2: further message shapes ----
	for kind := 0; kind < 2; kind++ {
		for via := 0; via < 3; via++ {
			for _, api := range []bool{false, true} {
				for _, h := range []int{hdrRawPath, hdrConnect, hdrStar} {
					for _, b := range []bodySpec{{NoBody: true, Real: true, ErrAt: -1}, {Size: 0, ErrAt: -1}, {Size: 10, Combined: true, ErrAt: -1}} {
						out = append(out, one("A2", via, msgSpec{Kind: kind, API: api, Hdr: h, Body: b, Cons: c7}))
					}
				}
			}
		}
	}

	// ---- space W: the writer fails ----
	for kind := 0; kind < 2; kind++ {
		for _, via := range []int{0, 2} {
			for _, b := range []struct {
				B bodySpec
				C consSpec
			}{{bodySpec{NoBody: true, Real: true, ErrAt: -1}, c7}, {bodySpec{Size: 1, ErrAt: -1}, c7}, {bodySpec{Size: 30, ErrAt: -1, Combined: true}, c7}, {bodySpec{Size: 30, ErrAt: 14}, c7}} {
				// hdr 1 is logged as 10 (request) / 5 (response) header frames; fail_at runs over the header
				// frames, the first data frames and past the last frame
				for _, at := range []int{0, 1, 4, 5, 9, 10, 11, 12, 14, 16, 40} {
					for _, persistent := range []bool{false, true} {
						for _, short := range []bool{false, true} {
							c := one("W", via, msgSpec{Kind: kind, Hdr: 1, Body: b.B, Cons: b.C})
							c.W = &writerSpec{FailAt: at, Persistent: persistent, Short: short}
							out = append(out, c)
						}
					}
				}
			}
		}
	}

	// ---- space X: Stream.Close before the consumers are done, logging after Close ----
	for _, k := range []int{1, 2, 3, 4} {
		for _, b := range []bodySpec{{Size: 1, ErrAt: -1}, {Size: 20, ErrAt: -1, Combined: true}, {Size: 20, ErrAt: 7}} {
			for _, pair := range [][2]int{{0, 1}, {0, 0}, {1, 1}} {
				for _, late := range []bool{false, true} {
					out = append(out, rtCase{Space: "X", EarlyClose: k, LateLog: late, Msgs: []msgSpec{
						{Kind: pair[0], Hdr: 1, ID: "exch-00X", Body: b, Cons: c7},
						{Kind: pair[1], Hdr: 4, ID: "exch-00Y", Body: b, Cons: c7}}})
				}
			}
		}
	}

	// ---- space H: marbl.Handler behind the stream ----
	// ({Late} in part 1 is a subscriber that never connects: a handler nobody listens to)
	subSets := [][]subSpec{{{Late: true}}, {{}}, {{}, {}}, {{Stall: true}}, {{}, {FailAfter: 1}}, {{FailAfter: 3}, {Stall: true}}, {{FailAfter: 12}, {}, {}}}
	hBodies := []struct {
		B bodySpec
		C consSpec
	}{{bodySpec{NoBody: true, Real: true, ErrAt: -1}, c7}, {bodySpec{Size: 100, ErrAt: -1, Combined: true}, consSpec{Bufs: []int{1, 7, 4096, 3, 100}, CloseAfter: -1}}, {bodySpec{Size: 100, ErrAt: 50}, c7}}
	for _, subs := range subSets {
		for _, via := range []int{0, 1} {
			for _, b1 := range hBodies {
				for _, b2 := range hBodies {
					m1 := msgSpec{Kind: 0, Hdr: 2, Body: b1.B, Cons: b1.C}
					m2 := msgSpec{Kind: 1, Hdr: 4, SameReq: true, Body: b2.B, Cons: b2.C}
					if via == 0 {
						m1.ID, m2.ID = "exch-00H", "exch-00H"
					}
					out = append(out, rtCase{Space: "H", Via: via, Msgs: []msgSpec{m1, m2}, Subs: subs})
				}
			}
		}
	}
	// the subscriber's buffer (16384 frames in handler.go): one request of 8 header frames and size+1 data frames
	// to a client that does not read; below, at and above the number of frames that fit
	hSizes := []int{16376, 16377}
	if thorough {
		hSizes = []int{16375, 16376, 16377, 16378}
	}
	for _, sz := range hSizes {
		for _, subs := range [][]subSpec{{{Stall: true}}, {{}, {Stall: true}}} {
			if len(subs) == 2 && (!thorough || sz != 16377) {
				continue
			}
			out = append(out, rtCase{Space: "H", Msgs: []msgSpec{{Kind: 0, Hdr: hdrSmall0, ID: "exch-big", Body: bodySpec{Size: sz, ErrAt: -1}, Cons: untilErr(1)}}, Subs: subs})
		}
	}
	return out
}

// ===================================================================================================
// marbl.Handler harness: websocket subscribers on in-memory connections
// ===================================================================================================

var errBroken = errors.New("connection reset by peer")

type memAddr struct{}

func (memAddr) Network() string { return "mem" }
func (memAddr) String() string  { return "mem" }

// wsConn is the server side of a hijacked connection. It records what the handler writes (the handshake
// response and the websocket frames), can stall like a client that does not read, and can break.
type wsConn struct {
	spec     subSpec
	out      []byte
	open     bool // the client reads (stalled clients: set by releaseSubscribers)
	closed   bool
	returned bool // ServeHTTP returned
	status   int
	started  bool
	// round 7: a subscription with a bounded queue instead of a websocket client (spec.Room > 0)
	q       *vrt.Chan[[]byte]
	qmsgs   [][]byte // what the queue held at the end
	qclosed bool     // the handler closed the queue (unsubscribed it)
}

func (c *wsConn) Read(p []byte) (int, error) { return 0, io.EOF }

func (c *wsConn) Write(p []byte) (int, error) {
	if c.closed {
		return 0, errBroken
	}
	hs := bytes.Index(c.out, []byte("\r\n\r\n"))
	if hs >= 0 { // past the handshake: websocket frames
		if c.spec.FailAfter > 0 {
			if msgs, _, _ := wsMessages(c.out[hs+4:]); len(msgs) >= c.spec.FailAfter-1 {
				c.closed = true
				return 0, errBroken
			}
		}
		if c.spec.Stall && !c.open {
			vrt.Block("wsConn.Write (client does not read)", func() bool { return c.open })
		}
	}
	c.out = append(c.out, p...)
	return len(p), nil
}

func (c *wsConn) Close() error                       { c.closed = true; return nil }
func (c *wsConn) LocalAddr() net.Addr                { return memAddr{} }
func (c *wsConn) RemoteAddr() net.Addr               { return memAddr{} }
func (c *wsConn) SetDeadline(t time.Time) error      { return nil }
func (c *wsConn) SetReadDeadline(t time.Time) error  { return nil }
func (c *wsConn) SetWriteDeadline(t time.Time) error { return nil }

type hijackRW struct {
	c *wsConn
	h http.Header
}

func (w *hijackRW) Header() http.Header         { return w.h }
func (w *hijackRW) Write(p []byte) (int, error) { return len(p), nil }
func (w *hijackRW) WriteHeader(code int)        { w.c.status = code }
func (w *hijackRW) Hijack() (net.Conn, *bufio.ReadWriter, error) {
	return w.c, bufio.NewReadWriter(bufio.NewReader(w.c), bufio.NewWriter(w.c)), nil
}

// wsMessages parses the websocket frames a server wrote (RFC 6455, unmasked): the binary messages, whether a
// close frame was sent, and how many trailing bytes are an incomplete frame.
func wsMessages(b []byte) (msgs [][]byte, closeFrame bool, rest int) {
	for len(b) >= 2 {
		op, l7 := b[0]&0x0f, int(b[1]&0x7f)
		if b[1]&0x80 != 0 {
			return msgs, closeFrame, -1 // a server must not mask
		}
		hl, n := 2, uint64(l7)
		switch l7 {
		case 126:
			if len(b) < 4 {
				return msgs, closeFrame, len(b)
			}
			hl, n = 4, uint64(b[2])<<8|uint64(b[3])
		case 127:
			if len(b) < 10 {
				return msgs, closeFrame, len(b)
			}
			hl, n = 10, 0
			for _, x := range b[2:10] {
				n = n<<8 | uint64(x)
			}
		}
		if uint64(len(b)-hl) < n {
			return msgs, closeFrame, len(b)
		}
		payload := b[hl : hl+int(n)]
		switch {
		case op == 8:
			closeFrame = true
		case b[0]&0x80 == 0 || op == 0:
			return msgs, closeFrame, -2 // fragmented message: x/net/websocket never sends one
		case op == 1 || op == 2:
			msgs = append(msgs, payload)
		}
		b = b[hl+int(n):]
	}
	return msgs, closeFrame, len(b)
}

func wsRequest() *http.Request {
	req, err := http.NewRequest("GET", "http://martian.proxy/logs", nil)
	if err != nil {
		panic(err)
	}
	req.Header.Set("Upgrade", "websocket")
	req.Header.Set("Connection", "Upgrade")
	req.Header.Set("Sec-WebSocket-Key", base64.StdEncoding.EncodeToString([]byte("0123456789abcdef")))
	req.Header.Set("Sec-WebSocket-Version", "13")
	req.Header.Set("Origin", "http://martian.proxy")
	return req
}

func startSubscriber(h *marbl.Handler, c *wsConn) *vrt.Thread {
	c.started = true
	return vrt.GoNamed("websocket-subscriber", func() {
		h.ServeHTTP(&hijackRW{c: c, h: http.Header{}}, wsRequest())
		c.returned = true
	})
}

// connectSubscribers creates the handler and connects the subscribers that are there from the start; it
// returns when each of them is registered and waiting for frames.
func connectSubscribers(specs []subSpec, obs *observation) *marbl.Handler {
	h := marbl.NewHandler()
	for _, sp := range specs {
		c := &wsConn{spec: sp}
		obs.subs = append(obs.subs, c)
		switch {
		case sp.Room > 0:
			subscribeQueue(h, c)
		case sp.Late:
		case sp.ID != "":
			// one at a time, so that the forced id goes to this subscriber
			restore := forceNextID(sp.ID)
			startSubscriber(h, c)
			vrt.WaitQuiescent()
			restore()
		default:
			startSubscriber(h, c)
		}
	}
	vrt.WaitQuiescent()
	verifyForcedIDs(h, specs)
	return h
}

// releaseSubscribers lets the stalled clients read and waits until every subscriber has drained its queue.
func releaseSubscribers(obs *observation) {
	for _, c := range obs.subs {
		c.open = true
	}
	vrt.Bump()
	vrt.WaitQuiescent()
	for _, c := range obs.subs {
		if c.q != nil {
			drainQueue(c)
		}
	}
}

// checkSubscribers: what a websocket subscriber receives is the stream itself. A subscriber that was there
// from the start and kept up receives every frame; one that stalled or broke receives a prefix that ends on a
// frame boundary and, if frames were dropped, is disconnected afterwards (never a stream with a hole); one
// that connected late receives a run of whole frames up to the end.
func checkSubscribers(obs *observation, add violSink) (keys []string) {
	var ref []frame
	refBytes := bytes.Join(obs.rec.writes, nil)
	rest := refBytes
	bounds := map[int]int{0: 0} // byte offset -> frame number
	for len(rest) > 0 {
		f, n, err := parseFrame(rest)
		if err != nil {
			return // reported by the stream oracle
		}
		ref = append(ref, f)
		rest = rest[n:]
		bounds[len(refBytes)-len(rest)] = len(ref)
	}
	for i, c := range obs.subs {
		who := fmt.Sprintf("subscriber %d %+v", i, c.spec)
		if !c.started {
			keys = append(keys, "sub/never-connected")
			continue
		}
		var msgs [][]byte
		closeFrame := false
		if c.q != nil {
			// a bare queue: what it holds is what a websocket client would be sent once it reads again
			msgs = c.qmsgs
		} else {
			hs := bytes.Index(c.out, []byte("\r\n\r\n"))
			if hs < 0 || !bytes.HasPrefix(c.out, []byte("HTTP/1.1 101 ")) {
				add("subscriber_handshake", fmt.Sprintf("%s: no websocket handshake response (status %d, %q)", who, c.status, clip(string(c.out))))
				continue
			}
			var tail int
			msgs, closeFrame, tail = wsMessages(c.out[hs+4:])
			if tail != 0 && !(tail > 0 && c.closed) {
				add("subscriber_websocket_framing", fmt.Sprintf("%s: websocket output ends with %d stray bytes (negative: invalid frame)", who, tail))
				continue
			}
		}
		got := bytes.Join(msgs, nil)
		var first, end int
		switch {
		case c.spec.Late:
			// a run of whole frames [first, end)
			found := false
			for off, k := range bounds {
				if e, ok := bounds[off+len(got)]; ok && bytes.Equal(refBytes[off:off+len(got)], got) && (!found || k > first) {
					found, first, end = true, k, e
				}
			}
			if len(got) == 0 {
				found, first, end = true, len(ref), len(ref)
			}
			if !found {
				add("subscriber_stream_torn", fmt.Sprintf("%s: the %d messages (%d bytes) it received are no run of whole frames of the stream (%d frames, %d bytes)", who, len(msgs), len(got), len(ref), len(refBytes)))
				continue
			}
		default:
			e, ok := bounds[len(got)]
			if !ok || !bytes.HasPrefix(refBytes, got) {
				if missing, sub := missingFrames(msgs, obs.rec.writes); sub && fanoutCase(obs) {
					// every message is a whole frame of the stream and they come in stream order, but some frames in
					// between never arrived: whole frames were lost on the way to this subscriber
					add("subscriber_lost_frames_in_between", fmt.Sprintf("%s: received %d of the %d frames of the stream in order, but frames %v never arrived although later ones did (%s)", who, len(msgs), len(ref), clipInts(missing, 12), describeFrames(ref, missing, 4)))
					continue
				}
				add("subscriber_stream_torn", fmt.Sprintf("%s: the %d messages (%d bytes) it received are no whole-frame prefix of the stream (%d frames, %d bytes; first difference at %d)", who, len(msgs), len(got), len(ref), len(refBytes), firstDiff(got, refBytes)))
				continue
			}
			end = e
		}
		complete := end == len(ref)
		broke := c.spec.FailAfter > 0 && c.closed
		switch {
		case complete:
		case broke:
			// its connection broke: nothing more can be delivered
		case c.spec.Stall || c.spec.Late || c.spec.Room > 0:
			// it fell behind (or was disconnected while connecting): frames were dropped, so the handler must have
			// hung up; the subscriber must never see the stream continue after a hole
			if !c.returned || !c.closed {
				add("subscriber_not_disconnected", fmt.Sprintf("%s: received frames [%d,%d) of %d and is still connected (handler returned: %v, close frame: %v)", who, first, end, len(ref), c.returned, closeFrame))
			}
		default:
			add("subscriber_missed_frames", fmt.Sprintf("%s: kept up but received only frames [%d,%d) of %d", who, first, end, len(ref)))
		}
		if fanoutCase(obs) {
			keys = append(keys, subKey(c, end, len(ref), end < len(ref) && ref[end].Type != 1))
			continue
		}
		keys = append(keys, fmt.Sprintf("sub/stall=%v/fail=%v/late=%v/complete=%v/msgs=%s/closed=%v", c.spec.Stall, c.spec.FailAfter > 0, c.spec.Late, complete, bucket(len(msgs)), c.closed))
	}
	return keys
}

// ===================================================================================================
// reader: other sources
// ===================================================================================================

// srcBase is a valid stream whose frames straddle bufio's 4096-byte buffer in every way: a header frame of
// exactly 4096 bytes, a tiny data frame, a data frame of exactly 4096 bytes, an empty header, a data frame
// larger than the buffer, an empty terminal data frame.
var srcBase = func() []byte {
	var b []byte
	b = append(b, hdrFrame(1, "srcbase0", 5, 4073, []byte("X-Big"+strings.Repeat("h", 4073)))...)
	b = append(b, dataFrame(1, "srcbase0", 0, 0, 1, []byte{'d'})...)
	pay := make([]byte, 5000)
	for i := range pay {
		pay[i] = content(i)
	}
	b = append(b, dataFrame(1, "srcbase0", 1, 0, 4077, pay[:4077])...)
	b = append(b, hdrFrame(2, "srcbase0", 0, 0, nil)...)
	b = append(b, dataFrame(2, "srcbase0", 0, 0, 5000, pay)...)
	b = append(b, dataFrame(2, "srcbase0", 1, 1, 0, nil)...)
	return b
}()

var srcModes = []string{"plain", "onebyte", "dataerr", "half", "fail"}

type failingReader struct {
	r io.Reader
}

func (f failingReader) Read(p []byte) (int, error) {
	n, err := f.r.Read(p)
	if err == io.EOF {
		err = errBoom
	}
	return n, err
}

func sourceFor(mode string, b []byte) io.Reader {
	var r io.Reader = bytes.NewReader(b)
	switch mode {
	case "onebyte":
		return iotest.OneByteReader(r)
	case "dataerr":
		return iotest.DataErrReader(r)
	case "half":
		return iotest.HalfReader(r)
	case "fail":
		return failingReader{r}
	}
	return r
}

// rdSourceCases: every truncation offset (quick: the offsets around frame boundaries and multiples of 4096,
// and every 251st) of srcBase x every source mode.
func rdSourceCases(tier string) []rdCase {
	var out []rdCase
	near := map[int]bool{}
	rest := srcBase
	off := 0
	for len(rest) > 0 {
		_, n, err := parseFrame(rest)
		if err != nil {
			panic("srcBase does not parse")
		}
		for d := -20; d <= 20; d++ {
			near[off+d] = true
			near[off+n+d] = true
		}
		off += n
		rest = rest[n:]
	}
	for k := 4096; k < len(srcBase); k += 4096 {
		for d := -3; d <= 3; d++ {
			near[k+d] = true
		}
	}
	for cut := 0; cut <= len(srcBase); cut++ {
		if tier != "thorough" && !near[cut] && cut%251 != 0 {
			continue
		}
		for _, mode := range srcModes {
			if mode == "plain" && cut < len(srcBase) && tier != "thorough" && !near[cut] {
				continue
			}
			out = append(out, rdCase{Class: "source_" + mode, Base: true, Cut: cut, Mode: mode, Note: fmt.Sprintf("srcBase[:%d] of %d delivered by source %q", cut, len(srcBase), mode)})
		}
	}
	return out
}
