// Round 8b: messages read off the wire (space P).
//
// Every other space builds its messages field by field, and the header values that net/http keeps in struct
// fields of a message (Host, Content-Length, Transfer-Encoding) are then present either in the field or not at
// all. A message the proxy logs has been parsed by http.ReadRequest / http.ReadResponse: its header map still
// holds the Content-Length line it had on the wire, Host and Transfer-Encoding have moved to fields, and the
// ContentLength field is 0 both for "Content-Length: 0" and (requests) for no Content-Length at all. The clause
// "the emitted frames parse back ... to exactly the message's pseudo-headers and headers" is judged here against
// the bytes the message had on the wire: the reference is the list of components the wire bytes are built from
// (wireSpec), not anything net/http or proxyutil derive from the parsed message.
//
//	dimensions  kind (request / response) x method (POST, GET) / status (200, 204) x Host line present / absent
//	            x framing (none, "Content-Length: 0", "Content-Length: N" + N bytes, chunked with an empty body,
//	            chunked with N bytes in two chunks, response delimited by the end of the connection: empty /
//	            N bytes) x other header lines (none, one, repeated + empty-valued + Cookie) x spelling of the
//	            field names on the wire (canonical / lower case)
//	            x API (Stream, Modifier) x body handed to marbl (as parsed - http.NoBody itself for a known-empty
//	            body, which is what the proxy passes - / a recorder around it) x consumer (reads to the end in
//	            7-byte reads, closes without reading)
//	            + exchanges: a parsed request and the parsed response to it on one stream (same id / Modifier)
package main

import (
	"bufio"
	"bytes"
	"fmt"
	"io"
	"net/http"
	"net/url"
	"strconv"
	"strings"

	"github.com/google/martian/v3"
)

const (
	frNone      = iota // no Content-Length, no Transfer-Encoding (request: no body; response 204: no body)
	frCL0              // Content-Length: 0
	frCLN              // Content-Length: N, N bytes
	frChunked0         // Transfer-Encoding: chunked, "0\r\n\r\n"
	frChunkedN         // Transfer-Encoding: chunked, N bytes in two chunks
	frUntilEOF0        // response only: no framing header, the connection ends right after the header block
	frUntilEOFN        // response only: no framing header, N bytes, then the connection ends
)

var framingNames = []string{"none", "cl0", "clN", "chunked0", "chunkedN", "eof0", "eofN"}

// wireSpec lists what is put on the wire; it is the reference for what must be logged.
type wireSpec struct {
	Kind        int
	Method      string // request
	Path, Query string
	Host        string // "" = no Host line
	Status      int    // response
	Reason      string
	Framing     int
	N           int
	Extra       int
	Lower       bool
}

var wireExtras = [][]kv{
	nil,
	{{"X-Test", []string{"a"}}},
	{{"X-Rep", []string{"a"}}, {"X-Empty", []string{""}}, {"X-Rep", []string{"b"}}, {"Cookie", []string{"a=1; b=2"}}},
}

func (w wireSpec) body() []byte {
	switch w.Framing {
	case frCLN, frChunkedN, frUntilEOFN:
		b := make([]byte, w.N)
		for i := range b {
			b[i] = content(i)
		}
		return b
	}
	return nil
}

// lines returns the header lines in wire order (name as spelled on the wire, value).
func (w wireSpec) lines() [][2]string {
	var ls [][2]string
	if w.Kind == 0 && w.Host != "" {
		ls = append(ls, [2]string{"Host", w.Host})
	}
	var fr [][2]string
	switch w.Framing {
	case frCL0:
		fr = append(fr, [2]string{"Content-Length", "0"})
	case frCLN:
		fr = append(fr, [2]string{"Content-Length", strconv.Itoa(w.N)})
	case frChunked0, frChunkedN:
		fr = append(fr, [2]string{"Transfer-Encoding", "chunked"})
	}
	ex := wireExtras[w.Extra]
	for i, p := range ex {
		if i == 1 {
			ls = append(ls, fr...)
			fr = nil
		}
		ls = append(ls, [2]string{p.Name, p.Values[0]})
	}
	ls = append(ls, fr...)
	if w.Lower {
		for i := range ls {
			ls[i][0] = strings.ToLower(ls[i][0])
		}
	}
	return ls
}

func (w wireSpec) raw() []byte {
	var b bytes.Buffer
	if w.Kind == 0 {
		t := w.Path
		if w.Query != "" {
			t += "?" + w.Query
		}
		fmt.Fprintf(&b, "%s %s HTTP/1.1\r\n", w.Method, t)
	} else {
		fmt.Fprintf(&b, "HTTP/1.1 %d %s\r\n", w.Status, w.Reason)
	}
	for _, l := range w.lines() {
		if l[1] == "" {
			fmt.Fprintf(&b, "%s:\r\n", l[0])
		} else {
			fmt.Fprintf(&b, "%s: %s\r\n", l[0], l[1])
		}
	}
	b.WriteString("\r\n")
	body := w.body()
	switch w.Framing {
	case frChunked0:
		b.WriteString("0\r\n\r\n")
	case frChunkedN:
		k := 3
		if k > len(body) {
			k = len(body)
		}
		for _, part := range [][]byte{body[:k], body[k:]} {
			if len(part) > 0 {
				fmt.Fprintf(&b, "%x\r\n%s\r\n", len(part), part)
			}
		}
		b.WriteString("0\r\n\r\n")
	default:
		b.Write(body)
	}
	return b.Bytes()
}

// headers is the header set of the message as it is on the wire: one entry per field name (in the canonical
// spelling net/http gives every name before martian sees the message) with the values in wire order.
func (w wireSpec) headers() []kv {
	var out []kv
	for _, l := range w.lines() {
		name := http.CanonicalHeaderKey(l[0])
		found := false
		for i := range out {
			if out[i].Name == name {
				out[i].Values = append(out[i].Values, l[1])
				found = true
			}
		}
		if !found {
			out = append(out, kv{name, []string{l[1]}})
		}
	}
	return out
}

const wireRemote = "10.0.0.1:1234"

func (w wireSpec) pseudo() []kv {
	if w.Kind == 0 {
		// the proxy completes the URL of an origin-form request with the scheme of the connection and the host
		return []kv{{":method", []string{w.Method}}, {":scheme", []string{"http"}}, {":authority", []string{w.Host}},
			{":path", []string{w.Path}}, {":query", []string{w.Query}}, {":proto", []string{"HTTP/1.1"}}, {":remote", []string{wireRemote}}}
	}
	return []kv{{":proto", []string{"HTTP/1.1"}}, {":status", []string{strconv.Itoa(w.Status)}}, {":reason", []string{fmt.Sprintf("%d %s", w.Status, w.Reason)}}}
}

func (w wireSpec) String() string {
	return fmt.Sprintf("%s/extra%d/lower=%v: %q", framingNames[w.Framing], w.Extra, w.Lower, clip(string(w.raw())))
}

// wireMsgs is the pool msgSpec.Wire indexes (1-based). Same in both tiers except for the body sizes.
var wireMsgs []wireSpec

func buildWireMsgs(tier string) {
	if wireMsgs != nil {
		return
	}
	ns := []int{5}
	if tier == "thorough" {
		ns = []int{1, 5, 4096}
	}
	sized := func(w wireSpec, f int, add func(wireSpec)) {
		w.Framing = f
		switch f {
		case frCLN, frChunkedN, frUntilEOFN:
			for _, n := range ns {
				w.N = n
				add(w)
			}
		default:
			add(w)
		}
	}
	add := func(w wireSpec) { wireMsgs = append(wireMsgs, w) }
	for extra := range wireExtras {
		for _, lower := range []bool{false, true} {
			for _, method := range []string{"POST", "GET"} {
				for _, host := range []string{"example.com", ""} {
					for _, f := range []int{frNone, frCL0, frCLN, frChunked0, frChunkedN} {
						sized(wireSpec{Kind: 0, Method: method, Path: "/submit", Query: "a=1", Host: host, Extra: extra, Lower: lower}, f, add)
					}
				}
			}
			for _, f := range []int{frCL0, frCLN, frChunked0, frChunkedN, frUntilEOF0, frUntilEOFN} {
				sized(wireSpec{Kind: 1, Status: 200, Reason: "OK", Extra: extra, Lower: lower}, f, add)
			}
			for _, f := range []int{frNone, frCL0} {
				sized(wireSpec{Kind: 1, Status: 204, Reason: "No Content", Extra: extra, Lower: lower}, f, add)
			}
		}
	}
}

func mustURL(s string) *url.URL {
	u, err := url.Parse(s)
	if err != nil {
		panic(err)
	}
	return u
}

// parseWire reads the message the way the proxy does. req is the request a response belongs to.
func parseWire(w wireSpec, req *http.Request) (*http.Request, *http.Response) {
	br := bufio.NewReader(bytes.NewReader(w.raw()))
	if w.Kind == 0 {
		r, err := http.ReadRequest(br)
		if err != nil {
			panic(fmt.Sprintf("harness: ReadRequest(%q): %v", w.raw(), err))
		}
		r.URL.Scheme, r.URL.Host, r.RemoteAddr = "http", r.Host, wireRemote
		return r, nil
	}
	res, err := http.ReadResponse(br, req)
	if err != nil {
		panic(fmt.Sprintf("harness: ReadResponse(%q): %v", w.raw(), err))
	}
	return nil, res
}

// wireNoBody: net/http hands out http.NoBody itself for this message.
func wireNoBody(w wireSpec) bool {
	var holder *http.Request
	if w.Kind == 1 {
		holder = &http.Request{Method: "GET"}
	}
	req, res := parseWire(w, holder)
	if req != nil {
		return req.Body == http.NoBody
	}
	return res.Body == http.NoBody
}

// prepareWire is prepare for a message read off the wire.
func prepareWire(i int, sp msgSpec, prev *msgObs, removes *[]func()) *msgObs {
	w := wireMsgs[sp.Wire-1]
	m := &msgObs{spec: sp, label: fmt.Sprintf("m%d[wire %s]", i, w)}
	var req *http.Request
	var res *http.Response
	switch {
	case w.Kind == 0:
		req, _ = parseWire(w, nil)
	case sp.SameReq && prev != nil:
		req = prev.req
	default:
		req = &http.Request{Method: "POST", URL: mustURL("http://example.com/submit?a=1"), Proto: "HTTP/1.1", ProtoMajor: 1, ProtoMinor: 1,
			Header: http.Header{}, Host: "example.com", RemoteAddr: wireRemote, ContentLength: 0, Body: http.NoBody}
	}
	if w.Kind == 0 || !(sp.SameReq && prev != nil) {
		ctx, remove, err := martian.TestContext(req, nil, nil)
		if err != nil {
			panic(err)
		}
		*removes = append(*removes, remove)
		if sp.API {
			ctx.APIRequest()
		}
	}
	m.ctxSkip = sp.Skip
	api := sp.API
	if w.Kind == 1 && sp.SameReq && prev != nil {
		api = prev.spec.API
		m.ctxSkip = m.ctxSkip || prev.ctxSkip
	}
	var parsed io.ReadCloser
	if w.Kind == 0 {
		m.mt = 1
		parsed = req.Body
	} else {
		m.mt = 2
		_, res = parseWire(w, req)
		parsed = res.Body
	}
	if (parsed == http.NoBody) != sp.Body.NoBody {
		panic(fmt.Sprintf("harness: %s: spec says NoBody=%v, net/http produced %T", w, sp.Body.NoBody, parsed))
	}
	m.under = &recBody{inner: parsed}
	var body io.ReadCloser = m.under
	if sp.Body.NoBody && sp.Body.Real {
		body = http.NoBody
	}
	if w.Kind == 0 {
		req.Body = body
	} else {
		res.Body = body
	}
	m.req, m.res = req, res
	m.pseudo = w.pseudo()
	if api {
		m.pseudo = append(m.pseudo, kv{":api", []string{"true"}})
	}
	m.hdrs = w.headers()
	m.clOpt = false // the wire says whether there is a Content-Length line
	if sp.ID != "" {
		m.wireID = sp.ID[:8]
	} else {
		m.wireID = martian.NewContext(req).ID()[:8]
	}
	return m
}

// wireCases enumerates space P.
func wireCases(tier string) []rtCase {
	buildWireMsgs(tier)
	var out []rtCase
	spec := func(k int, real bool, closeAfter int) msgSpec {
		w := wireMsgs[k]
		b := bodySpec{Size: len(w.body()), ErrAt: -1}
		if wireNoBody(w) {
			b.NoBody, b.Real = true, real
		}
		return msgSpec{Kind: w.Kind, Wire: k + 1, Body: b, Cons: consSpec{Bufs: bufSeqs["7"], CloseAfter: closeAfter}}
	}
	for k, w := range wireMsgs {
		for via := 0; via < 2; via++ {
			for _, real := range []bool{true, false} {
				if !real && !wireNoBody(w) {
					continue // only a known-empty body can be handed over as http.NoBody itself
				}
				for _, ca := range []int{-1, 0} {
					m := spec(k, real, ca)
					c := rtCase{Space: "P", Via: via}
					if via == 0 {
						m.ID = "id-0000P"
					}
					c.Msgs = []msgSpec{m}
					out = append(out, c)
				}
			}
		}
	}
	// exchanges: a parsed request and the parsed response to it, every pair of framings, one header shape
	var reqs, ress []int
	for k, w := range wireMsgs {
		if w.Extra != 1 || w.Lower || w.N > 5 || w.N == 1 {
			continue
		}
		switch {
		case w.Kind == 0 && w.Method == "POST" && w.Host != "":
			reqs = append(reqs, k)
		case w.Kind == 1 && w.Status == 200:
			ress = append(ress, k)
		}
	}
	for _, a := range reqs {
		for _, b := range ress {
			for via := 0; via < 2; via++ {
				m1, m2 := spec(a, true, -1), spec(b, true, -1)
				if via == 0 {
					m1.ID, m2.ID = "exch-00P", "exch-00P"
				} else {
					m2.SameReq = true
				}
				out = append(out, rtCase{Space: "P", Via: via, Msgs: []msgSpec{m1, m2}})
			}
		}
	}
	return out
}

// wireKeys are the coverage keys of space P: which kind of wire message was logged with which header set.
func wireKeys(obs *observation) (keys []string) {
	for _, m := range obs.msgs {
		if m.spec.Wire == 0 {
			continue
		}
		w := wireMsgs[m.spec.Wire-1]
		keys = append(keys, fmt.Sprintf("wire/mt%d/%s/extra%d/lower=%v/host=%v/nobody=%v/real=%v", m.mt, framingNames[w.Framing], w.Extra, w.Lower, w.Host != "", m.spec.Body.NoBody, m.spec.Body.Real))
	}
	return keys
}
