// C19 — marbl streams decode to the logged messages with intact, ordered bodies.
//
// One binary, three parts (MODE gosim: martian's goroutines, channels, atomics, locks and clock are
// scheduler calls, so marbl.Stream's writer goroutine and its unbuffered framec/closec rendezvous are
// controlled by the harness; every use of marbl.Stream happens inside a vrt execution).
//
// Part 1 (round trip, exhaustive inputs): every message of an explicitly described space (message shape x
// body behaviour x consumer behaviour) is logged through Stream.LogRequest/LogResponse or the Modifier to a
// recording writer, the consumer reads the body through the logging wrapper, the stream is closed, and the
// recorded Write calls are checked against a model written from the property statement: every Write is one
// whole frame (independent parser), marbl.Reader decodes the same frames, per (id, type) the header frames
// are exactly the message's pseudo-headers and headers, the data frames have contiguous indices from 0 and
// concatenate to the bytes the consumer read, the last one is terminal iff the consumer saw io.EOF, and the
// wrapper returned exactly what the underlying body returned.
//
// Part 2 (schedules): 2-3 threads log different messages / read their bodies on one stream; the gosim
// explorer enumerates the interleavings (all of them for the small scenarios, deviation-bounded for the
// scenarios in which whole messages are logged concurrently); same oracle + no deadlock + Close returns.
//
// Part 3 (reader robustness): byte strings generated from the frame grammar with every length field drawn
// from {0,1,2,2^31-1,2^31,2^32-2,2^32-1}, truncated at every offset, plus all short strings over a 6-byte
// alphabet, are fed to marbl.Reader in worker subprocesses with an address-space cap: ReadFrame must
// return the frames of the independent parser and then an error; never panic, never allocate gigabytes.
//
// audit.go (coverage audit, see AUDIT.md) adds to part 1 the spaces D, E, N, S, A2, W (failing writer), X (stream
// closed early) and H (marbl.Handler with websocket subscribers behind the stream), to part 2 the family F5
// (a subscriber connects / breaks while a message is logged) and to part 3 other kinds of sources.
package main

import (
	"bufio"
	"bytes"
	"encoding/hex"
	"encoding/json"
	"errors"
	"fmt"
	"io"
	"net/http"
	"net/url"
	"os"
	"os/exec"
	"runtime"
	"runtime/debug"
	"runtime/metrics"
	"sort"
	"strconv"
	"strings"
	"sync"
	"syscall"
	"time"

	"github.com/google/martian/v3"
	"github.com/google/martian/v3/marbl"
	"github.com/google/martian/v3/zzverif/vrt"
	"github.com/google/martian/v3/zzverif/vtime"

	"verif/lib"
)

// ===================================================================================================
// independent frame parser (written from the schema in marbl's package documentation)
// ===================================================================================================

type frame struct {
	Type  byte // 1 header, 2 data
	MT    byte
	ID    string
	Name  string
	Value string
	Index uint32
	Term  byte
	Data  []byte
}

var (
	errShort       = errors.New("input ends inside a frame")
	errUnknownType = errors.New("unknown frame type")
)

func be32(b []byte) uint32 {
	return uint32(b[0])<<24 | uint32(b[1])<<16 | uint32(b[2])<<8 | uint32(b[3])
}

// parseFrame decodes the frame at the start of b and returns the number of bytes it occupies.
func parseFrame(b []byte) (f frame, n int, err error) {
	if len(b) < 10 {
		return f, 0, errShort
	}
	f.Type, f.MT, f.ID = b[0], b[1], string(b[2:10])
	switch f.Type {
	case 1:
		if len(b) < 18 {
			return f, 0, errShort
		}
		nl, vl := uint64(be32(b[10:14])), uint64(be32(b[14:18]))
		if uint64(len(b)-18) < nl+vl {
			return f, 0, errShort
		}
		f.Name = string(b[18 : 18+nl])
		f.Value = string(b[18+nl : 18+nl+vl])
		return f, int(18 + nl + vl), nil
	case 2:
		if len(b) < 19 {
			return f, 0, errShort
		}
		f.Index = be32(b[10:14])
		f.Term = b[14]
		dl := uint64(be32(b[15:19]))
		if uint64(len(b)-19) < dl {
			return f, 0, errShort
		}
		f.Data = b[19 : 19+dl]
		return f, int(19 + dl), nil
	}
	return f, 0, errUnknownType
}

// sameFrame compares a frame decoded by marbl.Reader with one decoded by parseFrame.
func sameFrame(mf marbl.Frame, f frame) bool {
	switch x := mf.(type) {
	case marbl.Header:
		return f.Type == 1 && x.ID == f.ID && byte(x.MessageType) == f.MT && x.Name == f.Name && x.Value == f.Value
	case marbl.Data:
		if f.Type != 2 || x.ID != f.ID || byte(x.MessageType) != f.MT || x.Index != f.Index || !bytes.Equal(x.Data, f.Data) {
			return false
		}
		if f.Term <= 1 && x.Terminal != (f.Term == 1) {
			return false
		}
		return true
	}
	return false
}

func (f frame) String() string {
	if f.Type == 1 {
		return fmt.Sprintf("H{id=%q mt=%d %q=%q}", f.ID, f.MT, clip(f.Name), clip(f.Value))
	}
	return fmt.Sprintf("D{id=%q mt=%d idx=%d term=%d len=%d}", f.ID, f.MT, f.Index, f.Term, len(f.Data))
}

func clip(s string) string {
	if len(s) > 40 {
		return s[:40] + fmt.Sprintf("...(%d)", len(s))
	}
	return s
}

// readAllFrames runs marbl.Reader over b until it returns an error (or max frames).
func readAllFrames(b []byte, max int) (fs []marbl.Frame, last error, pan string, both bool) {
	defer func() {
		if r := recover(); r != nil {
			pan = fmt.Sprint(r)
		}
	}()
	return readAllFramesFrom(bytes.NewReader(b), max)
}

func readAllFramesFrom(src io.Reader, max int) (fs []marbl.Frame, last error, pan string, both bool) {
	defer func() {
		if r := recover(); r != nil {
			pan = fmt.Sprint(r)
		}
	}()
	rd := marbl.NewReader(src)
	for len(fs) < max {
		f, err := rd.ReadFrame()
		if err != nil {
			if f != nil {
				both = true
			}
			return fs, err, "", both
		}
		if f == nil {
			return fs, nil, "", false
		}
		fs = append(fs, f)
	}
	return fs, nil, "", false
}

// ===================================================================================================
// message space
// ===================================================================================================

type kv struct {
	Name   string
	Values []string
}

// hdrVariant is one message shape: header multiset plus the fields the pseudo-headers are taken from.
type hdrVariant struct {
	Pairs                          []kv
	Host                           string
	CL                             int64
	TE                             []string
	URL                            string
	Scheme, Authority, Path, Query string
	Method, Remote                 string
	Status                         int
	StatusLine                     string
	Proto, RProto                  string // request / response protocol ("" = HTTP/1.1 / HTTP/1.0)
}

var hdrVariants = func() []hdrVariant {
	long := strings.Repeat("h", 4096)
	longPath := "/" + strings.Repeat("p", 300)
	var many []kv
	for i := 0; i < 20; i++ {
		many = append(many, kv{fmt.Sprintf("X-H%02d", i), []string{strconv.Itoa(i)}})
	}
	u0 := hdrVariant{URL: "http://example.com/foo%20bar?baz%20qux", Scheme: "http", Authority: "example.com", Path: "/foo%20bar", Query: "baz%20qux"}
	u1 := hdrVariant{URL: "https://example.com:8443", Scheme: "https", Authority: "example.com:8443"}
	u2 := hdrVariant{URL: "http://h" + longPath + "?", Scheme: "http", Authority: "h", Path: longPath}
	mk := func(u hdrVariant, method, remote, host string, cl int64, te []string, status int, line string, pairs ...kv) hdrVariant {
		u.Method, u.Remote, u.Host, u.CL, u.TE, u.Status, u.StatusLine, u.Pairs = method, remote, host, cl, te, status, line, pairs
		return u
	}
	return []hdrVariant{
		mk(u1, "GET", "", "", -1, nil, 200, "200 OK"),
		mk(u0, "POST", "10.0.0.1:1234", "example.com", -1, nil, 404, "404 Not Found", kv{"X-One", []string{"v"}}),
		mk(u0, "PUT", "[::1]:9", "", 5, nil, 200, "200 OK", kv{"X-Rep", []string{"a", "b", "a"}}),
		mk(u1, "GET", "10.0.0.1:1234", "", -1, []string{"chunked"}, 204, "204 No Content", kv{"X-Empty", []string{""}}),
		mk(u0, "POST", "10.0.0.1:1234", "h.example:80", 0, []string{"gzip", "chunked"}, 500, "", kv{"X-Empty", []string{"", ""}}, kv{"X-Rep", []string{"1", "", "1"}}, kv{"X-Nil", []string{}}),
		mk(u2, "GET", "", "h", -1, nil, 200, "200 OK", kv{"x-lower", []string{"q"}}, kv{"X-Long", []string{long}}),
		mk(u0, "OPTIONS", "r", "", 100000, nil, 301, "301 Moved Permanently", many...),
		mk(u1, "POST", "10.0.0.1:1234", "", -1, nil, 200, "200 OK", kv{"Cookie", []string{"a=1; b=2", "a=1; b=2"}}, kv{"X-Bin", []string{"\x00\xff:é\r\n"}}),
	}
}()

type bodySpec struct {
	Size     int  `json:"size"`
	NoBody   bool `json:"nobody,omitempty"`   // http.NoBody (size 0 only)
	Combined bool `json:"combined,omitempty"` // the final chunk is returned together with the terminal error
	ErrAt    int  `json:"err_at"`             // -1: EOF at Size; e: errBoom once offset e has been reached
	CloseErr bool `json:"close_err,omitempty"`
	// audit extensions
	Chunk     int  `json:"chunk,omitempty"`     // the body returns at most this many bytes per Read (0: fills the buffer)
	Stutter   int  `json:"stutter,omitempty"`   // every Stutter-th Read call makes no progress: (0, nil)
	Transient bool `json:"transient,omitempty"` // the error at ErrAt is returned once, then the body continues to Size and EOF
	Real      bool `json:"real,omitempty"`      // with NoBody: the message carries http.NoBody itself (not a recorder around it)
	Nil       bool `json:"nil,omitempty"`       // the message has a nil Body (client-side requests; net/http treats it as empty)
}

type consSpec struct {
	Bufs       []int `json:"bufs"`            // read-buffer sizes, cycled
	CloseAfter int   `json:"close_after"`     // -1: read until an error, then close; j: close after j reads
	After      int   `json:"after,omitempty"` // the consumer keeps reading until it has seen After+1 errors (0: stops at the first)
}

type msgSpec struct {
	Kind    int      `json:"kind"` // 0 request, 1 response
	API     bool     `json:"api,omitempty"`
	Hdr     int      `json:"hdr"`
	ID      string   `json:"id,omitempty"`       // id handed to LogRequest/LogResponse (Stream API only)
	SameReq bool     `json:"same_req,omitempty"` // response to the previous message's request (shares its context)
	Skip    bool     `json:"skip,omitempty"`     // the context is marked SkipLogging before the Modifier sees the message
	Wire    int      `json:"wire,omitempty"`     // k>0: the message is wireMsgs[k-1] parsed by http.ReadRequest / ReadResponse (wire.go); Hdr is unused
	Body    bodySpec `json:"body"`
	Cons    consSpec `json:"cons"`
}

type rtCase struct {
	Space string    `json:"space"`
	Via   int       `json:"via"` // 0 Stream.LogRequest/LogResponse, 1 Modifier
	Msgs  []msgSpec `json:"msgs"`
	// audit extensions
	W          *writerSpec `json:"w,omitempty"`           // the stream's writer fails
	EarlyClose int         `json:"early_close,omitempty"` // k>0: Stream.Close is called after k-1 consumer steps, the consumers go on
	LateLog    bool        `json:"late_log,omitempty"`    // with EarlyClose: messages 1.. are logged after the Close
	Subs       []subSpec   `json:"subs,omitempty"`        // the writer is a tee into a marbl.Handler with these websocket subscribers
}

// writerSpec makes the recording writer fail: Write call number FailAt (0-based) returns an error, and so do
// all later calls if Persistent. Short: the failing call reports a short write (half of the frame, io.ErrShortWrite).
type writerSpec struct {
	FailAt     int  `json:"fail_at"`
	Persistent bool `json:"persistent,omitempty"`
	Short      bool `json:"short,omitempty"`
}

// subSpec is one websocket subscriber of a marbl.Handler.
type subSpec struct {
	Stall     bool `json:"stall,omitempty"`      // the client does not read until all messages have been logged and consumed
	FailAfter int  `json:"fail_after,omitempty"` // k>0: the connection breaks when the server sends its k-th message
	Late      bool `json:"late,omitempty"`       // (concurrent scenarios) connects while messages are being logged
	// round 7 (fan-out to several subscribers, see fanout.go)
	ID   string `json:"id,omitempty"`   // 16 hex digits: the subscription id is forced to this value (it fixes the subscriber's place in the handler's iteration order, which under gosim is the sorted key order)
	Room int    `json:"room,omitempty"` // k>0: no websocket client but a subscription whose queue has room for k-1 more frames and is never drained (a peer that stopped reading some time ago)
}

var (
	errBoom  = errors.New("boom: body failed")
	errClose = errors.New("close failed")
)

func content(i int) byte {
	x := uint32(i) * 2654435761
	return byte(x>>11) ^ byte(i>>3)
}

// scripted is the underlying body.
type scripted struct {
	spec    bodySpec
	off     int
	calls   int
	errDone bool
	eof     bool
}

func (s *scripted) Read(p []byte) (int, error) {
	s.calls++
	if s.eof {
		return 0, io.EOF
	}
	if s.spec.Stutter > 1 && s.calls%s.spec.Stutter == 0 {
		return 0, nil
	}
	limit, term := s.spec.Size, io.EOF
	if s.spec.ErrAt >= 0 && !s.errDone {
		limit, term = s.spec.ErrAt, errBoom
	}
	n := len(p)
	if s.spec.Chunk > 0 && n > s.spec.Chunk {
		n = s.spec.Chunk
	}
	if n > limit-s.off {
		n = limit - s.off
	}
	for i := 0; i < n; i++ {
		p[i] = content(s.off + i)
	}
	s.off += n
	if s.off == limit && (s.spec.Combined || n == 0) {
		if term == errBoom && s.spec.Transient {
			s.errDone = true
		}
		s.eof = term == io.EOF
		return n, term
	}
	return n, nil
}

func (s *scripted) Close() error {
	if s.spec.CloseErr {
		return errClose
	}
	return nil
}

type readRec struct {
	Len, N int
	Err    error
}

// recBody records what the underlying body returned; it is the body marbl wraps.
type recBody struct {
	inner  io.ReadCloser
	calls  []readRec
	data   []byte
	closes int
}

func (r *recBody) Read(p []byte) (int, error) {
	n, err := r.inner.Read(p)
	r.calls = append(r.calls, readRec{len(p), n, err})
	if n > 0 && n <= len(p) {
		r.data = append(r.data, p[:n]...)
	}
	return n, err
}

func (r *recBody) Close() error {
	r.closes++
	return r.inner.Close()
}

// recWriter is the stream's writer: it records every Write call separately.
type recWriter struct {
	writes [][]byte
	point  bool // make Write a scheduling point (a slow writer)

	fail     *writerSpec // audit: failing writer
	calls    int
	rejected int
	next     io.Writer // audit: tee (the frame is then handed to a marbl.Handler)
}

var errWriter = errors.New("writer failed")

func (w *recWriter) Write(p []byte) (int, error) {
	if w.point {
		vrt.Point("writer.Write")
	}
	k := w.calls
	w.calls++
	if f := w.fail; f != nil && (k == f.FailAt || f.Persistent && k > f.FailAt) {
		w.rejected++
		if f.Short {
			w.writes = append(w.writes, append([]byte(nil), p[:len(p)/2]...))
			return len(p) / 2, io.ErrShortWrite
		}
		return 0, errWriter
	}
	w.writes = append(w.writes, append([]byte(nil), p...))
	if w.next != nil {
		return w.next.Write(p)
	}
	return len(p), nil
}

// msgObs is everything observed about one message in one execution, plus what the statement expects.
type msgObs struct {
	spec   msgSpec
	label  string
	wireID string
	mt     byte
	pseudo []kv // expected pseudo-headers except :timestamp
	tsLo   int64
	tsHi   int64
	hdrs   []kv // expected headers (name -> ordered values)
	clOpt  bool // a "Content-Length: 0" frame is acceptable but not required

	req    *http.Request
	res    *http.Response
	under  *recBody
	logged bool
	logErr error

	wrapper  io.ReadCloser
	reads    []readRec
	got      []byte
	sawEOF   bool
	closed   bool
	closeErr error
	nreads   int
	done     bool

	errsSeen     int  // errors the consumer has seen so far
	readsPastEOF int  // reads made after the first io.EOF
	late         bool // logged after Stream.Close
	runaway      bool // the consumer gave up: reads never reached an error
	ctxSkip      bool // the message's context is marked SkipLogging
	skipped      bool // ... and it goes through the Modifier: nothing may be logged
	logPanic     string
}

type observation struct {
	rec      *recWriter
	msgs     []*msgObs
	closed   bool // Stream.Close returned (or the modifier's stream went quiescent)
	finished bool
	subs     []*wsConn // audit: websocket subscribers of the handler behind the tee
}

var baseTime = time.Unix(1700000000, 0)

// prepare builds the message and its martian context (which LogRequest/LogResponse require).
func prepare(i int, sp msgSpec, prev *msgObs, removes *[]func()) *msgObs {
	if sp.Wire > 0 {
		return prepareWire(i, sp, prev, removes)
	}
	v := hdrVariants[sp.Hdr]
	m := &msgObs{spec: sp, label: fmt.Sprintf("m%d", i)}
	var inner io.ReadCloser = &scripted{spec: sp.Body}
	if sp.Body.NoBody {
		inner = http.NoBody
	}
	m.under = &recBody{inner: inner}
	var body io.ReadCloser = m.under
	switch {
	case sp.Body.Nil:
		body = nil
	case sp.Body.NoBody && sp.Body.Real:
		body = http.NoBody
	}
	proto, rproto := v.Proto, v.RProto
	if proto == "" {
		proto = "HTTP/1.1"
	}
	if rproto == "" {
		rproto = "HTTP/1.0"
	}
	h := http.Header{}
	for _, p := range v.Pairs {
		h[p.Name] = append([]string{}, p.Values...)
		if len(p.Values) > 0 {
			m.hdrs = append(m.hdrs, p)
		}
	}
	var req *http.Request
	if sp.SameReq && prev != nil {
		req = prev.req
	} else {
		u, err := url.Parse(v.URL)
		if err != nil {
			panic(err)
		}
		req = &http.Request{Method: v.Method, URL: u, Proto: proto, ProtoMajor: 1, ProtoMinor: 1, Header: http.Header{}, Host: v.Host, RemoteAddr: v.Remote, ContentLength: -1, Body: http.NoBody}
		ctx, remove, err := martian.TestContext(req, nil, nil)
		if err != nil {
			panic(err)
		}
		*removes = append(*removes, remove)
		if sp.API {
			ctx.APIRequest()
		}
	}
	m.ctxSkip = sp.Skip
	if sp.SameReq && prev != nil && prev.ctxSkip {
		m.ctxSkip = true
	}
	m.req = req
	api := sp.API
	if sp.SameReq && prev != nil {
		api = prev.spec.API
	}
	if sp.Kind == 0 {
		m.mt = 1
		req.Header, req.ContentLength, req.TransferEncoding, req.Body = h, v.CL, v.TE, body
		m.pseudo = []kv{{":method", []string{v.Method}}, {":scheme", []string{v.Scheme}}, {":authority", []string{v.Authority}},
			{":path", []string{v.Path}}, {":query", []string{v.Query}}, {":proto", []string{proto}}, {":remote", []string{v.Remote}}}
		if v.Host != "" {
			m.hdrs = append(m.hdrs, kv{"Host", []string{v.Host}})
		}
	} else {
		m.mt = 2
		m.res = &http.Response{Status: v.StatusLine, StatusCode: v.Status, Proto: rproto, ProtoMajor: 1, ProtoMinor: 0, Header: h,
			ContentLength: v.CL, TransferEncoding: v.TE, Body: body, Request: req}
		m.pseudo = []kv{{":proto", []string{rproto}}, {":status", []string{strconv.Itoa(v.Status)}}, {":reason", []string{v.StatusLine}}}
	}
	if api {
		m.pseudo = append(m.pseudo, kv{":api", []string{"true"}})
	}
	if v.CL > 0 {
		m.hdrs = append(m.hdrs, kv{"Content-Length", []string{strconv.FormatInt(v.CL, 10)}})
	}
	m.clOpt = v.CL == 0
	if v.TE != nil {
		m.hdrs = append(m.hdrs, kv{"Transfer-Encoding", v.TE})
	}
	if sp.ID != "" {
		m.wireID = sp.ID[:8]
	} else {
		m.wireID = martian.NewContext(req).ID()[:8]
	}
	return m
}

func nowMillis() int64 { return vtime.Now().UnixNano() / 1000 / 1000 }

func logMsg(st *marbl.Stream, mod *marbl.Modifier, m *msgObs) {
	if m.spec.Skip {
		martian.NewContext(m.req).SkipLogging()
	}
	m.tsLo = nowMillis()
	switch {
	case mod != nil && m.spec.Kind == 0:
		m.logErr = mod.ModifyRequest(m.req)
	case mod != nil:
		m.logErr = mod.ModifyResponse(m.res)
	case m.spec.Kind == 0:
		m.logErr = st.LogRequest(m.spec.ID, m.req)
	default:
		m.logErr = st.LogResponse(m.spec.ID, m.res)
	}
	m.tsHi = nowMillis()
	if m.spec.Kind == 0 {
		m.wrapper = m.req.Body
	} else {
		m.wrapper = m.res.Body
	}
	m.logged = true
}

// step performs the consumer's next action on the logging wrapper.
func (m *msgObs) step(buf []byte) {
	if m.done {
		return
	}
	c := m.spec.Cons
	if m.wrapper == nil { // a nil Body is an empty body: net/http neither reads nor closes it
		m.done = true
		return
	}
	if m.nreads > 8*m.spec.Body.Size+1000 { // the body never ends (it would otherwise exhaust memory): judged as a violation
		m.runaway, m.done = true, true
		return
	}
	if c.CloseAfter >= 0 && m.nreads >= c.CloseAfter {
		m.closeErr = m.wrapper.Close()
		m.closed, m.done = true, true
		return
	}
	p := buf[:c.Bufs[m.nreads%len(c.Bufs)]]
	for i := range p {
		p[i] = 0xAA
	}
	if m.sawEOF {
		m.readsPastEOF++
	}
	n, err := m.wrapper.Read(p)
	m.nreads++
	m.reads = append(m.reads, readRec{len(p), n, err})
	if n > 0 && n <= len(p) {
		m.got = append(m.got, p[:n]...)
	}
	for i := range p { // the consumer reuses its buffer: frames must not alias it
		p[i] = 0x55
	}
	if err != nil {
		if err == io.EOF {
			m.sawEOF = true
		}
		m.errsSeen++
		if m.errsSeen > c.After {
			m.closeErr = m.wrapper.Close()
			m.closed, m.done = true, true
		}
	}
}

func maxBuf(msgs []msgSpec) int {
	mx := 1
	for _, m := range msgs {
		for _, b := range m.Cons.Bufs {
			if b > mx {
				mx = b
			}
		}
	}
	return mx
}

// execRoundTrip is the body of one part-1 execution (single thread + the stream's writer goroutine).
func execRoundTrip(c rtCase, obs *observation) {
	vtime.SetBase(baseTime)
	rec := &recWriter{fail: c.W}
	obs.rec = rec
	if len(c.Subs) > 0 {
		rec.next = connectSubscribers(c.Subs, obs)
	}
	var st *marbl.Stream
	var mod *marbl.Modifier
	if c.Via == 1 {
		mod = marbl.NewModifier(rec)
	} else {
		st = marbl.NewStream(rec)
	}
	var removes []func()
	var prev *msgObs
	for i, sp := range c.Msgs {
		m := prepare(i, sp, prev, &removes)
		m.skipped = m.ctxSkip && mod != nil
		obs.msgs = append(obs.msgs, m)
		prev = m
	}
	for i, m := range obs.msgs {
		if c.LateLog && i > 0 {
			break
		}
		logMsg(st, mod, m)
	}
	buf := make([]byte, maxBuf(c.Msgs))
	steps, streamClosed := 0, false
	for {
		if c.EarlyClose > 0 && !streamClosed && steps >= c.EarlyClose-1 {
			st.Close()
			streamClosed = true
			for i, m := range obs.msgs {
				if c.LateLog && i > 0 {
					m.late = true
					logMsg(st, mod, m)
				}
			}
		}
		active := false
		for _, m := range obs.msgs {
			if !m.done {
				m.step(buf)
				steps++
				active = true
			}
		}
		if !active {
			break
		}
	}
	switch {
	case streamClosed:
	case st != nil:
		st.Close()
	default:
		vrt.WaitQuiescent() // the modifier's stream cannot be closed: wait until its writer is idle
	}
	obs.closed = true
	if len(c.Subs) > 0 {
		releaseSubscribers(obs)
	}
	for _, r := range removes {
		r()
	}
	obs.finished = true
}

// ===================================================================================================
// oracle
// ===================================================================================================

type violSink func(symptom, desc string)

// checkObservation compares what was written and what the consumers saw with the property statement.
func checkObservation(obs *observation, add violSink) (nframes int, stateKeys []string, multiData int) {
	return checkWrites(obs, obs.rec.writes, judge{wrapper: true}, add)
}

// judge selects what is judged. The zero value plus wrapper=true is the full oracle of the statement.
type judge struct {
	wrapper bool   // judge the transparency of the logging wrapper (once per execution)
	mode    string // "": everything; "writer": the writer failed (only what survives a lossy writer is judged);
	// "closed": the stream was closed before the consumers were done (the log is a prefix)
}

// checkWrites judges one sequence of Write calls (the stream's writer, or the messages one websocket
// subscriber received).
func checkWrites(obs *observation, writes [][]byte, j judge, add violSink) (nframes int, stateKeys []string, multiData int) {
	if j.mode == "writer" {
		return checkLossy(obs, writes, add)
	}
	var frames []frame
	whole := true
	for i, w := range writes {
		f, n, err := parseFrame(w)
		if err != nil || n != len(w) {
			// not a violation by itself: the statement is about the byte stream, and a frame handed to the
			// writer in several contiguous Writes still parses; the stream is re-parsed as a whole below.
			_ = i
			whole = false
			break
		}
		frames = append(frames, f)
	}
	all := bytes.Join(writes, nil)
	if !whole {
		frames = nil
		rest := all
		for len(rest) > 0 {
			f, n, err := parseFrame(rest)
			if err != nil {
				add("stream_unparseable", fmt.Sprintf("byte stream does not parse at offset %d: %v", len(all)-len(rest), err))
				return len(frames), nil, 0
			}
			frames = append(frames, f)
			rest = rest[n:]
		}
	}
	// marbl.Reader must decode the same frames and then report a clean end of stream.
	got, last, pan, both := readAllFrames(all, len(frames)+2)
	switch {
	case pan != "":
		add("reader_panic", "marbl.Reader panicked on the stream's own output: "+pan)
	case both:
		add("reader_frame_and_error", "marbl.Reader returned a frame together with an error on the stream's own output")
	case len(got) != len(frames):
		add("reader_disagrees", fmt.Sprintf("marbl.Reader decoded %d frames (then %v), independent parser %d", len(got), last, len(frames)))
	default:
		for i := range frames {
			if !sameFrame(got[i], frames[i]) {
				add("reader_disagrees", fmt.Sprintf("frame %d: marbl.Reader %v, independent parser %v", i, got[i], frames[i]))
				break
			}
		}
		if last != io.EOF {
			add("reader_disagrees", fmt.Sprintf("marbl.Reader ended with %v instead of io.EOF after the last whole frame", last))
		}
	}
	// group per (id, type)
	type key struct {
		id string
		mt byte
	}
	groups := map[key][]frame{}
	var order []key
	for _, f := range frames {
		k := key{f.ID, f.MT}
		if _, ok := groups[k]; !ok {
			order = append(order, k)
		}
		groups[k] = append(groups[k], f)
	}
	claimed := map[key]bool{}
	for _, m := range obs.msgs {
		k := key{m.wireID, m.mt}
		claimed[k] = true
		nh, nd := checkMessage(m, groups[k], j, add)
		if nd >= 2 {
			multiData++
		}
		key := fmt.Sprintf("mt%d/h%s/d%s/eof=%v/err=%v/early=%v", m.mt, bucket(nh), bucket(nd), m.sawEOF,
			len(m.reads) > 0 && m.reads[len(m.reads)-1].Err != nil && !m.sawEOF, m.spec.Cons.CloseAfter >= 0 && m.nreads == m.spec.Cons.CloseAfter)
		if m.readsPastEOF > 0 || m.errsSeen > 1 || m.skipped || m.late || m.spec.Body.Real || m.spec.Body.Nil || j.mode != "" {
			key += fmt.Sprintf("/pastEOF=%v/errs=%s/skip=%v/late=%v/real=%v/nil=%v/%s", m.readsPastEOF > 0, bucket(m.errsSeen), m.skipped, m.late, m.spec.Body.Real, m.spec.Body.Nil, j.mode)
		}
		stateKeys = append(stateKeys, key)
	}
	for _, k := range order {
		if !claimed[k] {
			add("foreign_frames", fmt.Sprintf("%d frame(s) carry id %q type %d which is no logged message (first: %v)", len(groups[k]), k.id, k.mt, groups[k][0]))
		}
	}
	return len(frames), stateKeys, multiData
}

func bucket(n int) string {
	switch {
	case n < 4:
		return strconv.Itoa(n)
	case n < 10:
		return "4-9"
	case n < 100:
		return "10-99"
	case n < 1000:
		return "100-999"
	case n < 10000:
		return "1000-9999"
	}
	return "10000+"
}

func minInt(a, b int) int {
	if a < b {
		return a
	}
	return b
}

func checkMessage(m *msgObs, fs []frame, j judge, add violSink) (nh, nd int) {
	who := fmt.Sprintf("%s(kind=%d id=%q)", m.label, m.spec.Kind, m.wireID)
	if m.logErr != nil {
		add("log_error", fmt.Sprintf("%s: logging returned %v", who, m.logErr))
	}
	if m.skipped {
		// the context says "do not log": nothing of this message may reach the stream, the body stays as it is
		if len(fs) > 0 {
			add("skipped_message_logged", fmt.Sprintf("%s: the context is marked SkipLogging but %d frame(s) were logged (first: %v)", who, len(fs), fs[0]))
		}
		if j.wrapper {
			checkWrapper(m, who, add)
		}
		return 0, 0
	}
	// ---- headers ----
	gotVals := map[string][]string{}
	var gotNames []string
	var data []frame
	for _, f := range fs {
		if f.Type == 2 {
			data = append(data, f)
			continue
		}
		nh++
		if _, ok := gotVals[f.Name]; !ok {
			gotNames = append(gotNames, f.Name)
		}
		gotVals[f.Name] = append(gotVals[f.Name], f.Value)
	}
	if m.logged && !m.late {
		exp := map[string][]string{}
		for _, p := range m.pseudo {
			exp[p.Name] = p.Values
		}
		for _, p := range m.hdrs {
			exp[p.Name] = p.Values
		}
		for name, want := range exp {
			kind := "header"
			if strings.HasPrefix(name, ":") {
				kind = "pseudo_header"
			}
			g, ok := gotVals[name]
			switch {
			case !ok:
				add(kind+"_missing", fmt.Sprintf("%s: no frame for %q (want %q); got %s", who, clip(name), want, fmtGot(gotNames, gotVals)))
			case !equalStrings(g, want):
				add(kind+"_value_mismatch", fmt.Sprintf("%s: %q decoded as %q, message has %q", who, clip(name), clipAll(g), clipAll(want)))
			}
		}
		for _, name := range gotNames {
			if _, ok := exp[name]; ok {
				continue
			}
			switch {
			case name == ":timestamp":
				vals := gotVals[name]
				ts, err := strconv.ParseInt(vals[0], 10, 64)
				if len(vals) != 1 || err != nil || ts < m.tsLo || ts > m.tsHi {
					add("pseudo_header_value_mismatch", fmt.Sprintf("%s: :timestamp %q, want one value in [%d,%d]", who, vals, m.tsLo, m.tsHi))
				}
			case name == "Content-Length" && m.clOpt && equalStrings(gotVals[name], []string{"0"}):
			case strings.HasPrefix(name, ":"):
				add("pseudo_header_extra", fmt.Sprintf("%s: unexpected pseudo-header %q=%q", who, clip(name), clipAll(gotVals[name])))
			default:
				add("header_extra", fmt.Sprintf("%s: frame for %q=%q which the message does not have", who, clip(name), clipAll(gotVals[name])))
			}
		}
		if _, ok := gotVals[":timestamp"]; !ok {
			add("pseudo_header_missing", fmt.Sprintf("%s: no :timestamp frame", who))
		}
	}
	if j.wrapper {
		checkWrapper(m, who, add)
	}
	// ---- data frames ----
	nd = len(data)
	var cat []byte
	for i, f := range data {
		if f.Index != uint32(i) {
			add("data_index_not_contiguous", fmt.Sprintf("%s: data frame #%d in stream order carries index %d (indices: %v)", who, i, f.Index, indices(data)))
			break
		}
	}
	for i, f := range data {
		cat = append(cat, f.Data...)
		if f.Term > 1 {
			add("terminal_byte_invalid", fmt.Sprintf("%s: data frame %d has terminal byte %d", who, i, f.Term))
		}
		if f.Term == 1 && i != len(data)-1 {
			// a consumer that kept reading after io.EOF produces further frames: they can only be empty and terminal
			ok := m.readsPastEOF > 0
			for _, g := range data[i+1:] {
				if g.Term != 1 || len(g.Data) != 0 {
					ok = false
				}
			}
			if !ok {
				add("terminal_not_last", fmt.Sprintf("%s: data frame %d of %d is marked terminal", who, i, len(data)))
				break
			}
		}
	}
	lastTerm := len(data) > 0 && data[len(data)-1].Term == 1
	if j.mode == "closed" {
		// the stream was closed while the body was still being read: the logged data is a prefix of what the consumer read
		if !bytes.HasPrefix(m.got, cat) {
			add("data_bytes_mismatch", fmt.Sprintf("%s: data frames concatenate to %d bytes which are no prefix of the %d bytes the consumer read (first difference at %d)", who, len(cat), len(m.got), firstDiff(cat, m.got)))
		}
		if lastTerm && (!m.sawEOF || len(cat) != len(m.got)) {
			add("terminal_spurious", fmt.Sprintf("%s: the last data frame is terminal but the log holds %d of %d bytes (consumer saw EOF: %v)", who, len(cat), len(m.got), m.sawEOF))
		}
		return nh, nd
	}
	if !bytes.Equal(cat, m.got) {
		add("data_bytes_mismatch", fmt.Sprintf("%s: data frames concatenate to %d bytes, the consumer read %d bytes (first difference at %d; %d frames, %d reads)", who, len(cat), len(m.got), firstDiff(cat, m.got), len(data), len(m.reads)))
	}
	if m.sawEOF && !lastTerm {
		add("terminal_missing", fmt.Sprintf("%s: the body reached EOF but the last of %d data frame(s) is not terminal", who, len(data)))
	}
	// a body that is empty by construction (http.NoBody itself, nil) is at end-of-file whether or not anybody reads it
	knownEmpty := (m.spec.Body.Real && m.spec.Body.NoBody || m.spec.Body.Nil) && len(m.reads) == 0
	if !m.sawEOF && lastTerm && !knownEmpty {
		add("terminal_spurious", fmt.Sprintf("%s: the last data frame is terminal although the consumer never saw EOF (reads: %d, last err %v)", who, len(m.reads), lastErr(m.reads)))
	}
	return nh, nd
}

// checkWrapper: reading through the logging wrapper returns the same bytes and errors as the underlying body.
func checkWrapper(m *msgObs, who string, add violSink) {
	if m.runaway {
		add("wrapper_never_ends", fmt.Sprintf("%s: %d reads of a %d-byte body through the wrapper never returned an error", who, m.nreads, m.spec.Body.Size))
	}
	if m.spec.Body.Nil || m.spec.Body.Real && m.spec.Body.NoBody {
		// there is no recorder underneath: the body is empty, every read must report (0, io.EOF), Close nil
		for i, r := range m.reads {
			if r.N != 0 || r.Err != io.EOF {
				add("wrapper_result_mismatch", fmt.Sprintf("%s: read #%d of an empty body (nil / http.NoBody) returned (%d, %v)", who, i, r.N, r.Err))
				break
			}
		}
		if m.closed && m.closeErr != nil {
			add("wrapper_close_mismatch", fmt.Sprintf("%s: Close of an empty body (nil / http.NoBody) returned %v", who, m.closeErr))
		}
		return
	}
	u := m.under
	if len(u.calls) != len(m.reads) {
		add("wrapper_call_count", fmt.Sprintf("%s: consumer made %d reads, underlying body saw %d", who, len(m.reads), len(u.calls)))
	} else {
		for i := range m.reads {
			if m.reads[i].N != u.calls[i].N || m.reads[i].Err != u.calls[i].Err {
				add("wrapper_result_mismatch", fmt.Sprintf("%s: read #%d (buffer %d) returned (%d, %v), underlying body returned (%d, %v)", who, i, m.reads[i].Len, m.reads[i].N, m.reads[i].Err, u.calls[i].N, u.calls[i].Err))
				break
			}
		}
		if !bytes.Equal(m.got, u.data) {
			add("wrapper_bytes_mismatch", fmt.Sprintf("%s: consumer read %d bytes that differ from the %d bytes the underlying body produced (first difference at %d)", who, len(m.got), len(u.data), firstDiff(m.got, u.data)))
		}
	}
	if m.closed {
		var want error
		if m.spec.Body.CloseErr && !m.spec.Body.NoBody {
			want = errClose
		}
		if u.closes != 1 || m.closeErr != want {
			add("wrapper_close_mismatch", fmt.Sprintf("%s: Close returned %v and closed the underlying body %d time(s); want %v and once", who, m.closeErr, u.closes, want))
		}
	}
}

func lastErr(r []readRec) error {
	if len(r) == 0 {
		return nil
	}
	return r[len(r)-1].Err
}

func indices(d []frame) []uint32 {
	var out []uint32
	for i, f := range d {
		if i >= 12 {
			break
		}
		out = append(out, f.Index)
	}
	return out
}

func firstDiff(a, b []byte) int {
	n := minInt(len(a), len(b))
	for i := 0; i < n; i++ {
		if a[i] != b[i] {
			return i
		}
	}
	return n
}

func equalStrings(a, b []string) bool {
	if len(a) != len(b) {
		return false
	}
	for i := range a {
		if a[i] != b[i] {
			return false
		}
	}
	return true
}

func clipAll(v []string) []string {
	out := make([]string, len(v))
	for i, s := range v {
		out[i] = clip(s)
	}
	return out
}

func fmtGot(names []string, vals map[string][]string) string {
	var sb strings.Builder
	for _, n := range names {
		fmt.Fprintf(&sb, "%s=%q ", clip(n), clipAll(vals[n]))
	}
	s := sb.String()
	if len(s) > 300 {
		s = s[:300] + "..."
	}
	return s
}

// ===================================================================================================
// part 1: enumeration
// ===================================================================================================

var bufSeqs = map[string][]int{"1": {1}, "7": {7}, "4096": {4096}, "mixed": {1, 7, 4096, 3, 100}}

func errOffsets(size int) []int {
	out := []int{-1}
	seen := map[int]bool{}
	for _, e := range []int{0, 1, size / 2, size} {
		if e <= size && !seen[e] {
			seen[e] = true
			out = append(out, e)
		}
	}
	return out
}

func fullBodies(sizes []int, maxClose int) (out []struct {
	B bodySpec
	C consSpec
}) {
	for _, size := range sizes {
		for _, comb := range []bool{false, true} {
			for _, e := range errOffsets(size) {
				for _, bn := range []string{"1", "7", "4096", "mixed"} {
					if bn == "1" && size > 4096 {
						continue // 1-byte reads: small bodies only
					}
					for j := -1; j <= maxClose; j++ {
						for _, ce := range []bool{false, true} {
							out = append(out, struct {
								B bodySpec
								C consSpec
							}{bodySpec{Size: size, Combined: comb, ErrAt: e, CloseErr: ce}, consSpec{Bufs: bufSeqs[bn], CloseAfter: j}})
						}
					}
				}
			}
		}
	}
	return
}

func rtCases(tier string) []rtCase {
	var out []rtCase
	sizes := []int{0, 1, 4096, 100000}
	maxClose := 3
	if tier == "thorough" {
		sizes = []int{0, 1, 2, 4095, 4096, 4097, 100000, 1 << 20}
		maxClose = 5
	}
	// space A: every message shape x a reduced body/consumer set
	type lite struct {
		B bodySpec
		C consSpec
	}
	var lites []lite
	for _, b := range []bodySpec{{Size: 0, NoBody: true, ErrAt: -1}, {Size: 0, ErrAt: -1}, {Size: 1, ErrAt: -1}, {Size: 4096, ErrAt: -1}} {
		for _, comb := range []bool{false, true} {
			if b.NoBody && comb {
				continue
			}
			for _, j := range []int{-1, 0} {
				bb := b
				bb.Combined = comb
				lites = append(lites, lite{bb, consSpec{Bufs: bufSeqs["7"], CloseAfter: j}})
			}
		}
	}
	for kind := 0; kind < 2; kind++ {
		for via := 0; via < 3; via++ { // 0: stream with an 8-byte id, 1: stream with a 16-byte id, 2: modifier
			for _, api := range []bool{false, true} {
				for h := 0; h < nBaseHdr; h++ {
					for _, l := range lites {
						m := msgSpec{Kind: kind, API: api, Hdr: h, Body: l.B, Cons: l.C}
						c := rtCase{Space: "A"}
						switch via {
						case 0:
							m.ID = "id-00001"
						case 1:
							m.ID = "0123456789abcdef"
						case 2:
							c.Via = 1
						}
						c.Msgs = []msgSpec{m}
						out = append(out, c)
					}
				}
			}
		}
	}
	// space B: two request and two response shapes x the full body/consumer product
	for kind := 0; kind < 2; kind++ {
		for _, h := range []int{1, 4} {
			for _, bc := range fullBodies(sizes, maxClose) {
				out = append(out, rtCase{Space: "B", Msgs: []msgSpec{{Kind: kind, Hdr: h, ID: "id-00002", Body: bc.B, Cons: bc.C}}})
			}
			// http.NoBody with every consumer
			for _, bn := range []string{"1", "7", "4096", "mixed"} {
				for j := -1; j <= maxClose; j++ {
					out = append(out, rtCase{Space: "B", Msgs: []msgSpec{{Kind: kind, Hdr: h, ID: "id-00002", Body: bodySpec{NoBody: true, ErrAt: -1}, Cons: consSpec{Bufs: bufSeqs[bn], CloseAfter: j}}}})
				}
			}
		}
	}
	// space C: two messages on one stream, bodies read alternately by one consumer
	type pair struct {
		via      int
		k1, k2   int
		id1, id2 string
		same     bool
	}
	pairs := []pair{
		{0, 0, 1, "exch-001", "exch-001", false}, // request and response of one exchange (same id, different type)
		{0, 0, 0, "id-0000A", "id-0000B", false},
		{0, 1, 1, "id-0000A", "id-0000B", false},
		{0, 1, 0, "id-0000A", "id-0000B", false},
		{1, 0, 1, "", "", true}, // modifier: ModifyRequest + ModifyResponse of one exchange
		{1, 0, 0, "", "", false},
	}
	bodies := []lite{
		{bodySpec{Size: 1, ErrAt: -1}, consSpec{Bufs: bufSeqs["1"], CloseAfter: -1}},
		{bodySpec{Size: 4096, ErrAt: -1, Combined: true}, consSpec{Bufs: bufSeqs["mixed"], CloseAfter: -1}},
		{bodySpec{Size: 100, ErrAt: 50}, consSpec{Bufs: bufSeqs["7"], CloseAfter: -1}},
		{bodySpec{Size: 100, ErrAt: -1}, consSpec{Bufs: bufSeqs["7"], CloseAfter: 2}},
	}
	for _, p := range pairs {
		for _, b1 := range bodies {
			for _, b2 := range bodies {
				out = append(out, rtCase{Space: "C", Via: p.via, Msgs: []msgSpec{
					{Kind: p.k1, Hdr: 2, ID: p.id1, Body: b1.B, Cons: b1.C},
					{Kind: p.k2, Hdr: 4, ID: p.id2, SameReq: p.same, Body: b2.B, Cons: b2.C}}})
			}
		}
	}
	out = append(out, auditCases(tier)...)
	out = append(out, fanoutCases(tier)...)
	return append(out, wireCases(tier)...)
}

func (c rtCase) weight() int64 {
	var w int64 = 40
	for _, m := range c.Msgs {
		limit := m.Body.Size
		if m.Body.ErrAt >= 0 {
			limit = m.Body.ErrAt
		}
		sum := 0
		for _, b := range m.Cons.Bufs {
			sum += b
		}
		if m.Body.Chunk > 0 && sum > m.Body.Chunk*len(m.Cons.Bufs) {
			sum = m.Body.Chunk * len(m.Cons.Bufs)
		}
		if sum == 0 {
			sum = 1
		}
		reads := int64(limit*len(m.Cons.Bufs)/sum) + 2
		if m.Cons.CloseAfter >= 0 && int64(m.Cons.CloseAfter) < reads {
			reads = int64(m.Cons.CloseAfter)
		}
		w += reads*3 + int64(limit/2000)
		if m.Hdr >= hdrBig && m.Hdr <= hdrHuge {
			w += 2000
		}
	}
	if len(c.Subs) > 0 {
		// the handler starts a goroutine per frame and subscriber, and the scheduler's cost per point grows with the
		// number of threads it has seen: quadratic in the number of frames
		k := int64(len(c.Subs))
		w = w*(2+k) + (w/3)*(w/3)*k*k/160
	}
	return w
}

// assign distributes items over n bins by decreasing weight (deterministic, identical in every shard).
func assign(weights []int64, n int) []int { return assignFrom(weights, n, nil) }

// assignFrom is assign with bins that already carry a load.
func assignFrom(weights []int64, n int, initial []int64) []int {
	idx := make([]int, len(weights))
	for i := range idx {
		idx[i] = i
	}
	sort.SliceStable(idx, func(a, b int) bool { return weights[idx[a]] > weights[idx[b]] })
	load := make([]int64, n)
	copy(load, initial)
	bin := make([]int, len(weights))
	for _, i := range idx {
		best := 0
		for b := 1; b < n; b++ {
			if load[b] < load[best] {
				best = b
			}
		}
		bin[i] = best
		load[best] += weights[i]
	}
	return bin
}

type shardOut struct {
	Counters   map[string]int64
	Violations []lib.Violation
	Samples    []interface{}
	States     []string
	Incomplete string
}

func (o *shardOut) violate(sig, desc string, replay interface{}) {
	n := 0
	for _, v := range o.Violations {
		if v.Sig == sig {
			n++
		}
	}
	if n < 3 {
		o.Violations = append(o.Violations, lib.Violation{Sig: sig, Desc: desc, Replay: replay})
	} else if n < 1000 {
		o.Violations = append(o.Violations, lib.Violation{Sig: sig})
	}
}

func runRT(c rtCase) (*vrt.Result, *observation) {
	obs := &observation{}
	r := vrt.Run(vrt.Config{MaxPoints: 50000000}, nil, func() { execRoundTrip(c, obs) })
	return r, obs
}

// outcomeSym turns a failed execution into a symptom: deadlock, horizon, livelock, or panic plus a slug of
// the panic message (so that two different panics never share a signature).
func outcomeSym(r *vrt.Result) string {
	if r.Outcome != "panic" {
		return r.Outcome
	}
	msg := r.Panic
	if i := strings.IndexByte(msg, '\n'); i >= 0 {
		msg = msg[:i]
	}
	var sb strings.Builder
	for _, c := range strings.ToLower(msg) {
		switch {
		case c >= 'a' && c <= 'z':
			sb.WriteRune(c)
		case c == ' ' || c == ':' || c == '_':
			if sb.Len() > 0 && !strings.HasSuffix(sb.String(), "_") {
				sb.WriteByte('_')
			}
		}
		if sb.Len() >= 48 {
			break
		}
	}
	return "panic:" + strings.Trim(sb.String(), "_")
}

func outcomeDesc(r *vrt.Result) string {
	var sb strings.Builder
	sb.WriteString(r.Outcome)
	if r.Panic != "" {
		sb.WriteString(": " + r.Panic)
	}
	for _, t := range r.Threads {
		if !t.Done {
			fmt.Fprintf(&sb, " [t%d %s blocked on %s]", t.ID, t.Label, t.Blocked)
		}
	}
	s := sb.String()
	if len(s) > 1500 {
		s = s[:1500]
	}
	return s
}

// concUnit: one execution of a concurrent scenario costs about as much as this many round-trip weight units
// (measured; only used to balance the shards, which run their share of part 2 and then their share of part 1).
const concUnit = 150

func roundTripPart(out *shardOut, cases []rtCase, scen []concScenario, shard, nshards int) {
	weights := make([]int64, len(cases))
	for i, c := range cases {
		weights[i] = c.weight()
	}
	initial := make([]int64, nshards)
	if os.Getenv("C19_SKIP_CONC") == "" {
		cw := make([]int64, len(scen))
		for i, sc := range scen {
			cw[i] = sc.Weight
		}
		for i, b := range assign(cw, nshards) {
			initial[b] += cw[i] * concUnit
		}
	}
	bin := assignFrom(weights, nshards, initial)
	states := map[string]bool{}
	for i, c := range cases {
		if bin[i] != shard {
			continue
		}
		tc := time.Now()
		roundTripCase(out, i, c, states)
		out.Counters["rt_ms_space_"+c.Space] += time.Since(tc).Milliseconds()
		out.Counters["rt_weight_space_"+c.Space] += weights[i]
	}
	for k := range states {
		out.States = append(out.States, "rt:"+k)
	}
}

func roundTripCase(out *shardOut, i int, c rtCase, states map[string]bool) {
	{
		r, obs := runRT(c)
		out.Counters["rt_cases"]++
		out.Counters["rt_cases_space_"+c.Space]++
		out.Counters["rt_points"] += int64(r.Points)
		replay := map[string]interface{}{"part": "roundtrip", "case": c}
		cj, _ := json.Marshal(c)
		class := sigClass(c)
		add := func(sym, desc string) {
			out.violate(class+":"+sym, fmt.Sprintf("case %s: %s", cj, desc), replay)
		}
		if r.Outcome != "ok" || !obs.finished {
			add(outcomeSym(r), outcomeDesc(r))
			return
		}
		nf, keys, multi := checkCase(c, obs, add)
		out.Counters["rt_frames"] += int64(nf)
		out.Counters["rt_writes"] += int64(len(obs.rec.writes))
		for _, m := range obs.msgs {
			out.Counters["rt_reads"] += int64(len(m.reads))
		}
		if multi > 0 {
			out.Counters["rt_cases_multi_data_frames"]++
		}
		for _, k := range keys {
			states[k] = true
			if strings.HasPrefix(k, "fanout/") {
				out.Counters["fanout_subscribers:"+strings.TrimPrefix(k, "fanout/")]++
			}
			if strings.HasPrefix(k, "wire/") { // wire/<type>/<framing>/...: messages of space P judged, per type and framing
				if parts := strings.SplitN(k, "/", 4); len(parts) == 4 {
					out.Counters["wire_messages:"+parts[1]+"/"+parts[2]]++
				}
			}
			if strings.HasPrefix(k, "sub/stall=true") {
				if strings.Contains(k, "complete=true") {
					out.Counters["handler_stalled_subscribers_that_got_everything"]++
				} else {
					out.Counters["handler_stalled_subscribers_cut_off_and_disconnected"]++
				}
			}
		}
		if (i%997 == 0 || c.Space == "C" && i%29 == 0) && len(out.Samples) < 3 {
			out.Samples = append(out.Samples, map[string]interface{}{"part": "roundtrip", "case": c, "frames": nf, "state": keys})
		}
	}
}

// ===================================================================================================
// part 2: schedules
// ===================================================================================================

type concScenario struct {
	Name        string    `json:"name"`
	Msgs        []msgSpec `json:"msgs"` // one per thread
	LogInThread bool      `json:"log_in_thread"`
	WritePoint  bool      `json:"write_point"`
	Bound       int       `json:"bound"`
	Weight      int64     `json:"-"`
	Subs        []subSpec `json:"subs,omitempty"` // audit: the writer is a tee into a marbl.Handler with these subscribers
}

// readsBody returns a body/consumer pair whose consumption takes exactly r reads with a 1-byte buffer.
func readsBody(r int) (bodySpec, consSpec) {
	c := consSpec{Bufs: []int{1}, CloseAfter: -1}
	switch r {
	case 0:
		return bodySpec{Size: 1, ErrAt: -1}, consSpec{Bufs: []int{1}, CloseAfter: 0}
	case 1:
		return bodySpec{Size: 1, Combined: true, ErrAt: -1}, c
	default:
		return bodySpec{Size: r - 1, ErrAt: -1}, c
	}
}

func concScenarios(tier string) []concScenario {
	var out []concScenario
	// thread i logs / reads message i; messages 0 and 1 are the request and the response of one exchange
	// (same id, different type), message 2 is another request.
	mk := func(reads []int, hdr int) []msgSpec {
		ids := []string{"exch-001", "exch-001", "other-02"}
		kinds := []int{0, 1, 0}
		var ms []msgSpec
		for i, r := range reads {
			b, c := readsBody(r)
			ms = append(ms, msgSpec{Kind: kinds[i], Hdr: hdr, ID: ids[i], Body: b, Cons: c})
		}
		return ms
	}
	add := func(fam string, rs []int, hdr int, inThread, wp bool, bound int, weight int64) {
		ms := mk(rs, hdr)
		if fam == "F3" { // two responses of different exchanges
			for i := range ms {
				ms[i].Kind, ms[i].ID = 1, fmt.Sprintf("resp-00%d", i)
			}
		}
		out = append(out, concScenario{Name: fmt.Sprintf("%s reads=%v hdr=%d log_in_thread=%v writer_point=%v bound=%d", fam, rs, hdr, inThread, wp, bound),
			Msgs: ms, LogInThread: inThread, WritePoint: wp, Bound: bound, Weight: weight})
	}
	// F4: two threads read large bodies through the wrapper with the read sizes real consumers use (io.Copy's
	// 32 KiB buffer, a 64 KiB buffer): one data frame carries tens of kilobytes and must still reach the
	// writer as one whole frame while the other thread's frames are queued on the same channel.
	big := func(size, buf int, bound int, weight int64) {
		if v, err := strconv.Atoi(os.Getenv("C19_F4_BOUND")); err == nil { // calibration aid
			bound = v
		}
		var ms []msgSpec
		for i := 0; i < 2; i++ {
			ms = append(ms, msgSpec{Kind: i, Hdr: 0, ID: "exch-big", Body: bodySpec{Size: size, ErrAt: -1}, Cons: consSpec{Bufs: []int{buf}, CloseAfter: -1}})
		}
		out = append(out, concScenario{Name: fmt.Sprintf("F4 body=%d read_buffer=%d log_in_thread=false writer_point=false bound=%d", size, buf, bound),
			Msgs: ms, LogInThread: false, WritePoint: false, Bound: bound, Weight: weight})
	}
	// F5 (audit): the stream writes into a marbl.Handler; one websocket subscriber connects (or its connection
	// breaks) while a thread logs a message and reads its body.
	sub := func(what string, reads int, s subSpec, bound int, weight int64) {
		b, c := readsBody(reads)
		out = append(out, concScenario{Name: fmt.Sprintf("F5 %s reads=%d log_in_thread=true writer_point=false bound=%d", what, reads, bound),
			Msgs: []msgSpec{{Kind: 0, Hdr: hdrSmall0, ID: "exch-sub", Body: b, Cons: c}}, LogInThread: true, Bound: bound, Weight: weight, Subs: []subSpec{s}})
	}
	if os.Getenv("C19_CALIBRATE") == "" {
		if tier != "thorough" {
			sub("subscriber connects late", 1, subSpec{Late: true}, 2, 3600)
			sub("connection breaks at message 3", 1, subSpec{FailAfter: 3}, 2, 900)
		} else {
			sub("subscriber connects late", 2, subSpec{Late: true}, 3, 206000)
			sub("connection breaks at message 3", 2, subSpec{FailAfter: 3}, 3, 15000)
			sub("late subscriber whose connection breaks at message 2", 1, subSpec{Late: true, FailAfter: 2}, 3, 54000)
		}
	}
	if os.Getenv("C19_CALIBRATE") == "" {
		out = append(out, fanoutScenarios(tier)...)
	}
	if os.Getenv("C19_CALIBRATE") == "" {
		if tier != "thorough" {
			big(40000, 65536, 4, 3000)
			big(70000, 32768, 3, 6000)
		} else {
			// (audit: the first version asked for every interleaving of the two-read scenarios and 5 deviations of
			// the four-read ones, which never finished within the thorough deadline — more than 688 000 and 530 000
			// executions; the bounds below are the largest that complete: 100 946 and 67 524 executions)
			big(32750, 65536, 6, 101000)
			big(40000, 65536, 6, 101000)
			big(70000, 32768, 4, 70000)
			big(140000, 65536, 4, 110000)
		}
	}
	if os.Getenv("C19_CALIBRATE") != "" {
		for _, rs := range [][]int{{2, 2}, {3, 3}, {2, 2, 2}} {
			for _, b := range []int{2, 3, 4} {
				add("F1", rs, 1, false, false, b, 1)
				add("F1", rs, 1, false, true, b, 1)
			}
		}
		for _, rs := range [][]int{{2, 2}, {2, 1, 2}} {
			for _, b := range []int{2, 3} {
				add("F2", rs, 0, true, true, b, 1)
				add("F2", rs, 4, true, true, b, 1)
			}
		}
		add("F3", []int{0, 0}, 0, true, false, -1, 1)
		add("F3", []int{0, 0}, 0, true, false, 4, 1)
		return out
	}
	// F1: headers logged up front by the root thread, the threads read the bodies concurrently.
	// F2: each thread logs its whole message (pseudo-headers, headers) and then reads the body.
	// F3: two header-only responses logged concurrently.
	// weights are measured execution counts (used only to balance the shards)
	add("F1", []int{1, 1}, 1, false, false, -1, 3200)
	add("F1", []int{1, 1}, 1, false, true, -1, 17100)
	if tier != "thorough" {
		add("F1", []int{2, 1}, 1, false, false, 5, 9000)
		add("F1", []int{2, 2}, 1, false, false, 4, 5700)
		add("F1", []int{2, 2}, 1, false, true, 4, 12600)
		add("F1", []int{3, 3}, 1, false, false, 4, 20900)
		add("F1", []int{3, 3}, 1, false, true, 3, 5700)
		add("F1", []int{2, 2, 2}, 1, false, false, 3, 12700)
		add("F1", []int{2, 2, 2}, 1, false, true, 3, 23400)
		add("F2", []int{2, 2}, 0, true, true, 2, 2600)
		add("F2", []int{2, 2}, 4, true, true, 2, 6900)
		add("F2", []int{0, 3}, 4, true, true, 2, 6000)
		add("F2", []int{2, 1, 2}, 0, true, true, 2, 10400)
		add("F2", []int{2, 1, 2}, 1, true, true, 2, 15000)
		add("F3", []int{0, 0}, 0, true, false, 3, 8000)
		return out
	}
	add("F1", []int{2, 1}, 1, false, false, -1, 31500)
	add("F1", []int{2, 1}, 1, false, true, -1, 353000)
	add("F1", []int{2, 2}, 1, false, false, 8, 724000) // bound 8: unbounded it has 2.17M interleavings since senders select on the stream having stopped
	add("F1", []int{2, 2}, 1, false, true, 6, 188000)
	add("F1", []int{3, 3}, 1, false, false, 5, 108000)
	add("F1", []int{3, 3}, 1, false, true, 5, 326000)
	add("F1", []int{4, 4}, 1, false, true, 4, 133000)
	add("F1", []int{2, 2, 2}, 1, false, false, 4, 134000)
	add("F1", []int{2, 2, 2}, 1, false, true, 4, 307000)
	add("F1", []int{3, 3, 3}, 1, false, true, 3, 57000)
	add("F2", []int{2, 2}, 0, true, true, 3, 64000)
	add("F2", []int{2, 2}, 4, true, true, 3, 420000)
	add("F2", []int{0, 3}, 4, true, true, 3, 320000)
	add("F2", []int{2, 1, 2}, 0, true, true, 3, 800000)
	add("F2", []int{2, 1, 2}, 4, true, true, 2, 46000)
	add("F3", []int{0, 0}, 0, true, false, 5, 250000)
	add("F3", []int{0, 0}, 0, true, false, 4, 36000)
	return out
}

func execConc(sc concScenario, obs *observation) {
	vtime.SetBase(baseTime)
	rec := &recWriter{point: sc.WritePoint}
	obs.rec = rec
	var handler *marbl.Handler
	if len(sc.Subs) > 0 {
		handler = connectSubscribers(sc.Subs, obs)
		rec.next = handler
	}
	st := marbl.NewStream(rec)
	var removes []func()
	for i, sp := range sc.Msgs {
		obs.msgs = append(obs.msgs, prepare(i, sp, nil, &removes))
	}
	if !sc.LogInThread {
		for _, m := range obs.msgs {
			logMsg(st, nil, m)
		}
	}
	vrt.Choose(2, markerKind, true) // end of the sequential set-up phase (see exploreAfterMarker)
	var ths []*vrt.Thread
	for _, m := range obs.msgs {
		m := m
		ths = append(ths, vrt.Go(func() {
			if sc.LogInThread {
				logMsg(st, nil, m)
			}
			buf := make([]byte, maxBuf(sc.Msgs))
			for !m.done {
				m.step(buf)
			}
		}))
	}
	for _, c := range obs.subs {
		if c.spec.Late { // connects while the messages are being logged
			startSubscriber(handler, c)
		}
	}
	for _, t := range ths {
		vrt.Join(t)
	}
	st.Close()
	obs.closed = true
	if len(obs.subs) > 0 {
		releaseSubscribers(obs)
	}
	for _, r := range removes {
		r()
	}
	obs.finished = true
	// observation log: the order of frames on the wire (by message, kind and data index)
	var sb strings.Builder
	for _, w := range rec.writes {
		f, _, err := parseFrame(w)
		if err != nil {
			sb.WriteString("? ")
			continue
		}
		lbl := "?"
		for _, m := range obs.msgs {
			if m.wireID == f.ID && m.mt == f.MT {
				lbl = m.label
			}
		}
		if f.Type == 1 {
			sb.WriteString(lbl + "H ")
		} else {
			fmt.Fprintf(&sb, "%sD%d ", lbl, f.Index)
		}
	}
	for i, c := range obs.subs {
		hs := bytes.Index(c.out, []byte("\r\n\r\n"))
		n := -1
		if hs >= 0 {
			msgs, _, _ := wsMessages(c.out[hs+4:])
			n = len(msgs)
		}
		if c.q != nil {
			n = len(c.qmsgs)
		}
		fmt.Fprintf(&sb, "| sub%d got %d closed=%v ", i, n, c.closed)
	}
	vrt.Log("%s", sb.String())
}

// exploreStats mirrors the fields of vrt.Stats the check uses.
type exploreStats struct {
	Execs        int
	Points       int64
	DistinctLogs int
	MaxChoices   int
	Exhaustive   bool
	EngineError  string
}

const markerKind = "c19-concurrent-phase"

type exploreNode struct {
	base []int32 // choice sequence of the parent execution
	n    int     // number of choices kept from base
	alt  int32   // alternative taken at choice n (-1: the root execution)
	cost int     // deviation cost spent so far
}

// exploreAfterMarker is a stateless depth-first enumeration of the schedules of body (built on vrt.Run's
// prefix replay, like vrt.Explore) that only branches on choices recorded AFTER the marker choice the body
// makes when its sequential set-up phase is over. During set-up only the root thread and the stream's
// writer goroutine exist and every choice is which side of a rendezvous moves first (both orders lead to
// the same state); vrt.Explore would multiply the interesting interleavings by 2^(number of header
// frames). bound < 0: every interleaving of the concurrent phase; bound >= 0: every interleaving whose
// non-default choices in the concurrent phase cost at most bound (costs as recorded by vrt: 1 per
// scheduling deviation, 0 for rendezvous partner / select case choices). Every 200th execution is re-run
// and must reproduce its log.
func exploreAfterMarker(cfg vrt.Config, bound int, body func(), deadline time.Time, visit func(r *vrt.Result) bool) exploreStats {
	st := exploreStats{}
	logs := map[string]bool{}
	stack := []exploreNode{{alt: -1}}
	for len(stack) > 0 {
		if time.Now().After(deadline) {
			return st
		}
		nd := stack[len(stack)-1]
		stack = stack[:len(stack)-1]
		var prefix []int
		if nd.alt >= 0 {
			prefix = make([]int, nd.n+1)
			for i := 0; i < nd.n; i++ {
				prefix[i] = int(nd.base[i])
			}
			prefix[nd.n] = int(nd.alt)
		}
		r := vrt.Run(cfg, prefix, body)
		st.Execs++
		st.Points += int64(r.Points)
		if len(r.Choices) > st.MaxChoices {
			st.MaxChoices = len(r.Choices)
		}
		if r.Outcome == "divergence" {
			st.EngineError = "replay divergence: " + r.Panic
			return st
		}
		fp := r.Fingerprint()
		if !logs[fp] {
			logs[fp] = true
			st.DistinctLogs++
		}
		if st.Execs%200 == 1 {
			if r2 := vrt.Run(cfg, r.ChoiceSeq(), body); r2.Fingerprint() != fp {
				st.EngineError = fmt.Sprintf("nondeterminism: schedule %v gave %v then %v", r.ChoiceSeq(), r.Log, r2.Log)
				return st
			}
		}
		if !visit(r) {
			return st
		}
		start := len(r.Choices)
		for i, c := range r.Choices {
			if c.Kind == markerKind {
				start = i + 1
				break
			}
		}
		if start < len(prefix) {
			start = len(prefix)
		}
		base := make([]int32, len(r.Choices))
		for i, c := range r.Choices {
			base[i] = int32(c.C)
		}
		for i := len(r.Choices) - 1; i >= start; i-- {
			c := r.Choices[i]
			if bound >= 0 && nd.cost+c.Cost > bound {
				continue
			}
			for alt := c.N - 1; alt >= 1; alt-- {
				stack = append(stack, exploreNode{base: base, n: i, alt: int32(alt), cost: nd.cost + c.Cost})
			}
		}
	}
	st.Exhaustive = true
	return st
}

func concPart(out *shardOut, scen []concScenario, shard, nshards int, deadline time.Time) {
	weights := make([]int64, len(scen))
	for i, sc := range scen {
		weights[i] = sc.Weight
	}
	bin := assign(weights, nshards)
	for si, sc := range scen {
		if bin[si] != shard {
			continue
		}
		if f := os.Getenv("C19_ONLY_SCEN"); f != "" && !strings.Contains(sc.Name, f) { // development aid
			continue
		}
		sc := sc
		var obs *observation
		body := func() {
			obs = &observation{}
			execConc(sc, obs)
		}
		nviol := 0
		states := map[string]bool{}
		visit := func(r *vrt.Result) bool {
			replay := map[string]interface{}{"part": "conc", "scenario": sc, "schedule": r.ChoiceSeq()}
			add := func(sym, desc string) {
				nviol++
				out.violate("conc:"+sym, fmt.Sprintf("scenario %q schedule %v: %s (wire order: %v)", sc.Name, r.ChoiceSeq(), desc, r.Log), replay)
			}
			if r.Outcome != "ok" || obs == nil || !obs.finished {
				add(outcomeSym(r), outcomeDesc(r))
				return nviol < 20
			}
			nf, keys, _ := checkObservation(obs, add)
			if len(obs.subs) > 0 {
				class := "conc_handler:"
				if fanoutCase(obs) {
					class = "conc_handler_fanout:"
				}
				keys = append(keys, checkSubscribers(obs, func(sym, desc string) {
					nviol++
					out.violate(class+sym, fmt.Sprintf("scenario %q schedule %v: %s (wire order: %v)", sc.Name, r.ChoiceSeq(), desc, r.Log), replay)
				})...)
			}
			out.Counters["conc_frames"] += int64(nf)
			for _, k := range keys {
				states[k] = true
			}
			return nviol < 20
		}
		cfg := vrt.Config{MaxPoints: 100000}
		tsc := time.Now()
		st := exploreAfterMarker(cfg, sc.Bound, body, deadline, visit)
		if st.EngineError != "" {
			fmt.Fprintln(os.Stderr, "ENGINE ERROR:", st.EngineError)
			os.Exit(2)
		}
		out.Counters["conc_scenarios"]++
		out.Counters["conc_executions"] += int64(st.Execs)
		out.Counters["conc_points"] += st.Points
		out.Counters["conc_distinct_wire_orders"] += int64(st.DistinctLogs)
		if sc.Bound < 0 {
			out.Counters["conc_scenarios_unbounded"]++
			out.Counters["conc_executions_unbounded"] += int64(st.Execs)
		}
		if !st.Exhaustive {
			out.Incomplete = fmt.Sprintf("concurrent scenario %q stopped early (deadline or violation cap) after %d executions", sc.Name, st.Execs)
		}
		out.Samples = append(out.Samples, map[string]interface{}{"part": "conc", "scenario": sc.Name, "bound": sc.Bound, "interleavings": st.Execs,
			"distinct_wire_orders": st.DistinctLogs, "max_choices": st.MaxChoices, "exhaustive_within_bound": st.Exhaustive, "seconds": time.Since(tsc).Seconds()})
		for k := range states {
			out.States = append(out.States, "conc:"+k)
		}
	}
}

// ===================================================================================================
// part 3: reader robustness
// ===================================================================================================

type rdCase struct {
	Class string
	Input []byte
	Note  string
	// audit: the input is srcBase[:Cut] delivered by source Mode
	Base bool
	Cut  int
	Mode string
}

var lenSet = []uint32{0, 1, 2, 1<<31 - 1, 1 << 31, 1<<32 - 2, 1<<32 - 1}

func put32(b []byte, v uint32) []byte {
	return append(b, byte(v>>24), byte(v>>16), byte(v>>8), byte(v))
}

func hdrFrame(mt byte, id string, nl, vl uint32, tail []byte) []byte {
	b := append([]byte{1, mt}, id[:8]...)
	b = put32(b, nl)
	b = put32(b, vl)
	return append(b, tail...)
}

func dataFrame(mt byte, id string, idx uint32, term byte, dl uint32, tail []byte) []byte {
	b := append([]byte{2, mt}, id[:8]...)
	b = put32(b, idx)
	b = append(b, term)
	b = put32(b, dl)
	return append(b, tail...)
}

func filler(n uint64, max int) []byte {
	if n > uint64(max) {
		n = uint64(max)
	}
	b := make([]byte, n)
	for i := range b {
		b[i] = 'a' + byte(i)
	}
	return b
}

func rdCases(tier string) []rdCase {
	var out []rdCase
	tailMax := 3
	mts := []byte{1}
	if tier == "thorough" {
		tailMax = 9
		mts = []byte{1, 2}
	}
	trailer := dataFrame(2, "trailer0", 7, 1, 1, []byte{'z'})
	prefixes := [][]byte{nil, hdrFrame(1, "prefix00", 1, 1, []byte("ab")), dataFrame(1, "prefix00", 0, 0, 1, []byte{'x'})}
	emit := func(class, note string, fr []byte, complete bool) {
		for pi, pre := range prefixes {
			full := append(append([]byte{}, pre...), fr...)
			if complete {
				full = append(full, trailer...)
			}
			for cut := len(pre); cut <= len(full); cut++ {
				if cut == len(pre) && pi > 0 {
					continue
				}
				out = append(out, rdCase{Class: class, Input: full[:cut], Note: fmt.Sprintf("%s prefix=%d cut=%d/%d", note, pi, cut, len(full))})
			}
		}
	}
	for _, mt := range mts {
		for _, nl := range lenSet {
			for _, vl := range lenSet {
				sum := uint64(nl) + uint64(vl)
				class := "header_small"
				switch {
				case sum >= 1<<32:
					class = "header_lengths_wrap"
				case sum >= 1<<31-1:
					class = "header_length_huge"
				}
				tail := filler(sum, tailMax)
				emit(class, fmt.Sprintf("header mt=%d nl=%d vl=%d", mt, nl, vl), hdrFrame(mt, "readerid", nl, vl, tail), uint64(len(tail)) == sum)
			}
		}
		for _, dl := range lenSet {
			for _, idx := range []uint32{0, 1, 1<<32 - 1} {
				for _, term := range []byte{0, 1, 2} {
					class := "data_small"
					if dl >= 1<<31-1 {
						class = "data_length_huge"
					}
					tail := filler(uint64(dl), tailMax)
					emit(class, fmt.Sprintf("data mt=%d idx=%d term=%d dl=%d", mt, idx, term, dl), dataFrame(mt, "readerid", idx, term, dl, tail), uint64(len(tail)) == uint64(dl))
				}
			}
		}
	}
	for _, ft := range []byte{0, 3, 255} {
		fr := append([]byte{ft, 1}, "readerid"...)
		fr = append(fr, 0, 0, 0, 1, 0, 0, 0, 1, 'a', 'b')
		emit("unknown_type", fmt.Sprintf("frame type %d", ft), fr, false)
	}
	// all short strings over a 6-byte alphabet
	alpha := []byte{0x00, 0x01, 0x02, 0x7f, 0x80, 0xff}
	maxLen := 3
	if tier == "thorough" {
		maxLen = 5
	}
	lib.Sequences(len(alpha), maxLen, func(seq []int) {
		b := make([]byte, len(seq))
		for i, s := range seq {
			b[i] = alpha[s]
		}
		out = append(out, rdCase{Class: "short_string", Input: b, Note: fmt.Sprintf("string %x", b)})
	})
	return out
}

type rdResult struct {
	Sym    string `json:"sym,omitempty"`
	Desc   string `json:"desc,omitempty"`
	Frames int    `json:"frames"`
	Errs   string `json:"err,omitempty"`
	Alloc  uint64 `json:"alloc,omitempty"`
}

func heapAllocs() uint64 {
	s := []metrics.Sample{{Name: "/gc/heap/allocs:bytes"}}
	metrics.Read(s)
	if s[0].Value.Kind() == metrics.KindUint64 {
		return s[0].Value.Uint64()
	}
	return 0
}

const allocLimit = 64 << 20

// runReaderCase feeds one input to marbl.Reader and compares with the independent parser.
func runReaderCase(c rdCase) (res rdResult) {
	var want []frame
	rest := c.Input
	for {
		f, n, err := parseFrame(rest)
		if err != nil {
			break
		}
		want = append(want, f)
		rest = rest[n:]
	}
	before := heapAllocs()
	got, last, pan, both := readAllFramesFrom(sourceFor(c.Mode, c.Input), len(want)+3)
	res.Alloc = heapAllocs() - before
	res.Frames = len(got)
	if last != nil {
		res.Errs = last.Error()
	}
	switch {
	case pan != "":
		res.Sym, res.Desc = "panic", "ReadFrame panicked: "+pan
	case res.Alloc > allocLimit+uint64(len(c.Input)):
		res.Sym, res.Desc = "alloc_gigabytes", fmt.Sprintf("ReadFrame allocated %d bytes for a %d-byte input", res.Alloc, len(c.Input))
	case both:
		res.Sym, res.Desc = "frame_and_error", "ReadFrame returned a frame together with an error"
	case last == nil:
		res.Sym, res.Desc = "no_error", fmt.Sprintf("ReadFrame returned %d frames without ever reporting an error (the input holds %d whole frames)", len(got), len(want))
	case len(got) != len(want):
		res.Sym, res.Desc = "wrong_frames", fmt.Sprintf("ReadFrame decoded %d frames then %v; the input holds %d whole frames", len(got), last, len(want))
	default:
		for i := range want {
			if !sameFrame(got[i], want[i]) {
				res.Sym, res.Desc = "wrong_frames", fmt.Sprintf("frame %d decoded as %v, independent parser %v", i, got[i], want[i])
				break
			}
		}
	}
	return res
}

// capAddressSpace limits the worker's address space to its current size plus 1 GiB, so that an attempt to
// allocate gigabytes kills the worker (which the parent attributes to the input being processed).
func capAddressSpace() bool {
	b, err := os.ReadFile("/proc/self/statm")
	if err != nil {
		return false
	}
	f := strings.Fields(string(b))
	pages, err := strconv.ParseUint(f[0], 10, 64)
	if err != nil {
		return false
	}
	lim := pages*uint64(os.Getpagesize()) + 1<<30
	return syscall.Setrlimit(syscall.RLIMIT_AS, &syscall.Rlimit{Cur: lim, Max: lim}) == nil
}

// readerWorker processes the cases the parent sends on stdin ("<index> <hex input>" per line) and answers
// "R <index> <json>" per case; if it dies, the parent attributes the death to the first unanswered case.
func readerWorker() {
	capped := capAddressSpace()
	bw := bufio.NewWriter(os.Stdout)
	fmt.Fprintf(bw, "C %v\n", capped)
	bw.Flush()
	sc := bufio.NewScanner(os.Stdin)
	sc.Buffer(make([]byte, 1<<16), 1<<16)
	for sc.Scan() {
		parts := strings.SplitN(sc.Text(), " ", 3)
		var in []byte
		mode := ""
		if strings.HasPrefix(parts[1], "@") { // "@<cut> <mode>": srcBase[:cut] delivered by a source of that kind
			cut, err := strconv.Atoi(parts[1][1:])
			if err != nil || cut > len(srcBase) || len(parts) < 3 {
				os.Exit(3)
			}
			in, mode = srcBase[:cut], parts[2]
		} else {
			var err error
			if in, err = hex.DecodeString(parts[1]); err != nil {
				os.Exit(3)
			}
		}
		res := runReaderCase(rdCase{Input: in, Mode: mode})
		j, _ := json.Marshal(res)
		fmt.Fprintf(bw, "R %s %s\n", parts[0], j)
		bw.Flush()
	}
}

type rdStats struct {
	cases, crashes, frames, huge, errored int64
	uncapped                              bool
	classes                               map[string]int64
	states                                map[string]bool
}

func readerPart(rep *lib.Report, tier string, nworkers int) rdStats {
	cases := append(rdCases(tier), rdSourceCases(tier)...)
	results := make([]*rdResult, len(cases))
	var mu sync.Mutex
	st := rdStats{classes: map[string]int64{}, states: map[string]bool{}}
	var wg sync.WaitGroup
	for w := 0; w < nworkers; w++ {
		wg.Add(1)
		go func(w int) {
			defer wg.Done()
			var mine []int
			for i := range cases {
				if i%nworkers == w {
					mine = append(mine, i)
				}
			}
			for len(mine) > 0 {
				cmd := exec.Command(os.Args[0], tier)
				cmd.Env = append(os.Environ(), "C19_READER_WORKER=1", "GOMAXPROCS=1", "GOTRACEBACK=none")
				var stderr bytes.Buffer
				cmd.Stderr = &stderr
				var input bytes.Buffer
				for _, i := range mine {
					if cases[i].Base {
						fmt.Fprintf(&input, "%d @%d %s\n", i, cases[i].Cut, cases[i].Mode)
					} else {
						fmt.Fprintf(&input, "%d %s\n", i, hex.EncodeToString(cases[i].Input))
					}
				}
				cmd.Stdin = &input
				pipe, err := cmd.StdoutPipe()
				if err != nil || cmd.Start() != nil {
					fmt.Fprintln(os.Stderr, "cannot start reader worker:", err)
					os.Exit(2)
				}
				timer := time.AfterFunc(120*time.Second, func() { cmd.Process.Kill() })
				sc := bufio.NewScanner(pipe)
				sc.Buffer(make([]byte, 1<<20), 1<<20)
				done := 0
				for sc.Scan() {
					line := sc.Text()
					switch {
					case strings.HasPrefix(line, "C "):
						if line != "C true" {
							mu.Lock()
							st.uncapped = true
							mu.Unlock()
						}
					case strings.HasPrefix(line, "R "):
						parts := strings.SplitN(line, " ", 3)
						i, _ := strconv.Atoi(parts[1])
						if done >= len(mine) || i != mine[done] {
							fmt.Fprintf(os.Stderr, "reader worker %d answered case %d out of order\n", w, i)
							os.Exit(2)
						}
						var r rdResult
						json.Unmarshal([]byte(parts[2]), &r)
						results[i] = &r
						done++
					}
				}
				werr := cmd.Wait()
				killed := !timer.Stop()
				mine = mine[done:]
				if werr == nil && len(mine) == 0 {
					return
				}
				if len(mine) == 0 || werr == nil {
					fmt.Fprintf(os.Stderr, "reader worker %d failed outside a case: %v\n%s\n", w, werr, stderr.String())
					os.Exit(2)
				}
				es := stderr.String()
				r := &rdResult{}
				switch {
				case killed:
					r.Sym, r.Desc = "hang", "ReadFrame did not return (worker killed after 120 s)"
				case strings.Contains(es, "out of memory") || strings.Contains(es, "cannot allocate memory"):
					r.Sym, r.Desc = "alloc_gigabytes", "ReadFrame tried to allocate more than 1 GiB and the capped worker died: "+firstLines(es, 2)
				default:
					r.Sym, r.Desc = "crash", fmt.Sprintf("worker died (%v): %s", werr, firstLines(es, 6))
				}
				results[mine[0]] = r
				mine = mine[1:]
				mu.Lock()
				st.crashes++
				mu.Unlock()
			}
		}(w)
	}
	wg.Wait()
	for i, c := range cases {
		r := results[i]
		if r == nil {
			fmt.Fprintf(os.Stderr, "reader case %d has no result\n", i)
			os.Exit(2)
		}
		st.cases++
		st.frames += int64(r.Frames)
		st.classes[c.Class]++
		if c.Class == "header_lengths_wrap" || c.Class == "header_length_huge" || c.Class == "data_length_huge" {
			st.huge++
		}
		if r.Errs != "" {
			st.errored++
		}
		st.states["rd:"+c.Class+"/frames="+strconv.Itoa(r.Frames)+"/"+r.Sym+"/"+r.Errs] = true
		if r.Sym != "" && c.Base {
			rep.Violate("reader:"+c.Class+":"+r.Sym, fmt.Sprintf("%s: %s", c.Note, r.Desc),
				map[string]interface{}{"part": "reader", "base_cut": c.Cut, "mode": c.Mode, "note": c.Note})
		} else if r.Sym != "" {
			rep.Violate("reader:"+c.Class+":"+r.Sym, fmt.Sprintf("input %x (%s): %s", c.Input, c.Note, r.Desc),
				map[string]interface{}{"part": "reader", "input_hex": hex.EncodeToString(c.Input), "note": c.Note})
		}
		if i%4001 == 17 {
			rep.Sample(12, map[string]interface{}{"part": "reader", "input_hex": hex.EncodeToString(c.Input), "note": c.Note, "frames": r.Frames, "error": r.Errs, "symptom": r.Sym})
		}
	}
	return st
}

func firstLines(s string, n int) string {
	lines := strings.Split(strings.TrimSpace(s), "\n")
	if len(lines) > n {
		lines = lines[:n]
	}
	return strings.Join(lines, " | ")
}

// ===================================================================================================
// main
// ===================================================================================================

func main() {
	tier := lib.Tier()
	buildWireMsgs(tier) // the pool msgSpec.Wire indexes (also needed by replay)
	if os.Getenv("VERIF_REPLAY") != "" {
		replay(os.Getenv("VERIF_REPLAY"))
		return
	}
	if os.Getenv("C19_READER_WORKER") != "" {
		readerWorker()
		return
	}
	cases := rtCases(tier)
	scen := concScenarios(tier)
	if i, n := lib.ShardEnv(); n > 0 {
		out := &shardOut{Counters: map[string]int64{}}
		if os.Getenv("C19_PROCS") == "" {
			runtime.GOMAXPROCS(1) // baton passing between goroutines is much cheaper on one P
		}
		debug.SetGCPercent(400)
		t0 := time.Now()
		dl := time.Now().Add(40 * time.Second)
		if v, err := strconv.Atoi(os.Getenv("C19_CONC_DEADLINE")); err == nil {
			dl = time.Now().Add(time.Duration(v) * time.Second)
		}
		if tier == "thorough" {
			dl = time.Now().Add(9 * time.Minute)
		}
		if os.Getenv("C19_SKIP_CONC") == "" {
			concPart(out, scen, i, n, dl)
		}
		t1 := time.Now()
		if os.Getenv("C19_SKIP_RT") == "" {
			roundTripPart(out, cases, scen, i, n)
		}
		for k, v := range fanoutStats {
			out.Counters[k] += v
		}
		out.Counters["conc_ms_sum"] = t1.Sub(t0).Milliseconds()
		out.Counters["rt_ms_sum"] = time.Since(t1).Milliseconds()
		b, _ := json.Marshal(out)
		os.WriteFile(os.Getenv("VERIF_SHARD_OUT"), b, 0o644)
		return
	}
	rep := lib.NewReport("C19", "model_checking")
	// part 3 first (short), then parts 1 and 2 in 16 shard processes
	// part 3 runs in worker subprocesses of its own, concurrently with the 16 shard processes of parts 1 and 2
	tr := time.Now()
	var rd rdStats
	var rdWall float64
	rdDone := make(chan struct{})
	go func() {
		rd = readerPart(rep, tier, 16)
		rdWall = time.Since(tr).Seconds()
		close(rdDone)
	}()
	if os.Getenv("C19_ONLY_READER") != "" {
		<-rdDone
		fmt.Println("reader part:", time.Since(tr), "deaths:", rd.crashes)
		rep.Finish()
	}
	files, errs, outs := lib.RunShards(16, lib.Root+"/.build/c19/shards")
	shardsWall := time.Since(tr).Seconds()
	<-rdDone
	rep.Coverage["shards_wall_s"] = shardsWall
	rep.Coverage["reader_part_wall_s"] = rdWall
	states := map[string]bool{}
	for k := range rd.states {
		states[k] = true
	}
	for i, f := range files {
		if errs[i] != nil {
			fmt.Fprintf(os.Stderr, "shard %d failed: %v\n%s\n", i, errs[i], outs[i])
			os.Exit(2)
		}
		var so shardOut
		b, _ := os.ReadFile(f)
		if err := json.Unmarshal(b, &so); err != nil {
			fmt.Fprintf(os.Stderr, "shard %d: bad output: %v\n", i, err)
			os.Exit(2)
		}
		for k, v := range so.Counters {
			rep.Count(k, v)
		}
		for _, v := range so.Violations {
			rep.Violate(v.Sig, v.Desc, v.Replay)
		}
		for _, s := range so.Samples {
			rep.Sample(40, s)
		}
		for _, s := range so.States {
			states[s] = true
		}
		if so.Incomplete != "" {
			rep.Incomplete = so.Incomplete
		}
	}
	rep.Count("reader_inputs", rd.cases)
	rep.Count("reader_inputs_huge_or_wrapping_length", rd.huge)
	rep.Count("reader_frames_decoded", rd.frames)
	rep.Count("reader_inputs_ending_in_error", rd.errored)
	rep.Count("reader_worker_deaths", rd.crashes)
	rep.Coverage["reader_input_classes"] = rd.classes
	if int64(len(cases)) != rep.Counter("rt_cases") {
		rep.Incomplete = fmt.Sprintf("only %d of %d round-trip cases were executed", rep.Counter("rt_cases"), len(cases))
	}
	for _, k := range []string{"fanout_harness_cannot_register_queue", "fanout_harness_ids_not_verifiable", "fanout_harness_forced_id_not_taken"} {
		if rep.Counter(k) > 0 {
			rep.Incomplete = fmt.Sprintf("fan-out families: %s in %d executions (the handler's subscription table or id source is not what the harness expects): the visiting order was not under control", k, rep.Counter(k))
		}
	}
	rep.Coverage["fanout_visiting_order"] = "Handler.Write visits Handler.subs in map iteration order; in the gosim build every `range` over a map is rewritten to sorted key order, and the subscription ids (the keys) are forced through crypto/rand.Reader / chosen by the harness and verified after connecting (counter fanout_executions_with_verified_visiting_order): every arrangement of the roles in visiting order is enumerated, nothing depends on the runtime's random order and nothing is repeated"
	rep.Coverage["states"] = len(states)
	rep.Coverage["transitions"] = rep.Counter("rt_points") + rep.Counter("conc_points") + rd.cases
	rep.Coverage["traces_validated_against_impl"] = rep.Counter("rt_cases") + rep.Counter("conc_executions") + rd.cases
	rep.Coverage["evaluations"] = rep.Counter("rt_cases") + rep.Counter("conc_executions") + rd.cases
	rep.Coverage["executions"] = rep.Counter("conc_executions")
	rep.Coverage["distinct_nontrivial"] = rep.Counter("rt_cases_multi_data_frames") + rep.Counter("conc_distinct_wire_orders") + rd.huge
	rep.Coverage["rule"] = "part 1: cartesian spaces A (96 message shapes x 14 body/consumer configs), B (4 shapes x full product of body size x EOF style x error offset x read-buffer sequence x early close x close error) and C (6 message pairs x 4x4 bodies) enumerated in full, plus the audit spaces D (length and index fields beyond 16 bits), E (short / no-progress / transient-error bodies x zero-length buffers x consumers that read on after an error), N (http.NoBody itself, nil bodies), S (Modifier x SkipLogging), A2 (further message shapes), W (failing writer: call number x once/persistent x error/short write), X (Stream.Close after k consumer steps, logging after Close), H (marbl.Handler behind the stream: subscriber sets x message pairs; a stalled subscriber around the 16384-frame buffer) and M (fan-out: 2..3 (thorough 4) subscribers x every arrangement of {keeps up, stalled} in the handler's visiting order x the stalled queue's room 0..33 frames (one stalled: all; two: 6x6, thorough n=3: all pairs) x connecting order x Stream/Modifier), non-trivial = the message produced >= 2 data frames; " +
		"part 2: every interleaving (or every interleaving within the deviation bound) of each scenario, non-trivial = distinct orders of frames on the wire; " +
		"part 3: frame grammar x length set x every truncation offset x 3 prefixes + all short strings + a 13 KB stream whose frames straddle bufio's 4096-byte buffer x truncation offsets x 5 kinds of source (bytes.Reader, one byte per Read, data together with EOF, half reads, a non-EOF error), non-trivial = a length field (or their sum) >= 2^31-1"
	rep.Coverage["exhaustive"] = rep.Incomplete == ""
	var scenNames []string
	for _, sc := range scen {
		scenNames = append(scenNames, sc.Name)
	}
	rep.Coverage["bounds"] = fmt.Sprintf("part 1: %d cases (body sizes up to %d bytes, buffers {1,7,4096,mixed}, early close after <= %d reads); part 2: %d scenarios (bound=-1: every interleaving of the concurrent phase, bound=k: every interleaving with at most k scheduling deviations in the concurrent phase): %s; part 3: %d inputs",
		len(cases), maxBodySize(cases), maxCloseOf(cases), len(scen), strings.Join(scenNames, " | "), rd.cases)
	rep.Assumptions = []string{
		"every logged request (and every response's request) has a martian context, as in the proxy and in marbl's own tests; LogRequest/LogResponse dereference it",
		"the wire id of a message is the first 8 bytes of the id handed to the stream (the frame format has an 8-byte id field; the Modifier passes 16-character context ids); ids shorter than 8 bytes and distinct ids sharing an 8-byte prefix are outside the enumerated space",
		"the pseudo-header vocabulary is marbl's (:method :scheme :authority :path :query :proto :remote :timestamp [:api] / :proto :status :reason :timestamp [:api]); :reason carries Response.Status; Content-Length: 0 may or may not be logged",
		"one consumer per body (no concurrent Reads of one body); a failing writer is judged on liveness, wrapper transparency and whole accepted frames only (what a lossy writer drops is not the stream's fault); after Stream.Close the log is a prefix",
		"fan-out families M/F6: a subscriber that stalled with room for r more frames is a queue of capacity r that nobody drains, put into Handler.subs directly (subscribe is unexported; Write uses a queue only through a non-blocking send); subscribers that keep up are real websocket clients; the thorough tier also runs a real stalled websocket client (16384-frame queue) next to one that keeps up in both visiting orders",
		"marbl.Handler is driven through its public ServeHTTP with hijacked in-memory connections (x/net/websocket runs unmodified on them); a subscriber is 'there from the start' once its handler goroutine waits for frames; one subscriber in the explored F5 scenarios; the F6 scenarios have two with forced ids",
		"gosim: scheduling points are channel operations, atomics, locks and (where stated) the writer's Write; map iteration in rewritten martian code is in sorted key order; virtual clock",
		"part 3 runs the unmodified reader code natively (it has no concurrency); an attempt to allocate > 1 GiB is detected by an address-space cap on the worker process" + map[bool]string{true: " (cap could not be installed in this run: detection falls back to measured allocation > 64 MiB)", false: ""}[rd.uncapped],
	}
	// auxiliary race pass: the same kind of thread bodies free-running on the unrewritten tree under -race
	raceIters := "30"
	if lib.Tier() == "thorough" {
		raceIters = "300"
	}
	rep.ReportRaces(lib.RacePass("c19", "racebodies", "c19", raceIters))
	rep.Finish()
}

func maxBodySize(cs []rtCase) int {
	mx := 0
	for _, c := range cs {
		for _, m := range c.Msgs {
			if m.Body.Size > mx {
				mx = m.Body.Size
			}
		}
	}
	return mx
}

func maxCloseOf(cs []rtCase) int {
	mx := 0
	for _, c := range cs {
		for _, m := range c.Msgs {
			if m.Cons.CloseAfter > mx {
				mx = m.Cons.CloseAfter
			}
		}
	}
	return mx
}

func replay(path string) {
	b, err := os.ReadFile(path)
	if err != nil {
		fmt.Println(err)
		os.Exit(2)
	}
	var rp struct {
		Sig   string
		First struct {
			Replay struct {
				Part     string
				Case     rtCase
				Scenario concScenario
				Schedule []int
				InputHex string `json:"input_hex"`
				BaseCut  *int   `json:"base_cut"`
				Mode     string `json:"mode"`
			}
		}
	}
	if err := json.Unmarshal(b, &rp); err != nil {
		fmt.Println(err)
		os.Exit(2)
	}
	r := rp.First.Replay
	found := 0
	class := r.Part
	if r.Part == "roundtrip" {
		class = sigClass(r.Case)
	}
	add := func(sym, desc string) {
		found++
		fmt.Printf("  %s:%s: %s\n", class, sym, desc)
	}
	fmt.Printf("replaying %s (%s)\n", rp.Sig, r.Part)
	switch r.Part {
	case "roundtrip":
		res, obs := runRT(r.Case)
		if res.Outcome != "ok" || !obs.finished {
			add(outcomeSym(res), outcomeDesc(res))
		} else {
			checkCase(r.Case, obs, add)
		}
	case "conc":
		obs := &observation{}
		res := vrt.Run(vrt.Config{MaxPoints: 100000, Trace: true}, r.Schedule, func() { execConc(r.Scenario, obs) })
		for _, l := range res.Trace {
			fmt.Println("   ", l)
		}
		fmt.Println("  wire order:", res.Log)
		if res.Outcome != "ok" || !obs.finished {
			add(outcomeSym(res), outcomeDesc(res))
		} else {
			checkObservation(obs, add)
			if len(obs.subs) > 0 {
				checkSubscribers(obs, add)
			}
		}
	case "reader":
		in, _ := hex.DecodeString(r.InputHex)
		if r.BaseCut != nil {
			in = srcBase[:*r.BaseCut]
		}
		capAddressSpace()
		res := runReaderCase(rdCase{Input: in, Mode: r.Mode})
		if res.Sym != "" {
			add(res.Sym, res.Desc)
		}
	}
	if found > 0 {
		os.Exit(1)
	}
	fmt.Println("  no violation")
}
