// Round 7: fan-out of the stream to SEVERAL subscribers of a marbl.Handler, some of which stall.
//
// What the statement demands of the writer the proxy really uses: every subscriber that keeps up receives the
// complete stream (so that it decodes, per message id and type, to the logged messages), whatever happens to the
// other subscribers; a subscriber that fell behind receives a whole-frame prefix and is then disconnected, never
// a stream that continues after a hole.
//
// Dimensions (family M of part 1, family F6 of part 2):
//
//	number of subscribers        2, 3 (thorough: 4)
//	role of each                 keeps up (a real websocket client through ServeHTTP) / stalled with room for
//	                             r more frames, r = 0 .. more than the stream has (the overflow then happens at
//	                             every frame of the stream: pseudo-header, header, data, terminal data frame)
//	position in the fan-out      every arrangement of the roles in the order in which Handler.Write visits the
//	                             subscribers. That order is the iteration order of Handler.subs. In the gosim
//	                             build the rewriter turns `range map` into an iteration in sorted key order
//	                             (vrt.SortedKeys), so the order is owned by the harness as soon as it owns the
//	                             keys: the subscription ids are forced (crypto/rand.Reader is scripted while a
//	                             subscriber connects; newID reads 8 bytes from it) and verified afterwards.
//	                             Nothing is left to the runtime's random iteration order, nothing is repeated.
//	order of connecting          the same as / the reverse of the visiting order
//	two stalled subscribers      overflowing at the same frame or at different frames
//
// A stalled subscriber whose 16384-frame queue must first be filled costs 9 s of CPU (quadratic in the number
// of goroutines the handler starts), so the enumerated family represents "a subscriber whose queue has room
// for r more frames" by a queue of capacity r that nobody drains, registered in Handler.subs directly
// (subscribe is unexported; the handler's behaviour depends on a queue only through "is there room"). The
// thorough tier adds the real thing: a websocket client that stops reading, 16377 data frames, in both
// visiting orders.
package main

import (
	"bytes"
	"crypto/rand"
	"encoding/hex"
	"fmt"
	"io"
	"reflect"
	"sort"
	"strings"
	"unsafe"

	"github.com/google/martian/v3/marbl"
	"github.com/google/martian/v3/zzverif/vrt"
)

// fanoutStats are harness self-checks, summed into the shard's counters.
var fanoutStats = map[string]int64{}

// scriptedRand serves the bytes of a forced id, then falls back to the real source.
type scriptedRand struct {
	b    []byte
	next io.Reader
}

func (s *scriptedRand) Read(p []byte) (int, error) {
	if len(s.b) > 0 {
		n := copy(p, s.b)
		s.b = s.b[n:]
		return n, nil
	}
	return s.next.Read(p)
}

// forceNextID makes the next subscription id the handler draws equal to id (16 hex digits).
func forceNextID(id string) (restore func()) {
	raw, err := hex.DecodeString(id)
	if err != nil || len(raw) != 8 {
		panic("c19 harness: subscriber id must be 16 hex digits: " + id)
	}
	old := rand.Reader
	rand.Reader = &scriptedRand{b: raw, next: old}
	return func() { rand.Reader = old }
}

// subsMap returns the handler's subscription table (nil if the field is not what this harness expects).
func subsMap(h *marbl.Handler) *map[string]*vrt.Chan[[]byte] {
	f := reflect.ValueOf(h).Elem().FieldByName("subs")
	if !f.IsValid() || f.Type() != reflect.TypeOf(map[string]*vrt.Chan[[]byte]{}) {
		return nil
	}
	return (*map[string]*vrt.Chan[[]byte])(unsafe.Pointer(f.UnsafeAddr()))
}

// subscribeQueue registers a subscription whose queue has room for spec.Room-1 frames and is not drained.
// (No other thread runs between two scheduling points, and no subscriber thread is inside the handler here.)
func subscribeQueue(h *marbl.Handler, c *wsConn) {
	m := subsMap(h)
	if m == nil || *m == nil {
		fanoutStats["fanout_harness_cannot_register_queue"]++
		return
	}
	c.q = vrt.MakeChan[[]byte](c.spec.Room - 1)
	c.started = true
	(*m)[c.spec.ID] = c.q
}

// verifyForcedIDs checks that every subscriber that was given an id is registered under it: only then is the
// visiting order the one the case asks for.
func verifyForcedIDs(h *marbl.Handler, specs []subSpec) {
	want := 0
	for _, sp := range specs {
		if sp.ID != "" && !sp.Late {
			want++
		}
	}
	if want == 0 {
		return
	}
	m := subsMap(h)
	if m == nil {
		fanoutStats["fanout_harness_ids_not_verifiable"]++
		return
	}
	for _, sp := range specs {
		if sp.ID != "" && !sp.Late {
			if _, ok := (*m)[sp.ID]; !ok {
				fanoutStats["fanout_harness_forced_id_not_taken"]++
				return
			}
		}
	}
	if len(*m) != len(specs) {
		fanoutStats["fanout_harness_forced_id_not_taken"]++
		return
	}
	fanoutStats["fanout_executions_with_verified_visiting_order"]++
}

// drainQueue empties a bare queue at the end of the execution and notes whether the handler closed it.
func drainQueue(c *wsConn) {
	for c.q.Len() > 0 {
		v, ok := c.q.Recv2()
		if !ok {
			c.qclosed = true
			break
		}
		c.qmsgs = append(c.qmsgs, v)
	}
	if !c.qclosed {
		s := vrt.NewSelect(true)
		rc := vrt.CaseRecv(s, c.q)
		if s.Wait(rc) == 0 {
			if v, ok := rc.Value2(); ok {
				c.qmsgs = append(c.qmsgs, v)
			} else {
				c.qclosed = true
			}
		}
	}
	c.closed, c.returned = c.qclosed, c.qclosed
}

func fanoutCase(obs *observation) bool {
	for _, c := range obs.subs {
		if c.spec.ID != "" || c.spec.Room > 0 {
			return true
		}
	}
	return false
}

// missingFrames: are msgs whole Write calls of the stream, in stream order? If so, which calls are missing
// before the last one received.
func missingFrames(msgs, writes [][]byte) (missing []int, subsequence bool) {
	j := 0
	for _, m := range msgs {
		for j < len(writes) && !bytes.Equal(writes[j], m) {
			missing = append(missing, j)
			j++
		}
		if j == len(writes) {
			return nil, false
		}
		j++
	}
	return missing, len(missing) > 0
}

func clipInts(v []int, n int) string {
	if len(v) <= n {
		return fmt.Sprint(v)
	}
	return fmt.Sprintf("%v... (%d in all)", v[:n], len(v))
}

func describeFrames(ref []frame, idx []int, n int) string {
	var parts []string
	for i, k := range idx {
		if i == n {
			parts = append(parts, "...")
			break
		}
		if k < len(ref) {
			parts = append(parts, fmt.Sprintf("#%d %v", k, ref[k]))
		}
	}
	return strings.Join(parts, "; ")
}

// subKey is the abstract state of a fan-out subscriber in the coverage.
func subKey(c *wsConn, got, total int, firstMissingIsData bool) string {
	role := "keeps-up"
	if c.spec.Room > 0 {
		role = "stalled-queue"
	} else if c.spec.Stall {
		role = "stalled-client"
	}
	at := "none"
	if got < total {
		at = "header"
		if firstMissingIsData {
			at = "data"
		}
	}
	return fmt.Sprintf("fanout/%s/cut_at=%s/disconnected=%v", role, at, c.closed && c.returned)
}

// ---------------------------------------------------------------------------------------------------
// enumeration
// ---------------------------------------------------------------------------------------------------

func subID(rank int) string { return fmt.Sprintf("%02x000000000000%02x", rank+1, 0xa0+rank) }

// fanoutRoles: every sequence over {keeps up, stalled} of length n with at least one of each, in visiting
// order (true = stalled).
func fanoutRoles(n int) [][]bool {
	var out [][]bool
	for mask := 1; mask < 1<<n-1; mask++ {
		r := make([]bool, n)
		for i := range r {
			r[i] = mask&(1<<i) != 0
		}
		out = append(out, r)
	}
	sort.SliceStable(out, func(i, j int) bool { return count(out[i]) < count(out[j]) })
	return out
}

func count(b []bool) (n int) {
	for _, x := range b {
		if x {
			n++
		}
	}
	return
}

// product enumerates vals^k.
func product(vals []int, k int) [][]int {
	out := [][]int{{}}
	for i := 0; i < k; i++ {
		var next [][]int
		for _, p := range out {
			for _, v := range vals {
				next = append(next, append(append([]int(nil), p...), v))
			}
		}
		out = next
	}
	return out
}

// fanoutMaxRoom: rooms 1..fanoutMaxRoom are enumerated in full; the exchange of the family has fewer frames
// than that (measured: the counters fanout_*_cut_at and fanout_stalled_not_cut), so the overflow is placed at
// every frame of the stream and, for the largest rooms, nowhere.
const fanoutMaxRoom = 34

func fanoutMsgs(via int) []msgSpec {
	m1 := msgSpec{Kind: 0, Hdr: 2, Body: bodySpec{Size: 10, ErrAt: -1, Combined: true}, Cons: consSpec{Bufs: []int{3}, CloseAfter: -1}}
	m2 := msgSpec{Kind: 1, Hdr: 4, SameReq: true, Body: bodySpec{Size: 5, ErrAt: -1}, Cons: consSpec{Bufs: []int{4}, CloseAfter: -1}}
	if via == 0 {
		m1.ID, m2.ID = "exch-00M", "exch-00M"
	}
	return []msgSpec{m1, m2}
}

func fanoutCases(tier string) []rtCase {
	var out []rtCase
	thorough := tier == "thorough"
	all := make([]int, fanoutMaxRoom)
	for i := range all {
		all[i] = i + 1
	}
	// the exchange is logged as 23 pseudo-header / header frames (both messages are logged first) and then 7 data
	// frames (request: 10 bytes in 3-byte reads, EOF with the last byte; response: 5 bytes in 4-byte reads, EOF
	// alone), the two bodies being read alternately; room k+1 puts the overflow on frame k
	few := []int{1, 2, 9, 17, 24, 27, 30} // first frame, pseudo-headers and headers of both messages, first / a middle / the terminal data frame
	fewer := []int{1, 12, 25}
	mk := func(roles []bool, rooms []int, reverse bool, via int) rtCase {
		subs := make([]subSpec, len(roles))
		k := 0
		for i, stalled := range roles {
			subs[i] = subSpec{ID: subID(i)}
			if stalled {
				subs[i].Room = rooms[k]
				k++
			}
		}
		if reverse { // connect in the reverse of the visiting order
			for i, j := 0, len(subs)-1; i < j; i, j = i+1, j-1 {
				subs[i], subs[j] = subs[j], subs[i]
			}
		}
		return rtCase{Space: "M", Via: via, Msgs: fanoutMsgs(via), Subs: subs}
	}
	for n := 2; n <= 4; n++ {
		if n == 4 && !thorough {
			break
		}
		for _, roles := range fanoutRoles(n) {
			ns := count(roles)
			var rooms [][]int
			switch {
			case ns == 1:
				rooms = product(all, 1)
			case ns == 2 && n == 3 && thorough:
				rooms = product(all, 2)
			case ns == 2:
				rooms = product(few, 2)
			default:
				rooms = product(fewer, ns)
			}
			for _, r := range rooms {
				for _, reverse := range []bool{false, true} {
					if reverse && n > 2 && !thorough && ns > 1 {
						continue
					}
					out = append(out, mk(roles, r, reverse, 0))
				}
				if n == 2 || thorough && ns == 1 {
					out = append(out, mk(roles, r, false, 1))
				}
			}
		}
	}
	if thorough {
		// the real thing: a websocket client that stops reading while 8 + 16378 frames are logged (its queue takes
		// 16384, its handler goroutine holds one), next to a client that keeps up, in both visiting orders
		for _, stalledFirst := range []bool{true, false} {
			subs := []subSpec{{ID: subID(0), Stall: stalledFirst}, {ID: subID(1), Stall: !stalledFirst}}
			out = append(out, rtCase{Space: "M", Msgs: []msgSpec{{Kind: 0, Hdr: hdrSmall0, ID: "exch-big", Body: bodySpec{Size: 16377, ErrAt: -1}, Cons: consSpec{Bufs: []int{1}, CloseAfter: -1}}}, Subs: subs})
		}
	}
	return out
}

// fanoutScenarios (part 2, family F6): one thread logs a request and reads its body while the stream fans out
// to a subscriber that keeps up and a queue that overflows at a header frame / at the data frame, in both
// visiting orders; every interleaving within the deviation bound (the handler's per-frame goroutines, the
// asynchronous unsubscribe and the subscriber's own goroutine all take part).
func fanoutScenarios(tier string) []concScenario {
	var out []concScenario
	// weights: measured execution counts (shard balancing only)
	bound, weights := 2, map[int]int64{3: 7600, 9: 11000}
	if tier == "thorough" {
		bound, weights = 3, map[int]int64{3: 310000, 9: 545000}
	}
	b, c := readsBody(1)
	for _, room := range []int{3, 9} {
		weight := weights[room]
		for _, stalledFirst := range []bool{true, false} {
			subs := []subSpec{{ID: subID(0)}, {ID: subID(1)}}
			pos := "after"
			if stalledFirst {
				subs[0].Room = room
				pos = "before"
			} else {
				subs[1].Room = room
			}
			out = append(out, concScenario{Name: fmt.Sprintf("F6 fan-out: queue with room for %d frames visited %s the subscriber that keeps up reads=1 log_in_thread=true writer_point=false bound=%d", room-1, pos, bound),
				Msgs: []msgSpec{{Kind: 0, Hdr: hdrSmall0, ID: "exch-fan", Body: b, Cons: c}}, LogInThread: true, Bound: bound, Weight: weight, Subs: subs})
		}
	}
	return out
}
