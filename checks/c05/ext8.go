// Round 8 family of C05.
//
//	upconfig   how the UPSTREAM side of the proxy was configured: a history of the public setters of martian.Proxy that
//	           touch the upstream side, in every order, applied to a fresh NewProxy() before it serves:
//	             rt:<kind>  SetRoundTripper(x), x in
//	                          default     the transport NewProxy() created, put back
//	                          plain       a fresh &http.Transport{TLSClientConfig} without any dial hook
//	                          dialctx     ... with its own DialContext hook (plain TCP)
//	                          dialtls     ... with its own DialTLS hook (dials AND performs the TLS handshake itself)
//	                          dialtlsctx  ... with its own DialTLSContext hook
//	                          wrapped     an http.RoundTripper that is NOT an *http.Transport (wraps one with a DialContext hook)
//	             dial       SetDial(harness dialer, plain TCP)
//	             down       SetDownstreamProxy(harness downstream proxy)
//	             timeout    SetTimeout(2 min)
//	           Every sequence in which dial / down / timeout occur at most once and SetRoundTripper at most once (thorough:
//	           also twice, the second transport replacing the first) — the empty sequence, every subset, every order.
//	           Crossed with listener x tunnel content (5 listeners TLS, the 2 CONNECT listeners also plaintext) and two
//	           requests per tunnel (first + later; thorough: every form sequence of length 1..2).
//
// The test name c05-origin.test does not resolve, so a setup is only enumerated when at least one harness hook routes
// the dial to the in-process origin (SetDial, a hook of the effective transport for the scheme needed, or the downstream
// proxy, whose address is real): see setupRunnable. That excludes e.g. the empty setup (default transport + default dialer).
//
// Oracle (unchanged, from the statement): the origin's acceptor looks at what ARRIVES ON THE WIRE — the first byte of every
// accepted connection must open a TLS handshake record (0x16), the handshake must complete, and the request must be read
// from inside that TLS connection ("forwarded upstream over TLS, never in cleartext"), whatever was configured and in
// whatever order; requests of a plaintext tunnel must arrive as plain HTTP. All per-request oracles of judge() apply.
package main

import (
	"context"
	"crypto/tls"
	"net"
	"net/http"
	"net/url"
	"sort"
	"strings"
	"time"

	martian "github.com/google/martian/v3"
)

var rtKinds = []string{"default", "plain", "dialctx", "dialtls", "dialtlsctx", "wrapped"}

// wrapRT is a round tripper martian cannot recognise as an *http.Transport.
type wrapRT struct{ rt http.RoundTripper }

func (w *wrapRT) RoundTrip(req *http.Request) (*http.Response, error) { return w.rt.RoundTrip(req) }

// effectiveRT: the kind of the transport in effect after the setup (the last SetRoundTripper; none = NewProxy's own) and
// the index of that call (-1: the transport was installed by NewProxy, before everything else).
func effectiveRT(setup []string) (string, int) {
	kind, at := "default", -1
	for i, op := range setup {
		if strings.HasPrefix(op, "rt:") {
			kind, at = strings.TrimPrefix(op, "rt:"), i
		}
	}
	return kind, at
}

// relPos: where a setter call stands relative to the installation of the effective transport.
func relPos(setup []string, op string) string {
	_, at := effectiveRT(setup)
	for i, x := range setup {
		if x == op {
			if i < at {
				return "before_rt"
			}
			return "after_rt"
		}
	}
	return "none"
}

// setupRunnable: some harness hook gets to route the dial for requests of this tunnel content to the in-process origin.
func setupRunnable(setup []string, inner string) bool {
	kind, _ := effectiveRT(setup)
	if kind == "wrapped" || contains(setup, "dial") || contains(setup, "down") {
		return true
	}
	switch kind {
	case "dialctx":
		return true
	case "dialtls", "dialtlsctx":
		return inner == "tls"
	}
	return false
}

// setups yields every setter history: dial / down / (timeout) at most once, SetRoundTripper at most maxRT times, every
// order; shortest first.
func setups(withTimeout bool, maxRT int) [][]string {
	singles := []string{"dial", "down"}
	if withTimeout {
		singles = append(singles, "timeout")
	}
	var out [][]string
	var rec func(cur []string, rts int)
	rec = func(cur []string, rts int) {
		out = append(out, append([]string(nil), cur...))
		for _, s := range singles {
			if !contains(cur, s) {
				rec(append(cur, s), rts)
			}
		}
		if rts < maxRT {
			for _, k := range rtKinds {
				rec(append(cur, "rt:"+k), rts+1)
			}
		}
	}
	rec(nil, 0)
	sort.SliceStable(out, func(i, j int) bool { return len(out[i]) < len(out[j]) })
	return out
}

func countRT(setup []string) int {
	n := 0
	for _, op := range setup {
		if strings.HasPrefix(op, "rt:") {
			n++
		}
	}
	return n
}

func round8(thorough bool, add func(History)) {
	mk := func(setup []string, l, in string, fs []string) {
		if !setupRunnable(setup, in) {
			return
		}
		sni := "same"
		add(History{Space: "upconfig", Listener: l, Hijack: "none", Setup: setup,
			Conns: []Script{{Phases: []Phase{ph(hostName+":443", in, fs)}, TLS: "default", SNI: sni, Auth: "443"}}})
	}
	two := []string{"origin", "abs_https"}
	if !thorough {
		for _, su := range setups(false, 1) {
			for _, c := range combos(listeners) {
				mk(su, c[0], c[1], two)
			}
		}
		return
	}
	for _, su := range setups(true, 1) {
		for _, c := range combos(listeners) {
			for n := 1; n <= 2; n++ {
				formSeqs(n, func(fs []string) { mk(su, c[0], c[1], fs) })
			}
		}
	}
	for _, su := range setups(false, 2) {
		if countRT(su) != 2 {
			continue
		}
		for _, c := range combos(listeners) {
			mk(su, c[0], c[1], two)
		}
	}
}

// entry8 names the scenario class of a tunnel of the round-8 space ("" = the general rule applies).
func (h History) entry8(ci, phase int) string {
	if h.Space != "upconfig" {
		return ""
	}
	if tlsListener(h.Listener) {
		return "upconfig_transparent_tls"
	}
	return "upconfig_connect_" + h.Conns[ci].Phases[phase].Inner
}

// attrs8: what a signature may say about the setter history.
func (h History) attrs8(a map[string]string) {
	a["rt"], _ = effectiveRT(h.Setup)
	a["dial"] = relPos(h.Setup, "dial")
	a["down"] = relPos(h.Setup, "down")
}

// applySetup replays the setter history on the proxy. route(tag) is the harness's plain-TCP dialer (every address is
// mapped to the in-process origin, except the downstream proxy's own); def is the transport NewProxy created.
func applySetup(e *env, h History, p *martian.Proxy, def *http.Transport, route func(tag string) func(string, string) (net.Conn, error), down *downstream) []*http.Transport {
	trs := []*http.Transport{def}
	fresh := func() *http.Transport {
		t := &http.Transport{
			TLSClientConfig:     &tls.Config{RootCAs: e.originPool},
			TLSHandshakeTimeout: time.Minute,
			DisableCompression:  true,
		}
		trs = append(trs, t)
		return t
	}
	tlsHook := func(tag string) func(string, string) (net.Conn, error) {
		return func(network, addr string) (net.Conn, error) {
			c, err := route(tag)(network, addr)
			if err != nil {
				return nil, err
			}
			tc := tls.Client(c, &tls.Config{RootCAs: e.originPool, ServerName: bareHost(addr)})
			c.SetDeadline(time.Now().Add(time.Minute))
			if err := tc.Handshake(); err != nil {
				c.Close()
				return nil, err
			}
			c.SetDeadline(time.Time{})
			return tc, nil
		}
	}
	for _, op := range h.Setup {
		switch op {
		case "dial":
			p.SetDial(route("SetDial"))
		case "down":
			p.SetDownstreamProxy(&url.URL{Scheme: "http", Host: down.l.Addr().String()})
		case "timeout":
			p.SetTimeout(2 * time.Minute)
		case "rt:default":
			p.SetRoundTripper(def)
		case "rt:plain":
			p.SetRoundTripper(fresh())
		case "rt:dialctx":
			t := fresh()
			t.DialContext = func(_ context.Context, network, addr string) (net.Conn, error) {
				return route("Transport.DialContext")(network, addr)
			}
			p.SetRoundTripper(t)
		case "rt:dialtls":
			t := fresh()
			t.DialTLS = tlsHook("Transport.DialTLS")
			p.SetRoundTripper(t)
		case "rt:dialtlsctx":
			t := fresh()
			hook := tlsHook("Transport.DialTLSContext")
			t.DialTLSContext = func(_ context.Context, network, addr string) (net.Conn, error) { return hook(network, addr) }
			p.SetRoundTripper(t)
		case "rt:wrapped":
			t := fresh()
			t.TLSNextProto = map[string]func(string, *tls.Conn) http.RoundTripper{}
			t.DialContext = func(_ context.Context, network, addr string) (net.Conn, error) {
				return route("wrapped.DialContext")(network, addr)
			}
			p.SetRoundTripper(&wrapRT{t})
		}
	}
	return trs
}
