// Round 7 families of C05.
//
//	hsabort    one client connection on which a tunnel's TLS handshake STARTS (first tunnel byte 0x16) but cannot be
//	           completed by the proxy, after which the client carries on in cleartext on the same connection.
//	           failure kind {ecdsa_only: TLS 1.2 ClientHello offering only ECDSA suites (the forged certificates are
//	           RSA); tls11_only: versions the proxy's TLS configuration does not serve; truncated_hello: a complete
//	           handshake record whose ClientHello is cut short} x continuation {cleartext requests directly; a second
//	           CONNECT whose tunnel carries plain HTTP; a second CONNECT with a proper TLS handshake; thorough: direct
//	           request then second CONNECT, a plaintext tunnel before the failing one} x listener {plain, shaped;
//	           transparent-TLS layerings: everything happens inside the client's TLS session with the proxy} x all form
//	           sequences. The client always waits for the proxy's alert before it sends cleartext, so which reader of
//	           the proxy gets the bytes does not depend on timing (the failed tls.Conn reads nothing after its alert).
//	innerplain cleartext (non-TLS) CONNECT tunnels opened INSIDE a decrypted connection: on CONNECT proxies a MITM'd
//	           tunnel (0..1 requests) and then CONNECT host:80 + plain HTTP inside it; on the three transparent-TLS
//	           layerings CONNECT host:80 + plain HTTP over the client's TLS session with the proxy. 1..2 (thorough 1..3)
//	           requests in the inner tunnel, all form sequences, hijack variants at the last request, client profile
//	           {default, TLS 1.2}.
//
// Oracles: see judge() (modes enclosed / undecrypted / plain / tls) — derived from the statement:
//   - a tunnel that does not begin with a TLS handshake, on a connection on which nothing was ever decrypted, is plain
//     HTTP on an insecure session — also when an EARLIER tunnel of the connection saw a handshake that failed;
//   - a request read from a completed TLS connection carries that connection's TLS state, also when it travels in a
//     cleartext tunnel opened inside that connection;
//   - after a failed handshake nothing may be presented as secure / https / with TLS state unless it was read from a
//     completed TLS connection.
package main

import (
	"crypto/tls"
	"fmt"
	"io"
)

var hsProfiles = []string{"ecdsa_only", "tls11_only", "truncated_hello"}

// applyHSProfile turns a client TLS configuration into one whose handshake the proxy cannot complete.
func applyHSProfile(cfg *tls.Config, hs string) {
	switch hs {
	case "ecdsa_only": // the MITM authority forges RSA certificates: no common cipher suite
		cfg.MinVersion, cfg.MaxVersion = tls.VersionTLS12, tls.VersionTLS12
		cfg.CipherSuites = []uint16{tls.TLS_ECDHE_ECDSA_WITH_AES_128_GCM_SHA256, tls.TLS_ECDHE_ECDSA_WITH_AES_256_GCM_SHA384}
	case "tls11_only": // below the minimum version a crypto/tls server accepts by default
		cfg.MinVersion, cfg.MaxVersion = tls.VersionTLS10, tls.VersionTLS11
	}
}

// truncatedHello is one complete TLS record (type 22 handshake, 6 bytes) holding a ClientHello message that ends
// after its version field: nothing is missing on the wire, the proxy's handshake fails while decoding it.
var truncatedHello = []byte{22, 3, 1, 0, 6, 1, 0, 0, 2, 3, 3}

// failingHandshake performs the scripted handshake of a phase with HS != "" and waits for the proxy's verdict (its
// alert). The connection stays usable: the client goes on in cleartext on whatever it was speaking before.
func (c *client) failingHandshake(phase int) {
	po := &c.out.Phases[phase]
	ph := c.sc.Phases[phase]
	if ph.HS != "truncated_hello" {
		c.mayFail = true
		c.handshake(po, c.tlsConfig(phase), &bufConn{c.stream, c.sbr})
		c.mayFail = false
		return
	}
	fail := func(format string, a ...interface{}) {
		c.set(func() { po.HandshakeErr = fmt.Sprintf(format, a...) })
	}
	if _, err := c.stream.Write(truncatedHello); err != nil {
		fail("write ClientHello record: %v", err)
		c.dead = true
		return
	}
	hdr := make([]byte, 5)
	if _, err := io.ReadFull(c.sbr, hdr); err != nil {
		fail("no answer to the truncated ClientHello: %v", err)
		c.dead = true
		return
	}
	n := int(hdr[3])<<8 | int(hdr[4])
	if hdr[0] != 21 || n != 2 {
		fail("answer to the truncated ClientHello is not an alert record: % x", hdr)
		c.dead = true
		return
	}
	body := make([]byte, n)
	if _, err := io.ReadFull(c.sbr, body); err != nil {
		fail("alert record cut short: %v", err)
		c.dead = true
		return
	}
	fail("remote alert level=%d description=%d", body[0], body[1])
}

// phaseModes decides, from what the client observed, how the requests of each tunnel of connection ci are judged.
func phaseModes(h History, ci int, co *ConnOut) (modes []string, refs []*PhaseOut) {
	sc := h.Conns[ci]
	var cur *PhaseOut // the completed TLS connection the client is currently speaking through (nil: cleartext)
	if h.nestedLike() && co.Outer != nil && co.Outer.HandshakeErr == "" {
		cur = co.Outer
	}
	for pi, p := range sc.Phases {
		po := &co.Phases[pi]
		failed := po.HandshakeErr != "" && (p.HS != "" || sc.Untrusting)
		switch {
		case p.Inner == "tls" && !failed:
			modes, refs = append(modes, "tls"), append(refs, po)
			cur = po
		case cur != nil:
			modes, refs = append(modes, "enclosed"), append(refs, cur)
		case p.Inner == "tls":
			modes, refs = append(modes, "undecrypted"), append(refs, nil)
		default:
			modes, refs = append(modes, "plain"), append(refs, nil)
		}
	}
	return
}

// entry7 names the scenario class of a tunnel of the round-7 spaces ("" = the general rule applies).
func (h History) entry7(ci, phase int) string {
	sc := h.Conns[ci]
	in := ""
	if h.nestedLike() {
		in = "_inside_tls"
	}
	switch h.Space {
	case "hsabort":
		if sc.Phases[phase].HS != "" {
			return "failed_handshake" + in
		}
		for pi := 0; pi < phase; pi++ {
			if sc.Phases[pi].HS != "" {
				return "after_failed_handshake" + in + "_" + sc.Phases[phase].Inner
			}
		}
		if h.nestedLike() {
			return "before_failed_handshake" + in + "_" + sc.Phases[phase].Inner
		}
	case "innerplain":
		if sc.Phases[phase].Inner == "plain" {
			return "plain_tunnel_inside_tls"
		}
		for pi := 0; pi < phase; pi++ {
			if sc.Phases[pi].Inner == "plain" {
				return "tls_tunnel_inside_plain_tunnel_inside_tls"
			}
		}
		if h.nestedLike() {
			return "nested_tls"
		}
	}
	return ""
}

func round7(thorough bool, add func(History)) {
	type hj struct{ pos, via string }
	hjNone := []hj{{"none", ""}}
	hj3 := []hj{{"none", ""}, {"req", "conn"}, {"res", "brw"}}
	hj5 := []hj{{"none", ""}, {"req", "conn"}, {"req", "brw"}, {"res", "conn"}, {"res", "brw"}}
	inner80 := hostName + ":80"
	failing := func(hs string, fs []string) Phase {
		p := ph(hostName+":443", "tls", fs)
		p.HS = hs
		return p
	}
	script := func(prof string, phases ...Phase) []Script {
		return []Script{{Phases: phases, TLS: prof, SNI: "same", Auth: "443"}}
	}

	// ---- innerplain ----
	profs := []string{"default"}
	maxN, hjs := 2, hj3
	if thorough {
		profs, maxN, hjs = []string{"default", "tls12"}, 3, hj5
	}
	for n := 1; n <= maxN; n++ {
		for _, hk := range hjs {
			if n == 3 && hk.pos != "none" {
				continue
			}
			for _, l := range listeners {
				for _, prof := range profs {
					formSeqs(n, func(fs []string) {
						if tlsListener(l) {
							add(History{Space: "innerplain", Listener: l, Outer: prof, Hijack: hk.pos, Via: hk.via,
								Conns: script("default", ph(inner80, "plain", fs))})
							return
						}
						first := [][]string{{"origin"}}
						if thorough {
							first = [][]string{{}, {"origin"}}
						}
						for _, f0 := range first {
							add(History{Space: "innerplain", Listener: l, Hijack: hk.pos, Via: hk.via,
								Conns: script(prof, ph(hostName+":443", "tls", f0), ph(inner80, "plain", fs))})
						}
					})
				}
			}
		}
	}

	// innerplain, early data: the first request of the inner cleartext tunnel travels in the same TLS record / segment
	// as its CONNECT head (the proxy has it buffered when it sniffs the tunnel)
	earlyN := 1
	if thorough {
		earlyN = 2
	}
	for n := 1; n <= earlyN; n++ {
		for _, l := range listeners {
			formSeqs(n, func(fs []string) {
				var sc []Script
				if tlsListener(l) {
					sc = script("default", ph(inner80, "plain", fs))
				} else {
					sc = script("default", ph(hostName+":443", "tls", []string{"origin"}), ph(inner80, "plain", fs))
				}
				sc[0].Early = true
				add(History{Space: "innerplain", Listener: l, Outer: "default", Hijack: "none", Conns: sc})
			})
		}
	}
	// innerplain, a third level: after the cleartext tunnel inside the decrypted connection, a further CONNECT whose
	// tunnel is MITM'd again (its requests carry the state of that innermost TLS connection)
	for n := 1; n <= earlyN; n++ {
		for _, l := range listeners {
			formSeqs(n, func(fs []string) {
				if tlsListener(l) {
					add(History{Space: "innerplain", Listener: l, Outer: "default", Hijack: "none",
						Conns: script("default", ph(inner80, "plain", []string{"origin"}), ph(hostName+":8443", "tls", fs))})
				} else {
					add(History{Space: "innerplain", Listener: l, Hijack: "none",
						Conns: script("default", ph(hostName+":443", "tls", []string{"origin"}), ph(inner80, "plain", []string{"origin"}), ph(hostName+":8443", "tls", fs))})
				}
			})
		}
	}

	// ---- hsabort ----
	for _, l := range listeners {
		for _, hs := range hsProfiles {
			mk := func(hk hj, phases ...Phase) {
				add(History{Space: "hsabort", Listener: l, Outer: "default", Hijack: hk.pos, Via: hk.via, Conns: script("default", phases...)})
			}
			for n := 1; n <= 2; n++ {
				formSeqs(n, func(fs []string) {
					// A: cleartext requests directly after the failed handshake
					mk(hjNone[0], failing(hs, fs))
					// B: a second CONNECT whose tunnel carries plain HTTP
					hb := hjNone
					if thorough {
						hb = hj3
					}
					for _, hk := range hb {
						mk(hk, failing(hs, nil), ph(inner80, "plain", fs))
					}
					// C: a second CONNECT whose tunnel carries a proper TLS handshake
					if n == 1 || thorough {
						for _, hk := range hb {
							mk(hk, failing(hs, nil), ph(hostName+":8443", "tls", fs))
						}
					}
					if thorough && n == 1 {
						// D: one direct cleartext request, then a second CONNECT (plain / TLS) with one request
						formSeqs(1, func(f2 []string) {
							mk(hjNone[0], failing(hs, fs), ph(inner80, "plain", f2))
							mk(hjNone[0], failing(hs, fs), ph(hostName+":8443", "tls", f2))
						})
						// E: a plaintext tunnel first, the failing handshake in a second tunnel, then a third tunnel
						if !tlsListener(l) {
							mk(hjNone[0], ph(inner80, "plain", []string{"origin"}), failing(hs, fs))
							mk(hjNone[0], ph(inner80, "plain", []string{"origin"}), failing(hs, nil), ph(hostName+":8080", "plain", fs))
							mk(hjNone[0], ph(inner80, "plain", []string{"origin"}), failing(hs, nil), ph(hostName+":8443", "tls", fs))
						}
					}
				})
			}
			if thorough {
				formSeqs(3, func(fs []string) { mk(hjNone[0], failing(hs, nil), ph(inner80, "plain", fs)) })
			}
			// B with early data: the first request of the second (cleartext) tunnel in the segment of its CONNECT head
			for n := 1; n <= earlyN; n++ {
				formSeqs(n, func(fs []string) {
					sc := script("default", failing(hs, nil), ph(inner80, "plain", fs))
					sc[0].Early = true
					add(History{Space: "hsabort", Listener: l, Outer: "default", Hijack: "none", Conns: sc})
				})
			}
		}
	}
}
