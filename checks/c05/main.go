// C05 — MITM never downgrades and treats every tunnelled request as secure.
//
// Engine B (bounded-exhaustive enumeration on the unmodified proxy). A *history* is a set of scripted client
// connections to one real martian.Proxy. Four finite spaces are enumerated completely:
//
//	core      (both tiers) listener {plain, trafficshape.NewListener; transparent: tls.NewListener(l, mitm.TLS()), TLS over
//	          shaped, shaped over TLS} x tunnel content {TLS, plaintext HTTP} (transparent: TLS only, no CONNECT) x authority port {443, 8443}
//	          x N = 1..2 (quick) / 1..4 (thorough) requests, every sequence over the target forms {origin-form + Host,
//	          absolute http://, absolute https://, HTTP/1.0 without Host} x hijack {none, request modifier, response
//	          modifier of the last request} x handle used by the hijacker {net.Conn, *bufio.ReadWriter}. A hijack at
//	          request i of a longer history IS the history of length i (nothing can follow a hijack), so every hijack
//	          index 1..N is covered.
//	config    (quick: authority {name:8443, [::1]:443, [::1]:8443} x CONNECT listeners x TLS/plaintext x every form sequence
//	          of length 1..2 containing a host-less request; thorough:) core with N <= 2, crossed with CONNECT authority spelling {name:443, name:8443, MiXed-case:443,
//	          IPv4:443, [IPv6]:443, [IPv6]:8443} x client SNI {host of the authority, a different name} x client TLS
//	          profile {default, ALPN h2+http/1.1 offered, TLS 1.2 only, TLS 1.3 only} x early data {no, first bytes of
//	          the tunnel (ClientHello resp. first request) in the same segment as the CONNECT head}.
//	nested    (both tiers) the client speaks TLS to the proxy itself (outer SNI c05-outer-proxy.test) on a listener
//	          {tls.NewListener(l), tls.NewListener(trafficshape.NewListener(l)), trafficshape.NewListener(tls.NewListener(l))},
//	          sends CONNECT over that OUTER TLS connection and performs a SECOND handshake inside the tunnel, which the
//	          proxy MITMs: outer client profile {default, TLS 1.2 only} x N = 1..2 / 1..3 requests, all form sequences
//	          x hijack variants. Every inner request must carry the state of the INNER connection.
//	pair      (thorough) two connections with two tunnels (different authorities, every combination of TLS/plaintext),
//	          1..2 requests each, all form sequences, interleaved request by request.
//	reconnect (thorough) plaintext inside CONNECT (1..2 requests) followed by a second CONNECT (other authority) on the
//	          same connection whose tunnel carries TLS or plaintext (1..2 requests), all form sequences.
//	hostless, traffic, upfail, hsfail, variant, downstream: see extra() and AUDIT.md.
//	innerplain, hsabort (round 7): see ext7.go.
//	upconfig (round 8): histories of the upstream-side setters (SetRoundTripper x 6 kinds of round tripper, SetDial,
//	          SetDownstreamProxy, SetTimeout) in every order, judged by what arrives on the origin's wire: see ext8.go.
//
// Every history is run once through the real proxy (real loopback TCP, real crypto/tls client, the proxy's default
// http.Transport trusting the harness origin's certificate, SetDial -> in-process origin whose acceptor sniffs the
// first byte of every connection: 0x16 = reached over TLS, anything else = cleartext). Recording request/response
// modifiers note what modifiers are shown; the oracle is written from the property statement only. Histories run
// in worker subprocesses (the proxy's per-connection goroutine has no recover): a worker logs the history id
// before running it, so a dead worker is attributed to a history.
package main

import (
	"bufio"
	"crypto/ecdsa"
	"crypto/elliptic"
	"crypto/rand"
	"crypto/rsa"
	"crypto/sha1"
	"crypto/tls"
	"crypto/x509"
	"crypto/x509/pkix"
	"encoding/hex"
	"encoding/json"
	"fmt"
	"io"
	"math/big"
	"net"
	"net/http"
	"net/url"
	"os"
	"os/exec"
	"path/filepath"
	"runtime"
	"sort"
	"strconv"
	"strings"
	"sync"
	"time"

	martian "github.com/google/martian/v3"
	"github.com/google/martian/v3/h2"
	mlog "github.com/google/martian/v3/log"
	"github.com/google/martian/v3/mitm"
	"github.com/google/martian/v3/trafficshape"

	"verif/lib"
)

const (
	hostName = "c05-origin.test"
	otherSNI = "c05-other-sni.test"
	outerSNI = "c05-outer-proxy.test"
	marker   = "C05-HIJACKED-MARKER\n"
	ack      = "C05-ACK\n"
	ekmLabel = "EXPORTER-verif-c05"

	ioDeadline      = 20 * time.Second // generous per-I/O hang guard (liveness only)
	historyDeadline = 90 * time.Second
	dialTimeout     = 30 * time.Second // loopback dials of the harness (the machine is shared and often overloaded)
)

var (
	// plain and shaped are CONNECT proxies; the other three are transparent TLS listeners (the client speaks TLS to the
	// proxy itself, no CONNECT): tls.NewListener(l), tls.NewListener(trafficshape.NewListener(l)) and
	// trafficshape.NewListener(tls.NewListener(l)).
	listeners = []string{"plain", "shaped", "transparent", "tls_over_shaped", "shaped_over_tls"}
	inners    = []string{"tls", "plain"}
	forms     = []string{"origin", "abs_http", "abs_https", "nohost"}
	profiles  = []string{"default", "alpn_h2", "tls12", "tls13"}
)

type authSpelling struct{ Label, Authority string }

var (
	coreAuths   = []authSpelling{{"443", hostName + ":443"}, {"8443", hostName + ":8443"}}
	configAuths = []authSpelling{
		{"name_443", hostName + ":443"}, {"name_8443", hostName + ":8443"}, {"mixedcase_443", "C05-Origin.Test:443"},
		{"ipv4_443", "127.0.0.1:443"}, {"ipv6_443", "[::1]:443"}, {"ipv6_8443", "[::1]:8443"},
	}
)

// hostGiven is how requests that do name a host name it: the authority, default https port omitted (as clients do).
func hostGiven(auth string) string { return strings.TrimSuffix(auth, ":443") }

func bareHost(auth string) string {
	h, _, err := net.SplitHostPort(auth)
	if err != nil {
		return auth
	}
	return h
}

func isIP(auth string) bool { return net.ParseIP(bareHost(auth)) != nil }

// hostOK: URL.Host denotes the tunnel authority (host names are case-insensitive; the default https port may be omitted).
func hostOK(auth, got string) bool {
	return strings.EqualFold(got, auth) || strings.EqualFold(got, hostGiven(auth))
}

// Phase is one tunnel on a connection: its CONNECT authority, what the client speaks inside, the requests.
type Phase struct {
	Authority string   `json:"authority"`
	Inner     string   `json:"inner"` // tls | plain
	Forms     []string `json:"forms"`
	Spell     string   `json:"spell,omitempty"` // how host-less requests are spelled: "" = HTTP/1.0, http11_nohdr, http11_empty
	Kinds     []string `json:"kinds,omitempty"` // per request: get | post_cl | post_chunked | post_100 (default get)
	Pad       int      `json:"pad,omitempty"`   // bytes of padding header in every request
	Resp      string   `json:"resp,omitempty"`  // response the origin is asked for: "" (small) | cl5000 | cl40000 | chunked40000
	// HS (round 7): the client starts a TLS handshake in this tunnel that the proxy cannot complete ("" = a normal
	// one): ecdsa_only | tls11_only | bad_hello (see hsProfiles). The client waits for the proxy's alert and then goes
	// on in cleartext on the same connection: Forms are the requests it sends directly, later phases further CONNECTs.
	HS string `json:"hs,omitempty"`
}

func (p Phase) kind(idx int) string {
	if idx-1 < len(p.Kinds) {
		return p.Kinds[idx-1]
	}
	return "get"
}

// Script is one client connection.
type Script struct {
	Phases []Phase `json:"phases"`
	TLS    string  `json:"tls"`   // client TLS profile
	SNI    string  `json:"sni"`   // same | other
	Early  bool    `json:"early"` // first tunnel bytes in the same segment as the CONNECT head
	Auth   string  `json:"auth"`  // label of the authority spelling (phase 0)

	Pipelined  bool   `json:"pipelined,omitempty"`  // all requests of a tunnel are written at once, then the responses read
	Untrusting bool   `json:"untrusting,omitempty"` // the client does not trust the MITM CA: its handshake fails
	After      string `json:"after,omitempty"`      // what an untrusting client does next: close | plaintext
}

// History is one enumerated scenario.
type History struct {
	ID       int      `json:"id"`
	Space    string   `json:"space"`           // core | config | nested | pair | reconnect
	Outer    string   `json:"outer,omitempty"` // nested: TLS profile of the outer client<->proxy connection
	Listener string   `json:"listener"`
	Conns    []Script `json:"conns"`
	Hijack   string   `json:"hijack"` // none | req | res  (modifier of the LAST request of connection 0)
	Via      string   `json:"via"`    // conn | brw (which value returned by Hijack() the hijacker uses)

	Mitm       string `json:"mitm,omitempty"`       // mitm.Config variant: "" | tuned | h2_allowed | h2_filtered
	Origin     string `json:"origin,omitempty"`     // "" ok | badcert (untrusted certificate) | reset (closes on the ClientHello)
	Downstream bool   `json:"downstream,omitempty"` // Proxy.SetDownstreamProxy(harness proxy)

	// Setup (round 8, space upconfig): the history of upstream-side setter calls made on the fresh proxy, in order:
	// rt:<kind> | dial | down | timeout (see ext8.go).
	Setup []string `json:"setup,omitempty"`
}

func (h History) String() string {
	var cs []string
	for _, sc := range h.Conns {
		var ps []string
		for _, p := range sc.Phases {
			x := fmt.Sprintf("%s{%s:%s", p.Authority, p.Inner, strings.Join(p.Forms, ","))
			if p.Spell != "" {
				x += " spell=" + p.Spell
			}
			if p.HS != "" {
				x = fmt.Sprintf("%s{handshake-the-proxy-cannot-complete(%s) then cleartext:%s", p.Authority, p.HS, strings.Join(p.Forms, ","))
			}
			if p.Kinds != nil {
				x += fmt.Sprintf(" kinds=%s pad=%d resp=%s", strings.Join(p.Kinds, ","), p.Pad, p.Resp)
			}
			ps = append(ps, x+"}")
		}
		s := strings.Join(ps, " then ")
		if h.Space == "config" || h.Space == "variant" {
			s += fmt.Sprintf(" tls=%s sni=%s early=%v", sc.TLS, sc.SNI, sc.Early)
		}
		if (h.Space == "innerplain" || h.Space == "hsabort") && sc.Early {
			s += " (first request of every cleartext tunnel in the segment of its CONNECT)"
		}
		if sc.Pipelined {
			s += " pipelined"
		}
		if sc.Untrusting {
			s += " client-distrusts-CA then=" + sc.After
		}
		if h.nestedLike() {
			s = fmt.Sprintf("outerTLS(%s,sni=%s){CONNECT %s}", h.Outer, outerSNI, s)
		}
		cs = append(cs, s)
	}
	s := fmt.Sprintf("#%d [%s] listener=%s %s hijack=%s", h.ID, h.Space, h.Listener, strings.Join(cs, " || "), h.Hijack)
	if h.Mitm != "" {
		s += " mitm=" + h.Mitm
	}
	if h.Origin != "" {
		s += " origin=" + h.Origin
	}
	if h.Downstream {
		s += " via-downstream-proxy"
	}
	if h.Space == "upconfig" {
		s += " upstream-setup=NewProxy()"
		for _, op := range h.Setup {
			s += "." + map[string]string{"dial": "SetDial", "down": "SetDownstreamProxy", "timeout": "SetTimeout"}[op]
			if strings.HasPrefix(op, "rt:") {
				s += "SetRoundTripper(" + strings.TrimPrefix(op, "rt:") + ")"
			}
		}
	}
	if h.Hijack != "none" {
		s += " via=" + h.Via
	}
	return s
}

// item is one message the client sends on a connection: a CONNECT head or a request inside a tunnel.
type item struct {
	phase   int
	connect bool
	idx     int // 1-based index of the request within its tunnel
	form    string
	seq     int // index of the message on the connection (header X-C05-Seq)
}

// hasConnect: the client opens tunnels with CONNECT (otherwise it talks TLS to a transparent listener directly).
func (h History) hasConnect() bool { return h.nestedLike() || !tlsListener(h.Listener) }

// nestedLike: the client first speaks TLS to the proxy itself (a transparent-TLS listener) and then sends CONNECT
// requests over that outer connection (nested space; round 7: innerplain / hsabort on TLS listeners).
func (h History) nestedLike() bool {
	return h.Space == "nested" || ((h.Space == "innerplain" || h.Space == "hsabort") && tlsListener(h.Listener))
}

func tlsListener(l string) bool { return l != "plain" && l != "shaped" }

// outerTLS: the client speaks TLS to the proxy itself before anything else.
func (h History) outerTLS() bool { return h.Listener != "plain" && h.Listener != "shaped" }

func (h History) items(ci int) []item {
	var out []item
	for pi, p := range h.Conns[ci].Phases {
		if h.hasConnect() {
			out = append(out, item{phase: pi, connect: true, seq: len(out)})
		}
		for k, f := range p.Forms {
			out = append(out, item{phase: pi, idx: k + 1, form: f, seq: len(out)})
		}
	}
	return out
}

func (h History) entry(ci, phase int) string {
	if e := h.entry7(ci, phase); e != "" {
		return e
	}
	if e := h.entry8(ci, phase); e != "" {
		return e
	}
	switch {
	case h.Space == "nested":
		return "nested_tls"
	case tlsListener(h.Listener):
		return "transparent_tls"
	case phase > 0:
		return "reconnect_" + h.Conns[ci].Phases[phase].Inner
	}
	return "connect_" + h.Conns[ci].Phases[phase].Inner
}

// attrs are the scenario attributes of one request (or of the history if it.idx == 0) that signatures may mention.
func (h History) attrs(ci int, it item) map[string]string {
	sc := h.Conns[ci]
	a := map[string]string{"listener": h.Listener}
	if it.idx > 0 {
		a["form"] = it.form
		a["cls"] = "later_request"
		if it.idx == 1 {
			a["cls"] = "first_request"
		}
	}
	switch h.Space {
	case "core":
		a["port"] = sc.Auth
	case "config":
		a["auth"] = sc.Auth
		a["early"] = strconv.FormatBool(sc.Early)
		if sc.Phases[0].Inner == "tls" {
			a["sni"] = sc.SNI
			a["tls"] = sc.TLS
		}
	case "hostless":
		a["port"] = sc.Auth
		a["spell"] = sc.Phases[it.phase].Spell
	case "traffic":
		ph := sc.Phases[it.phase]
		if it.idx > 0 {
			a["kind"] = ph.kind(it.idx)
		}
		a["pad"] = strconv.Itoa(ph.Pad)
		a["resp"] = ph.Resp
		a["pipelined"] = strconv.FormatBool(sc.Pipelined)
	case "upfail":
		a["origin"] = h.Origin
	case "hsfail":
		a["after"] = sc.After
	case "variant":
		a["mitm"] = h.Mitm
		a["tls"] = sc.TLS
	case "reconnect":
		a["first"] = sc.Phases[0].Inner
	case "nested":
		a["outer"] = h.Outer
	case "hsabort":
		for _, p := range sc.Phases {
			if p.HS != "" {
				a["hs"] = p.HS
			}
		}
		a["early"] = strconv.FormatBool(sc.Early)
	case "innerplain":
		a["early"] = strconv.FormatBool(sc.Early)
	case "pair":
		a["peer"] = h.Conns[1-ci].Phases[0].Inner
	case "upconfig":
		h.attrs8(a)
	}
	return a
}

func ph(auth, inner string, fs []string) Phase {
	return Phase{Authority: auth, Inner: inner, Forms: fs}
}

// seqsOver calls f with every sequence of length n over the alphabet.
func seqsOver(alphabet []string, n int, f func([]string)) {
	dims := make([]int, n)
	for i := range dims {
		dims[i] = len(alphabet)
	}
	lib.Product(dims, func(idx []int) {
		fs := make([]string, n)
		for i, x := range idx {
			fs[i] = alphabet[x]
		}
		f(fs)
	})
}

func contains(fs []string, x string) bool {
	for _, f := range fs {
		if f == x {
			return true
		}
	}
	return false
}

func formSeqs(n int, f func([]string)) {
	dims := make([]int, n)
	for i := range dims {
		dims[i] = len(forms)
	}
	lib.Product(dims, func(idx []int) {
		fs := make([]string, n)
		for i, x := range idx {
			fs[i] = forms[x]
		}
		f(fs)
	})
}

// enumerate yields every history of the tier, simplest first.
func enumerate(tier string) []History {
	var out []History
	add := func(h History) { h.ID = len(out); out = append(out, h) }
	type hj struct{ pos, via string }
	hjs := []hj{{"none", ""}, {"req", "conn"}, {"req", "brw"}, {"res", "conn"}, {"res", "brw"}}
	thorough := tier == "thorough"
	maxN := 2
	if thorough {
		maxN = 4
	}
	for n := 1; n <= maxN; n++ {
		for _, hk := range hjs {
			for _, l := range listeners {
				for _, in := range inners {
					if tlsListener(l) && in == "plain" {
						continue // a TLS listener cannot be spoken to in cleartext: not a tunnel at all
					}
					for _, au := range coreAuths {
						formSeqs(n, func(fs []string) {
							add(History{Space: "core", Listener: l, Hijack: hk.pos, Via: hk.via,
								Conns: []Script{{Phases: []Phase{ph(au.Authority, in, fs)}, TLS: "default", SNI: "same", Auth: au.Label}}})
						})
					}
				}
			}
		}
	}
	// nested space
	nestedN := 2
	if thorough {
		nestedN = 3
	}
	for n := 1; n <= nestedN; n++ {
		for _, hk := range hjs {
			for _, l := range []string{"transparent", "tls_over_shaped", "shaped_over_tls"} {
				for _, outer := range []string{"default", "tls12"} {
					formSeqs(n, func(fs []string) {
						add(History{Space: "nested", Listener: l, Outer: outer, Hijack: hk.pos, Via: hk.via,
							Conns: []Script{{Phases: []Phase{ph(hostName+":443", "tls", fs)}, TLS: "default", SNI: "same", Auth: "443"}}})
					})
				}
			}
		}
	}
	if !thorough {
		// reduced config space: authority spellings x host-less requests x TLS/plaintext tunnel
		for n := 1; n <= 2; n++ {
			for _, l := range []string{"plain", "shaped"} {
				for _, in := range inners {
					for _, au := range configAuths {
						if au.Label != "name_8443" && au.Label != "ipv6_443" && au.Label != "ipv6_8443" {
							continue
						}
						formSeqs(n, func(fs []string) {
							if !strings.Contains(strings.Join(fs, ","), "nohost") {
								return
							}
							add(History{Space: "config", Listener: l, Hijack: "none",
								Conns: []Script{{Phases: []Phase{ph(au.Authority, in, fs)}, TLS: "default", SNI: "same", Auth: au.Label}}})
						})
					}
				}
			}
		}
		// reduced pair space: two tunnels on two connections, one request each, interleaved
		for _, l := range listeners {
			for _, inA := range inners {
				for _, inB := range inners {
					if tlsListener(l) && (inA == "plain" || inB == "plain") {
						continue
					}
					formSeqs(1, func(fa []string) {
						formSeqs(1, func(fb []string) {
							add(History{Space: "pair", Listener: l, Hijack: "none", Conns: []Script{
								{Phases: []Phase{ph(hostName+":443", inA, fa)}, TLS: "default", SNI: "same", Auth: "443"},
								{Phases: []Phase{ph(hostName+":8443", inB, fb)}, TLS: "default", SNI: "same", Auth: "8443"},
							}})
						})
					})
				}
			}
		}
		// reduced reconnect space: a first tunnel (plaintext or TLS, one request), then a second CONNECT to another
		// authority on the same connection carrying one host-less request (each spelling) and one origin-form request
		for _, l := range []string{"plain", "shaped"} {
			for _, in1 := range []string{"plain", "tls"} {
				for _, in2 := range inners {
					if in1 == "tls" && in2 == "plain" {
						continue
					}
					for _, spell := range []string{"", "http11_nohdr", "http11_empty"} {
						for _, f2 := range [][]string{{"nohost", "origin"}, {"origin", "nohost"}} {
							p2 := ph(hostName+":8443", in2, f2)
							p2.Spell = spell
							add(History{Space: "reconnect", Listener: l, Hijack: "none", Conns: []Script{
								{Phases: []Phase{ph(hostName+":443", in1, []string{"origin"}), p2}, TLS: "default", SNI: "same", Auth: "443"},
							}})
						}
					}
				}
			}
		}
		extra(false, add)
		return out
	}
	// config space
	for n := 1; n <= 2; n++ {
		for _, hk := range hjs {
			for _, l := range listeners {
				for _, in := range inners {
					if tlsListener(l) && in == "plain" {
						continue
					}
					for _, au := range configAuths {
						for _, sni := range []string{"same", "other"} {
							for _, prof := range profiles {
								for _, early := range []bool{false, true} {
									if in == "plain" && (sni != "same" || prof != "default") {
										continue // no TLS client in a plaintext tunnel
									}
									if tlsListener(l) && (early || (isIP(au.Authority) && sni == "same")) {
										continue // no CONNECT head to coalesce with; a transparent TLS listener needs SNI
									}
									if (au.Label == "name_443" || au.Label == "name_8443") && sni == "same" && prof == "default" && !early {
										continue // exactly the core history
									}
									formSeqs(n, func(fs []string) {
										add(History{Space: "config", Listener: l, Hijack: hk.pos, Via: hk.via,
											Conns: []Script{{Phases: []Phase{ph(au.Authority, in, fs)}, TLS: prof, SNI: sni, Early: early, Auth: au.Label}}})
									})
								}
							}
						}
					}
				}
			}
		}
	}
	// pair space
	hjs3 := []hj{{"none", ""}, {"req", "conn"}, {"res", "brw"}}
	for n := 1; n <= 2; n++ {
		for _, hk := range hjs3 {
			for _, l := range listeners {
				for _, inA := range inners {
					for _, inB := range inners {
						if tlsListener(l) && (inA == "plain" || inB == "plain") {
							continue
						}
						formSeqs(n, func(fa []string) {
							formSeqs(n, func(fb []string) {
								add(History{Space: "pair", Listener: l, Hijack: hk.pos, Via: hk.via, Conns: []Script{
									{Phases: []Phase{ph(hostName+":443", inA, fa)}, TLS: "default", SNI: "same", Auth: "443"},
									{Phases: []Phase{ph(hostName+":8443", inB, fb)}, TLS: "default", SNI: "same", Auth: "8443"},
								}})
							})
						})
					}
				}
			}
		}
	}
	// pair space, unequal lengths: connection 0 is hijacked at its only request while connection 1 still has two to go
	for _, hk := range hjs3[1:] {
		for _, l := range listeners {
			for _, inA := range inners {
				for _, inB := range inners {
					if tlsListener(l) && (inA == "plain" || inB == "plain") {
						continue
					}
					formSeqs(1, func(fa []string) {
						formSeqs(2, func(fb []string) {
							add(History{Space: "pair", Listener: l, Hijack: hk.pos, Via: hk.via, Conns: []Script{
								{Phases: []Phase{ph(hostName+":443", inA, fa)}, TLS: "default", SNI: "same", Auth: "443"},
								{Phases: []Phase{ph(hostName+":8443", inB, fb)}, TLS: "default", SNI: "same", Auth: "8443"},
							}})
						})
					})
				}
			}
		}
	}
	// reconnect space
	for n1 := 1; n1 <= 2; n1++ {
		for n2 := 1; n2 <= 2; n2++ {
			for _, hk := range hjs3 {
				for _, l := range []string{"plain", "shaped"} {
					for _, in1 := range []string{"plain", "tls"} {
						for _, in2 := range inners {
							if in1 == "tls" && in2 == "plain" {
								continue // plaintext inside a tunnel that is itself inside TLS: not decided by the statement
							}
							formSeqs(n1, func(f1 []string) {
								formSeqs(n2, func(f2 []string) {
									add(History{Space: "reconnect", Listener: l, Hijack: hk.pos, Via: hk.via, Conns: []Script{
										{Phases: []Phase{ph(hostName+":443", in1, f1), ph(hostName+":8443", in2, f2)}, TLS: "default", SNI: "same", Auth: "443"},
									}})
								})
							})
						}
					}
				}
			}
		}
	}
	extra(true, add)
	return out
}

// combos are the (listener, tunnel content) pairs that exist.
func combos(ls []string) [][2]string {
	var out [][2]string
	for _, l := range ls {
		for _, in := range inners {
			if tlsListener(l) && in == "plain" {
				continue
			}
			out = append(out, [2]string{l, in})
		}
	}
	return out
}

// extra enumerates the spaces added by the audit (reduced in the quick tier).
func extra(thorough bool, add func(History)) {
	one := func(p Phase, label string) []Script {
		return []Script{{Phases: []Phase{p}, TLS: "default", SNI: "same", Auth: label}}
	}
	// hostless: the other spellings of a request that names no host
	maxN := 2
	if thorough {
		maxN = 3
	}
	for n := 1; n <= maxN; n++ {
		for _, c := range combos(listeners) {
			for _, au := range coreAuths {
				for _, spell := range []string{"http11_nohdr", "http11_empty"} {
					seqsOver([]string{"nohost", "origin", "abs_http"}, n, func(fs []string) {
						if !contains(fs, "nohost") {
							return
						}
						p := ph(au.Authority, c[1], fs)
						p.Spell = spell
						add(History{Space: "hostless", Listener: c[0], Hijack: "none", Conns: one(p, au.Label)})
					})
				}
			}
		}
	}
	// traffic: request bodies, Expect: 100-continue, large requests and responses, pipelining
	kindSeqs := [][]string{{"get", "post_cl"}, {"post_chunked", "get"}, {"post_100", "post_100"}}
	ls, resps, tforms := []string{"plain", "shaped_over_tls"}, []string{"", "cl5000", "chunked40000"}, []string{"origin"}
	if thorough {
		kindSeqs = nil
		seqsOver([]string{"get", "post_cl", "post_chunked", "post_100"}, 2, func(ks []string) { kindSeqs = append(kindSeqs, ks) })
		ls, resps, tforms = listeners, []string{"", "cl5000", "cl40000", "chunked40000"}, []string{"origin", "abs_http"}
	}
	for _, c := range combos(ls) {
		for _, early := range []bool{false, true} {
			if early && (tlsListener(c[0]) || !thorough) {
				continue
			}
			for _, ks := range kindSeqs {
				for _, pad := range []int{0, 5000} {
					for _, resp := range resps {
						for _, pipe := range []bool{false, true} {
							for _, f := range tforms {
								p := ph(hostName+":443", c[1], []string{f, f})
								p.Kinds, p.Pad, p.Resp = ks, pad, resp
								sc := one(p, "443")
								sc[0].Pipelined, sc[0].Early = pipe, early
								add(History{Space: "traffic", Listener: c[0], Hijack: "none", Conns: sc})
							}
						}
					}
				}
			}
		}
	}
	// the remaining spaces use every form sequence of length 1 (quick) or 1..2 (thorough)
	maxN = 1
	if thorough {
		maxN = 2
	}
	for n := 1; n <= maxN; n++ {
		formSeqs(n, func(fs []string) {
			// upfail: the origin cannot be reached over TLS; the request must not go out in cleartext instead
			for _, l := range listeners {
				for _, om := range []string{"badcert", "reset"} {
					add(History{Space: "upfail", Listener: l, Hijack: "none", Origin: om, Conns: one(ph(hostName+":443", "tls", fs), "443")})
				}
			}
			// hsfail: the client rejects the forged certificate, then closes or goes on in plaintext
			for _, l := range []string{"plain", "shaped"} {
				// (a client that goes on in cleartext on the same connection is not enumerated: whether its bytes reach the
				// proxy's HTTP reader or die in the failed tls.Conn's read buffer depends on segment timing)
				for _, after := range []string{"close"} {
					for _, prof := range []string{"default", "tls12"} {
						sc := one(ph(hostName+":443", "tls", fs), "443")
						sc[0].Untrusting, sc[0].After, sc[0].TLS = true, after, prof
						add(History{Space: "hsfail", Listener: l, Hijack: "none", Conns: sc})
					}
				}
			}
			// variant: mitm.Config setters and HTTP/2 configuration with clients that end up speaking HTTP/1.1
			for _, c := range combos(listeners) {
				for _, vp := range [][2]string{{"tuned", "default"}, {"h2_allowed", "default"}, {"h2_allowed", "alpn_http11"}, {"h2_allowed", "tls12"}, {"h2_filtered", "alpn_h2"}, {"h2_filtered", "default"}} {
					if c[1] == "plain" && vp[1] != "default" {
						continue
					}
					sc := one(ph(hostName+":443", c[1], fs), "443")
					sc[0].TLS = vp[1]
					add(History{Space: "variant", Listener: c[0], Hijack: "none", Mitm: vp[0], Conns: sc})
				}
			}
			// downstream: the proxy forwards through a downstream proxy
			for _, c := range combos(listeners) {
				add(History{Space: "downstream", Listener: c[0], Hijack: "none", Downstream: true, Conns: one(ph(hostName+":443", c[1], fs), "443")})
			}
		})
	}
	round7(thorough, add)
	round8(thorough, add)
}

// ---- observations -------------------------------------------------------------------------------------------

// ReqObs is what the recording modifiers saw for one request.
type ReqObs struct {
	Conn       int    `json:"conn"`
	Seq        int    `json:"seq"`
	Method     string `json:"method"`
	Scheme     string `json:"scheme"`
	URLHost    string `json:"url_host"`
	HostHdr    string `json:"host_hdr"`
	HasCtx     bool   `json:"has_ctx"`
	Secure     bool   `json:"secure"`
	TLS        bool   `json:"tls"`
	TLSEKM     string `json:"tls_ekm,omitempty"` // exported keying material: equal on both ends of ONE TLS connection
	TLSDone    bool   `json:"tls_handshake_complete,omitempty"`
	TLSVersion uint16 `json:"tls_version,omitempty"`
	TLSName    string `json:"tls_server_name,omitempty"`
	TLSCipher  uint16 `json:"tls_cipher,omitempty"`
	Session    int    `json:"session"` // index of the distinct *martian.Session objects seen in this history
	SessionID  string `json:"session_id"`
	ResSeen    bool   `json:"res_seen"`
	ResStatus  int    `json:"res_status,omitempty"`
	ResScheme  string `json:"res_scheme,omitempty"`
	ResSecure  bool   `json:"res_secure,omitempty"`
	ResTLS     bool   `json:"res_tls,omitempty"`
	ResSession int    `json:"res_session,omitempty"`

	// Session values: every message stores one value on its session in the request modifier; every later message
	// of the same connection must still find it (request and response modifier), no other connection may.
	Lost      []string `json:"session_values_lost,omitempty"`
	ResLost   []string `json:"session_values_lost_at_response,omitempty"`
	Leaked    []string `json:"session_values_of_other_connections,omitempty"`
	ValuesSet int      `json:"session_values_checked"`
}

// OriginReq is one request the origin received.
type OriginReq struct {
	Conn int    `json:"conn"`
	Seq  int    `json:"seq"`
	TLS  bool   `json:"tls"`
	Host string `json:"host"`
	URI  string `json:"uri"`

	BodyLen int    `json:"body_len"`
	BodySum string `json:"body_sum"`
}

// OriginConn is one connection the origin accepted.
type OriginConn struct {
	TLS   bool   `json:"tls"`
	First string `json:"first_byte"`
	Err   string `json:"err,omitempty"`
}

// ClientRes is what the client read for one request.
type ClientRes struct {
	Seq    int    `json:"seq"`
	Status int    `json:"status"`
	Body   string `json:"body"` // first 200 bytes
	Len    int    `json:"len"`
	Sum    string `json:"sum"`
	Hijack bool   `json:"hijack_marker_header"`
	Err    string `json:"err,omitempty"`
}

// PhaseOut is what the client experienced when opening one tunnel.
type PhaseOut struct {
	Attempted     bool   `json:"attempted"`
	ConnectStatus int    `json:"connect_status,omitempty"`
	ConnectErr    string `json:"connect_err,omitempty"`
	HandshakeErr  string `json:"handshake_err,omitempty"`
	ClientEKM     string `json:"client_ekm,omitempty"`
	TLSVersion    uint16 `json:"tls_version,omitempty"`
	TLSName       string `json:"tls_server_name,omitempty"` // SNI the client sent on this connection
	TLSCipher     uint16 `json:"tls_cipher,omitempty"`
	ALPN          string `json:"alpn,omitempty"`
}

// ConnOut is what one client connection experienced.
type ConnOut struct {
	DialErr     string      `json:"dial_err,omitempty"`
	Outer       *PhaseOut   `json:"outer,omitempty"` // the client's TLS connection to the proxy itself (nested space)
	Phases      []PhaseOut  `json:"phases"`
	Client      []ClientRes `json:"client"`
	AckWriteErr string      `json:"ack_write_err,omitempty"`
}

// HijackObs is what the hijacking modifier experienced.
type HijackObs struct {
	Ran      bool   `json:"ran"`
	Err      string `json:"err,omitempty"`
	ConnType string `json:"conn_type"`
	WriteErr string `json:"write_err,omitempty"`
	Read     string `json:"read"` // what it read back from the client (quoted, max 64 bytes)
	ReadErr  string `json:"read_err,omitempty"`
}

// Outcome is everything observed while running one history.
type Outcome struct {
	H           History      `json:"history"`
	SetupErr    string       `json:"setup_err,omitempty"`
	Crash       string       `json:"crash,omitempty"` // worker process died while running this history
	Hang        bool         `json:"hang,omitempty"`
	Conns       []ConnOut    `json:"conns"`
	Reqs        []ReqObs     `json:"reqs"`
	OriginReqs  []OriginReq  `json:"origin_reqs"`
	OriginConns []OriginConn `json:"origin_conns"`
	Dials       []string     `json:"dials"`
	Down        []DownReq    `json:"downstream,omitempty"`
	Hijack      *HijackObs   `json:"hijack,omitempty"`
}

// ---- per-process environment -----------------------------------------------------------------------------------

type env struct {
	mc         *mitm.Config
	mitmRoots  *x509.CertPool // what the client trusts (the MITM CA)
	originCert tls.Certificate
	originPool *x509.CertPool // what the proxy's transport trusts (the harness origin's certificate)

	// Two TCP listeners live as long as the worker process (one in front of the proxy, one for the origin):
	// tens of thousands of histories with fresh listeners each exhaust the loopback port space.
	front  *hub
	origin *hub
	down   *hub

	ca      *x509.Certificate
	capriv  *rsa.PrivateKey
	mcs     map[string]*mitm.Config // mitm.Config variants, built on first use
	badCert tls.Certificate         // an origin certificate the proxy's transport does NOT trust
}

// mitmFor returns the mitm.Config variant a history asks for (all share the CA).
func (e *env) mitmFor(v string) (*mitm.Config, error) {
	if v == "" {
		return e.mc, nil
	}
	if mc, ok := e.mcs[v]; ok {
		return mc, nil
	}
	mc, err := mitm.NewConfig(e.ca, e.capriv)
	if err != nil {
		return nil, err
	}
	switch v {
	case "tuned": // every setter that does not change what the property talks about
		mc.SkipTLSVerify(true)
		mc.SetValidity(30 * time.Minute)
		mc.SetOrganization("C05 Tuned Org")
		mc.SetHandshakeErrorCallback(func(*http.Request, error) {})
	case "h2_allowed": // HTTP/2 support configured and allowed for every host
		mc.SetH2Config(&h2.Config{AllowedHostsFilter: func(string) bool { return true }, RootCAs: e.originPool})
	case "h2_filtered": // HTTP/2 support configured but allowed for no host
		mc.SetH2Config(&h2.Config{AllowedHostsFilter: func(string) bool { return false }, RootCAs: e.originPool})
	default:
		return nil, fmt.Errorf("unknown mitm variant %q", v)
	}
	e.mcs[v] = mc
	return mc, nil
}

// hub is a persistent TCP acceptor whose connections are handed to whoever is attached at the moment.
type hub struct {
	l   net.Listener
	mu  sync.Mutex
	cur *hubListener
}

func newHub() (*hub, error) {
	l, err := net.Listen("tcp", "127.0.0.1:0")
	if err != nil {
		return nil, err
	}
	h := &hub{l: l}
	go func() {
		for {
			c, err := l.Accept()
			if err != nil {
				return
			}
			h.mu.Lock()
			cur := h.cur
			h.mu.Unlock()
			if cur == nil {
				c.Close()
				continue
			}
			select {
			case cur.ch <- c:
			case <-cur.closed:
				c.Close()
			}
		}
	}()
	return h, nil
}

// hubListener is the net.Listener one history sees: real *net.TCPConn connections, Close detaches it.
type hubListener struct {
	h      *hub
	ch     chan net.Conn
	closed chan struct{}
	once   sync.Once
}

func (h *hub) attach() *hubListener {
	hl := &hubListener{h: h, ch: make(chan net.Conn, 16), closed: make(chan struct{})}
	h.mu.Lock()
	h.cur = hl
	h.mu.Unlock()
	return hl
}

func (l *hubListener) Accept() (net.Conn, error) {
	select {
	case c := <-l.ch:
		return c, nil
	case <-l.closed:
		return nil, net.ErrClosed
	}
}

func (l *hubListener) Close() error {
	l.once.Do(func() {
		l.h.mu.Lock()
		if l.h.cur == l {
			l.h.cur = nil
		}
		l.h.mu.Unlock()
		close(l.closed)
		for {
			select {
			case c := <-l.ch:
				c.Close()
			default:
				return
			}
		}
	})
	return nil
}

func (l *hubListener) Addr() net.Addr { return l.h.l.Addr() }

func (e *env) resetHubs() error {
	if e.front != nil {
		e.front.l.Close()
	}
	if e.origin != nil {
		e.origin.l.Close()
	}
	if e.down != nil {
		e.down.l.Close()
	}
	var err error
	if e.front, err = newHub(); err != nil {
		return err
	}
	if e.down, err = newHub(); err != nil {
		return err
	}
	e.origin, err = newHub()
	return err
}

// The parent generates the MITM CA once (mitm.NewAuthority) and hands it to the worker processes through two
// files, which saves one RSA key generation per worker start.
func writeAuthority(dir string) error {
	ca, priv, err := mitm.NewAuthority("c05.verif.proxy", "C05 Verif Authority", 2*time.Hour)
	if err != nil {
		return err
	}
	if err := os.WriteFile(filepath.Join(dir, "ca.der"), ca.Raw, 0o600); err != nil {
		return err
	}
	return os.WriteFile(filepath.Join(dir, "ca.key"), x509.MarshalPKCS1PrivateKey(priv), 0o600)
}

func loadAuthority() (*x509.Certificate, *rsa.PrivateKey, error) {
	if dir := os.Getenv("VERIF_C05_CA"); dir != "" {
		der, err1 := os.ReadFile(filepath.Join(dir, "ca.der"))
		kb, err2 := os.ReadFile(filepath.Join(dir, "ca.key"))
		if err1 == nil && err2 == nil {
			ca, err := x509.ParseCertificate(der)
			if err != nil {
				return nil, nil, err
			}
			priv, err := x509.ParsePKCS1PrivateKey(kb)
			return ca, priv, err
		}
	}
	return mitm.NewAuthority("c05.verif.proxy", "C05 Verif Authority", 2*time.Hour)
}

func newEnv() (*env, error) {
	ca, priv, err := loadAuthority()
	if err != nil {
		return nil, err
	}
	mc, err := mitm.NewConfig(ca, priv)
	if err != nil {
		return nil, err
	}
	e := &env{mc: mc, mitmRoots: x509.NewCertPool(), originPool: x509.NewCertPool(), ca: ca, capriv: priv, mcs: map[string]*mitm.Config{}}
	e.mitmRoots.AddCert(ca)

	key, err := ecdsa.GenerateKey(elliptic.P256(), rand.Reader)
	if err != nil {
		return nil, err
	}
	tmpl := &x509.Certificate{
		SerialNumber:          big.NewInt(5),
		Subject:               pkix.Name{CommonName: hostName, Organization: []string{"C05 harness origin"}},
		NotBefore:             time.Now().Add(-time.Hour),
		NotAfter:              time.Now().Add(24 * time.Hour),
		KeyUsage:              x509.KeyUsageDigitalSignature | x509.KeyUsageCertSign,
		ExtKeyUsage:           []x509.ExtKeyUsage{x509.ExtKeyUsageServerAuth},
		BasicConstraintsValid: true,
		IsCA:                  true,
		DNSNames:              []string{hostName},
		IPAddresses:           []net.IP{net.ParseIP("127.0.0.1"), net.ParseIP("::1")},
	}
	raw, err := x509.CreateCertificate(rand.Reader, tmpl, tmpl, key.Public(), key)
	if err != nil {
		return nil, err
	}
	leaf, err := x509.ParseCertificate(raw)
	if err != nil {
		return nil, err
	}
	e.originCert = tls.Certificate{Certificate: [][]byte{raw}, PrivateKey: key, Leaf: leaf}
	e.originPool.AddCert(leaf)
	// same names, another self-signed key pair that nobody trusts
	key2, err := ecdsa.GenerateKey(elliptic.P256(), rand.Reader)
	if err != nil {
		return nil, err
	}
	tmpl.SerialNumber = big.NewInt(6)
	raw2, err := x509.CreateCertificate(rand.Reader, tmpl, tmpl, key2.Public(), key2)
	if err != nil {
		return nil, err
	}
	e.badCert = tls.Certificate{Certificate: [][]byte{raw2}, PrivateKey: key2}
	return e, e.resetHubs()
}

// bufConn is a net.Conn whose reads go through a bufio.Reader (already-buffered bytes are not lost).
type bufConn struct {
	net.Conn
	br *bufio.Reader
}

func (c *bufConn) Read(p []byte) (int, error) { return c.br.Read(p) }

// earlyConn lets a TLS client start its handshake before the CONNECT response has arrived: the first Write
// (the ClientHello) is sent in one segment together with the CONNECT head, the first Read consumes the CONNECT
// response.
type earlyConn struct {
	net.Conn
	br     *bufio.Reader
	head   []byte
	got    bool
	status int
	err    string
}

func (c *earlyConn) Write(p []byte) (int, error) {
	if c.head == nil {
		return c.Conn.Write(p)
	}
	b := append(append([]byte(nil), c.head...), p...)
	hl := len(c.head)
	c.head = nil
	n, err := c.Conn.Write(b)
	if n -= hl; n < 0 {
		n = 0
	}
	return n, err
}

func (c *earlyConn) Read(p []byte) (int, error) {
	if !c.got {
		res, err := http.ReadResponse(c.br, &http.Request{Method: "CONNECT"})
		if err != nil {
			c.err = "read CONNECT response: " + err.Error()
			return 0, err
		}
		c.got = true
		c.status = res.StatusCode
		if res.StatusCode != 200 {
			return 0, fmt.Errorf("CONNECT answered %d", res.StatusCode)
		}
	}
	return c.br.Read(p)
}

// ---- origin ----------------------------------------------------------------------------------------------------

type origin struct {
	l      net.Listener
	tlsCfg *tls.Config
	mode   string // "" | badcert | reset
	mu     sync.Mutex
	reqs   []OriginReq
	conns  []OriginConn
	open   []net.Conn
}

func newOrigin(e *env, mode string) (*origin, error) {
	l := e.origin.attach()
	o := &origin{l: l, mode: mode, tlsCfg: &tls.Config{Certificates: []tls.Certificate{e.originCert}}}
	if mode == "badcert" {
		o.tlsCfg = &tls.Config{Certificates: []tls.Certificate{e.badCert}}
	}
	go func() {
		for {
			c, err := l.Accept()
			if err != nil {
				return
			}
			o.mu.Lock()
			o.open = append(o.open, c)
			o.mu.Unlock()
			go o.serve(c)
		}
	}()
	return o, nil
}

func (o *origin) close() {
	o.l.Close()
	o.mu.Lock()
	for _, c := range o.open {
		c.Close()
	}
	o.mu.Unlock()
}

func hdrInt(h http.Header, k string) int {
	n, err := strconv.Atoi(h.Get(k))
	if err != nil {
		return -1
	}
	return n
}

func (o *origin) serve(c net.Conn) {
	defer c.Close()
	c.SetDeadline(time.Now().Add(2 * time.Minute))
	br := bufio.NewReader(c)
	b, err := br.Peek(1)
	if err != nil {
		return // dialled and dropped without a byte: says nothing about TLS vs cleartext
	}
	isTLS := b[0] == 0x16
	o.mu.Lock()
	ci := len(o.conns)
	o.conns = append(o.conns, OriginConn{TLS: isTLS, First: fmt.Sprintf("0x%02x", b[0])})
	o.mu.Unlock()
	kind := "clear"
	var rw net.Conn = &bufConn{c, br}
	if isTLS && o.mode == "reset" {
		return // the origin hangs up on the ClientHello
	}
	if isTLS {
		kind = "tls"
		tc := tls.Server(rw, o.tlsCfg)
		if err := tc.Handshake(); err != nil {
			o.mu.Lock()
			o.conns[ci].Err = "origin handshake: " + err.Error()
			o.mu.Unlock()
			return
		}
		rw = tc
		br = bufio.NewReader(tc)
	}
	for {
		req, err := http.ReadRequest(br)
		if err != nil {
			return
		}
		if strings.EqualFold(req.Header.Get("Expect"), "100-continue") {
			io.WriteString(rw, "HTTP/1.1 100 Continue\r\n\r\n")
		}
		got, _ := io.ReadAll(req.Body)
		conn, seq := hdrInt(req.Header, "X-C05-Conn"), hdrInt(req.Header, "X-C05-Seq")
		o.mu.Lock()
		o.reqs = append(o.reqs, OriginReq{Conn: conn, Seq: seq, TLS: isTLS, Host: req.Host, URI: req.RequestURI, BodyLen: len(got), BodySum: sum(string(got))})
		o.mu.Unlock()
		resp := req.Header.Get("X-C05-Resp")
		body := respBody(kind, resp, conn, seq)
		if resp == "chunked40000" {
			fmt.Fprintf(rw, "HTTP/1.1 200 OK\r\nContent-Type: text/plain\r\nTransfer-Encoding: chunked\r\nX-C05-Origin: %s\r\n\r\n", kind)
			for _, part := range []string{body[:100], body[100:20000], body[20000:]} {
				fmt.Fprintf(rw, "%x\r\n%s\r\n", len(part), part)
			}
			io.WriteString(rw, "0\r\n\r\n")
			continue
		}
		fmt.Fprintf(rw, "HTTP/1.1 200 OK\r\nContent-Type: text/plain\r\nContent-Length: %d\r\nX-C05-Origin: %s\r\n\r\n%s", len(body), kind, body)
	}
}

// DownReq is one request the harness downstream proxy received from martian's transport.
type DownReq struct {
	Method string `json:"method"`
	Target string `json:"target"`
	First  string `json:"first_tunnel_byte,omitempty"` // CONNECT: first byte sent through the tunnel
}

// downstream is a minimal HTTP proxy (CONNECT tunnels and cleartext forwarding) in front of the origin.
type downstream struct {
	l      net.Listener
	origin string
	mu     sync.Mutex
	log    []DownReq
	open   []net.Conn
}

func newDownstream(e *env, originAddr string) *downstream {
	d := &downstream{l: e.down.attach(), origin: originAddr}
	go func() {
		for {
			c, err := d.l.Accept()
			if err != nil {
				return
			}
			d.mu.Lock()
			d.open = append(d.open, c)
			d.mu.Unlock()
			go d.serve(c)
		}
	}()
	return d
}

func (d *downstream) close() {
	d.l.Close()
	d.mu.Lock()
	for _, c := range d.open {
		c.Close()
	}
	d.mu.Unlock()
}

func (d *downstream) serve(c net.Conn) {
	defer c.Close()
	c.SetDeadline(time.Now().Add(2 * time.Minute))
	br := bufio.NewReader(c)
	for {
		req, err := http.ReadRequest(br)
		if err != nil {
			return
		}
		oc, err := net.DialTimeout("tcp", d.origin, dialTimeout)
		if err != nil {
			io.WriteString(c, "HTTP/1.1 502 Bad Gateway\r\nContent-Length: 0\r\n\r\n")
			return
		}
		d.mu.Lock()
		d.open = append(d.open, oc)
		li := len(d.log)
		d.log = append(d.log, DownReq{Method: req.Method, Target: req.RequestURI})
		d.mu.Unlock()
		if req.Method == "CONNECT" {
			io.WriteString(c, "HTTP/1.1 200 Connection established\r\n\r\n")
			if b, err := br.Peek(1); err == nil {
				d.mu.Lock()
				d.log[li].First = fmt.Sprintf("0x%02x", b[0])
				d.mu.Unlock()
			}
			go func() { io.Copy(oc, br); oc.Close() }()
			io.Copy(c, oc)
			return
		}
		// cleartext request in absolute-form: forward it as it is to the origin
		req.Write(oc)
		res, err := http.ReadResponse(bufio.NewReader(oc), req)
		if err != nil {
			oc.Close()
			return
		}
		res.Write(c)
		oc.Close()
	}
}

func originBody(kind string, conn, seq int) string {
	return fmt.Sprintf("origin:%s:c%d:s%d\n", kind, conn, seq)
}

// ---- recording / hijacking modifier ----------------------------------------------------------------------------

type recorder struct {
	h        History
	hjSeq    int // seq of the request whose modifier hijacks (connection 0), -1 = none
	mu       sync.Mutex
	reqs     []ReqObs
	sessions []*martian.Session // kept alive so that pointer identity is meaningful
	hijack   *HijackObs
	hjDone   chan struct{}
	stored   map[int][]int // per connection: seqs of the messages that stored their session value so far
}

func valKey(conn, seq int) string { return fmt.Sprintf("c05.value.c%d.s%d", conn, seq) }
func valOf(conn, seq int) string  { return fmt.Sprintf("stored-by-c%d-s%d", conn, seq) }

// checkValues looks up, on session s, the values stored by earlier messages (seq < upTo, or <= upTo if incl) of
// connection conn, and the values of all other connections. Caller holds m.mu.
func (m *recorder) checkValues(s *martian.Session, conn, upTo int, incl bool) (lost, leaked []string, n int) {
	for c, seqs := range m.stored {
		for _, q := range seqs {
			v, ok := s.Get(valKey(c, q))
			if c == conn {
				if q < upTo || (incl && q == upTo) {
					n++
					if !ok || v != valOf(c, q) {
						lost = append(lost, valKey(c, q))
					}
				}
			} else if ok {
				leaked = append(leaked, valKey(c, q))
			}
		}
	}
	sort.Strings(lost)
	sort.Strings(leaked)
	return
}

func (m *recorder) sessionIndex(s *martian.Session) int {
	for i, x := range m.sessions {
		if x == s {
			return i
		}
	}
	m.sessions = append(m.sessions, s)
	return len(m.sessions) - 1
}

func ekmOf(cs *tls.ConnectionState) (s string) {
	defer func() {
		if r := recover(); r != nil { // a ConnectionState that does not stem from a real handshake
			s = fmt.Sprint("ekm-unavailable: ", r)
		}
	}()
	b, err := cs.ExportKeyingMaterial(ekmLabel, nil, 16)
	if err != nil {
		return "ekm-error:" + err.Error()
	}
	return hex.EncodeToString(b)
}

func (m *recorder) ModifyRequest(req *http.Request) error {
	ob := ReqObs{Conn: hdrInt(req.Header, "X-C05-Conn"), Seq: hdrInt(req.Header, "X-C05-Seq"), Method: req.Method,
		Scheme: req.URL.Scheme, URLHost: req.URL.Host, HostHdr: req.Host, Session: -1, ResSession: -1}
	ctx := martian.NewContext(req)
	m.mu.Lock()
	if ctx != nil && ctx.Session() != nil {
		s := ctx.Session()
		ob.HasCtx = true
		ob.Secure = s.IsSecure()
		ob.Session = m.sessionIndex(s)
		ob.SessionID = s.ID()
		if ob.Conn >= 0 && ob.Seq >= 0 {
			ob.Lost, ob.Leaked, ob.ValuesSet = m.checkValues(s, ob.Conn, ob.Seq, false)
			s.Set(valKey(ob.Conn, ob.Seq), valOf(ob.Conn, ob.Seq))
			m.stored[ob.Conn] = append(m.stored[ob.Conn], ob.Seq)
		}
	}
	if req.TLS != nil {
		ob.TLS = true
		ob.TLSDone = req.TLS.HandshakeComplete
		ob.TLSVersion = req.TLS.Version
		ob.TLSName = req.TLS.ServerName
		ob.TLSCipher = req.TLS.CipherSuite
		ob.TLSEKM = ekmOf(req.TLS)
	}
	m.reqs = append(m.reqs, ob)
	m.mu.Unlock()
	if m.h.Hijack == "req" && ob.Conn == 0 && ob.Seq == m.hjSeq {
		m.doHijack(ctx)
	}
	return nil
}

func (m *recorder) ModifyResponse(res *http.Response) error {
	req := res.Request
	if req == nil {
		return nil
	}
	conn, seq := hdrInt(req.Header, "X-C05-Conn"), hdrInt(req.Header, "X-C05-Seq")
	ctx := martian.NewContext(req)
	m.mu.Lock()
	for i := range m.reqs {
		if m.reqs[i].Conn == conn && m.reqs[i].Seq == seq && !m.reqs[i].ResSeen {
			ob := &m.reqs[i]
			ob.ResSeen = true
			ob.ResStatus = res.StatusCode
			ob.ResScheme = req.URL.Scheme
			ob.ResTLS = req.TLS != nil
			if ctx != nil && ctx.Session() != nil {
				ob.ResSecure = ctx.Session().IsSecure()
				ob.ResSession = m.sessionIndex(ctx.Session())
				var leaked []string
				ob.ResLost, leaked, _ = m.checkValues(ctx.Session(), conn, seq, true)
				ob.Leaked = append(ob.Leaked, leaked...)
			}
			break
		}
	}
	m.mu.Unlock()
	if m.h.Hijack == "res" && conn == 0 && seq == m.hjSeq && req.Method != "CONNECT" {
		m.doHijack(ctx)
	}
	return nil
}

// doHijack takes the connection over, writes a small HTTP response carrying the marker and reads the client's
// acknowledgement line, all through the handle selected by the history (the net.Conn or the ReadWriter).
func (m *recorder) doHijack(ctx *martian.Context) {
	ho := &HijackObs{Ran: true}
	defer func() {
		m.mu.Lock()
		m.hijack = ho
		m.mu.Unlock()
		close(m.hjDone)
	}()
	if ctx == nil {
		ho.Err = "no martian context for the request"
		return
	}
	conn, brw, err := ctx.Session().Hijack()
	if err != nil {
		ho.Err = err.Error()
		return
	}
	ho.ConnType = fmt.Sprintf("%T", conn)
	if tc, ok := conn.(*trafficshape.Conn); ok {
		ho.ConnType += fmt.Sprintf("(%T)", tc.GetWrappedConn())
	}
	conn.SetDeadline(time.Now().Add(ioDeadline))
	msg := fmt.Sprintf("HTTP/1.1 200 OK\r\nContent-Length: %d\r\nX-C05-Hijack: 1\r\n\r\n%s", len(marker), marker)
	var r io.Reader
	if m.h.Via == "conn" {
		_, err = conn.Write([]byte(msg))
		r = conn
	} else {
		if _, err = brw.WriteString(msg); err == nil {
			err = brw.Flush()
		}
		r = brw
	}
	if err != nil {
		ho.WriteErr = err.Error()
	}
	var got []byte
	one := make([]byte, 1)
	for len(got) < 64 {
		n, err := r.Read(one)
		if n > 0 {
			got = append(got, one[0])
			if one[0] == '\n' {
				break
			}
		}
		if err != nil {
			ho.ReadErr = err.Error()
			break
		}
	}
	ho.Read = strconv.Quote(string(got))
}

// ---- scripted client -------------------------------------------------------------------------------------------

// fill returns exactly n bytes of a deterministic pattern.
func fill(tag string, n int) string {
	if n <= 0 {
		return ""
	}
	return strings.Repeat(tag, n/len(tag)+1)[:n]
}

func sum(s string) string {
	h := sha1.Sum([]byte(s))
	return hex.EncodeToString(h[:8])
}

// reqBody is the (de-framed) body of a request of the given kind.
func reqBody(kind string, conn, seq int) string {
	tag := fmt.Sprintf("q%d.%d;", conn, seq)
	switch kind {
	case "post_cl", "post_chunked":
		return fill(tag, 5000) // > the 4096-byte bufio buffers
	case "post_100":
		return fill(tag, 200)
	}
	return ""
}

// respBody is what the origin answers: the small identifying line, padded to the size the request asked for.
func respBody(kind, resp string, conn, seq int) string {
	base := originBody(kind, conn, seq)
	n := 0
	switch resp {
	case "cl5000":
		n = 5000 // > bufio buffer
	case "cl40000", "chunked40000":
		n = 40000 // > 2 TLS records
	}
	if n <= len(base) {
		return base
	}
	return base + fill(fmt.Sprintf("r%d.%d;", conn, seq), n-len(base))
}

// requestBytes renders request idx (1-based) of a tunnel as the client sends it.
func requestBytes(ph Phase, idx, conn, seq int) string {
	form, kind := ph.Forms[idx-1], ph.kind(idx)
	host := hostGiven(ph.Authority)
	path := fmt.Sprintf("/c%ds%d", conn, seq)
	method := "GET"
	if kind != "get" {
		method = "POST"
	}
	var target, proto, hostLine string
	proto, hostLine = "HTTP/1.1", "Host: "+host+"\r\n"
	switch form {
	case "origin":
		target = path
	case "abs_http":
		target = "http://" + host + path
	case "abs_https":
		target = "https://" + host + path
	case "nohost":
		target = path
		switch ph.Spell {
		case "http11_nohdr": // HTTP/1.1 request line, no Host header at all
			hostLine = ""
		case "http11_empty": // HTTP/1.1 with an empty Host header
			hostLine = "Host: \r\n"
		default: // HTTP/1.0 origin-form without a Host header; keep-alive so that later requests can follow it
			proto, hostLine = "HTTP/1.0", "Connection: keep-alive\r\n"
		}
	default:
		panic("bad form " + form)
	}
	head := fmt.Sprintf("%s %s %s\r\n%sX-C05-Conn: %d\r\nX-C05-Seq: %d\r\n", method, target, proto, hostLine, conn, seq)
	if ph.Resp != "" {
		head += "X-C05-Resp: " + ph.Resp + "\r\n"
	}
	if ph.Pad > 0 {
		head += "X-C05-Pad: " + fill("p", ph.Pad) + "\r\n"
	}
	body := reqBody(kind, conn, seq)
	switch kind {
	case "post_cl":
		return head + fmt.Sprintf("Content-Length: %d\r\n\r\n%s", len(body), body)
	case "post_100":
		// the client announces Expect: 100-continue but (as it may) does not wait for the interim response
		return head + fmt.Sprintf("Expect: 100-continue\r\nContent-Length: %d\r\n\r\n%s", len(body), body)
	case "post_chunked":
		return head + fmt.Sprintf("Transfer-Encoding: chunked\r\n\r\n%x\r\n%s\r\n%x\r\n%s\r\n0\r\n\r\n", 3000, body[:3000], len(body)-3000, body[3000:])
	}
	return head + "\r\n"
}

type client struct {
	e        *env
	h        History
	ci       int
	sc       Script
	items    []item
	next     int
	dead     bool
	finished bool
	sent     map[int]bool // requests already written together with the CONNECT head
	mayFail  bool         // the handshake in progress is one the proxy cannot complete: the client goes on afterwards
	raw      net.Conn
	stream   net.Conn
	sbr      *bufio.Reader
	out      *ConnOut
	omu      *sync.Mutex
}

func (c *client) set(f func()) { c.omu.Lock(); f(); c.omu.Unlock() }

func (c *client) open(addr string) {
	raw, err := net.DialTimeout("tcp", addr, dialTimeout)
	if err != nil {
		c.set(func() { c.out.DialErr = "dial proxy: " + err.Error() })
		c.dead = true
		return
	}
	c.raw, c.stream, c.sbr = raw, raw, bufio.NewReader(raw)
	raw.SetDeadline(time.Now().Add(ioDeadline))
	switch {
	case c.h.nestedLike():
		po := &PhaseOut{Attempted: true}
		c.set(func() { c.out.Outer = po })
		cfg := &tls.Config{ServerName: outerSNI, RootCAs: c.e.mitmRoots}
		if c.h.Outer == "tls12" {
			cfg.MinVersion, cfg.MaxVersion = tls.VersionTLS12, tls.VersionTLS12
		}
		c.handshake(po, cfg, raw)
	case !c.h.hasConnect():
		c.set(func() { c.out.Phases[0].Attempted = true })
		c.handshake(&c.out.Phases[0], c.tlsConfig(0), raw)
	}
}

func (c *client) tlsConfig(phase int) *tls.Config {
	name := bareHost(c.sc.Phases[phase].Authority)
	if c.sc.SNI == "other" {
		name = otherSNI
	}
	cfg := &tls.Config{ServerName: name, RootCAs: c.e.mitmRoots}
	if c.sc.Untrusting {
		cfg.RootCAs = x509.NewCertPool() // trusts nobody: the forged certificate is rejected
	}
	applyHSProfile(cfg, c.sc.Phases[phase].HS)
	switch c.sc.TLS {
	case "alpn_http11":
		cfg.NextProtos = []string{"http/1.1"}
	case "alpn_h2":
		cfg.NextProtos = []string{"h2", "http/1.1"}
	case "tls12":
		cfg.MinVersion, cfg.MaxVersion = tls.VersionTLS12, tls.VersionTLS12
	case "tls13":
		cfg.MinVersion, cfg.MaxVersion = tls.VersionTLS13, tls.VersionTLS13
	}
	return cfg
}

func (c *client) handshake(po *PhaseOut, cfg *tls.Config, under net.Conn) bool {
	tc := tls.Client(under, cfg)
	if err := tc.Handshake(); err != nil {
		c.set(func() { po.HandshakeErr = err.Error() })
		if !(c.sc.Untrusting && c.sc.After == "plaintext") && !c.mayFail {
			c.dead = true
		}
		return false
	}
	cs := tc.ConnectionState()
	c.set(func() {
		po.ClientEKM = ekmOf(&cs)
		po.TLSVersion = cs.Version
		po.TLSName = cs.ServerName
		po.TLSCipher = cs.CipherSuite
		po.ALPN = cs.NegotiatedProtocol
	})
	c.stream, c.sbr = tc, bufio.NewReader(tc)
	return true
}

func (c *client) remaining() bool { return !c.dead && c.next < len(c.items) }

// step sends the next message of the script and waits for its answer.
func (c *client) step() {
	it := c.items[c.next]
	c.next++
	c.raw.SetDeadline(time.Now().Add(ioDeadline))
	ph := c.sc.Phases[it.phase]
	if it.connect {
		c.set(func() { c.out.Phases[it.phase].Attempted = true })
		head := fmt.Sprintf("CONNECT %s HTTP/1.1\r\nHost: %s\r\nX-C05-Conn: %d\r\nX-C05-Seq: %d\r\n\r\n", ph.Authority, ph.Authority, c.ci, it.seq)
		early := c.sc.Early && it.phase == 0
		if c.h.Space == "innerplain" || c.h.Space == "hsabort" {
			early = c.sc.Early && ph.Inner == "plain" // round 7: every cleartext tunnel of the connection starts with early data
		}
		if early && ph.Inner == "tls" {
			ec := &earlyConn{Conn: c.stream, br: c.sbr, head: []byte(head)}
			c.handshake(&c.out.Phases[it.phase], c.tlsConfig(it.phase), ec)
			c.set(func() {
				c.out.Phases[it.phase].ConnectStatus = ec.status
				c.out.Phases[it.phase].ConnectErr = ec.err
			})
			return
		}
		msg := head
		if early && c.next < len(c.items) {
			nx := c.items[c.next]
			msg += requestBytes(ph, nx.idx, c.ci, nx.seq)
			c.sent[nx.seq] = true
			if c.sc.Pipelined {
				for _, more := range c.items[c.next+1:] {
					if more.phase != it.phase || more.connect {
						break
					}
					msg += requestBytes(ph, more.idx, c.ci, more.seq)
					c.sent[more.seq] = true
				}
			}
		}
		if _, err := io.WriteString(c.stream, msg); err != nil {
			c.set(func() { c.out.Phases[it.phase].ConnectErr = "write CONNECT: " + err.Error() })
			c.dead = true
			return
		}
		res, err := http.ReadResponse(c.sbr, &http.Request{Method: "CONNECT"})
		if err != nil {
			c.set(func() { c.out.Phases[it.phase].ConnectErr = "read CONNECT response: " + err.Error() })
			c.dead = true
			return
		}
		c.set(func() { c.out.Phases[it.phase].ConnectStatus = res.StatusCode })
		if res.StatusCode != 200 {
			c.dead = true
			return
		}
		if ph.HS != "" {
			c.failingHandshake(it.phase)
		} else if ph.Inner == "tls" {
			c.handshake(&c.out.Phases[it.phase], c.tlsConfig(it.phase), &bufConn{c.stream, c.sbr})
		}
		return
	}
	cr := ClientRes{Seq: it.seq}
	if !c.sent[it.seq] {
		msg := requestBytes(ph, it.idx, c.ci, it.seq)
		if c.sc.Pipelined { // write every remaining request of this tunnel in the same segment
			for _, nx := range c.items[c.next:] {
				if nx.phase != it.phase || nx.connect {
					break
				}
				msg += requestBytes(ph, nx.idx, c.ci, nx.seq)
				c.sent[nx.seq] = true
			}
		}
		if _, err := io.WriteString(c.stream, msg); err != nil {
			cr.Err = "write request: " + err.Error()
			c.set(func() { c.out.Client = append(c.out.Client, cr) })
			c.dead = true
			return
		}
	}
	res, err := http.ReadResponse(c.sbr, &http.Request{Method: "GET"})
	if err != nil {
		cr.Err = "read response: " + err.Error()
		c.set(func() { c.out.Client = append(c.out.Client, cr) })
		c.dead = true
		return
	}
	body, err := io.ReadAll(res.Body)
	cr.Status = res.StatusCode
	cr.Body, cr.Len, cr.Sum = string(body), len(body), sum(string(body))
	if len(cr.Body) > 200 {
		cr.Body = cr.Body[:200] + "..."
	}
	cr.Hijack = res.Header.Get("X-C05-Hijack") == "1"
	if err != nil {
		cr.Err = "read body: " + err.Error()
		c.dead = true
	}
	c.set(func() { c.out.Client = append(c.out.Client, cr) })
}

// finish answers the hijacker (through the TLS session if there is one) and lets it complete.
func (c *client) finish(rec *recorder) {
	if c.raw == nil || c.finished {
		return
	}
	c.finished = true
	if c.ci == 0 && c.h.Hijack != "none" && c.next == len(c.items) {
		c.raw.SetDeadline(time.Now().Add(ioDeadline))
		if _, err := io.WriteString(c.stream, ack); err != nil {
			c.set(func() { c.out.AckWriteErr = err.Error() })
			c.raw.Close()
		}
		select {
		case <-rec.hjDone:
		case <-time.After(ioDeadline + 3*time.Second):
		}
	}
	c.raw.Close()
}

// ---- running one history ---------------------------------------------------------------------------------------

func runHistory(e *env, h History) *Outcome {
	out := &Outcome{H: h, Conns: make([]ConnOut, len(h.Conns))}
	for i := range out.Conns {
		out.Conns[i].Phases = make([]PhaseOut, len(h.Conns[i].Phases))
	}
	var omu sync.Mutex // guards out while the client goroutine may still be running (hang path)
	done := make(chan struct{})

	org, err := newOrigin(e, h.Origin)
	if err != nil {
		out.SetupErr = "origin listen: " + err.Error()
		return out
	}
	defer org.close()

	rec := &recorder{h: h, hjSeq: -1, hjDone: make(chan struct{}), stored: map[int][]int{}}
	if h.Hijack != "none" {
		its := h.items(0)
		rec.hjSeq = its[len(its)-1].seq
	}
	var dmu sync.Mutex
	var dials []string

	mc, err := e.mitmFor(h.Mitm)
	if err != nil {
		out.SetupErr = err.Error()
		return out
	}
	var down *downstream
	if h.Downstream || contains(h.Setup, "down") {
		down = newDownstream(e, org.l.Addr().String())
		defer down.close()
	}
	p := martian.NewProxy()
	p.SetMITM(mc)
	tr, ok := p.GetRoundTripper().(*http.Transport)
	if !ok {
		out.SetupErr = fmt.Sprintf("default round tripper is %T, not *http.Transport", p.GetRoundTripper())
		return out
	}
	tr.TLSClientConfig = &tls.Config{RootCAs: e.originPool}
	tr.TLSHandshakeTimeout = time.Minute // martian's 10 s default trips on an overloaded machine; not part of the property
	// route: the harness's plain-TCP dialer; every address is mapped to the in-process origin (the downstream proxy's
	// own address excepted). tag says which hook was used (round 8).
	route := func(tag string) func(string, string) (net.Conn, error) {
		return func(network, addr string) (net.Conn, error) {
			dmu.Lock()
			dials = append(dials, strings.TrimSpace(tag+" "+network+" "+addr))
			dmu.Unlock()
			if down != nil && addr == down.l.Addr().String() {
				return net.DialTimeout("tcp", addr, dialTimeout)
			}
			return net.DialTimeout("tcp", org.l.Addr().String(), dialTimeout)
		}
	}
	trs := []*http.Transport{tr}
	if h.Space == "upconfig" {
		trs = applySetup(e, h, p, tr, route, down)
	} else {
		p.SetRoundTripper(tr)
		p.SetDial(route(""))
		if down != nil {
			p.SetDownstreamProxy(&url.URL{Scheme: "http", Host: down.l.Addr().String()})
		}
	}
	p.SetRequestModifier(rec)
	p.SetResponseModifier(rec)

	base := e.front.attach()
	var l net.Listener = base
	switch h.Listener {
	case "shaped":
		l = trafficshape.NewListener(base)
	case "transparent":
		l = tls.NewListener(base, mc.TLS())
	case "tls_over_shaped":
		l = tls.NewListener(trafficshape.NewListener(base), mc.TLS())
	case "shaped_over_tls":
		l = trafficshape.NewListener(tls.NewListener(base, mc.TLS()))
	}
	go p.Serve(l)

	go func() {
		defer close(done)
		var cls []*client
		for ci := range h.Conns {
			cls = append(cls, &client{e: e, h: h, ci: ci, sc: h.Conns[ci], items: h.items(ci), sent: map[int]bool{}, out: &out.Conns[ci], omu: &omu})
		}
		for _, c := range cls {
			c.open(base.Addr().String())
		}
		for progress := true; progress; { // interleave the connections message by message
			progress = false
			for _, c := range cls {
				if c.remaining() {
					c.step()
					progress = true
					if !c.remaining() {
						// done (or failed): answer the hijacker if there is one and close, while the other
						// connection carries on
						c.finish(rec)
					}
				}
			}
		}
		for _, c := range cls {
			c.finish(rec)
		}
	}()

	select {
	case <-done:
	case <-time.After(historyDeadline):
		omu.Lock()
		out.Hang = true
		omu.Unlock()
	}

	// Collect observations.
	omu.Lock()
	rec.mu.Lock()
	out.Reqs = append([]ReqObs(nil), rec.reqs...)
	if rec.hijack != nil {
		c := *rec.hijack
		out.Hijack = &c
	}
	rec.mu.Unlock()
	org.mu.Lock()
	out.OriginReqs = append([]OriginReq(nil), org.reqs...)
	out.OriginConns = append([]OriginConn(nil), org.conns...)
	org.mu.Unlock()
	dmu.Lock()
	out.Dials = append([]string(nil), dials...)
	dmu.Unlock()
	if down != nil {
		down.mu.Lock()
		out.Down = append([]DownReq(nil), down.log...)
		down.mu.Unlock()
	}
	b, _ := json.Marshal(out) // deep copy while holding the lock
	omu.Unlock()
	cp := &Outcome{}
	json.Unmarshal(b, cp)

	// Tear down (not judged).
	l.Close()
	closed := make(chan struct{})
	go func() {
		p.Close()
		for _, t := range trs {
			t.CloseIdleConnections()
		}
		close(closed)
	}()
	select {
	case <-closed:
	case <-time.After(2 * time.Second):
	}
	return cp
}

// ---- oracle (from the statement) -------------------------------------------------------------------------------

// V is one violated clause on one history.
type V struct {
	Entry   string            `json:"entry"`
	Symptom string            `json:"symptom"`
	Attrs   map[string]string `json:"attrs"`
	Desc    string            `json:"desc"`
}

type judgeStats struct {
	evals    int64
	requests int64
	obsKeys  map[string]bool

	failedHS  int64 // round 7: tunnels whose TLS handshake failed as scripted
	enclosed  int64 // round 7: requests judged as read from an enclosing TLS connection
	notServed int64 // round 7: CONNECTs after a failed handshake that the proxy did not answer (not a violation)
}

func judge(o *Outcome, st *judgeStats) []V {
	h := o.H
	var vs []V
	addV := func(entry, symptom string, attrs map[string]string, format string, a ...interface{}) {
		vs = append(vs, V{Entry: entry, Symptom: symptom, Attrs: attrs, Desc: h.String() + ": " + fmt.Sprintf(format, a...)})
	}
	check := func() { st.evals++ }
	hist := h.attrs(0, item{})
	E0 := h.entry(0, 0)

	check()
	if o.SetupErr != "" {
		addV(E0, "harness_setup_error", hist, "%s", o.SetupErr)
		return vs
	}
	check()
	if o.Crash != "" {
		addV(E0, "proxy_process_terminated", hist, "the process running the proxy died during this history: %s", o.Crash)
		return vs
	}
	check()
	if o.Hang {
		addV(E0, "history_never_completes", hist, "no completion within %v (per-I/O deadline %v)", historyDeadline, ioDeadline)
	}

	find := func(ci, seq int) *ReqObs {
		for i := range o.Reqs {
			if o.Reqs[i].Conn == ci && o.Reqs[i].Seq == seq {
				return &o.Reqs[i]
			}
		}
		return nil
	}
	count := func(ci, seq int) int {
		n := 0
		for i := range o.Reqs {
			if o.Reqs[i].Conn == ci && o.Reqs[i].Seq == seq {
				n++
			}
		}
		return n
	}
	connSessions := make([]map[int]bool, len(h.Conns))
	// "share one session": what a modifier stored on the session at an earlier message of the connection is still
	// there, and nothing stored on another connection's session is visible.
	values := func(E string, at map[string]string, what string, ob *ReqObs) {
		check()
		if len(ob.Lost) > 0 || len(ob.ResLost) > 0 {
			addV(E, "session_value_lost", at, "%s: values stored on the session (ctx.Session().Set) by earlier messages of this connection are gone: in the request modifier %v, in the response modifier %v (of %d stored)", what, ob.Lost, ob.ResLost, ob.ValuesSet)
		}
		check()
		if len(ob.Leaked) > 0 {
			addV(E, "session_value_leaked_across_connections", at, "%s: the session shows values stored on ANOTHER connection's session: %v", what, ob.Leaked)
		}
	}

	for ci, sc := range h.Conns {
		co := &o.Conns[ci]
		connSessions[ci] = map[int]bool{}
		if co.DialErr != "" {
			addV(E0, "harness_setup_error", hist, "%s", co.DialErr)
			continue
		}
		if h.nestedLike() {
			check()
			if co.Outer == nil || co.Outer.HandshakeErr != "" {
				msg := "not attempted"
				if co.Outer != nil {
					msg = co.Outer.HandshakeErr
				}
				addV(E0, "client_tls_handshake_fails", hist, "outer TLS handshake with the proxy itself (SNI %s) failed: %s", outerSNI, msg)
				continue
			}
		}
		items := h.items(ci)
		// Round 7: how the requests of each tunnel are judged follows from what the CLIENT observed on the connection
		// (tls: read from this tunnel's completed TLS connection; enclosed: cleartext tunnel / failed handshake INSIDE a
		// completed TLS connection, refs = that connection; undecrypted: after a handshake that failed, nothing on the
		// connection was ever decrypted; plain: a tunnel that does not begin with a TLS handshake).
		modes, refs := phaseModes(h, ci, co)
		failedBefore := false // an earlier tunnel of this connection ended in a failed TLS handshake
		connSession := -2     // session of the first message seen on this connection
		var connectObs *ReqObs
		stop := false
		for k := 0; k < len(items) && !stop; k++ {
			it := items[k]
			ph := sc.Phases[it.phase]
			po := &co.Phases[it.phase]
			E := h.entry(ci, it.phase)
			tlsIn := modes[it.phase] == "tls"
			enclosed := modes[it.phase] == "enclosed"
			pat := h.attrs(ci, item{})

			if it.connect || (!h.hasConnect() && k == 0) {
				// opening of a tunnel
				if !po.Attempted {
					stop = true // an earlier message already failed (reported there)
					continue
				}
				if it.connect {
					check()
					if po.ConnectErr != "" || po.ConnectStatus != 200 {
						if failedBefore {
							// the statement does not oblige the proxy to keep serving a connection on which a TLS handshake failed
							st.notServed++
							stop = true
							continue
						}
						if !(po.HandshakeErr != "" && po.ConnectStatus == 0 && po.ConnectErr == "") {
							addV(E, "connect_not_answered_200", pat, "CONNECT %s answered status=%d err=%q", ph.Authority, po.ConnectStatus, po.ConnectErr)
							stop = true
							continue
						}
					}
					connectObs = find(ci, it.seq)
					check()
					if connectObs == nil {
						addV(E, "connect_not_presented_to_modifiers", pat, "the CONNECT to %s was answered 200 but never shown to the request modifier", ph.Authority)
					} else {
						values(E, pat, fmt.Sprintf("CONNECT %s (message %d of the connection)", ph.Authority, it.seq), connectObs)
						connSessions[ci][connectObs.Session] = true
						if connSession == -2 {
							connSession = connectObs.Session
						} else if connectObs.Session != connSession {
							addV(E, "session_changes_between_requests", pat, "the second CONNECT on the connection runs in another session (%s) than the first", connectObs.SessionID)
						}
					}
				}
				if ph.Inner == "tls" {
					check()
					if po.HandshakeErr != "" && (sc.Untrusting || ph.HS != "") {
						// expected: this client rejects the forged certificate, or offers a handshake the proxy cannot
						// complete. What it sends afterwards was not decrypted from THIS tunnel.
						failedBefore = true
						st.failedHS++
						if it.connect {
							continue
						}
					} else if po.HandshakeErr != "" {
						addV(E, "client_tls_handshake_fails", pat, "TLS handshake with the proxy (client ServerName %q, profile %s, CONNECT status %d) failed: %s", sniName(sc, ph), sc.TLS, po.ConnectStatus, po.HandshakeErr)
						stop = true
						continue
					}
					check()
					if po.ALPN == "h2" {
						addV(E, "h2_negotiated_without_h2_support", pat, "the proxy's MITM config has no HTTP/2 support but ALPN selected h2")
					}
				}
				if it.connect {
					continue
				}
			}

			// a request inside the tunnel
			at := h.attrs(ci, it)
			hijackReqHere := ci == 0 && h.Hijack == "req" && k == len(items)-1
			hijackHere := ci == 0 && h.Hijack != "none" && k == len(items)-1
			var cr *ClientRes
			for x := range co.Client {
				if co.Client[x].Seq == it.seq {
					cr = &co.Client[x]
				}
			}
			if cr == nil {
				stop = true // never sent: an earlier message on this connection already failed and was reported
				continue
			}
			st.requests++
			ob := find(ci, it.seq)
			check()
			if ob == nil && modes[it.phase] == "undecrypted" {
				st.notServed++
				continue // whether the proxy serves cleartext that follows a failed handshake at all is not stated
			}
			if ob == nil {
				addV(E, "request_not_presented_to_modifiers", at, "request %d (%s) of the tunnel was sent but the request modifier never saw it; client: status=%d err=%q", it.idx, it.form, cr.Status, cr.Err)
				continue
			}
			if modes[it.phase] == "undecrypted" {
				// Nothing was decrypted in this tunnel (the handshake failed): whatever the proxy does with cleartext sent
				// afterwards, it cannot present it as read from a TLS connection.
				check()
				if ob.Secure || ob.TLS || ob.Scheme == "https" {
					addV(E, "undecrypted_request_presented_as_secure", at, "request %d (%s) was sent in cleartext after the TLS handshake of the tunnel had failed (nothing on the connection was ever decrypted), but modifiers see scheme=%q secure=%v req.TLS!=nil=%v", it.idx, it.form, ob.Scheme, ob.Secure, ob.TLS)
				}
				continue
			}
			st.obsKeys[fmt.Sprintf("%s|%s|%s|%v|scheme=%s|secure=%v|tls=%v|v=%x|hostok=%v|res=%v", E, h.Space, h.Listener, at, ob.Scheme, ob.Secure, ob.TLS, ob.TLSVersion, hostOK(ph.Authority, ob.URLHost), ob.ResSeen)] = true
			check()
			if c := count(ci, it.seq); c != 1 {
				addV(E, "request_presented_more_than_once", at, "request %d seen %d times by the request modifier", it.idx, c)
			}
			hostBad := false
			if enclosed {
				// Round 7. The request was read from a decrypted connection (the enclosing MITM'd tunnel / transparent-TLS
				// connection `refs`), but travels inside a CONNECT tunnel that did not begin with a (completed) TLS
				// handshake. "Every request decrypted from a MITM'd CONNECT tunnel - the first and every later one on the
				// connection" demands the connection's TLS state; the sentence about non-TLS tunnels does not speak about
				// req.TLS. Scheme and the secure flag are claimed by both sentences with opposite values: not judged,
				// except that a request presented as https must never leave in cleartext.
				ep := refs[it.phase]
				st.enclosed++
				check()
				if !ob.TLS {
					addV(E, "tls_state_missing", at, "request %d (%s) was read from the client's TLS session (inside a cleartext CONNECT tunnel opened within it) but req.TLS == nil in the request modifier (scheme=%s secure=%v)", it.idx, it.form, ob.Scheme, ob.Secure)
				} else if ob.TLSEKM != ep.ClientEKM || !ob.TLSDone || ob.TLSVersion != ep.TLSVersion || ob.TLSCipher != ep.TLSCipher || !strings.EqualFold(ob.TLSName, ep.TLSName) {
					addV(E, "tls_state_not_of_this_connection", at, "request %d (%s): req.TLS is not the state of the TLS connection the request was read from: ServerName %q vs client %q, keying material %s vs %s, version %x vs %x, cipher %x vs %x, handshake complete=%v", it.idx, it.form, ob.TLSName, ep.TLSName, ob.TLSEKM, ep.ClientEKM, ob.TLSVersion, ep.TLSVersion, ob.TLSCipher, ep.TLSCipher, ob.TLSDone)
				} else if ob.ResSeen && !ob.ResTLS {
					addV(E, "tls_state_missing_at_response_modifier", at, "request %d (%s): req.TLS == nil when the response modifier runs", it.idx, it.form)
				}
				check()
				if !ob.HasCtx {
					addV(E, "no_context_for_request", at, "request %d (%s): martian.NewContext(req) is nil in the request modifier", it.idx, it.form)
				}
				check()
				if it.form == "nohost" && ob.URLHost != "" && !hostOK(ph.Authority, ob.URLHost) {
					hostBad = true
					addV(E, "plaintext_url_host_invented", at, "request %d has no Host header inside the tunnel to %s, but the modifier sees URL.Host=%q, which is neither empty nor the tunnel authority", it.idx, ph.Authority, ob.URLHost)
				} else if it.form != "nohost" && !hostOK(ph.Authority, ob.URLHost) {
					hostBad = true
					addV(E, "url_host_not_as_given", at, "request %d (%s) names host %s but the modifier sees URL.Host=%q", it.idx, it.form, hostGiven(ph.Authority), ob.URLHost)
				}
			} else if tlsIn {
				// "presented to modifiers with scheme https"
				check()
				if ob.Scheme != "https" {
					addV(E, "scheme_not_https", at, "request %d (%s) decrypted from the tunnel is shown to the request modifier with URL.Scheme=%q", it.idx, it.form, ob.Scheme)
				} else if ob.ResSeen && ob.ResScheme != "https" {
					addV(E, "scheme_not_https_at_response_modifier", at, "request %d (%s): URL.Scheme=%q when the response modifier runs", it.idx, it.form, ob.ResScheme)
				}
				// "a session marked secure"
				check()
				if !ob.HasCtx {
					addV(E, "no_context_for_request", at, "request %d (%s): martian.NewContext(req) is nil in the request modifier", it.idx, it.form)
				} else if !ob.Secure {
					addV(E, "session_not_secure", at, "request %d (%s): ctx.Session().IsSecure()=false in the request modifier", it.idx, it.form)
				} else if ob.ResSeen && !ob.ResSecure {
					addV(E, "session_not_secure_at_response_modifier", at, "request %d (%s): IsSecure()=false in the response modifier", it.idx, it.form)
				}
				// "the connection's TLS state attached"
				check()
				if !ob.TLS {
					addV(E, "tls_state_missing", at, "request %d (%s): req.TLS == nil in the request modifier (scheme=%s secure=%v)", it.idx, it.form, ob.Scheme, ob.Secure)
				} else if ob.TLSEKM != po.ClientEKM || !ob.TLSDone || ob.TLSVersion != po.TLSVersion || ob.TLSCipher != po.TLSCipher || !strings.EqualFold(ob.TLSName, po.TLSName) {
					what := "the client's TLS connection"
					if h.Space == "nested" {
						what = "the INNER TLS connection the request was read from"
						if co.Outer != nil && ob.TLSEKM == co.Outer.ClientEKM {
							what += " (it is the state of the OUTER client<->proxy connection)"
						}
					}
					addV(E, "tls_state_not_of_this_connection", at, "request %d (%s): req.TLS is not the state of %s: ServerName %q vs client %q, keying material %s vs %s, version %x vs %x, cipher %x vs %x, handshake complete=%v", it.idx, it.form, what, ob.TLSName, po.TLSName, ob.TLSEKM, po.ClientEKM, ob.TLSVersion, po.TLSVersion, ob.TLSCipher, po.TLSCipher, ob.TLSDone)
				} else if ob.ResSeen && !ob.ResTLS {
					addV(E, "tls_state_missing_at_response_modifier", at, "request %d (%s): req.TLS == nil when the response modifier runs", it.idx, it.form)
				}
				// "the tunnel's authority as host when none is given"
				check()
				if it.form == "nohost" {
					if h.hasConnect() && !hostOK(ph.Authority, ob.URLHost) {
						hostBad = true
						addV(E, "url_host_not_tunnel_authority", at, "request %d has no Host header and an origin-form target inside the tunnel to %s, but the modifier sees URL.Host=%q (client then got status %d)", it.idx, ph.Authority, ob.URLHost, cr.Status)
					}
					// transparent listener: there is no CONNECT and hence no tunnel authority; URL.Host is not judged.
				} else if !hostOK(ph.Authority, ob.URLHost) {
					hostBad = true
					addV(E, "url_host_not_as_given", at, "request %d (%s) names host %s but the modifier sees URL.Host=%q", it.idx, it.form, hostGiven(ph.Authority), ob.URLHost)
				}
			} else {
				// "Traffic inside a CONNECT tunnel that does not begin with a TLS handshake is handled as plain HTTP on an
				// insecure session."
				check()
				if ob.Scheme != "http" {
					addV(E, "plaintext_scheme_not_http", at, "plaintext request %d (%s) inside CONNECT shown with URL.Scheme=%q", it.idx, it.form, ob.Scheme)
				}
				check()
				if ob.Secure || (ob.ResSeen && ob.ResSecure) {
					addV(E, "plaintext_session_marked_secure", at, "plaintext request %d (%s) inside CONNECT: session IsSecure()=true", it.idx, it.form)
				}
				check()
				if ob.TLS {
					addV(E, "plaintext_request_has_tls_state", at, "plaintext request %d (%s) inside CONNECT has req.TLS != nil", it.idx, it.form)
				}
				// The statement names no fallback host for plaintext tunnels: an empty URL.Host is not judged. But a host
				// that the client never gave and that is not the tunnel's authority either is an invented target.
				check()
				if it.form == "nohost" && ob.URLHost != "" && !hostOK(ph.Authority, ob.URLHost) {
					hostBad = true
					addV(E, "plaintext_url_host_invented", at, "plaintext request %d has no Host header inside the tunnel to %s, but the modifier sees URL.Host=%q, which is neither empty nor the tunnel authority", it.idx, ph.Authority, ob.URLHost)
				} else if it.form != "nohost" && !hostOK(ph.Authority, ob.URLHost) {
					hostBad = true
					addV(E, "url_host_not_as_given", at, "plaintext request %d (%s) names host %s but the modifier sees URL.Host=%q", it.idx, it.form, hostGiven(ph.Authority), ob.URLHost)
				}
			}
			// "The CONNECT request and all requests inside its tunnel share one session"
			check()
			connSessions[ci][ob.Session] = true
			if connectObs != nil && ob.Session != connectObs.Session {
				addV(E, "session_not_shared_with_connect", at, "request %d (%s) runs in session %s, the CONNECT ran in session %s", it.idx, it.form, ob.SessionID, connectObs.SessionID)
			} else if connSession != -2 && ob.Session != connSession {
				addV(E, "session_changes_between_requests", at, "request %d (%s) runs in another session (%s) than the first message on the connection", it.idx, it.form, ob.SessionID)
			} else if ob.ResSeen && ob.ResSession != ob.Session {
				addV(E, "session_changes_between_modifiers", at, "request %d (%s): response modifier sees another session than the request modifier", it.idx, it.form)
			}
			if connSession == -2 {
				connSession = ob.Session
			}
			values(E, at, fmt.Sprintf("request %d (%s)", it.idx, it.form), ob)

			// "forwarded upstream over TLS, never in cleartext"
			var up []OriginReq
			for _, r := range o.OriginReqs {
				if r.Conn == ci && r.Seq == it.seq {
					up = append(up, r)
				}
			}
			if !hijackReqHere {
				check()
				clear, overTLS := 0, 0
				for _, r := range up {
					if r.TLS {
						overTLS++
					} else {
						clear++
					}
				}
				judgedHost := !(it.form == "nohost" && !(tlsIn && h.hasConnect())) // no fallback authority is stated there
				switch {
				case enclosed && ob.Scheme == "https" && clear > 0:
					addV(E, "forwarded_upstream_in_cleartext", at, "request %d (%s) was presented to modifiers as https but reached the origin over a cleartext connection (dials: %v)", it.idx, it.form, o.Dials)
				case enclosed:
					if len(up) > 1 {
						addV(E, "forwarded_more_than_once", at, "request %d (%s) reached the origin %d times", it.idx, it.form, len(up))
					} else if len(up) == 0 && it.form != "nohost" && !hostBad && h.Origin == "" {
						addV(E, "not_forwarded_upstream", at, "request %d (%s) never reached the origin (client status=%d err=%q, dials: %v)", it.idx, it.form, cr.Status, cr.Err, o.Dials)
					}
				case tlsIn && clear > 0:
					addV(E, "forwarded_upstream_in_cleartext", at, "request %d (%s) decrypted from the TLS tunnel reached the origin over a cleartext connection (dials: %v)", it.idx, it.form, o.Dials)
				case !tlsIn && overTLS > 0:
					addV(E, "plaintext_request_forwarded_over_tls", at, "plaintext request %d (%s) inside CONNECT reached the origin over TLS, not as plain HTTP", it.idx, it.form)
				case len(up) == 0 && judgedHost && !hostBad && h.Origin == "":
					addV(E, "not_forwarded_upstream", at, "request %d (%s) never reached the origin (client status=%d err=%q, dials: %v)", it.idx, it.form, cr.Status, cr.Err, o.Dials)
				case len(up) > 1:
					addV(E, "forwarded_more_than_once", at, "request %d (%s) reached the origin %d times", it.idx, it.form, len(up))
				}
			}
			// "its response returns inside the same TLS session" (the client reads through its TLS connection; anything
			// not encrypted under that session's keys is a read error)
			if !hijackHere {
				check()
				kind := "clear" // how the origin was reached for this request decides what it answered
				if len(up) == 1 && up[0].TLS {
					kind = "tls"
				}
				switch {
				case cr.Err != "" && (tlsIn || enclosed):
					addV(E, "response_not_inside_client_tls_session", at, "request %d (%s): the client could not read a response through its TLS session: %s", it.idx, it.form, cr.Err)
				case cr.Err != "":
					addV(E, "plaintext_response_not_delivered", at, "request %d (%s): the client could not read a response: %s", it.idx, it.form, cr.Err)
				case len(up) == 1 && (cr.Status != 200 || cr.Sum != sum(respBody(kind, ph.Resp, ci, it.seq))):
					want := respBody(kind, ph.Resp, ci, it.seq)
					addV(E, "response_is_not_the_origins", at, "request %d (%s): origin answered %d bytes (digest %s, starting %q) but the client read status=%d, %d bytes (digest %s, starting %q)", it.idx, it.form, len(want), sum(want), originBody(kind, ci, it.seq), cr.Status, cr.Len, cr.Sum, cr.Body)
				}
				if len(up) == 1 && ph.Kinds != nil {
					check()
					want := reqBody(ph.kind(it.idx), ci, it.seq)
					if up[0].BodyLen != len(want) || up[0].BodySum != sum(want) {
						addV(E, "request_body_not_forwarded_intact", at, "request %d (%s, %s): the client sent a %d-byte body (digest %s), the origin received %d bytes (digest %s)", it.idx, it.form, ph.kind(it.idx), len(want), sum(want), up[0].BodyLen, up[0].BodySum)
					}
				}
			}

			// "a modifier that hijacks that session is handed the decrypted connection"
			if hijackHere {
				hat := h.attrs(ci, it)
				hat["pos"] = h.Hijack
				hat["via"] = h.Via
				check()
				ho := o.Hijack
				switch {
				case ho == nil || !ho.Ran:
					if !(h.Hijack == "res" && !ob.ResSeen) {
						addV(E, "hijacker_never_completed", hat, "the hijacking modifier did not complete")
					}
				case ho.Err != "":
					addV(E, "hijack_refused", hat, "Session.Hijack(): %s", ho.Err)
				default:
					clientOK := cr.Err == "" && cr.Hijack && cr.Body == marker
					hijackerOK := ho.Read == strconv.Quote(ack)
					if !clientOK || !hijackerOK {
						layer := "its TLS session"
						if !tlsIn && !enclosed {
							layer = "the tunnel"
						}
						addV(E, "hijacker_not_on_decrypted_connection", hat,
							"hijack in the %s modifier of request %d using the %s from Session.Hijack() (conn type %s): the client reading through %s got status=%d body=%q err=%q (want the marker); the hijacker read %s err=%q (want %q), write err=%q",
							h.Hijack, it.idx, map[string]string{"conn": "net.Conn", "brw": "*bufio.ReadWriter"}[h.Via], ho.ConnType, layer, cr.Status, cr.Body, cr.Err, ho.Read, ho.ReadErr, ack, ho.WriteErr)
					}
				}
			}
		}
	}
	// Connection-level cleartext contact (even without a parsable request) when every tunnel of the history is TLS.
	allTLS := true
	for _, sc := range h.Conns {
		for _, p := range sc.Phases {
			if p.Inner != "tls" || p.HS != "" {
				allTLS = false
			}
		}
	}
	if allTLS {
		check()
		clearReq := false
		for _, r := range o.OriginReqs {
			if !r.TLS {
				clearReq = true
			}
		}
		for _, c := range o.OriginConns {
			if !c.TLS && !clearReq {
				addV(E0, "upstream_cleartext_connection", hist, "the origin was contacted on a connection that does not start with a TLS ClientHello (first byte %s; dials %v)", c.First, o.Dials)
				break
			}
		}
	}
	// Two tunnels on two connections: their sessions must not mix.
	if len(h.Conns) == 2 {
		check()
		for s := range connSessions[0] {
			if connSessions[1][s] {
				addV(E0, "session_shared_between_connections", hist, "messages of the two client connections ran in the same martian session")
				break
			}
		}
	}
	return vs
}

func sniName(sc Script, ph Phase) string {
	if sc.SNI == "other" {
		return otherSNI
	}
	return bareHost(ph.Authority)
}

// Signatures: <entry>[:attr=values...]:<symptom>; an attribute is mentioned only if the symptom does NOT occur for
// all values that attribute takes among the enumerated requests of that entry.
var attrOrder = []string{"listener", "port", "auth", "sni", "tls", "early", "outer", "peer", "first", "mitm", "origin", "rt", "dial", "down", "after", "hs", "spell", "kind", "pad", "resp", "pipelined", "cls", "form", "pos", "via"}

func computeDomains(hs []History) map[string]map[string]map[string]bool {
	dom := map[string]map[string]map[string]bool{}
	put := func(e string, a map[string]string) {
		if dom[e] == nil {
			dom[e] = map[string]map[string]bool{}
		}
		for k, v := range a {
			if dom[e][k] == nil {
				dom[e][k] = map[string]bool{}
			}
			dom[e][k][v] = true
		}
	}
	for _, h := range hs {
		for ci := range h.Conns {
			items := h.items(ci)
			for k, it := range items {
				if it.connect {
					continue
				}
				a := h.attrs(ci, it)
				if ci == 0 && h.Hijack != "none" && k == len(items)-1 {
					a["pos"], a["via"] = h.Hijack, h.Via
				}
				put(h.entry(ci, it.phase), a)
			}
		}
	}
	return dom
}

type vref struct {
	id int
	v  *V
}

func signatures(vs []vref, dom map[string]map[string]map[string]bool) map[*V]string {
	type key struct{ e, s string }
	groups := map[key][]*V{}
	for _, r := range vs {
		k := key{r.v.Entry, r.v.Symptom}
		groups[k] = append(groups[k], r.v)
	}
	out := map[*V]string{}
	for k, g := range groups {
		parts := []string{k.e}
		for _, a := range attrOrder {
			seen := map[string]bool{}
			for _, v := range g {
				if x, ok := v.Attrs[a]; ok {
					seen[x] = true
				}
			}
			if len(seen) == 0 {
				continue
			}
			all := true
			for d := range dom[k.e][a] {
				if !seen[d] {
					all = false
				}
			}
			if all {
				continue
			}
			var vals []string
			for x := range seen {
				vals = append(vals, x)
			}
			sort.Strings(vals)
			parts = append(parts, a+"="+strings.Join(vals, "+"))
		}
		parts = append(parts, k.s)
		sig := strings.Join(parts, ":")
		for _, v := range g {
			out[v] = sig
		}
	}
	return out
}

// ---- worker / sharding -----------------------------------------------------------------------------------------

// Result is what a worker reports for one history (the full outcome only where it is needed).
type Result struct {
	ID          int      `json:"id"`
	Vs          []V      `json:"vs,omitempty"`
	Evals       int64    `json:"evals"`
	Requests    int64    `json:"requests"`
	FailedHS    int64    `json:"failed_hs,omitempty"`
	Enclosed    int64    `json:"enclosed,omitempty"`
	NotServed   int64    `json:"not_served,omitempty"`
	Transitions int64    `json:"transitions"`
	Obs         []string `json:"obs,omitempty"`
	Hang        bool     `json:"hang,omitempty"`
	Crash       string   `json:"crash,omitempty"`
	Setup       bool     `json:"setup_failed,omitempty"`
	Outcome     *Outcome `json:"outcome,omitempty"`
}

func evaluate(o *Outcome) *Result {
	st := &judgeStats{obsKeys: map[string]bool{}}
	r := &Result{ID: o.H.ID, Hang: o.Hang, Crash: o.Crash, Setup: o.SetupErr != ""}
	r.Vs = judge(o, st)
	r.Evals, r.Requests = st.evals, st.requests
	r.FailedHS, r.Enclosed, r.NotServed = st.failedHS, st.enclosed, st.notServed
	for k := range st.obsKeys {
		r.Obs = append(r.Obs, k)
	}
	r.Transitions = int64(len(o.Reqs))
	for _, q := range o.Reqs {
		if q.ResSeen {
			r.Transitions++
		}
	}
	return r
}

type line struct {
	Start  *int    `json:"start,omitempty"`
	Result *Result `json:"result,omitempty"`
	Capped bool    `json:"capped,omitempty"` // the worker stopped because the time cap was reached
}

// timeCap is the internal wall-clock cap of a run (not an oracle): workers stop starting histories after it and
// the run is reported as incomplete.
func timeCap(tier string) time.Duration {
	if tier == "thorough" {
		return 9 * time.Minute
	}
	return 45 * time.Second
}

func mine(k, shard, n, seed int) bool { return (k+seed)%n == shard }

func sampled(id, total int) bool { return id%(total/8+1) == 0 }

func workerMain(hs []History, shard, n int) {
	mlog.SetLevel(mlog.Silent)
	from, _ := strconv.Atoi(os.Getenv("VERIF_C05_FROM"))
	f, err := os.OpenFile(os.Getenv("VERIF_SHARD_OUT"), os.O_APPEND|os.O_CREATE|os.O_WRONLY, 0o644)
	if err != nil {
		fmt.Fprintln(os.Stderr, "worker: cannot open output:", err)
		os.Exit(2)
	}
	e, err := newEnv()
	if err != nil {
		fmt.Fprintln(os.Stderr, "worker: cannot create CA / certificates:", err)
		os.Exit(2)
	}
	w := bufio.NewWriter(f)
	put := func(l line) {
		b, _ := json.Marshal(l)
		w.Write(append(b, '\n'))
		w.Flush()
	}
	only := -1
	if v := os.Getenv("VERIF_C05_ONLY"); v != "" {
		only, _ = strconv.Atoi(v)
	}
	kept := map[string]int{}
	stopAt := time.Unix(0, 0)
	if v, err := strconv.ParseInt(os.Getenv("VERIF_C05_STOP_AT"), 10, 64); err == nil {
		stopAt = time.Unix(v, 0)
	}
	for k := range hs {
		if only >= 0 && k != only {
			continue
		}
		if only < 0 && stopAt.Unix() > 0 && time.Now().After(stopAt) {
			put(line{Capped: true})
			break
		}
		if only < 0 && (k < from || !mine(k, shard, n, lib.Seed())) {
			continue
		}
		id := k
		put(line{Start: &id})
		o := runHistory(e, hs[k])
		if o.Hang {
			// goroutines of the hung history may still own connections: give later histories fresh listeners
			if err := e.resetHubs(); err != nil {
				fmt.Fprintln(os.Stderr, "worker: cannot listen:", err)
				os.Exit(2)
			}
		}
		if only >= 0 {
			// Attribution run: if a proxy goroutine is panicking, let it take the process down before the
			// outcome is reported as a clean completion.
			time.Sleep(100 * time.Millisecond)
		}
		r := evaluate(o)
		keep := sampled(k, len(hs))
		for _, v := range r.Vs {
			if kept[v.Entry+"|"+v.Symptom] < 2 {
				kept[v.Entry+"|"+v.Symptom]++
				keep = true
			}
		}
		if keep {
			r.Outcome = o
		}
		put(line{Result: r})
	}
	f.Close()
	os.Exit(0)
}

func readShard(path string) (outs map[int]*Result, started []int, capped bool) {
	outs = map[int]*Result{}
	f, err := os.Open(path)
	if err != nil {
		return
	}
	defer f.Close()
	sc := bufio.NewScanner(f)
	sc.Buffer(make([]byte, 1<<20), 16<<20)
	for sc.Scan() {
		var l line
		if json.Unmarshal(sc.Bytes(), &l) != nil {
			continue
		}
		if l.Capped {
			capped = true
		}
		if l.Start != nil {
			started = append(started, *l.Start)
		}
		if l.Result != nil {
			outs[l.Result.ID] = l.Result
		}
	}
	return
}

func tail(s string, n int) string {
	s = strings.TrimSpace(s)
	if len(s) > n {
		s = "..." + s[len(s)-n:]
	}
	return s
}

// crashText extracts the panic / fatal error part of a dead worker's output.
func crashText(err error, out string) string {
	for _, mark := range []string{"panic:", "fatal error:"} {
		if i := strings.Index(out, mark); i >= 0 {
			out = out[i:]
			if len(out) > 1500 {
				out = out[:1500] + "..."
			}
			return fmt.Sprintf("worker exit: %v; %s", err, strings.TrimSpace(out))
		}
	}
	return fmt.Sprintf("worker exit: %v; output tail: %s", err, tail(out, 1500))
}

func crashResult(h History, text string) *Result {
	o := &Outcome{H: h, Crash: text}
	r := evaluate(o)
	r.Outcome = o
	return r
}

// runIsolated runs one history alone in a fresh process.
func runIsolated(h History, file string) *Result {
	os.Remove(file)
	cmd := exec.Command(os.Args[0], os.Args[1:]...)
	cmd.Env = append(os.Environ(), "VERIF_SHARD=0/1", "VERIF_SHARD_OUT="+file, "GOMAXPROCS=2", "VERIF_C05_ONLY="+strconv.Itoa(h.ID))
	b, err := cmd.CombinedOutput()
	got, _, _ := readShard(file)
	if r, ok := got[h.ID]; ok && err == nil {
		return r
	}
	return crashResult(h, crashText(err, string(b)))
}

func rerunShard(shard, n, from int, file string) (string, error) {
	cmd := exec.Command(os.Args[0], os.Args[1:]...)
	cmd.Env = append(os.Environ(), fmt.Sprintf("VERIF_SHARD=%d/%d", shard, n), "VERIF_SHARD_OUT="+file, "GOMAXPROCS=2", "VERIF_C05_FROM="+strconv.Itoa(from))
	b, err := cmd.CombinedOutput()
	return string(b), err
}

func main() {
	tier := lib.Tier()
	hs := enumerate(tier)

	if shard, n := lib.ShardEnv(); n > 0 {
		workerMain(hs, shard, n)
		return
	}

	if rp := os.Getenv("VERIF_REPLAY"); rp != "" {
		replay(rp)
		return
	}

	rep := lib.NewReport("C05", "model_checking")
	rep.Assumptions = []string{
		"client, proxy and origin talk over real loopback TCP with the real crypto/tls; the origin is reached through Proxy.SetDial (upconfig: through whichever hook the setter history leaves in effect), every dialled address is mapped to the in-process origin",
		"outside the upconfig space the proxy uses its own default http.Transport; only TLSClientConfig.RootCAs is set (to the harness origin's certificate, valid for " + hostName + ", 127.0.0.1 and ::1)",
		"'tunnel authority' = the CONNECT target; URL.Host equal to it (case-insensitively), or to it without :443 when the port is the https default, is accepted",
		"transparent-TLS listener: there is no CONNECT, so the no-Host clause (URL.Host = tunnel authority) is not judged there; all other clauses are. It needs SNI, so IP-literal hosts are only combined with a different SNI name there",
		"no-Host requests are HTTP/1.0 origin-form with Connection: keep-alive so that later requests can follow on the connection",
		"a second CONNECT inside a plaintext tunnel opens a new tunnel on the same connection and session; requests after it are judged against the second tunnel (its authority, its content)",
		"'same segment' = one Write call on a loopback TCP connection",
		"hang deadlines (20 s per I/O, 90 s per history) are liveness guards only; a symptom seen on at most 3 histories is re-run alone and reported only if it reproduces (the histories are deterministic; wall-clock guards fire spuriously on the overloaded shared machine)",
		"nested space: only TLS inside the tunnel is enumerated (whether plaintext inside a CONNECT that itself arrived over TLS is an 'insecure session' is not decided by the statement); the CONNECT request itself, read from the outer TLS connection, is only judged for session sharing",
		"the internal time cap (45 s quick / 9 min thorough) only stops the enumeration early (reported as incomplete)",
		"hijack at the CONNECT request itself (before any decryption exists) belongs to C02 and is not enumerated",
		"round 7, hsabort: the handshake failures enumerated are those the PROXY detects (no common cipher suite, unsupported versions, undecodable ClientHello in a complete record); the client sends cleartext only after it has read the proxy's alert, so no byte can be swallowed by the failed tls.Conn. A client-side abort (certificate rejected) followed by cleartext stays un-enumerated: which reader gets the bytes depends on segment timing. Whether the proxy keeps serving a connection after a failed handshake is not stated: an unanswered later CONNECT / an unserved cleartext request is counted, not reported. If a scripted failure does not fail (other crypto/tls defaults) the tunnel is judged as an ordinary decrypted one",
		"round 8, upconfig: in every other space the upstream side is configured in one fixed way (default transport + TLSClientConfig.RootCAs, SetRoundTripper, SetDial, then SetDownstreamProxy if any); in upconfig it is a history of setter calls (see bounds). Every transport handed to SetRoundTripper trusts the harness origin's certificate (TLSClientConfig.RootCAs; the DialTLS / DialTLSContext hooks verify it themselves with ServerName = host of the dialled address) and routes dials to the in-process origin; the statement's 'forwarded upstream over TLS, never in cleartext' is judged at the origin's acceptor only (first byte of the connection 0x16, handshake completes, request read inside), independent of which hook dialled. Setups in which no harness hook can route the unresolvable test name (" + hostName + ") to the origin are not enumerated: default / hook-less transport (or a DialTLS-only transport for a plaintext tunnel) without SetDial and without a downstream proxy",
		"round 7, cleartext CONNECT tunnel (or cleartext after a failed handshake) INSIDE a completed TLS connection (MITM'd tunnel or transparent-TLS listener): the requests are read from that TLS connection, so req.TLS must be its state (first sentence of the statement; the sentence about non-TLS tunnels is silent about req.TLS). Scheme, secure flag and upstream transport are claimed by both sentences with opposite values and are not judged there, except that a request presented as https must not leave in cleartext; delivery of the origin's response through the client's TLS session, session sharing, session values and the hijacker's connection are judged as everywhere",
	}

	nshards := runtime.NumCPU()
	if nshards > len(hs) {
		nshards = len(hs)
	}
	dir := filepath.Join(lib.Root, ".build", "c05", "shards-"+tier)
	os.RemoveAll(dir)
	os.MkdirAll(dir, 0o755)
	if err := writeAuthority(dir); err != nil {
		fmt.Fprintln(os.Stderr, "C05: cannot create the MITM CA:", err)
		os.Exit(2)
	}
	os.Setenv("VERIF_C05_CA", dir)
	stopAt := time.Now().Add(timeCap(tier))
	os.Setenv("VERIF_C05_STOP_AT", strconv.FormatInt(stopAt.Unix(), 10))
	files, errs, outs := lib.RunShards(nshards, dir)

	// Collect. A worker that died is resumed after the history it died in; because a panicking proxy goroutine
	// closes the client connection (deferred) an instant before the process dies, the history that finished just
	// before may be the real culprit: both are re-run alone in a fresh process, and that run is authoritative.
	results := map[int]*Result{}
	var rmu sync.Mutex
	var engineErr, incomplete string
	var wg sync.WaitGroup
	for s := 0; s < nshards; s++ {
		wg.Add(1)
		go func(s int) {
			defer wg.Done()
			werr, wout := errs[s], outs[s]
			isolated := map[int]bool{}
			for resumes := 0; ; resumes++ {
				got, started, capped := readShard(files[s])
				missing, prev := -1, -1
				rmu.Lock()
				for id, o := range got {
					if !isolated[id] {
						results[id] = o
					}
				}
				for k := range hs {
					if mine(k, s, nshards, lib.Seed()) {
						if _, ok := results[k]; !ok {
							missing = k
							break
						}
						prev = k
					}
				}
				rmu.Unlock()
				if missing < 0 {
					return
				}
				if capped || time.Now().After(stopAt) {
					rmu.Lock()
					incomplete = fmt.Sprintf("time cap of %v reached before all histories were run", timeCap(tier))
					rmu.Unlock()
					return
				}
				wasStarted := false
				for _, id := range started {
					if id == missing {
						wasStarted = true
					}
				}
				if !wasStarted {
					if werr == nil || prev < 0 || isolated[prev] {
						rmu.Lock()
						engineErr = fmt.Sprintf("worker %d exited (%v) before starting history %d; output:\n%s", s, werr, missing, tail(wout, 4000))
						rmu.Unlock()
						return
					}
					// The worker died between two histories: a proxy goroutine of the history that had just been
					// reported (prev) was still panicking. Re-run that one alone, then carry on with the rest.
					isolated[prev] = true
					r := runIsolated(hs[prev], filepath.Join(dir, fmt.Sprintf("only-%d.json", prev)))
					if r.Crash == "" {
						r = crashResult(hs[prev], "worker died right after this history (not reproduced when re-run alone): "+crashText(werr, wout))
					}
					rmu.Lock()
					results[prev] = r
					rmu.Unlock()
					wout, werr = rerunShard(s, nshards, missing, files[s])
					continue
				}
				reproduced := false
				for _, id := range []int{prev, missing} {
					if id < 0 || isolated[id] {
						continue
					}
					isolated[id] = true
					r := runIsolated(hs[id], filepath.Join(dir, fmt.Sprintf("only-%d.json", id)))
					if r.Crash != "" {
						reproduced = true
					}
					rmu.Lock()
					results[id] = r
					rmu.Unlock()
				}
				if !reproduced {
					rmu.Lock()
					results[missing] = crashResult(hs[missing], "worker died while running this history (not reproduced when re-run alone): "+crashText(werr, wout))
					rmu.Unlock()
				}
				if resumes >= 2 {
					// Third death in this shard: stop bulk runs, every remaining history gets its own process.
					for k := missing + 1; k < len(hs); k++ {
						if time.Now().After(stopAt) {
							rmu.Lock()
							incomplete = fmt.Sprintf("time cap of %v reached before all histories were run", timeCap(tier))
							rmu.Unlock()
							return
						}
						if mine(k, s, nshards, lib.Seed()) {
							r := runIsolated(hs[k], filepath.Join(dir, fmt.Sprintf("only-%d.json", k)))
							rmu.Lock()
							results[k] = r
							rmu.Unlock()
						}
					}
					return
				}
				wout, werr = rerunShard(s, nshards, missing+1, files[s])
			}
		}(s)
	}
	wg.Wait()
	if engineErr != "" {
		fmt.Fprintln(os.Stderr, "C05:", engineErr)
		os.Exit(2)
	}
	rep.Incomplete = incomplete

	// Aggregate.
	var all []vref
	executed, nontrivial, hung, crashed := 0, 0, 0, 0
	var transitions, evals, requests, failedHS, enclosedReqs, notServed int64
	perSpace := map[string]int{}
	perEntry := map[string]int{}
	obs := map[string]bool{}
	outcomeKinds := map[string]bool{}
	for k := range hs {
		r, ok := results[k]
		if !ok {
			continue
		}
		h := hs[k]
		if r.Crash == "" && !r.Setup {
			executed++
			perSpace[h.Space]++
			perEntry[h.entry(0, 0)]++
			sc := h.Conns[0]
			trivial := h.Space == "core" && len(sc.Phases[0].Forms) == 1 && sc.Phases[0].Forms[0] == "origin" && h.Hijack == "none"
			if !trivial {
				nontrivial++
			}
		}
		transitions += r.Transitions
		evals += r.Evals
		requests += r.Requests
		failedHS += r.FailedHS
		enclosedReqs += r.Enclosed
		notServed += r.NotServed
		for _, x := range r.Obs {
			obs[x] = true
		}
		if r.Hang {
			hung++
		}
		if r.Crash != "" {
			crashed++
		}
		var syms []string
		for i := range r.Vs {
			syms = append(syms, r.Vs[i].Entry+":"+r.Vs[i].Symptom)
			all = append(all, vref{k, &r.Vs[i]})
		}
		outcomeKinds[h.Space+"|"+h.entry(0, 0)+"|"+strings.Join(syms, ",")] = true
		if sampled(k, len(hs)) && r.Outcome != nil {
			rep.Sample(8, map[string]interface{}{"history": h.String(), "modifier_view": r.Outcome.Reqs, "origin": r.Outcome.OriginReqs, "client": r.Outcome.Conns, "violated": syms})
		}
	}
	// Confirmation: every history is a deterministic sequential script, so a genuine violation reproduces when the
	// history is run again. A symptom seen on at most 3 histories is re-run alone (twice at most per history, the
	// bulk phase is over by now); if it never shows again it was an artefact of the overloaded machine (a
	// wall-clock guard of the harness or of net/http fired) and is recorded as unconfirmed instead of reported.
	{
		type gk struct{ e, s string }
		groups := map[gk][]vref{}
		for _, r := range all {
			k := gk{r.v.Entry, r.v.Symptom}
			groups[k] = append(groups[k], r)
		}
		drop := map[*V]bool{}
		var unconfirmed []string
		for k, g := range groups {
			if len(g) > 3 || k.s == "proxy_process_terminated" {
				continue
			}
			confirmed := false
			for _, r := range g {
				for attempt := 0; attempt < 2 && !confirmed; attempt++ {
					rr := runIsolated(hs[r.id], filepath.Join(dir, fmt.Sprintf("confirm-%d.json", r.id)))
					for _, v := range rr.Vs {
						if v.Entry == k.e && v.Symptom == k.s {
							confirmed = true
						}
					}
				}
			}
			if !confirmed {
				for _, r := range g {
					drop[r.v] = true
					unconfirmed = append(unconfirmed, k.e+":"+k.s+" — "+r.v.Desc)
				}
			}
		}
		if len(unconfirmed) > 0 {
			var kept []vref
			for _, r := range all {
				if !drop[r.v] {
					kept = append(kept, r)
				}
			}
			all = kept
			sort.Strings(unconfirmed)
			for _, u := range unconfirmed {
				fmt.Fprintln(os.Stderr, "C05: not reproduced when re-run alone (ignored):", u)
			}
		}
		rep.Coverage["unconfirmed_not_reproduced"] = unconfirmed
	}
	sigs := signatures(all, computeDomains(hs))
	for _, r := range all {
		rep.Violate(sigs[r.v], r.v.Desc, map[string]interface{}{"history": hs[r.id], "outcome": results[r.id].Outcome})
	}

	rep.Coverage["states"] = len(obs)
	rep.Coverage["transitions"] = transitions
	rep.Coverage["traces_validated_against_impl"] = executed
	rep.Coverage["evaluations"] = evals
	rep.Coverage["distinct_nontrivial"] = nontrivial
	rep.Coverage["distinct_outcomes"] = len(outcomeKinds)
	rep.Coverage["histories_enumerated"] = len(hs)
	rep.Coverage["histories_per_space"] = perSpace
	rep.Coverage["histories_per_entry"] = perEntry
	rep.Coverage["requests_judged"] = requests
	rep.Coverage["round7_tunnels_with_failed_handshake"] = failedHS
	rep.Coverage["round7_requests_read_from_enclosing_tls_connection"] = enclosedReqs
	rep.Coverage["round7_connects_not_served_after_failed_handshake"] = notServed
	rep.Coverage["histories_hung"] = hung
	rep.Coverage["histories_crashed_worker"] = crashed
	rep.Coverage["worker_processes"] = nshards
	rep.Coverage["rule"] = "(round 8: plus the space upconfig = every history of the upstream-side setters of the proxy, see bounds) (round 7: plus the spaces innerplain = cleartext CONNECT tunnels opened inside a decrypted connection, and hsabort = a tunnel whose TLS handshake starts but fails on the proxy side, after which the client continues in cleartext on the same connection; see bounds) every history of the spaces core (listener x tunnel content x authority port x form sequences of length 1..N x hijack position/handle), and nested (CONNECT over an outer TLS connection to the proxy itself, then a MITM'd inner handshake), and in the thorough tier config (core with N<=2 x authority spelling x SNI x client TLS profile x early data), pair (two interleaved tunnels on two connections) and reconnect (plaintext tunnel then a second CONNECT on the same connection) is run once through the real proxy; states = distinct per-request modifier views (entry, space, listener, scenario attributes, scheme, secure, TLS state and version, host, response seen); transitions = modifier invocations; non-trivial = anything TestIntegrationMITM/TransparentMITM do not do: >=2 requests on the decrypted connection, a non-origin-form target, a hijack, or any non-default configuration/topology"
	rep.Coverage["exhaustive"] = rep.Incomplete == "" && executed == len(hs)
	if tier == "thorough" {
		rep.Coverage["bounds"] = "core: N<=4 requests, 5 listeners, 2 tunnel contents (transparent: TLS only), ports {443,8443}, 4 target forms per request, 5 hijack variants at the last request (= every index 1..4); nested: 3 TLS listener layerings x outer profile {default, TLS1.2} x N<=3 x 5 hijack variants; config: N<=2 x 6 authority spellings x 2 SNI x 4 TLS profiles x 2 early-data modes (minus combinations that are core or impossible); pair: 2 connections x N<=2 each, all content combinations; reconnect: 1..2 plaintext requests then second CONNECT with TLS/plaintext and 1..2 requests; round 7: innerplain (5 listeners x client/outer profile {default, TLS1.2}; first MITM'd tunnel with 0..1 requests on CONNECT proxies; inner cleartext tunnel N<=2 x 5 hijack variants, N=3 without hijack; early data N<=2; a further MITM'd tunnel inside N<=2) and hsabort (5 listeners x 3 failure kinds x continuation {cleartext N<=2; second CONNECT plain N<=3, N<=2 x 3 hijack variants, early data N<=2; second CONNECT TLS N<=2 x 3 hijack variants; cleartext request then second CONNECT; plaintext tunnel before the failing one}); round 8: upconfig = every sequence of setter calls on a fresh NewProxy() in which SetDial, SetDownstreamProxy, SetTimeout occur at most once and SetRoundTripper(x) at most once, x in {default transport put back, fresh hook-less *http.Transport, with DialContext, with DialTLS, with DialTLSContext, a non-*http.Transport wrapper} (310 sequences incl. the empty one), every order, x 5 listeners x tunnel content (plaintext on the 2 CONNECT listeners) x every form sequence of length 1..2; plus every sequence with exactly two SetRoundTripper calls (36 ordered pairs of kinds) and SetDial / SetDownstreamProxy at most once (684 sequences) x listeners x contents x one 2-request sequence; minus the setups no harness hook can route"
	} else {
		rep.Coverage["bounds"] = "core: N<=2 requests, 5 listeners, 2 tunnel contents (transparent: TLS only), ports {443,8443}, 4 target forms per request, 5 hijack variants at the last request; nested: 3 TLS listener layerings x outer profile {default, TLS1.2} x N<=2 x 5 hijack variants; config (reduced): 3 authority spellings x {plain, shaped} x {TLS, plaintext} x form sequences of length 1..2 containing nohost; pair (reduced): one request per connection; reconnect (reduced): first tunnel {plaintext, TLS} with one request, second CONNECT to another authority with {nohost (3 spellings), origin} in both orders; plus reduced hostless, traffic, upfail, hsfail, variant, downstream spaces; round 7: innerplain (5 listeners; CONNECT proxies: MITM'd tunnel with 1 request then CONNECT :80 + plain HTTP inside; TLS listeners: CONNECT :80 + plain HTTP over the client's TLS session; N<=2 inner requests, all form sequences, 3 hijack variants; + early data N=1; + a further MITM'd tunnel inside, N=1) and hsabort (5 listeners x failure kind {ecdsa_only, tls11_only, truncated_hello} x continuation {cleartext requests N<=2, second CONNECT plain N<=2 (+ early data N=1), second CONNECT TLS N=1}, all form sequences); round 8: upconfig (reduced) = every sequence of setter calls on a fresh NewProxy() in which SetDial and SetDownstreamProxy occur at most once and SetRoundTripper(x) at most once, x in {default transport put back, fresh hook-less *http.Transport, with DialContext, with DialTLS, with DialTLSContext, a non-*http.Transport wrapper} (71 sequences incl. the empty one), every order, x 5 listeners x tunnel content (plaintext on the 2 CONNECT listeners) x the 2-request sequence origin-form, absolute https; minus the setups no harness hook can route"
	}
	rep.Finish()
}

func replay(path string) {
	b, err := os.ReadFile(path)
	if err != nil {
		fmt.Fprintln(os.Stderr, "replay:", err)
		os.Exit(2)
	}
	var doc struct {
		First struct {
			Replay struct {
				History History `json:"history"`
			} `json:"replay"`
		} `json:"first"`
	}
	if err := json.Unmarshal(b, &doc); err != nil || len(doc.First.Replay.History.Conns) == 0 {
		fmt.Fprintln(os.Stderr, "replay: no history in", path, err)
		os.Exit(2)
	}
	mlog.SetLevel(mlog.Error)
	e, err := newEnv()
	if err != nil {
		fmt.Fprintln(os.Stderr, "replay:", err)
		os.Exit(2)
	}
	o := runHistory(e, doc.First.Replay.History)
	ob, _ := json.MarshalIndent(o, "", " ")
	fmt.Println(string(ob))
	st := &judgeStats{obsKeys: map[string]bool{}}
	vs := judge(o, st)
	for _, v := range vs {
		fmt.Printf("VIOLATED %s:%s %v\n  %s\n", v.Entry, v.Symptom, v.Attrs, v.Desc)
	}
	if len(vs) > 0 {
		os.Exit(1)
	}
	fmt.Println("history holds")
}
