// C05 — MITM never downgrades and treats every tunnelled request as secure.
//
// Engine B (bounded-exhaustive enumeration on the unmodified proxy). A *history* is
//
//	listener kind {plain net.Listener, trafficshape.NewListener(l), transparent tls.NewListener(l, mitm.TLS())}
//	x what the client speaks inside the tunnel {TLS, plaintext HTTP} (transparent listener: TLS only, no CONNECT)
//	x N = 1..2 (quick) / 1..3 (thorough) requests on the decrypted connection
//	x target form of every request {origin-form + Host, absolute http://, absolute https://, HTTP/1.0 without Host}
//	x hijack {none, request modifier of request N, response modifier of request N} x handle used by the
//	  hijacker {net.Conn, *bufio.ReadWriter returned by Session.Hijack}.
//
// Every history is run once through the real martian.Proxy (real loopback TCP, real crypto/tls client, the
// proxy's default http.Transport trusting the harness origin's certificate, SetDial -> in-process origin whose
// acceptor sniffs the first byte of every connection: 0x16 = reached over TLS, anything else = cleartext).
// Recording request/response modifiers note what modifiers are shown; the oracle below is written from the
// property statement only. Histories run in worker subprocesses (the proxy's per-connection goroutine has no
// recover): a worker logs the history id before running it, so a dead worker is attributed to a history.
package main

import (
	"bufio"
	"crypto/ecdsa"
	"crypto/elliptic"
	"crypto/rand"
	"crypto/rsa"
	"crypto/tls"
	"crypto/x509"
	"crypto/x509/pkix"
	"encoding/hex"
	"encoding/json"
	"fmt"
	"io"
	"math/big"
	"net"
	"net/http"
	"os"
	"os/exec"
	"path/filepath"
	"runtime"
	"sort"
	"strconv"
	"strings"
	"sync"
	"time"

	martian "github.com/google/martian/v3"
	mlog "github.com/google/martian/v3/log"
	"github.com/google/martian/v3/mitm"
	"github.com/google/martian/v3/trafficshape"

	"verif/lib"
)

const (
	hostName = "c05-origin.test"
	marker   = "C05-HIJACKED-MARKER\n"
	ack      = "C05-ACK\n"
	ekmLabel = "EXPORTER-verif-c05"

	ioDeadline      = 12 * time.Second // generous per-I/O hang guard (liveness only)
	historyDeadline = 40 * time.Second
)

var (
	listeners = []string{"plain", "shaped", "transparent"}
	inners    = []string{"tls", "plain"}
	forms     = []string{"origin", "abs_http", "abs_https", "nohost"}
	ports     = []int{443, 8443} // port of the tunnel authority: the https default and another one
)

// History is one enumerated scenario.
type History struct {
	ID       int      `json:"id"`
	Listener string   `json:"listener"`
	Inner    string   `json:"inner"`
	Port     int      `json:"port"`
	Forms    []string `json:"forms"`  // target form of request 1..N
	Hijack   string   `json:"hijack"` // none | req | res  (modifier of the LAST request)
	Via      string   `json:"via"`    // conn | brw (which value returned by Hijack() the hijacker uses)
}

func (h History) String() string {
	s := fmt.Sprintf("#%d listener=%s inner=%s authority=%s forms=%s hijack=%s", h.ID, h.Listener, h.Inner, h.authority(), strings.Join(h.Forms, ","), h.Hijack)
	if h.Hijack != "none" {
		s += " via=" + h.Via
	}
	return s
}

// authority is the CONNECT target, "the tunnel's authority".
func (h History) authority() string { return fmt.Sprintf("%s:%d", hostName, h.Port) }

// hostGiven is how requests that do name a host name it (default port omitted, as clients do).
func (h History) hostGiven() string {
	if h.Port == 443 {
		return hostName
	}
	return h.authority()
}

// hostOK: URL.Host denotes the tunnel authority (the default https port may be omitted).
func (h History) hostOK(got string) bool { return got == h.authority() || got == h.hostGiven() }

func (h History) entry() string {
	if h.Listener == "transparent" {
		return "transparent_tls"
	}
	return "connect_" + h.Inner
}

// enumerate yields every history, simplest first (fewest requests, no hijack first).
func enumerate(maxN int) []History {
	var out []History
	type hj struct{ pos, via string }
	hjs := []hj{{"none", ""}, {"req", "conn"}, {"req", "brw"}, {"res", "conn"}, {"res", "brw"}}
	for n := 1; n <= maxN; n++ {
		for _, hk := range hjs {
			for _, l := range listeners {
				for _, in := range inners {
					if l == "transparent" && in == "plain" {
						continue // a TLS listener cannot be spoken to in cleartext: not a tunnel at all
					}
					for _, port := range ports {
						dims := make([]int, n)
						for i := range dims {
							dims[i] = len(forms)
						}
						lib.Product(dims, func(idx []int) {
							h := History{ID: len(out), Listener: l, Inner: in, Port: port, Hijack: hk.pos, Via: hk.via}
							for _, f := range idx {
								h.Forms = append(h.Forms, forms[f])
							}
							out = append(out, h)
						})
					}
				}
			}
		}
	}
	return out
}

// ---- observations -------------------------------------------------------------------------------------------

// ReqObs is what the recording modifiers saw for one request.
type ReqObs struct {
	Seq        int    `json:"seq"` // 0 = CONNECT, 1..N inner requests
	Method     string `json:"method"`
	Scheme     string `json:"scheme"`
	URLHost    string `json:"url_host"`
	HostHdr    string `json:"host_hdr"`
	HasCtx     bool   `json:"has_ctx"`
	Secure     bool   `json:"secure"`
	TLS        bool   `json:"tls"`
	TLSEKM     string `json:"tls_ekm,omitempty"` // exported keying material: equal on both ends of ONE TLS connection
	TLSDone    bool   `json:"tls_handshake_complete,omitempty"`
	Session    int    `json:"session"` // index of the distinct *martian.Session objects seen in this history
	SessionID  string `json:"session_id"`
	ResSeen    bool   `json:"res_seen"`
	ResStatus  int    `json:"res_status,omitempty"`
	ResScheme  string `json:"res_scheme,omitempty"`
	ResSecure  bool   `json:"res_secure,omitempty"`
	ResTLS     bool   `json:"res_tls,omitempty"`
	ResSession int    `json:"res_session,omitempty"`
}

// OriginReq is one request the origin received.
type OriginReq struct {
	Seq  int    `json:"seq"`
	TLS  bool   `json:"tls"`
	Host string `json:"host"`
	URI  string `json:"uri"`
}

// OriginConn is one connection the origin accepted.
type OriginConn struct {
	TLS   bool   `json:"tls"`
	First string `json:"first_byte"`
	Err   string `json:"err,omitempty"`
}

// ClientRes is what the client read for one request.
type ClientRes struct {
	Seq    int    `json:"seq"`
	Status int    `json:"status"`
	Body   string `json:"body"`
	Hijack bool   `json:"hijack_marker_header"`
	Err    string `json:"err,omitempty"`
}

// HijackObs is what the hijacking modifier experienced.
type HijackObs struct {
	Ran      bool   `json:"ran"`
	Err      string `json:"err,omitempty"`
	ConnType string `json:"conn_type"`
	WriteErr string `json:"write_err,omitempty"`
	Read     string `json:"read"` // what it read back from the client (quoted, max 64 bytes)
	ReadErr  string `json:"read_err,omitempty"`
}

// Outcome is everything observed while running one history.
type Outcome struct {
	H             History      `json:"history"`
	SetupErr      string       `json:"setup_err,omitempty"`
	Crash         string       `json:"crash,omitempty"` // worker process died while running this history
	Hang          bool         `json:"hang,omitempty"`
	ConnectStatus int          `json:"connect_status,omitempty"`
	ConnectErr    string       `json:"connect_err,omitempty"`
	HandshakeErr  string       `json:"handshake_err,omitempty"`
	ClientEKM     string       `json:"client_ekm,omitempty"`
	PeerCertNames []string     `json:"peer_cert_names,omitempty"`
	Reqs          []ReqObs     `json:"reqs"`
	OriginReqs    []OriginReq  `json:"origin_reqs"`
	OriginConns   []OriginConn `json:"origin_conns"`
	Dials         []string     `json:"dials"`
	Client        []ClientRes  `json:"client"`
	Hijack        *HijackObs   `json:"hijack,omitempty"`
	AckWriteErr   string       `json:"ack_write_err,omitempty"`
}

// ---- per-process environment -----------------------------------------------------------------------------------

type env struct {
	mc         *mitm.Config
	mitmRoots  *x509.CertPool // what the client trusts (the MITM CA)
	originCert tls.Certificate
	originPool *x509.CertPool // what the proxy's transport trusts (the harness origin's certificate)
}

// authorityFiles: the parent generates the MITM CA once (mitm.NewAuthority) and hands it to the worker
// processes through two files, which saves one RSA key generation per worker start.
func writeAuthority(dir string) error {
	ca, priv, err := mitm.NewAuthority("c05.verif.proxy", "C05 Verif Authority", 2*time.Hour)
	if err != nil {
		return err
	}
	if err := os.WriteFile(filepath.Join(dir, "ca.der"), ca.Raw, 0o600); err != nil {
		return err
	}
	return os.WriteFile(filepath.Join(dir, "ca.key"), x509.MarshalPKCS1PrivateKey(priv), 0o600)
}

func loadAuthority() (*x509.Certificate, *rsa.PrivateKey, error) {
	if dir := os.Getenv("VERIF_C05_CA"); dir != "" {
		der, err1 := os.ReadFile(filepath.Join(dir, "ca.der"))
		kb, err2 := os.ReadFile(filepath.Join(dir, "ca.key"))
		if err1 == nil && err2 == nil {
			ca, err := x509.ParseCertificate(der)
			if err != nil {
				return nil, nil, err
			}
			priv, err := x509.ParsePKCS1PrivateKey(kb)
			return ca, priv, err
		}
	}
	return mitm.NewAuthority("c05.verif.proxy", "C05 Verif Authority", 2*time.Hour)
}

func newEnv() (*env, error) {
	ca, priv, err := loadAuthority()
	if err != nil {
		return nil, err
	}
	mc, err := mitm.NewConfig(ca, priv)
	if err != nil {
		return nil, err
	}
	e := &env{mc: mc, mitmRoots: x509.NewCertPool(), originPool: x509.NewCertPool()}
	e.mitmRoots.AddCert(ca)

	key, err := ecdsa.GenerateKey(elliptic.P256(), rand.Reader)
	if err != nil {
		return nil, err
	}
	tmpl := &x509.Certificate{
		SerialNumber:          big.NewInt(5),
		Subject:               pkix.Name{CommonName: hostName, Organization: []string{"C05 harness origin"}},
		NotBefore:             time.Now().Add(-time.Hour),
		NotAfter:              time.Now().Add(24 * time.Hour),
		KeyUsage:              x509.KeyUsageDigitalSignature | x509.KeyUsageCertSign,
		ExtKeyUsage:           []x509.ExtKeyUsage{x509.ExtKeyUsageServerAuth},
		BasicConstraintsValid: true,
		IsCA:                  true,
		DNSNames:              []string{hostName},
	}
	raw, err := x509.CreateCertificate(rand.Reader, tmpl, tmpl, key.Public(), key)
	if err != nil {
		return nil, err
	}
	leaf, err := x509.ParseCertificate(raw)
	if err != nil {
		return nil, err
	}
	e.originCert = tls.Certificate{Certificate: [][]byte{raw}, PrivateKey: key, Leaf: leaf}
	e.originPool.AddCert(leaf)
	return e, nil
}

// bufConn is a net.Conn whose reads go through a bufio.Reader (already-buffered bytes are not lost).
type bufConn struct {
	net.Conn
	br *bufio.Reader
}

func (c *bufConn) Read(p []byte) (int, error) { return c.br.Read(p) }

// ---- origin ----------------------------------------------------------------------------------------------------

type origin struct {
	l      net.Listener
	tlsCfg *tls.Config
	mu     sync.Mutex
	reqs   []OriginReq
	conns  []OriginConn
	open   []net.Conn
}

func newOrigin(e *env) (*origin, error) {
	l, err := net.Listen("tcp", "127.0.0.1:0")
	if err != nil {
		return nil, err
	}
	o := &origin{l: l, tlsCfg: &tls.Config{Certificates: []tls.Certificate{e.originCert}}}
	go func() {
		for {
			c, err := l.Accept()
			if err != nil {
				return
			}
			o.mu.Lock()
			o.open = append(o.open, c)
			o.mu.Unlock()
			go o.serve(c)
		}
	}()
	return o, nil
}

func (o *origin) close() {
	o.l.Close()
	o.mu.Lock()
	for _, c := range o.open {
		c.Close()
	}
	o.mu.Unlock()
}

func (o *origin) serve(c net.Conn) {
	defer c.Close()
	c.SetDeadline(time.Now().Add(2 * time.Minute))
	br := bufio.NewReader(c)
	b, err := br.Peek(1)
	if err != nil {
		return // dialled and dropped without a byte: says nothing about TLS vs cleartext
	}
	isTLS := b[0] == 0x16
	o.mu.Lock()
	ci := len(o.conns)
	o.conns = append(o.conns, OriginConn{TLS: isTLS, First: fmt.Sprintf("0x%02x", b[0])})
	o.mu.Unlock()
	kind := "clear"
	var rw net.Conn = &bufConn{c, br}
	if isTLS {
		kind = "tls"
		tc := tls.Server(rw, o.tlsCfg)
		if err := tc.Handshake(); err != nil {
			o.mu.Lock()
			o.conns[ci].Err = "origin handshake: " + err.Error()
			o.mu.Unlock()
			return
		}
		rw = tc
		br = bufio.NewReader(tc)
	}
	for {
		req, err := http.ReadRequest(br)
		if err != nil {
			return
		}
		io.Copy(io.Discard, req.Body)
		seq, _ := strconv.Atoi(req.Header.Get("X-C05-Seq"))
		o.mu.Lock()
		o.reqs = append(o.reqs, OriginReq{Seq: seq, TLS: isTLS, Host: req.Host, URI: req.RequestURI})
		o.mu.Unlock()
		body := originBody(kind, seq)
		fmt.Fprintf(rw, "HTTP/1.1 200 OK\r\nContent-Type: text/plain\r\nContent-Length: %d\r\nX-C05-Origin: %s\r\n\r\n%s", len(body), kind, body)
	}
}

func originBody(kind string, seq int) string { return fmt.Sprintf("origin:%s:%d\n", kind, seq) }

// ---- recording / hijacking modifier ----------------------------------------------------------------------------

type recorder struct {
	h        History
	mu       sync.Mutex
	reqs     []ReqObs
	sessions []*martian.Session // kept alive so that pointer identity is meaningful
	hijack   *HijackObs
	hjDone   chan struct{}
}

func (m *recorder) sessionIndex(s *martian.Session) int {
	for i, x := range m.sessions {
		if x == s {
			return i
		}
	}
	m.sessions = append(m.sessions, s)
	return len(m.sessions) - 1
}

func seqOf(req *http.Request) int {
	n, err := strconv.Atoi(req.Header.Get("X-C05-Seq"))
	if err != nil {
		return -1
	}
	return n
}

func ekmOf(cs *tls.ConnectionState) (s string) {
	defer func() {
		if r := recover(); r != nil { // a ConnectionState that does not stem from a real handshake
			s = fmt.Sprint("ekm-unavailable: ", r)
		}
	}()
	b, err := cs.ExportKeyingMaterial(ekmLabel, nil, 16)
	if err != nil {
		return "ekm-error:" + err.Error()
	}
	return hex.EncodeToString(b)
}

func (m *recorder) ModifyRequest(req *http.Request) error {
	ob := ReqObs{Seq: seqOf(req), Method: req.Method, Scheme: req.URL.Scheme, URLHost: req.URL.Host, HostHdr: req.Host, Session: -1, ResSession: -1}
	ctx := martian.NewContext(req)
	m.mu.Lock()
	if ctx != nil && ctx.Session() != nil {
		s := ctx.Session()
		ob.HasCtx = true
		ob.Secure = s.IsSecure()
		ob.Session = m.sessionIndex(s)
		ob.SessionID = s.ID()
	}
	if req.TLS != nil {
		ob.TLS = true
		ob.TLSDone = req.TLS.HandshakeComplete
		ob.TLSEKM = ekmOf(req.TLS)
	}
	m.reqs = append(m.reqs, ob)
	m.mu.Unlock()
	if m.h.Hijack == "req" && ob.Seq == len(m.h.Forms) {
		m.doHijack(ctx)
	}
	return nil
}

func (m *recorder) ModifyResponse(res *http.Response) error {
	req := res.Request
	if req == nil {
		return nil
	}
	seq := seqOf(req)
	ctx := martian.NewContext(req)
	m.mu.Lock()
	for i := range m.reqs {
		if m.reqs[i].Seq == seq && !m.reqs[i].ResSeen {
			ob := &m.reqs[i]
			ob.ResSeen = true
			ob.ResStatus = res.StatusCode
			ob.ResScheme = req.URL.Scheme
			ob.ResTLS = req.TLS != nil
			if ctx != nil && ctx.Session() != nil {
				ob.ResSecure = ctx.Session().IsSecure()
				ob.ResSession = m.sessionIndex(ctx.Session())
			}
			break
		}
	}
	m.mu.Unlock()
	if m.h.Hijack == "res" && seq == len(m.h.Forms) {
		m.doHijack(ctx)
	}
	return nil
}

// doHijack takes the connection over, writes a small HTTP response carrying the marker and reads the client's
// acknowledgement line, all through the handle selected by the history (the net.Conn or the ReadWriter).
func (m *recorder) doHijack(ctx *martian.Context) {
	ho := &HijackObs{Ran: true}
	defer func() {
		m.mu.Lock()
		m.hijack = ho
		m.mu.Unlock()
		close(m.hjDone)
	}()
	if ctx == nil {
		ho.Err = "no martian context for the request"
		return
	}
	conn, brw, err := ctx.Session().Hijack()
	if err != nil {
		ho.Err = err.Error()
		return
	}
	ho.ConnType = fmt.Sprintf("%T", conn)
	if tc, ok := conn.(*trafficshape.Conn); ok {
		ho.ConnType += fmt.Sprintf("(%T)", tc.GetWrappedConn())
	}
	conn.SetDeadline(time.Now().Add(ioDeadline))
	msg := fmt.Sprintf("HTTP/1.1 200 OK\r\nContent-Length: %d\r\nX-C05-Hijack: 1\r\n\r\n%s", len(marker), marker)
	var r io.Reader
	if m.h.Via == "conn" {
		_, err = conn.Write([]byte(msg))
		r = conn
	} else {
		if _, err = brw.WriteString(msg); err == nil {
			err = brw.Flush()
		}
		r = brw
	}
	if err != nil {
		ho.WriteErr = err.Error()
	}
	var got []byte
	one := make([]byte, 1)
	for len(got) < 64 {
		n, err := r.Read(one)
		if n > 0 {
			got = append(got, one[0])
			if one[0] == '\n' {
				break
			}
		}
		if err != nil {
			ho.ReadErr = err.Error()
			break
		}
	}
	ho.Read = strconv.Quote(string(got))
}

// ---- running one history ---------------------------------------------------------------------------------------

func requestBytes(h History, seq int) string {
	form, hostName := h.Forms[seq-1], h.hostGiven()
	x := fmt.Sprintf("X-C05-Seq: %d\r\n", seq)
	switch form {
	case "origin":
		return fmt.Sprintf("GET /r%d HTTP/1.1\r\nHost: %s\r\n%s\r\n", seq, hostName, x)
	case "abs_http":
		return fmt.Sprintf("GET http://%s/r%d HTTP/1.1\r\nHost: %s\r\n%s\r\n", hostName, seq, hostName, x)
	case "abs_https":
		return fmt.Sprintf("GET https://%s/r%d HTTP/1.1\r\nHost: %s\r\n%s\r\n", hostName, seq, hostName, x)
	case "nohost":
		// HTTP/1.0 origin-form without a Host header; keep-alive so that later requests can follow it.
		return fmt.Sprintf("GET /r%d HTTP/1.0\r\nConnection: keep-alive\r\n%s\r\n", seq, x)
	}
	panic("bad form " + form)
}

func runHistory(e *env, h History) *Outcome {
	out := &Outcome{H: h}
	var omu sync.Mutex // guards out while the client goroutine may still be running (hang path)
	done := make(chan struct{})

	org, err := newOrigin(e)
	if err != nil {
		out.SetupErr = "origin listen: " + err.Error()
		return out
	}
	defer org.close()

	rec := &recorder{h: h, hjDone: make(chan struct{})}
	var dmu sync.Mutex
	var dials []string

	p := martian.NewProxy()
	p.SetMITM(e.mc)
	tr, ok := p.GetRoundTripper().(*http.Transport)
	if !ok {
		out.SetupErr = fmt.Sprintf("default round tripper is %T, not *http.Transport", p.GetRoundTripper())
		return out
	}
	tr.TLSClientConfig = &tls.Config{RootCAs: e.originPool}
	p.SetRoundTripper(tr)
	p.SetDial(func(network, addr string) (net.Conn, error) {
		dmu.Lock()
		dials = append(dials, network+" "+addr)
		dmu.Unlock()
		return net.DialTimeout("tcp", org.l.Addr().String(), 5*time.Second)
	})
	p.SetRequestModifier(rec)
	p.SetResponseModifier(rec)

	base, err := net.Listen("tcp", "127.0.0.1:0")
	if err != nil {
		out.SetupErr = "proxy listen: " + err.Error()
		return out
	}
	var l net.Listener = base
	switch h.Listener {
	case "shaped":
		l = trafficshape.NewListener(base)
	case "transparent":
		l = tls.NewListener(base, e.mc.TLS())
	}
	go p.Serve(l)

	go func() {
		defer close(done)
		runClient(e, h, base.Addr().String(), rec, out, &omu)
	}()

	select {
	case <-done:
	case <-time.After(historyDeadline):
		omu.Lock()
		out.Hang = true
		omu.Unlock()
	}

	// Collect observations.
	omu.Lock()
	rec.mu.Lock()
	out.Reqs = append([]ReqObs(nil), rec.reqs...)
	if rec.hijack != nil {
		c := *rec.hijack
		out.Hijack = &c
	}
	rec.mu.Unlock()
	org.mu.Lock()
	out.OriginReqs = append([]OriginReq(nil), org.reqs...)
	out.OriginConns = append([]OriginConn(nil), org.conns...)
	org.mu.Unlock()
	dmu.Lock()
	out.Dials = append([]string(nil), dials...)
	dmu.Unlock()
	cp := *out
	omu.Unlock()

	// Tear down (not judged).
	l.Close()
	closed := make(chan struct{})
	go func() { p.Close(); tr.CloseIdleConnections(); close(closed) }()
	select {
	case <-closed:
	case <-time.After(2 * time.Second):
	}
	return &cp
}

func runClient(e *env, h History, addr string, rec *recorder, out *Outcome, omu *sync.Mutex) {
	set := func(f func()) { omu.Lock(); f(); omu.Unlock() }
	raw, err := net.DialTimeout("tcp", addr, 5*time.Second)
	if err != nil {
		set(func() { out.ConnectErr = "dial proxy: " + err.Error() })
		return
	}
	defer raw.Close()
	raw.SetDeadline(time.Now().Add(ioDeadline))
	var stream net.Conn = raw

	if h.Listener != "transparent" {
		fmt.Fprintf(raw, "CONNECT %s HTTP/1.1\r\nHost: %s\r\nX-C05-Seq: 0\r\n\r\n", h.authority(), h.authority())
		br := bufio.NewReader(raw)
		res, err := http.ReadResponse(br, &http.Request{Method: "CONNECT"})
		if err != nil {
			set(func() { out.ConnectErr = "read CONNECT response: " + err.Error() })
			return
		}
		set(func() { out.ConnectStatus = res.StatusCode })
		if res.StatusCode != 200 {
			return
		}
		stream = &bufConn{raw, br}
	}
	if h.Inner == "tls" {
		tc := tls.Client(stream, &tls.Config{ServerName: hostName, RootCAs: e.mitmRoots})
		if err := tc.Handshake(); err != nil {
			set(func() { out.HandshakeErr = err.Error() })
			return
		}
		cs := tc.ConnectionState()
		set(func() {
			out.ClientEKM = ekmOf(&cs)
			if len(cs.PeerCertificates) > 0 {
				out.PeerCertNames = cs.PeerCertificates[0].DNSNames
			}
		})
		stream = tc
	}
	sbr := bufio.NewReader(stream)
	n := len(h.Forms)
	for i := 1; i <= n; i++ {
		stream.SetDeadline(time.Now().Add(ioDeadline))
		cr := ClientRes{Seq: i}
		if _, err := io.WriteString(stream, requestBytes(h, i)); err != nil {
			cr.Err = "write request: " + err.Error()
			set(func() { out.Client = append(out.Client, cr) })
			break
		}
		res, err := http.ReadResponse(sbr, &http.Request{Method: "GET"})
		if err != nil {
			cr.Err = "read response: " + err.Error()
			set(func() { out.Client = append(out.Client, cr) })
			break
		}
		body, err := io.ReadAll(res.Body)
		cr.Status = res.StatusCode
		cr.Body = string(body)
		cr.Hijack = res.Header.Get("X-C05-Hijack") == "1"
		if err != nil {
			cr.Err = "read body: " + err.Error()
		}
		set(func() { out.Client = append(out.Client, cr) })
		if err != nil {
			break
		}
	}
	if h.Hijack != "none" {
		// Answer the hijacker (through the TLS session if there is one) and let it finish.
		stream.SetDeadline(time.Now().Add(ioDeadline))
		if _, err := io.WriteString(stream, ack); err != nil {
			set(func() { out.AckWriteErr = err.Error() })
			raw.Close()
		}
		select {
		case <-rec.hjDone:
		case <-time.After(ioDeadline + 3*time.Second):
		}
	}
}

// ---- oracle (from the statement) -------------------------------------------------------------------------------

// V is one violated clause on one history.
type V struct {
	Entry   string
	Symptom string
	Attrs   map[string]string
	Desc    string
	H       History
	O       *Outcome
}

type judgeStats struct {
	evals    int64
	obsKeys  map[string]bool
	requests int64
}

func reqAttrs(h History, i int) map[string]string {
	cls := "later_request"
	if i == 1 {
		cls = "first_request"
	}
	return map[string]string{"listener": h.Listener, "port": strconv.Itoa(h.Port), "cls": cls, "form": h.Forms[i-1]}
}

func judge(o *Outcome, st *judgeStats) []V {
	h := o.H
	E := h.entry()
	var vs []V
	add := func(symptom string, attrs map[string]string, format string, a ...interface{}) {
		vs = append(vs, V{Entry: E, Symptom: symptom, Attrs: attrs, Desc: h.String() + ": " + fmt.Sprintf(format, a...), H: h, O: o})
	}
	hist := map[string]string{"listener": h.Listener, "port": strconv.Itoa(h.Port)}
	check := func() { st.evals++ }

	check()
	if o.SetupErr != "" {
		add("harness_setup_error", hist, "%s", o.SetupErr)
		return vs
	}
	check()
	if o.Crash != "" {
		add("proxy_process_terminated", hist, "the process running the proxy died during this history: %s", o.Crash)
		return vs
	}
	check()
	if o.Hang {
		add("history_never_completes", hist, "no completion within %v (per-I/O deadline %v)", historyDeadline, ioDeadline)
	}
	if h.Listener != "transparent" {
		check()
		if o.ConnectErr != "" || o.ConnectStatus != 200 {
			add("connect_not_answered_200", hist, "CONNECT answered status=%d err=%q", o.ConnectStatus, o.ConnectErr)
			return vs
		}
	} else if o.ConnectErr != "" {
		add("harness_setup_error", hist, "%s", o.ConnectErr)
		return vs
	}
	tlsIn := h.Inner == "tls"
	if tlsIn {
		check()
		if o.HandshakeErr != "" {
			add("client_tls_handshake_fails", hist, "TLS handshake with the proxy for %s failed: %s", hostName, o.HandshakeErr)
			return vs
		}
	}

	find := func(seq int) *ReqObs {
		for i := range o.Reqs {
			if o.Reqs[i].Seq == seq {
				return &o.Reqs[i]
			}
		}
		return nil
	}
	count := func(seq int) int {
		n := 0
		for i := range o.Reqs {
			if o.Reqs[i].Seq == seq {
				n++
			}
		}
		return n
	}
	var connectObs *ReqObs
	if h.Listener != "transparent" {
		connectObs = find(0)
	}
	firstSession := -2
	n := len(h.Forms)
	for i := 1; i <= n; i++ {
		form := h.Forms[i-1]
		at := reqAttrs(h, i)
		hijackReqHere := h.Hijack == "req" && i == n
		hijackHere := h.Hijack != "none" && i == n
		var cr *ClientRes
		for k := range o.Client {
			if o.Client[k].Seq == i {
				cr = &o.Client[k]
			}
		}
		if cr == nil {
			// The client never got as far as sending request i (an earlier request already failed and was
			// reported): nothing to judge.
			continue
		}
		st.requests++
		ob := find(i)
		check()
		if ob == nil {
			add("request_not_presented_to_modifiers", at, "request %d (%s) was sent but the request modifier never saw it; client: status=%d err=%q", i, form, cr.Status, cr.Err)
			continue
		}
		st.obsKeys[fmt.Sprintf("%s|%s|%s|%s|scheme=%s|secure=%v|tls=%v|hostok=%v|res=%v", E, h.Listener, at["cls"], form, ob.Scheme, ob.Secure, ob.TLS, h.hostOK(ob.URLHost), ob.ResSeen)] = true
		check()
		if c := count(i); c != 1 {
			add("request_presented_more_than_once", at, "request %d seen %d times by the request modifier", i, c)
		}
		hostBad := false
		if tlsIn {
			// "presented to modifiers with scheme https"
			check()
			if ob.Scheme != "https" {
				add("scheme_not_https", at, "request %d (%s) decrypted from the tunnel is shown to the request modifier with URL.Scheme=%q", i, form, ob.Scheme)
			} else if ob.ResSeen && ob.ResScheme != "https" {
				add("scheme_not_https_at_response_modifier", at, "request %d (%s): URL.Scheme=%q when the response modifier runs", i, form, ob.ResScheme)
			}
			// "a session marked secure"
			check()
			if !ob.HasCtx {
				add("no_context_for_request", at, "request %d (%s): martian.NewContext(req) is nil in the request modifier", i, form)
			} else if !ob.Secure {
				add("session_not_secure", at, "request %d (%s): ctx.Session().IsSecure()=false in the request modifier", i, form)
			} else if ob.ResSeen && !ob.ResSecure {
				add("session_not_secure_at_response_modifier", at, "request %d (%s): IsSecure()=false in the response modifier", i, form)
			}
			// "the connection's TLS state attached"
			check()
			if !ob.TLS {
				add("tls_state_missing", at, "request %d (%s): req.TLS == nil in the request modifier (scheme=%s secure=%v)", i, form, ob.Scheme, ob.Secure)
			} else if ob.TLSEKM != o.ClientEKM || !ob.TLSDone {
				add("tls_state_not_of_this_connection", at, "request %d (%s): req.TLS is not the state of the client's TLS connection (keying material %s vs client %s, handshake complete=%v)", i, form, ob.TLSEKM, o.ClientEKM, ob.TLSDone)
			} else if ob.ResSeen && !ob.ResTLS {
				add("tls_state_missing_at_response_modifier", at, "request %d (%s): req.TLS == nil when the response modifier runs", i, form)
			}
			// "the tunnel's authority as host when none is given"
			check()
			if form == "nohost" {
				if E == "connect_tls" && !h.hostOK(ob.URLHost) {
					hostBad = true
					add("url_host_not_tunnel_authority", at, "request %d has no Host header and an origin-form target inside the tunnel to %s, but the modifier sees URL.Host=%q (client then got status %d)", i, h.authority(), ob.URLHost, cr.Status)
				}
				// transparent listener: there is no CONNECT and hence no tunnel authority; URL.Host is not judged.
			} else if !h.hostOK(ob.URLHost) {
				hostBad = true
				add("url_host_not_as_given", at, "request %d (%s) names host %s but the modifier sees URL.Host=%q", i, form, h.hostGiven(), ob.URLHost)
			}
		} else {
			// "Traffic inside a CONNECT tunnel that does not begin with a TLS handshake is handled as plain HTTP on an
			// insecure session."
			check()
			if ob.Scheme != "http" {
				add("plaintext_scheme_not_http", at, "plaintext request %d (%s) inside CONNECT shown with URL.Scheme=%q", i, form, ob.Scheme)
			}
			check()
			if ob.Secure || (ob.ResSeen && ob.ResSecure) {
				add("plaintext_session_marked_secure", at, "plaintext request %d (%s) inside CONNECT: session IsSecure()=true", i, form)
			}
			check()
			if ob.TLS {
				add("plaintext_request_has_tls_state", at, "plaintext request %d (%s) inside CONNECT has req.TLS != nil", i, form)
			}
		}
		// "The CONNECT request and all requests inside its tunnel share one session"
		check()
		if connectObs != nil && ob.Session != connectObs.Session {
			add("session_not_shared_with_connect", at, "request %d (%s) runs in session %s, the CONNECT ran in session %s", i, form, ob.SessionID, connectObs.SessionID)
		} else if firstSession != -2 && ob.Session != firstSession {
			add("session_changes_between_requests", at, "request %d (%s) runs in another session (%s) than request 1", i, form, ob.SessionID)
		} else if ob.ResSeen && ob.ResSession != ob.Session {
			add("session_changes_between_modifiers", at, "request %d (%s): response modifier sees another session than the request modifier", i, form)
		}
		if firstSession == -2 {
			firstSession = ob.Session
		}

		// "forwarded upstream over TLS, never in cleartext"
		var up []OriginReq
		for _, r := range o.OriginReqs {
			if r.Seq == i {
				up = append(up, r)
			}
		}
		if !hijackReqHere {
			check()
			clear, overTLS := 0, 0
			for _, r := range up {
				if r.TLS {
					overTLS++
				} else {
					clear++
				}
			}
			judgedHost := !(form == "nohost" && E != "connect_tls") // no authority to fall back on is stated there
			switch {
			case tlsIn && clear > 0:
				add("forwarded_upstream_in_cleartext", at, "request %d (%s) decrypted from the TLS tunnel reached the origin over a cleartext connection (dials: %v)", i, form, o.Dials)
			case !tlsIn && overTLS > 0:
				add("plaintext_request_forwarded_over_tls", at, "plaintext request %d (%s) inside CONNECT reached the origin over TLS, not as plain HTTP", i, form)
			case len(up) == 0 && judgedHost && !hostBad:
				add("not_forwarded_upstream", at, "request %d (%s) never reached the origin (client status=%d err=%q, dials: %v)", i, form, cr.Status, cr.Err, o.Dials)
			case len(up) > 1:
				add("forwarded_more_than_once", at, "request %d (%s) reached the origin %d times", i, form, len(up))
			}
		}
		// "its response returns inside the same TLS session" (the client reads through its TLS connection; anything
		// not encrypted under that session's keys is a read error)
		if !hijackHere {
			check()
			kind := "clear" // how the origin was reached for this request decides what it answered
			if len(up) == 1 && up[0].TLS {
				kind = "tls"
			}
			switch {
			case cr.Err != "" && tlsIn:
				add("response_not_inside_client_tls_session", at, "request %d (%s): the client could not read a response through its TLS session: %s", i, form, cr.Err)
			case cr.Err != "":
				add("plaintext_response_not_delivered", at, "request %d (%s): the client could not read a response: %s", i, form, cr.Err)
			case len(up) == 1 && (cr.Status != 200 || cr.Body != originBody(kind, i)):
				add("response_is_not_the_origins", at, "request %d (%s): origin answered %q but the client read status=%d body=%q", i, form, originBody(kind, i), cr.Status, cr.Body)
			}
		}
	}
	// Connection-level cleartext contact (even without a parsable request).
	if tlsIn {
		check()
		for _, c := range o.OriginConns {
			if !c.TLS {
				known := false
				for _, r := range o.OriginReqs {
					if !r.TLS {
						known = true
					}
				}
				if !known {
					add("upstream_cleartext_connection", hist, "the origin was contacted on a connection that does not start with a TLS ClientHello (first byte %s; dials %v)", c.First, o.Dials)
				}
				break
			}
		}
	}
	// "a modifier that hijacks that session is handed the decrypted connection"
	if h.Hijack != "none" {
		var last *ClientRes
		for k := range o.Client {
			if o.Client[k].Seq == n {
				last = &o.Client[k]
			}
		}
		if last != nil && find(n) != nil { // the hijacking request was sent and reached the modifiers
			at := reqAttrs(h, n)
			at["pos"] = h.Hijack
			at["via"] = h.Via
			check()
			ho := o.Hijack
			switch {
			case ho == nil || !ho.Ran:
				if !(h.Hijack == "res" && !find(n).ResSeen) {
					add("hijacker_never_completed", at, "the hijacking modifier did not complete")
				}
			case ho.Err != "":
				add("hijack_refused", at, "Session.Hijack(): %s", ho.Err)
			default:
				clientOK := last.Err == "" && last.Hijack && last.Body == marker
				hijackerOK := ho.Read == strconv.Quote(ack)
				if !clientOK || !hijackerOK {
					layer := "its TLS session"
					if !tlsIn {
						layer = "the tunnel"
					}
					add("hijacker_not_on_decrypted_connection", at,
						"hijack in the %s modifier of request %d using the %s from Session.Hijack() (conn type %s): the client reading through %s got status=%d body=%q err=%q (want the marker); the hijacker read %s err=%q (want %q), write err=%q",
						h.Hijack, n, map[string]string{"conn": "net.Conn", "brw": "*bufio.ReadWriter"}[h.Via], ho.ConnType, layer, last.Status, last.Body, last.Err, ho.Read, ho.ReadErr, ack, ho.WriteErr)
				}
			}
		}
	}
	return vs
}

// attribute domains, used to turn (entry, symptom, set of failing scenario attributes) into a signature:
// an attribute is mentioned in the signature only if the symptom does NOT occur for all of its values.
var attrOrder = []string{"listener", "port", "cls", "form", "pos", "via"}

func attrDomain(entry, attr string) []string {
	switch attr {
	case "listener":
		if entry == "transparent_tls" {
			return []string{"transparent"}
		}
		return []string{"plain", "shaped"}
	case "port":
		return []string{"443", "8443"}
	case "cls":
		return []string{"first_request", "later_request"}
	case "form":
		return forms
	case "pos":
		return []string{"req", "res"}
	case "via":
		return []string{"brw", "conn"}
	}
	return nil
}

func signatures(vs []V) map[*V]string {
	type key struct{ e, s string }
	groups := map[key][]*V{}
	for i := range vs {
		k := key{vs[i].Entry, vs[i].Symptom}
		groups[k] = append(groups[k], &vs[i])
	}
	out := map[*V]string{}
	for k, g := range groups {
		parts := []string{k.e}
		for _, a := range attrOrder {
			seen := map[string]bool{}
			for _, v := range g {
				if x, ok := v.Attrs[a]; ok {
					seen[x] = true
				}
			}
			if len(seen) == 0 {
				continue
			}
			dom := attrDomain(k.e, a)
			all := true
			for _, d := range dom {
				if !seen[d] {
					all = false
				}
			}
			if all {
				continue
			}
			var vals []string
			for x := range seen {
				vals = append(vals, x)
			}
			sort.Strings(vals)
			parts = append(parts, a+"="+strings.Join(vals, "+"))
		}
		parts = append(parts, k.s)
		sig := strings.Join(parts, ":")
		for _, v := range g {
			out[v] = sig
		}
	}
	return out
}

// ---- worker / sharding -----------------------------------------------------------------------------------------

type line struct {
	Start   *int     `json:"start,omitempty"`
	Outcome *Outcome `json:"outcome,omitempty"`
}

func mine(k, shard, n, seed int) bool { return (k+seed)%n == shard }

func workerMain(hs []History, shard, n int) {
	mlog.SetLevel(mlog.Silent)
	from, _ := strconv.Atoi(os.Getenv("VERIF_C05_FROM"))
	f, err := os.OpenFile(os.Getenv("VERIF_SHARD_OUT"), os.O_APPEND|os.O_CREATE|os.O_WRONLY, 0o644)
	if err != nil {
		fmt.Fprintln(os.Stderr, "worker: cannot open output:", err)
		os.Exit(2)
	}
	e, err := newEnv()
	if err != nil {
		fmt.Fprintln(os.Stderr, "worker: cannot create CA / certificates:", err)
		os.Exit(2)
	}
	put := func(l line) {
		b, _ := json.Marshal(l)
		f.Write(append(b, '\n'))
	}
	only := -1
	if v := os.Getenv("VERIF_C05_ONLY"); v != "" {
		only, _ = strconv.Atoi(v)
	}
	for k := range hs {
		if only >= 0 && k != only {
			continue
		}
		if only < 0 && (k < from || !mine(k, shard, n, lib.Seed())) {
			continue
		}
		id := k
		put(line{Start: &id})
		o := runHistory(e, hs[k])
		if only >= 0 {
			// Attribution run: if a proxy goroutine is panicking, let it take the process down before the
			// outcome is reported as a clean completion.
			time.Sleep(100 * time.Millisecond)
		}
		put(line{Outcome: o})
	}
	f.Close()
	os.Exit(0)
}

func readShard(path string) (outs map[int]*Outcome, started []int) {
	outs = map[int]*Outcome{}
	f, err := os.Open(path)
	if err != nil {
		return
	}
	defer f.Close()
	sc := bufio.NewScanner(f)
	sc.Buffer(make([]byte, 1<<20), 16<<20)
	for sc.Scan() {
		var l line
		if json.Unmarshal(sc.Bytes(), &l) != nil {
			continue
		}
		if l.Start != nil {
			started = append(started, *l.Start)
		}
		if l.Outcome != nil {
			outs[l.Outcome.H.ID] = l.Outcome
		}
	}
	return
}

func tail(s string, n int) string {
	s = strings.TrimSpace(s)
	if len(s) > n {
		s = "..." + s[len(s)-n:]
	}
	return s
}

// crashText extracts the panic / fatal error part of a dead worker's output.
func crashText(err error, out string) string {
	for _, mark := range []string{"panic:", "fatal error:"} {
		if i := strings.Index(out, mark); i >= 0 {
			out = out[i:]
			if len(out) > 1500 {
				out = out[:1500] + "..."
			}
			return fmt.Sprintf("worker exit: %v; %s", err, strings.TrimSpace(out))
		}
	}
	return fmt.Sprintf("worker exit: %v; output tail: %s", err, tail(out, 1500))
}

// runIsolated runs one history alone in a fresh process.
func runIsolated(h History, file string) *Outcome {
	os.Remove(file)
	cmd := exec.Command(os.Args[0], os.Args[1:]...)
	cmd.Env = append(os.Environ(), "VERIF_SHARD=0/1", "VERIF_SHARD_OUT="+file, "GOMAXPROCS=2", "VERIF_C05_ONLY="+strconv.Itoa(h.ID))
	b, err := cmd.CombinedOutput()
	got, _ := readShard(file)
	if o, ok := got[h.ID]; ok && err == nil {
		return o
	}
	return &Outcome{H: h, Crash: crashText(err, string(b))}
}

func rerunShard(shard, n, from int, file string) (string, error) {
	cmd := exec.Command(os.Args[0], os.Args[1:]...)
	cmd.Env = append(os.Environ(), fmt.Sprintf("VERIF_SHARD=%d/%d", shard, n), "VERIF_SHARD_OUT="+file, "GOMAXPROCS=2", "VERIF_C05_FROM="+strconv.Itoa(from))
	b, err := cmd.CombinedOutput()
	return string(b), err
}

func main() {
	tier := lib.Tier()
	maxN := 2
	if tier == "thorough" {
		maxN = 3
	}
	hs := enumerate(maxN)

	if shard, n := lib.ShardEnv(); n > 0 {
		workerMain(hs, shard, n)
		return
	}

	if rp := os.Getenv("VERIF_REPLAY"); rp != "" {
		replay(rp)
		return
	}

	rep := lib.NewReport("C05", "model_checking")
	rep.Assumptions = []string{
		"client, proxy and origin talk over real loopback TCP with the real crypto/tls; the origin is reached through Proxy.SetDial, every dialled address is mapped to the in-process origin",
		"the proxy uses its own default http.Transport; only TLSClientConfig.RootCAs is set (to the harness origin's certificate)",
		"'tunnel authority' = the CONNECT target (" + hostName + ":443 and :8443 are enumerated); URL.Host equal to it, or to the bare host name when the port is the https default, is accepted",
		"transparent-TLS listener: there is no CONNECT, so the no-Host clause (URL.Host = tunnel authority) is not judged there; all other clauses are",
		"no-Host requests are HTTP/1.0 origin-form with Connection: keep-alive so that later requests can follow on the connection",
		"hang deadlines (12 s per I/O, 40 s per history) are liveness guards only",
		"hijack at the CONNECT request itself (before any decryption exists) belongs to C02 and is not enumerated",
	}

	nshards := runtime.NumCPU()
	if nshards > len(hs) {
		nshards = len(hs)
	}
	dir := filepath.Join(lib.Root, ".build", "c05", "shards-"+tier)
	os.RemoveAll(dir)
	os.MkdirAll(dir, 0o755)
	if err := writeAuthority(dir); err != nil {
		fmt.Fprintln(os.Stderr, "C05: cannot create the MITM CA:", err)
		os.Exit(2)
	}
	os.Setenv("VERIF_C05_CA", dir)
	files, errs, outs := lib.RunShards(nshards, dir)

	// Collect. A worker that died is resumed after the history it died in; because a panicking proxy goroutine
	// closes the client connection (deferred) an instant before the process dies, the history that finished just
	// before may be the real culprit: both are re-run alone in a fresh process, and that run is authoritative.
	results := map[int]*Outcome{}
	var rmu sync.Mutex
	var engineErr string
	var wg sync.WaitGroup
	for s := 0; s < nshards; s++ {
		wg.Add(1)
		go func(s int) {
			defer wg.Done()
			werr, wout := errs[s], outs[s]
			isolated := map[int]bool{}
			for resumes := 0; ; resumes++ {
				got, started := readShard(files[s])
				missing, prev := -1, -1
				rmu.Lock()
				for id, o := range got {
					if !isolated[id] {
						results[id] = o
					}
				}
				for k := range hs {
					if mine(k, s, nshards, lib.Seed()) {
						if _, ok := results[k]; !ok {
							missing = k
							break
						}
						prev = k
					}
				}
				rmu.Unlock()
				if missing < 0 {
					return
				}
				wasStarted := false
				for _, id := range started {
					if id == missing {
						wasStarted = true
					}
				}
				if !wasStarted {
					rmu.Lock()
					engineErr = fmt.Sprintf("worker %d exited (%v) before starting history %d; output:\n%s", s, werr, missing, tail(wout, 4000))
					rmu.Unlock()
					return
				}
				reproduced := false
				for _, id := range []int{prev, missing} {
					if id < 0 || isolated[id] {
						continue
					}
					isolated[id] = true
					o := runIsolated(hs[id], filepath.Join(dir, fmt.Sprintf("only-%d.json", id)))
					if o.Crash != "" {
						reproduced = true
					}
					rmu.Lock()
					results[id] = o
					rmu.Unlock()
				}
				if !reproduced {
					rmu.Lock()
					results[missing] = &Outcome{H: hs[missing], Crash: "worker died while running this history (not reproduced when re-run alone): " + crashText(werr, wout)}
					rmu.Unlock()
				}
				if resumes >= 2 {
					// Third death in this shard: stop bulk runs, every remaining history gets its own process.
					for k := missing + 1; k < len(hs); k++ {
						if mine(k, s, nshards, lib.Seed()) {
							o := runIsolated(hs[k], filepath.Join(dir, fmt.Sprintf("only-%d.json", k)))
							rmu.Lock()
							results[k] = o
							rmu.Unlock()
						}
					}
					return
				}
				wout, werr = rerunShard(s, nshards, missing+1, files[s])
			}
		}(s)
	}
	wg.Wait()
	if engineErr != "" {
		fmt.Fprintln(os.Stderr, "C05:", engineErr)
		os.Exit(2)
	}

	// Judge.
	st := &judgeStats{obsKeys: map[string]bool{}}
	var all []V
	executed, nontrivial, hung, crashed := 0, 0, 0, 0
	var transitions int64
	perEntry := map[string]int{}
	outcomeKinds := map[string]bool{}
	for k := range hs {
		o, ok := results[k]
		if !ok {
			continue
		}
		if o.Crash == "" && o.SetupErr == "" {
			executed++
			perEntry[o.H.entry()]++
			transitions += int64(len(o.Reqs))
			for _, r := range o.Reqs {
				if r.ResSeen {
					transitions++
				}
			}
			if len(o.H.Forms) >= 2 || o.H.Hijack != "none" || o.H.Forms[0] != "origin" {
				nontrivial++
			}
		}
		if o.Hang {
			hung++
		}
		if o.Crash != "" {
			crashed++
		}
		vs := judge(o, st)
		var syms []string
		for _, v := range vs {
			syms = append(syms, v.Symptom)
		}
		outcomeKinds[o.H.entry()+"|"+strings.Join(syms, ",")] = true
		all = append(all, vs...)
		if len(hs) <= 16 || k%(len(hs)/8+1) == 0 {
			rep.Sample(8, map[string]interface{}{"history": o.H.String(), "modifier_view": o.Reqs, "origin": o.OriginReqs, "client": o.Client, "violated": syms})
		}
	}
	sigs := signatures(all)
	for i := range all {
		v := &all[i]
		rep.Violate(sigs[v], v.Desc, map[string]interface{}{"history": v.H, "outcome": v.O})
	}

	rep.Coverage["states"] = len(st.obsKeys)
	rep.Coverage["transitions"] = transitions
	rep.Coverage["traces_validated_against_impl"] = executed
	rep.Coverage["evaluations"] = st.evals
	rep.Coverage["distinct_nontrivial"] = nontrivial
	rep.Coverage["distinct_outcomes"] = len(outcomeKinds)
	rep.Coverage["histories_enumerated"] = len(hs)
	rep.Coverage["histories_per_entry"] = perEntry
	rep.Coverage["requests_judged"] = st.requests
	rep.Coverage["histories_hung"] = hung
	rep.Coverage["histories_crashed_worker"] = crashed
	rep.Coverage["worker_processes"] = nshards
	rep.Coverage["rule"] = "every history of {plain, trafficshape, transparent-TLS listener} x {TLS, plaintext inside the tunnel} x tunnel authority port {443, 8443} x 1..N requests x {origin-form, absolute http://, absolute https://, HTTP/1.0 without Host}^N x {no hijack, hijack in request/response modifier of the last request via the net.Conn or the ReadWriter returned by Hijack} is run once through the real proxy; states = distinct per-request modifier views (entry, listener, first/later, form, scheme, secure, TLS state, host, response seen); transitions = modifier invocations; non-trivial = anything TestIntegrationMITM/TransparentMITM do not do: >=2 requests on the decrypted connection, or a non-origin-form first target, or a hijack"
	rep.Coverage["exhaustive"] = rep.Incomplete == "" && executed == len(hs)
	rep.Coverage["bounds"] = fmt.Sprintf("N<=%d requests per decrypted connection; 3 listener kinds; 2 tunnel contents (transparent: TLS only); 4 target forms per request; 5 hijack variants at the last request; tunnel authority %s with ports %v", maxN, hostName, ports)
	rep.Finish()
}

func replay(path string) {
	b, err := os.ReadFile(path)
	if err != nil {
		fmt.Fprintln(os.Stderr, "replay:", err)
		os.Exit(2)
	}
	var doc struct {
		First struct {
			Replay struct {
				History History `json:"history"`
			} `json:"replay"`
		} `json:"first"`
	}
	if err := json.Unmarshal(b, &doc); err != nil || len(doc.First.Replay.History.Forms) == 0 {
		fmt.Fprintln(os.Stderr, "replay: no history in", path, err)
		os.Exit(2)
	}
	mlog.SetLevel(mlog.Error)
	e, err := newEnv()
	if err != nil {
		fmt.Fprintln(os.Stderr, "replay:", err)
		os.Exit(2)
	}
	o := runHistory(e, doc.First.Replay.History)
	ob, _ := json.MarshalIndent(o, "", " ")
	fmt.Println(string(ob))
	st := &judgeStats{obsKeys: map[string]bool{}}
	vs := judge(o, st)
	for _, v := range vs {
		fmt.Printf("VIOLATED %s:%s %v\n  %s\n", v.Entry, v.Symptom, v.Attrs, v.Desc)
	}
	if len(vs) > 0 {
		os.Exit(1)
	}
	fmt.Println("history holds")
}
