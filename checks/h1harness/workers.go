package h1harness

import (
	"bufio"
	"encoding/json"
	"fmt"
	"os"
	"os/exec"
	"path/filepath"
	"sort"
	"strconv"
	"strings"
	"sync"
	"time"

	"verif/lib"
)

// CaseResult is what running one scenario produces.
type CaseResult struct {
	V []lib.Violation     `json:"v,omitempty"`
	C map[string]int64    `json:"c,omitempty"` // counters to add
	K map[string][]string `json:"k,omitempty"` // named key sets (distinct values are counted by the parent)
	S interface{}         `json:"s,omitempty"` // optional sample for the evidence file
	N string              `json:"n,omitempty"` // harness note (e.g. mem/tcp disagreement), not a violation
}

// Aggregate is the merged outcome of all scenarios.
type Aggregate struct {
	Violations []lib.Violation
	Counters   map[string]int64
	Keys       map[string]map[string]bool
	Samples    []interface{}
	Notes      []string
	Executed   int
	Crashes    int
	Restarts   int
	EngineErr  string
}

func init() {
	for _, k := range []string{"HTTP_PROXY", "http_proxy", "HTTPS_PROXY", "https_proxy", "NO_PROXY", "no_proxy", "ALL_PROXY", "all_proxy"} {
		os.Unsetenv(k)
	}
}

// IsWorker reports whether this process is a scenario worker.
func IsWorker() bool { return os.Getenv("H1_WORKER") != "" }

// WorkerKeeps returns the predicate "this worker process will be asked to run scenario idx" (so that a worker
// only needs to materialise its own share of a large enumeration).
func WorkerKeeps() func(idx int) bool {
	spec := strings.Split(os.Getenv("H1_WORKER"), "/")
	if spec[0] == "solo" {
		k, _ := strconv.Atoi(spec[1])
		return func(idx int) bool { return idx == k }
	}
	i, _ := strconv.Atoi(spec[0])
	n, _ := strconv.Atoi(spec[1])
	if n <= 0 {
		return func(int) bool { return true }
	}
	return func(idx int) bool { return idx%n == i }
}

type logLine struct {
	S *int        `json:"s,omitempty"` // started
	D *int        `json:"d,omitempty"` // done
	T *int        `json:"t,omitempty"` // exceeded the per-case wall limit
	R *CaseResult `json:"r,omitempty"`
}

// WorkerMain runs the scenarios assigned to this worker: H1_WORKER is "i/n/total" (indices congruent to i
// mod n) or "solo/idx"; H1_SKIP names a file with indices to skip; H1_OUT is the JSONL progress file. The
// id of a scenario is written (write(2), unbuffered) before it is executed, so a crash of the process is
// attributable.
func WorkerMain(parallel int, caseLimit time.Duration, run func(idx int) *CaseResult) {
	spec := strings.Split(os.Getenv("H1_WORKER"), "/")
	out, err := os.OpenFile(os.Getenv("H1_OUT"), os.O_WRONLY|os.O_CREATE|os.O_APPEND, 0o644)
	if err != nil {
		fmt.Fprintln(os.Stderr, "worker: cannot open output:", err)
		os.Exit(2)
	}
	var omu sync.Mutex
	emit := func(l logLine) {
		b, _ := json.Marshal(l)
		b = append(b, '\n')
		omu.Lock()
		out.Write(b)
		omu.Unlock()
	}
	var todo []int
	if spec[0] == "solo" {
		i, _ := strconv.Atoi(spec[1])
		todo = []int{i}
		parallel = 1
	} else {
		i, _ := strconv.Atoi(spec[0])
		n, _ := strconv.Atoi(spec[1])
		total, _ := strconv.Atoi(spec[2])
		skip := map[int]bool{}
		if f := os.Getenv("H1_SKIP"); f != "" {
			b, _ := os.ReadFile(f)
			for _, w := range strings.Fields(string(b)) {
				k, _ := strconv.Atoi(w)
				skip[k] = true
			}
		}
		for k := i; k < total; k += n {
			if !skip[k] {
				todo = append(todo, k)
			}
		}
	}
	next := make(chan int)
	var wg sync.WaitGroup
	for w := 0; w < parallel; w++ {
		wg.Add(1)
		go func() {
			defer wg.Done()
			for idx := range next {
				idx := idx
				emit(logLine{S: &idx})
				done := make(chan *CaseResult, 1)
				go func() { done <- run(idx) }()
				select {
				case r := <-done:
					emit(logLine{D: &idx, R: r})
				case <-time.After(caseLimit):
					emit(logLine{T: &idx})
					os.Exit(3)
				}
			}
		}()
	}
	for _, idx := range todo {
		next <- idx
	}
	close(next)
	wg.Wait()
	out.Close()
	os.Exit(0)
}

// RunAll runs scenarios 0..total-1 in worker subprocesses (re-executing os.Args[0]) and merges the results.
// A worker that dies is restarted for its remaining scenarios; the scenarios in flight at the time of death
// are re-run alone, each in its own process, and a scenario that kills its process again is reported as a
// violation with signature crashSig(idx) ("terminates the proxy process").
// dir must be private to this run (concurrent runs of the same check must not share it).
func RunAll(workers, total int, dir string, crashSig func(idx int, stderr string) (sig, desc string, replay interface{})) *Aggregate {
	os.RemoveAll(dir)
	os.MkdirAll(dir, 0o755)
	agg := &Aggregate{Counters: map[string]int64{}, Keys: map[string]map[string]bool{}}
	var mu sync.Mutex
	merge := func(r *CaseResult) {
		if r == nil {
			return
		}
		mu.Lock()
		defer mu.Unlock()
		agg.Executed++
		agg.Violations = append(agg.Violations, r.V...)
		for k, v := range r.C {
			agg.Counters[k] += v
		}
		for k, vs := range r.K {
			if agg.Keys[k] == nil {
				agg.Keys[k] = map[string]bool{}
			}
			for _, v := range vs {
				agg.Keys[k][v] = true
			}
		}
		if r.S != nil && len(agg.Samples) < 12 {
			agg.Samples = append(agg.Samples, r.S)
		}
		if r.N != "" && len(agg.Notes) < 50 {
			agg.Notes = append(agg.Notes, r.N)
		}
	}
	// runProc runs one worker process and returns (started-not-done indices, timed-out indices, exit error, stderr tail)
	runProc := func(spec, outFile, skipFile string) (inflight, timedOut []int, exitErr error, stderr string) {
		os.Remove(outFile)
		cmd := exec.Command(os.Args[0], os.Args[1:]...)
		cmd.Env = append(os.Environ(), "H1_WORKER="+spec, "H1_OUT="+outFile, "H1_SKIP="+skipFile, "GOMAXPROCS=4")
		errFile := outFile + ".stderr"
		ef, _ := os.Create(errFile)
		cmd.Stderr = ef
		cmd.Stdout = ef
		exitErr = cmd.Run()
		ef.Close()
		started := map[int]bool{}
		f, err := os.Open(outFile)
		if err == nil {
			sc := bufio.NewScanner(f)
			sc.Buffer(make([]byte, 1<<20), 64<<20)
			for sc.Scan() {
				var l logLine
				if json.Unmarshal(sc.Bytes(), &l) != nil {
					continue
				}
				switch {
				case l.S != nil:
					started[*l.S] = true
				case l.D != nil:
					delete(started, *l.D)
					merge(l.R)
				case l.T != nil:
					delete(started, *l.T)
					timedOut = append(timedOut, *l.T)
				}
			}
			f.Close()
		}
		for k := range started {
			inflight = append(inflight, k)
		}
		sort.Ints(inflight)
		if exitErr != nil {
			b, _ := os.ReadFile(errFile)
			if len(b) > 6000 {
				b = append(append([]byte{}, b[:3000]...), append([]byte("\n...\n"), b[len(b)-3000:]...)...)
			}
			stderr = string(b)
		}
		return
	}
	var wg sync.WaitGroup
	for w := 0; w < workers; w++ {
		wg.Add(1)
		go func(w int) {
			defer wg.Done()
			skipFile := filepath.Join(dir, fmt.Sprintf("skip-%d", w))
			os.WriteFile(skipFile, nil, 0o644)
			var skipped []string
			for attempt := 0; ; attempt++ {
				outFile := filepath.Join(dir, fmt.Sprintf("w%d-%d.jsonl", w, attempt))
				inflight, timedOut, exitErr, stderr := runProc(fmt.Sprintf("%d/%d/%d", w, workers, total), outFile, skipFile)
				// everything that finished in this incarnation must be skipped by the next one
				if exitErr == nil && len(inflight) == 0 {
					return
				}
				mu.Lock()
				agg.Restarts++
				mu.Unlock()
				if attempt > 200 {
					mu.Lock()
					agg.EngineErr = fmt.Sprintf("worker %d restarted more than 200 times; last stderr: %s", w, stderr)
					mu.Unlock()
					return
				}
				// done indices of this incarnation
				doneIdx := doneIndices(outFile)
				for _, k := range doneIdx {
					skipped = append(skipped, strconv.Itoa(k))
				}
				for _, k := range timedOut {
					skipped = append(skipped, strconv.Itoa(k))
					sig, desc, rp := crashSig(k, "scenario exceeded the per-case wall limit; worker killed")
					merge(&CaseResult{V: []lib.Violation{{Sig: strings.Replace(sig, "crash", "hang", 1), Desc: desc, Replay: rp}}})
				}
				suspects := inflight
				for _, k := range suspects {
					skipped = append(skipped, strconv.Itoa(k))
				}
				os.WriteFile(skipFile, []byte(strings.Join(skipped, " ")), 0o644)
				crashed := 0
				for _, k := range suspects {
					solo := filepath.Join(dir, fmt.Sprintf("solo-%d.jsonl", k))
					infl, to, err2, stderr2 := runProc(fmt.Sprintf("solo/%d", k), solo, "")
					if err2 != nil || len(infl) > 0 || len(to) > 0 {
						crashed++
						sig, desc, rp := crashSig(k, stderr2)
						if len(to) > 0 {
							sig = strings.Replace(sig, "crash", "hang", 1)
						}
						merge(&CaseResult{V: []lib.Violation{{Sig: sig, Desc: desc, Replay: rp}}})
						mu.Lock()
						agg.Crashes++
						mu.Unlock()
					}
				}
				if crashed == 0 && len(suspects) > 0 && len(timedOut) == 0 {
					// the process died but none of the in-flight scenarios reproduces it alone: still a
					// termination of the proxy process; attribute it to the set.
					sig, desc, rp := crashSig(suspects[0], stderr)
					merge(&CaseResult{V: []lib.Violation{{Sig: sig + ":not_reproduced_solo", Desc: fmt.Sprintf("in-flight scenarios %v; %s", suspects, desc), Replay: rp}}})
					mu.Lock()
					agg.Crashes++
					mu.Unlock()
				}
				if len(suspects) == 0 && len(timedOut) == 0 && exitErr != nil {
					mu.Lock()
					agg.EngineErr = fmt.Sprintf("worker %d failed outside a scenario: %v\n%s", w, exitErr, stderr)
					mu.Unlock()
					return
				}
			}
		}(w)
	}
	wg.Wait()
	if agg.EngineErr == "" && agg.Crashes == 0 {
		os.RemoveAll(dir) // the progress files are large; keep them only when something needs a post-mortem
	}
	return agg
}

func doneIndices(file string) []int {
	var out []int
	f, err := os.Open(file)
	if err != nil {
		return nil
	}
	defer f.Close()
	sc := bufio.NewScanner(f)
	sc.Buffer(make([]byte, 1<<20), 64<<20)
	for sc.Scan() {
		b := sc.Bytes()
		if !strings.HasPrefix(string(b[:min(len(b), 5)]), `{"d":`) {
			continue
		}
		var l struct {
			D *int `json:"d"`
		}
		if json.Unmarshal(b, &l) == nil && l.D != nil {
			out = append(out, *l.D)
		}
	}
	return out
}

// Apply copies an aggregate into a report.
func (a *Aggregate) Apply(rep *lib.Report) {
	for _, v := range a.Violations {
		rep.Violate(v.Sig, v.Desc, v.Replay)
	}
	for k, v := range a.Counters {
		rep.Count(k, v)
	}
	for _, s := range a.Samples {
		rep.Sample(12, s)
	}
	for k, set := range a.Keys {
		rep.Coverage["distinct_"+k] = len(set)
		if len(set) <= 64 {
			var l []string
			for v := range set {
				l = append(l, v)
			}
			sort.Strings(l)
			rep.Coverage[k+"_seen"] = l
		}
	}
	rep.Coverage["worker_restarts"] = a.Restarts
	rep.Coverage["worker_crashes_attributed"] = a.Crashes
	if len(a.Notes) > 0 {
		rep.Coverage["harness_notes"] = a.Notes
	}
}
