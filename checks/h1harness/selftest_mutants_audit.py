"""Audit mutants for C01 (a_..i_) and C03 (u_..y_): usage: selftest_mutants_audit.py <mutant> <in: /repo proxy.go> <out: proxy.go of a scratch worktree>; then VERIF_REPO=<worktree> ./check <ID> quick."""
import sys
name=sys.argv[1]
src=open(sys.argv[2]).read()
def rep(a,b,count=1):
    global src
    assert a in src,(name,a[:60])
    src=src.replace(a,b,count)
if name=='a_path_clean':
    rep('	req.RemoteAddr = conn.RemoteAddr().String()\n','	req.RemoteAddr = conn.RemoteAddr().String()\n	if req.URL.Path != "" {\n		req.URL.Path = path.Clean(req.URL.Path)\n	}\n')
    rep('	"net/url"\n','	"net/url"\n	"path"\n')
elif name=='b_follow_redirects':
    rep('	return p.roundTripper.RoundTrip(req)','	req.RequestURI = ""\n	c := &http.Client{Transport: p.roundTripper}\n	return c.Do(req)')
elif name=='c_downstream_not_applied':
    rep('''	p.proxyURL = proxyURL

	if tr, ok := p.roundTripper.(*http.Transport); ok {
		tr.Proxy = http.ProxyURL(p.proxyURL)
	}''','''	p.proxyURL = proxyURL

	if tr, ok := p.roundTripper.(*http.Transport); ok {
		tr.Proxy = func(r *http.Request) (*url.URL, error) {
			if r.Method == "HEAD" { // nothing to relay, go direct
				return nil, nil
			}
			return p.proxyURL, nil
		}
	}''')
elif name=='d_writer_pool':
    rep('	reqmod RequestModifier\n','	wpool  sync.Pool\n	reqmod RequestModifier\n')
    rep('	brw := bufio.NewReadWriter(bufio.NewReader(conn), bufio.NewWriter(conn))\n','''	bw, _ := p.wpool.Get().(*bufio.Writer)
	if bw == nil {
		bw = bufio.NewWriter(conn)
	}
	defer p.wpool.Put(bw)
	brw := bufio.NewReadWriter(bufio.NewReader(conn), bw)
''')
elif name=='e_abort_on_client_eof':
    rep('	err = res.Write(brw)\n','''	conn.SetReadDeadline(time.Now().Add(time.Millisecond))
	if _, perr := brw.Reader.Peek(1); perr == io.EOF {
		// the client is gone: do not bother writing the response
		return errClose
	}
	conn.SetReadDeadline(time.Now().Add(p.timeout))
	err = res.Write(brw)
''')
elif name=='f_expect_timeout_hour':
    rep('ExpectContinueTimeout: time.Second,','ExpectContinueTimeout: time.Hour,')
elif name=='g_header_count_limit':
    rep('	// perform the HTTP roundtrip\n','''	if len(req.Header) > 64 {
		res := proxyutil.NewResponse(431, nil, req)
		res.Close = true
		res.Write(brw)
		brw.Flush()
		return errClose
	}
	// perform the HTTP roundtrip
''')
elif name=='h_close_token_exact':
    rep('if req.Close || res.Close || p.Closing() {','if req.Header.Get("Connection") == "close" || (req.ProtoMajor == 1 && req.ProtoMinor == 0 && req.Header.Get("Connection") == "") || res.Close || p.Closing() {')
elif name=='i_http10_origin_keepalive_ignored':
    rep('	var closing error\n	if req.Close','	if res.ProtoMajor == 1 && res.ProtoMinor == 0 {\n		res.Close = true // HTTP/1.0 origins do not do keep-alive\n	}\n	var closing error\n	if req.Close')
elif name=='u_close_after_big_upload_failure':
    rep('''		res = proxyutil.NewResponse(502, nil, req)
		proxyutil.Warning(res.Header, err)
	}
	defer res.Body.Close()''','''		res = proxyutil.NewResponse(502, nil, req)
		proxyutil.Warning(res.Header, err)
		if req.ContentLength > 1<<16 {
			res.Close = true // do not wait for a huge request body to drain
		}
	}
	defer res.Body.Close()''')
elif name=='v_close_after_second_failure':
    rep('''		res = proxyutil.NewResponse(502, nil, req)
		proxyutil.Warning(res.Header, err)
	}
	defer res.Body.Close()''','''		res = proxyutil.NewResponse(502, nil, req)
		proxyutil.Warning(res.Header, err)
		if _, failedBefore := session.Get("martian.rtfailed"); failedBefore {
			res.Close = true // this client's upstream is down: stop serving it
		}
		session.Set("martian.rtfailed", true)
	}
	defer res.Body.Close()''')
elif name=='w_downstream_connect_error_ignored':
    rep('''		res, err := http.ReadResponse(pbr, req)
		if err != nil {
			return nil, nil, err
		}''','''		res, err := http.ReadResponse(pbr, req)
		if err != nil {
			// assume the tunnel is up, the client will find out
			return proxyutil.NewResponse(200, nil, req), conn, nil
		}''')
elif name=='x_no_deadline':
    rep('		conn.SetDeadline(deadline)\n','		_ = deadline\n		conn.SetDeadline(time.Time{})\n')
elif name=='y_close_secure_session_after_failure':
    rep('''		res = proxyutil.NewResponse(502, nil, req)
		proxyutil.Warning(res.Header, err)
	}
	defer res.Body.Close()''','''		res = proxyutil.NewResponse(502, nil, req)
		proxyutil.Warning(res.Header, err)
		if session.IsSecure() {
			res.Close = true
		}
	}
	defer res.Body.Close()''')
else:
    raise SystemExit('unknown '+name)
open(sys.argv[3],"w").write(src)
