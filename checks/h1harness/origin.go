package h1harness

import (
	"bufio"
	"io"
	"net"
	"strings"
	"sync"
	"time"
)

// Action is what the scripted origin does after it has read one request.
type Action struct {
	Write [][]byte // byte-exact response, one conn.Write per element
	Close bool     // close the connection after writing
	// Pauses[i] (optional) is how long the origin stays silent before it writes element i.
	Pauses []time.Duration
}

// Origin is an in-process origin server that follows a byte-exact script and logs what it receives.
type Origin struct {
	// OnAccept decides what happens to the n-th accepted connection (0-based); returning true closes it at
	// once, before a byte is read.
	OnAccept func(conn int) bool
	// Handler returns the action for the req-th request on connection conn. perr is non-nil when the bytes
	// received are not a well-formed request for the origin's parser (req is then nil) .
	Handler func(conn, idx int, req *RawRequest, perr error) Action
	// Early (optional) is consulted once a request head is parsed; a non-nil action is performed at once, the
	// request body is never read and the connection is then held open, unread, until the origin stops (an
	// origin that answers early and does not care about the rest of the request).
	Early func(conn, idx int, head *RawRequest) *Action
	// Continue100: answer "Expect: 100-continue" with an interim 100 response once the head is read.
	Continue100 bool

	l  net.Listener
	wg sync.WaitGroup

	mu        sync.Mutex
	log       []*RawRequest
	raw       map[int][]byte
	parseErrs []string
	accepted  int
	conns     []net.Conn
	sent100   int
	stopping  bool
	stop      chan struct{}
}

type teeReader struct {
	r    io.Reader
	o    *Origin
	conn int
}

func (t *teeReader) Read(p []byte) (int, error) {
	n, err := t.r.Read(p)
	if n > 0 {
		t.o.mu.Lock()
		if len(t.o.raw[t.conn]) < 1<<16 { // keep the first 64 KiB of raw input per connection
			t.o.raw[t.conn] = append(t.o.raw[t.conn], p[:n]...)
		}
		t.o.mu.Unlock()
	}
	return n, err
}

// Start serves connections accepted from l until l is closed.
func (o *Origin) Start(l net.Listener) {
	o.l = l
	o.raw = map[int][]byte{}
	o.stop = make(chan struct{})
	o.wg.Add(1)
	go func() {
		defer o.wg.Done()
		for {
			c, err := l.Accept()
			if err != nil {
				return
			}
			o.mu.Lock()
			idx := o.accepted
			o.accepted++
			o.conns = append(o.conns, c)
			o.mu.Unlock()
			if o.OnAccept != nil && o.OnAccept(idx) {
				c.Close()
				continue
			}
			o.wg.Add(1)
			go o.serve(idx, c)
		}
	}()
}

func (o *Origin) serve(idx int, c net.Conn) {
	defer o.wg.Done()
	defer c.Close()
	br := bufio.NewReaderSize(&teeReader{r: c, o: o, conn: idx}, 4096)
	for n := 0; ; n++ {
		var early *Action
		req, err := ReadRawRequest(br, func(r *RawRequest) bool {
			if o.Early != nil {
				if early = o.Early(idx, n, r); early != nil {
					return true
				}
			}
			if !o.Continue100 {
				return false
			}
			for _, v := range r.Get("Expect") {
				if strings.EqualFold(v, "100-continue") {
					c.Write([]byte("HTTP/1.1 100 Continue\r\n\r\n"))
					o.mu.Lock()
					o.sent100++
					o.mu.Unlock()
				}
			}
			return false
		})
		if err == io.EOF {
			return
		}
		if err == ErrStoppedAfterHead {
			req.Conn = idx
			o.mu.Lock()
			o.log = append(o.log, req)
			o.mu.Unlock()
			for _, seg := range early.Write {
				if _, werr := c.Write(seg); werr != nil {
					return
				}
			}
			if !early.Close {
				<-o.stop
			}
			return
		}
		if req != nil {
			req.Conn = idx
		}
		o.mu.Lock()
		if o.stopping {
			o.mu.Unlock()
			return
		}
		if err != nil {
			o.parseErrs = append(o.parseErrs, err.Error())
		} else {
			o.log = append(o.log, req)
		}
		o.mu.Unlock()
		if err != nil {
			req = nil
		}
		act := o.Handler(idx, n, req, err)
		for i, seg := range act.Write {
			if i < len(act.Pauses) && act.Pauses[i] > 0 {
				time.Sleep(act.Pauses[i])
			}
			if _, werr := c.Write(seg); werr != nil {
				return
			}
		}
		if act.Close || err != nil {
			return
		}
	}
}

// Stop closes the listener and all connections and waits for the goroutines.
func (o *Origin) Stop() {
	o.l.Close()
	o.mu.Lock()
	o.stopping = true
	close(o.stop)
	cs := append([]net.Conn(nil), o.conns...)
	o.mu.Unlock()
	for _, c := range cs {
		c.Close()
	}
	o.wg.Wait()
}

// Log returns the requests received so far, in arrival order.
func (o *Origin) Log() []*RawRequest {
	o.mu.Lock()
	defer o.mu.Unlock()
	return append([]*RawRequest(nil), o.log...)
}

// ParseErrors returns the origin-side parse failures.
func (o *Origin) ParseErrors() []string {
	o.mu.Lock()
	defer o.mu.Unlock()
	return append([]string(nil), o.parseErrs...)
}

// Accepted returns the number of connections accepted.
func (o *Origin) Accepted() int {
	o.mu.Lock()
	defer o.mu.Unlock()
	return o.accepted
}

// Raw returns the first bytes received on a connection.
func (o *Origin) Raw(conn int) []byte {
	o.mu.Lock()
	defer o.mu.Unlock()
	return append([]byte(nil), o.raw[conn]...)
}
