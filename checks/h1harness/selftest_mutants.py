"""Self-validation mutants for checks C01 and C03 (realistic property-breaking edits of martian's proxy.go).

usage: selftest_mutants.py <mutant> <in: proxy.go with the three proposed fixes applied> <out: proxy.go of a scratch worktree>
then build the check against the scratch tree (go build -modfile=<go.mod whose replace points at the scratch
tree> ./checks/c01) and run it with VERIF_ROOT pointing at a scratch directory.

C01: m1_scratch m2_header_set m2b_req_header_set m3_ignore_req_close m4_no_drain m10_pipelined_reader_reset
C03: m5_skip_warning m6_warning_after_modifier m7_keep_conn_after_failed_copy m8_close_after_502 m9_panic_empty_host
"""
import sys
name=sys.argv[1]
src=open(sys.argv[2]).read()
def rep(a,b,count=1):
    global src
    assert a in src, (name, a[:60])
    src=src.replace(a,b,count)
if name=='m1_scratch':
    rep('var errClose = errors.New("closing connection")','''var errClose = errors.New("closing connection")

// copyScratch is a scratch buffer bodies are copied through.
var copyScratch [4096]byte

type scratchBody struct{ io.ReadCloser }

func (b scratchBody) Read(p []byte) (int, error) {
	n := len(p)
	if n > len(copyScratch) {
		n = len(copyScratch)
	}
	n, err := b.ReadCloser.Read(copyScratch[:n])
	copy(p, copyScratch[:n])
	return n, err
}''')
    rep('	err = res.Write(brw)\n','	res.Body = scratchBody{res.Body}\n	err = res.Write(brw)\n')
elif name=='m2_header_set':
    rep('	err = res.Write(brw)\n','''	relayed := http.Header{}
	for k, vs := range res.Header {
		for _, v := range vs {
			relayed.Set(k, v)
		}
	}
	res.Header = relayed
	err = res.Write(brw)
''')
elif name=='m2b_req_header_set':
    rep('	// perform the HTTP roundtrip\n','''	relayed := http.Header{}
	for k, vs := range req.Header {
		for _, v := range vs {
			relayed.Set(k, v)
		}
	}
	req.Header = relayed
	// perform the HTTP roundtrip
''')
elif name=='m3_ignore_req_close':
    rep('if req.Close || res.Close || p.Closing() {','if res.Close || p.Closing() {')
elif name=='m4_no_drain':
    rep('	defer req.Body.Close()\n','')
elif name=='m5_skip_warning':
    rep('''		res = proxyutil.NewResponse(502, nil, req)
		proxyutil.Warning(res.Header, err)
	}
	defer res.Body.Close()''','''		res = proxyutil.NewResponse(502, nil, req)
	}
	defer res.Body.Close()''')
elif name=='m6_warning_after_modifier':
    rep('''		res = proxyutil.NewResponse(502, nil, req)
		proxyutil.Warning(res.Header, err)
	}
	defer res.Body.Close()''','''		res = proxyutil.NewResponse(502, nil, req)
	}
	rterr := err
	defer res.Body.Close()''')
    rep('''	if session.Hijacked() {
		log.Infof("martian: connection hijacked by response modifier")
		return nil
	}

	var closing error''','''	if session.Hijacked() {
		log.Infof("martian: connection hijacked by response modifier")
		return nil
	}
	if rterr != nil {
		proxyutil.Warning(res.Header, rterr)
	}

	var closing error''')
elif name=='m7_keep_conn_after_failed_copy':
    rep('''		// written next would be read as the rest of this response, so close it.
		closing = errClose''','''		// written next would be read as the rest of this response, so close it.
		if _, ok := err.(*trafficshape.ErrForceClose); ok {
			closing = errClose
		}''')
elif name=='m8_close_after_502':
    rep('''		res = proxyutil.NewResponse(502, nil, req)
		proxyutil.Warning(res.Header, err)''','''		res = proxyutil.NewResponse(502, nil, req)
		res.Close = true
		proxyutil.Warning(res.Header, err)''')
elif name=='m9_panic_empty_host':
    rep('	req.RemoteAddr = conn.RemoteAddr().String()\n','''	req.RemoteAddr = conn.RemoteAddr().String()
	if req.Host[0] == '[' {
		log.Debugf("martian: IPv6 literal host: %s", req.Host)
	}
''')
elif name=='m10_pipelined_reader_reset':
    # lose buffered pipelined bytes: fresh bufio.Reader per request
    rep('	req, err := p.readRequest(ctx, conn, brw)\n','	brw.Reader = bufio.NewReader(conn)\n	req, err := p.readRequest(ctx, conn, brw)\n')
else:
    raise SystemExit('unknown '+name)
open(sys.argv[3],'w').write(src)
