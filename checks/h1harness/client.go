package h1harness

import (
	"bufio"
	"bytes"
	"errors"
	"io"
	"net"
	"net/http"
	"os"
	"strings"
	"time"
)

// Response is the client's own parse of one response taken from the raw stream.
type Response struct {
	Proto    string
	Status   int
	Header   http.Header
	Trailer  http.Header
	Body     []byte
	Framing  string // "cl", "chunked", "close" (delimited by connection close), "none" (bodiless by rule)
	Interim  []int  // 1xx responses that preceded it
	HeadErr  string // non-empty: no complete response head could be parsed; one of the End* constants or a parse error
	BodyEnd  string // how the body ended: EndOK or one of the End* constants
	HeadOnly bool   // response to HEAD / 1xx / 204 / 304
	Close    bool   // the response announces that the connection closes (Connection: close, or HTTP/1.0 without keep-alive)
}

// How a read phase ended.
const (
	EndOK        = "ok"
	EndEOF       = "eof"            // connection closed by the proxy
	EndUnexpEOF  = "unexpected_eof" // connection closed in the middle of a message (detectably incomplete)
	EndStalled   = "stalled"        // structural deadlock (in-memory) / quiet period elapsed (TCP)
	EndHang      = "hang"           // hard hang deadline elapsed
	EndMalformed = "malformed"
	EndReset     = "reset"
)

// Client is a raw byte-level client of the proxy.
type Client struct {
	Conn net.Conn
	br   *bufio.Reader
	rec  *recorder
	mem  *MemConn
	// QuietTimeout (TCP only) is the stand-in for structural stall detection: a read that sees no byte for
	// this long is classified as stalled.
	QuietTimeout time.Duration
	// HangDeadline is the generous per-read liveness deadline.
	HangDeadline time.Duration
}

type recorder struct {
	c       *Client
	raw     []byte
	n       int64
	lastErr error
	max     int
}

func (r *recorder) Read(p []byte) (int, error) {
	c := r.c
	if c.mem != nil {
		c.Conn.SetReadDeadline(time.Now().Add(c.HangDeadline))
	} else {
		c.Conn.SetReadDeadline(time.Now().Add(c.QuietTimeout))
	}
	n, err := c.Conn.Read(p)
	r.n += int64(n)
	if n > 0 && len(r.raw) < r.max {
		r.raw = append(r.raw, p[:n]...)
	}
	if err != nil {
		r.lastErr = err
	}
	return n, err
}

// NewClient wraps a connection to the proxy.
func NewClient(conn net.Conn) *Client {
	c := &Client{Conn: conn, QuietTimeout: 1500 * time.Millisecond, HangDeadline: 60 * time.Second}
	if m, ok := conn.(*MemConn); ok {
		c.mem = m
		m.StallAware = true
	}
	c.rec = &recorder{c: c, max: 1 << 20}
	c.br = bufio.NewReaderSize(c.rec, 4096)
	return c
}

// Raw returns the bytes received so far (first MiB).
func (c *Client) Raw() []byte { return c.rec.raw }

// Send writes each segment with its own Write call.
func (c *Client) Send(segs ...[]byte) error {
	c.Conn.SetWriteDeadline(time.Now().Add(c.HangDeadline))
	for _, s := range segs {
		if len(s) == 0 {
			continue
		}
		if _, err := c.Conn.Write(s); err != nil {
			return err
		}
	}
	return nil
}

// CloseWrite half-closes the connection towards the proxy.
func (c *Client) CloseWrite() {
	switch x := c.Conn.(type) {
	case *MemConn:
		x.CloseWrite()
	case *net.TCPConn:
		x.CloseWrite()
	}
}

func (c *Client) classify(err error) string {
	le := c.rec.lastErr
	if le == nil {
		le = err
	}
	switch {
	case errors.Is(le, ErrStalled):
		return EndStalled
	case errors.Is(le, os.ErrDeadlineExceeded):
		if c.mem != nil {
			return EndHang
		}
		return EndStalled
	case errors.Is(le, io.EOF):
		if errors.Is(err, io.ErrUnexpectedEOF) {
			return EndUnexpEOF
		}
		return EndEOF
	case errors.Is(le, io.ErrUnexpectedEOF):
		return EndUnexpEOF
	}
	var oe *net.OpError
	if errors.As(le, &oe) {
		return EndReset
	}
	return EndMalformed + ": " + err.Error()
}

// ReadResponse parses the next response from the stream (skipping and recording interim 1xx responses).
// method is the method of the request it answers.
func (c *Client) ReadResponse(method string) *Response {
	out := &Response{}
	for {
		c.rec.lastErr = nil
		pos0 := c.rec.n - int64(c.br.Buffered())
		res, err := http.ReadResponse(c.br, &http.Request{Method: method})
		if err != nil {
			switch end := c.classify(err); {
			case c.rec.lastErr == nil:
				out.HeadErr = EndMalformed + ": " + err.Error()
			case end == EndEOF || end == EndUnexpEOF:
				if c.rec.n == pos0 {
					out.HeadErr = EndEOF // clean close at a message boundary
				} else {
					out.HeadErr = EndUnexpEOF
				}
			default:
				out.HeadErr = end
			}
			return out
		}
		if res.StatusCode >= 100 && res.StatusCode < 200 && res.StatusCode != 101 {
			out.Interim = append(out.Interim, res.StatusCode)
			continue
		}
		out.Proto = res.Proto
		out.Status = res.StatusCode
		out.Header = res.Header
		out.Close = res.Close
		out.HeadOnly = method == "HEAD" || res.StatusCode == 204 || res.StatusCode == 304
		switch {
		case out.HeadOnly:
			out.Framing = "none"
		case len(res.TransferEncoding) > 0:
			out.Framing = "chunked"
		case res.ContentLength >= 0:
			out.Framing = "cl"
		default:
			out.Framing = "close"
		}
		c.rec.lastErr = nil
		body, berr := io.ReadAll(res.Body)
		out.Body = body
		out.Trailer = res.Trailer
		out.BodyEnd = EndOK
		if berr != nil {
			out.BodyEnd = c.classify(berr)
			if out.BodyEnd == EndEOF {
				out.BodyEnd = EndUnexpEOF
			}
		}
		return out
	}
}

// Drain reads until the connection ends or stalls and reports how it ended and what arrived.
func (c *Client) Drain() (extra []byte, end string) {
	c.rec.lastErr = nil
	var buf bytes.Buffer
	_, err := io.Copy(&buf, onlyReader{c.br})
	if err == nil {
		return buf.Bytes(), EndEOF
	}
	return buf.Bytes(), c.classify(err)
}

// ParseStream parses a complete captured response stream offline. methods gives the request methods in
// order; eof tells whether the stream ended with a connection close (needed for close-delimited bodies and
// to tell "incomplete" from "still open").
func ParseStream(raw []byte, methods []string, eof bool) (resps []*Response, rest []byte) {
	br := bufio.NewReader(bytes.NewReader(raw))
	for _, m := range methods {
		if _, err := br.Peek(1); err != nil {
			break
		}
		out := &Response{}
		for {
			res, err := http.ReadResponse(br, &http.Request{Method: m})
			if err != nil {
				if errors.Is(err, io.EOF) || errors.Is(err, io.ErrUnexpectedEOF) {
					out.HeadErr = EndUnexpEOF
				} else {
					out.HeadErr = EndMalformed + ": " + err.Error()
				}
				break
			}
			if res.StatusCode >= 100 && res.StatusCode < 200 && res.StatusCode != 101 {
				out.Interim = append(out.Interim, res.StatusCode)
				continue
			}
			out.Proto, out.Status, out.Header, out.Close = res.Proto, res.StatusCode, res.Header, res.Close
			out.HeadOnly = m == "HEAD" || res.StatusCode == 204 || res.StatusCode == 304
			switch {
			case out.HeadOnly:
				out.Framing = "none"
			case len(res.TransferEncoding) > 0:
				out.Framing = "chunked"
			case res.ContentLength >= 0:
				out.Framing = "cl"
			default:
				out.Framing = "close"
			}
			body, berr := io.ReadAll(res.Body)
			out.Body, out.Trailer, out.BodyEnd = body, res.Trailer, EndOK
			if berr != nil {
				if errors.Is(berr, io.ErrUnexpectedEOF) || errors.Is(berr, io.EOF) {
					out.BodyEnd = EndUnexpEOF
				} else {
					out.BodyEnd = EndMalformed + ": " + berr.Error()
				}
			} else if out.Framing == "close" && !eof {
				out.BodyEnd = EndStalled // delimited by a close that never came
			}
			break
		}
		resps = append(resps, out)
		if out.HeadErr != "" || out.BodyEnd != EndOK {
			break
		}
	}
	rest, _ = io.ReadAll(br)
	return resps, rest
}

// InboundFull reports whether the in-memory buffer towards the client is full (the proxy is blocked, or
// about to block, in Write).
func (c *Client) InboundFull() bool {
	if c.mem == nil {
		return true
	}
	h := c.mem.rd
	h.mu.Lock()
	defer h.mu.Unlock()
	return h.buffered() >= h.cap
}

// Leftover returns (without consuming) the bytes that have already arrived beyond what was parsed: the
// bufio buffer plus, for in-memory connections, the connection buffer.
func (c *Client) Leftover() []byte {
	var out []byte
	if n := c.br.Buffered(); n > 0 {
		b, _ := c.br.Peek(n)
		out = append(out, b...)
	}
	if c.mem != nil {
		h := c.mem.rd
		h.mu.Lock()
		out = append(out, h.buf[h.off:]...)
		h.mu.Unlock()
	}
	return out
}

// ReadHead reads one response head line by line (status line, header lines up to the empty line) without
// interpreting it, and reports how reading ended (EndOK or one of the End* constants). It is used where
// net/http's framing rules do not apply (the answer to CONNECT).
func (c *Client) ReadHead() (lines []string, end string) {
	c.rec.lastErr = nil
	for {
		l, err := c.br.ReadString('\n')
		if err != nil {
			if l != "" {
				lines = append(lines, l)
			}
			e := c.classify(err)
			if e == EndEOF && len(lines) > 0 {
				e = EndUnexpEOF
			}
			return lines, e
		}
		if l == "\r\n" || l == "\n" {
			return lines, EndOK
		}
		lines = append(lines, strings.TrimRight(l, "\r\n"))
		if len(lines) > 200 {
			return lines, EndMalformed
		}
	}
}

// Buffered returns the number of bytes received but not yet consumed by the parser.
func (c *Client) Buffered() int { return c.br.Buffered() }
