package h1harness

import (
	"net"
	"net/http"
	"net/url"
	"sync"
	"time"

	martian "github.com/google/martian/v3"
	mlog "github.com/google/martian/v3/log"
	"github.com/google/martian/v3/mitm"
)

// EnvOpts configures one proxy environment.
type EnvOpts struct {
	Kind    string // "mem" (default) or "tcp"
	BufCap  int    // in-memory connection capacity per direction (0: DefaultBufCap)
	ResMod  martian.ResponseModifier
	ReqMod  martian.RequestModifier
	Timeout time.Duration // proxy.SetTimeout (0: keep the default of 5 minutes)
	MITM    *mitm.Config  // non-nil: proxy.SetMITM (CONNECT requests are intercepted)
	// Downstream (URL, optional): proxy.SetDownstreamProxy. The in-process origin then plays the downstream
	// proxy: every upstream dial goes to it whatever address is dialled.
	Downstream string
	// Dial is consulted for the n-th dial (0-based) of the proxy's transport to addr; a non-nil error is
	// returned to the transport (e.g. Refused(addr)); nil connects to the origin.
	Dial func(n int, addr string) error
	// FailedDialConn (optional) supplies the connection value a FAILING dial returns next to its error (dial
	// functions written around constructors return typed-nil pointers, or a connection they already closed).
	FailedDialConn func(n int, addr string) net.Conn
}

// Env is one REAL martian proxy (NewProxy(), default http.Transport) between a client-side listener and a
// scripted origin.
type Env struct {
	Kind   string
	Proxy  *martian.Proxy
	Origin *Origin

	opts     EnvOpts
	pl       net.Listener // proxy's listener
	ol       net.Listener // origin's listener
	served   chan struct{}
	mu       sync.Mutex
	dials    []string
	clients  []net.Conn
	upstream []net.Conn
}

func init() {
	mlog.SetLevel(mlog.Silent)
}

// NewEnv builds and starts the environment. origin.Handler must be set.
func NewEnv(opts EnvOpts, origin *Origin) (*Env, error) {
	if opts.Kind == "" {
		opts.Kind = "mem"
	}
	e := &Env{Kind: opts.Kind, Origin: origin, opts: opts, served: make(chan struct{})}
	if opts.Kind == "tcp" {
		var err error
		if e.pl, err = net.Listen("tcp", "127.0.0.1:0"); err != nil {
			return nil, err
		}
		if e.ol, err = net.Listen("tcp", "127.0.0.1:0"); err != nil {
			e.pl.Close()
			return nil, err
		}
	} else {
		e.pl = NewMemListener("proxy", opts.BufCap)
		e.ol = NewMemListener("origin", opts.BufCap)
	}
	origin.Start(e.ol)

	p := martian.NewProxy() // default transport: that is what the property statements are about
	if opts.Timeout > 0 {
		p.SetTimeout(opts.Timeout)
	}
	if opts.ResMod != nil {
		p.SetResponseModifier(opts.ResMod)
	}
	if opts.ReqMod != nil {
		p.SetRequestModifier(opts.ReqMod)
	}
	if opts.MITM != nil {
		p.SetMITM(opts.MITM)
	}
	if opts.Downstream != "" {
		u, err := url.Parse(opts.Downstream)
		if err != nil {
			return nil, err
		}
		p.SetDownstreamProxy(u)
	}
	p.SetDial(e.dial)
	e.Proxy = p
	go func() {
		p.Serve(e.pl)
		close(e.served)
	}()
	return e, nil
}

func (e *Env) dial(network, addr string) (net.Conn, error) {
	e.mu.Lock()
	n := len(e.dials)
	e.dials = append(e.dials, addr)
	e.mu.Unlock()
	if e.opts.Dial != nil {
		if err := e.opts.Dial(n, addr); err != nil {
			if e.opts.FailedDialConn != nil {
				return e.opts.FailedDialConn(n, addr), err
			}
			return nil, err
		}
	}
	var c net.Conn
	var err error
	if e.Kind == "tcp" {
		c, err = net.Dial("tcp", e.ol.Addr().String())
	} else {
		c, err = e.ol.(*MemListener).Dial()
	}
	if err == nil {
		e.mu.Lock()
		e.upstream = append(e.upstream, c)
		e.mu.Unlock()
	}
	return c, err
}

// Dials returns the addresses the transport dialled, in order.
func (e *Env) Dials() []string {
	e.mu.Lock()
	defer e.mu.Unlock()
	return append([]string(nil), e.dials...)
}

// NewClient opens a client connection to the proxy.
func (e *Env) NewClient() (*Client, error) {
	var c net.Conn
	var err error
	if e.Kind == "tcp" {
		c, err = net.Dial("tcp", e.pl.Addr().String())
	} else {
		c, err = e.pl.(*MemListener).Dial()
	}
	if err != nil {
		return nil, err
	}
	e.mu.Lock()
	e.clients = append(e.clients, c)
	e.mu.Unlock()
	return NewClient(c), nil
}

// Close tears everything down: client connections, the proxy (waits for its connection goroutines), idle
// upstream connections and the origin. It returns false if the proxy did not shut down within the deadline.
func (e *Env) Close() bool {
	e.mu.Lock()
	cs := append([]net.Conn(nil), e.clients...)
	e.mu.Unlock()
	for _, c := range cs {
		c.Close()
	}
	e.pl.Close()
	// upstream connections that are still open now belong to tunnels or to exchanges whose client is gone;
	// closing them lets the proxy's connection goroutines finish (shutdown behaviour itself is C07's subject)
	e.mu.Lock()
	us := append([]net.Conn(nil), e.upstream...)
	e.mu.Unlock()
	for _, c := range us {
		c.Close()
	}
	done := make(chan struct{})
	go func() {
		e.Proxy.Close()
		close(done)
	}()
	ok := true
	select {
	case <-done:
	case <-time.After(60 * time.Second):
		ok = false
	}
	if tr, isTr := e.Proxy.GetRoundTripper().(*http.Transport); isTr {
		tr.CloseIdleConnections()
	}
	e.Origin.Stop()
	return ok
}
