package h1harness

import (
	"bufio"
	"errors"
	"fmt"
	"io"
	"strconv"
	"strings"
)

// ErrStoppedAfterHead is returned by ReadRawRequest when the afterHead callback asked not to read the body.
var ErrStoppedAfterHead = errors.New("stopped after the request head")

// HeaderField is one header line as received (name as written, value with optional whitespace trimmed).
type HeaderField struct {
	Name  string
	Value string
}

// RawRequest is a request parsed by the origin's own small parser (independent of net/http's server-side
// parser, which is what the proxy uses).
type RawRequest struct {
	Conn       int // index of the origin connection it arrived on
	Method     string
	Target     string
	Proto      string
	Headers    []HeaderField
	Chunked    bool
	ChunkSizes []int
	Trailers   []HeaderField
	Body       []byte
	HeadBytes  int
}

// Get returns all values of a header (case-insensitive name), in order.
func (r *RawRequest) Get(name string) []string {
	var out []string
	for _, h := range r.Headers {
		if strings.EqualFold(h.Name, name) {
			out = append(out, h.Value)
		}
	}
	return out
}

func readLine(br *bufio.Reader) (string, error) {
	var sb strings.Builder
	for {
		frag, err := br.ReadSlice('\n')
		sb.Write(frag)
		if err == bufio.ErrBufferFull {
			continue
		}
		if err != nil {
			return sb.String(), err
		}
		break
	}
	s := sb.String()
	if !strings.HasSuffix(s, "\r\n") {
		return s, errors.New("line not terminated by CRLF")
	}
	return s[:len(s)-2], nil
}

func parseField(line string) (HeaderField, error) {
	i := strings.IndexByte(line, ':')
	if i <= 0 {
		return HeaderField{}, fmt.Errorf("malformed header line %q", trunc(line, 60))
	}
	return HeaderField{Name: line[:i], Value: strings.Trim(line[i+1:], " \t")}, nil
}

func trunc(s string, n int) string {
	if len(s) > n {
		return s[:n] + "..."
	}
	return s
}

// ReadRawRequest reads one request from br. io.EOF is returned only when the stream ends cleanly before
// the first byte of a request. afterHead (optional) is called once the head is parsed, before the body is
// read (the origin uses it to answer "Expect: 100-continue"); when it returns true the body is not read and
// ErrStoppedAfterHead is returned together with the head.
func ReadRawRequest(br *bufio.Reader, afterHead func(*RawRequest) bool) (*RawRequest, error) {
	line, err := readLine(br)
	if err != nil {
		if err == io.EOF && line == "" {
			return nil, io.EOF
		}
		return nil, fmt.Errorf("request line: %v", err)
	}
	r := &RawRequest{HeadBytes: len(line) + 2}
	parts := strings.Split(line, " ")
	if len(parts) != 3 {
		return nil, fmt.Errorf("malformed request line %q", trunc(line, 80))
	}
	r.Method, r.Target, r.Proto = parts[0], parts[1], parts[2]
	for {
		l, err := readLine(br)
		if err != nil {
			return nil, fmt.Errorf("header: %v", err)
		}
		r.HeadBytes += len(l) + 2
		if l == "" {
			break
		}
		f, err := parseField(l)
		if err != nil {
			return nil, err
		}
		r.Headers = append(r.Headers, f)
	}
	if afterHead != nil && afterHead(r) {
		return r, ErrStoppedAfterHead
	}
	te := r.Get("Transfer-Encoding")
	cl := r.Get("Content-Length")
	switch {
	case len(te) > 0:
		if len(te) != 1 || !strings.EqualFold(te[0], "chunked") {
			return nil, fmt.Errorf("unsupported Transfer-Encoding %q", te)
		}
		if len(cl) > 0 {
			return nil, fmt.Errorf("both Transfer-Encoding and Content-Length present")
		}
		r.Chunked = true
		for {
			l, err := readLine(br)
			if err != nil {
				return nil, fmt.Errorf("chunk size line: %v", err)
			}
			if i := strings.IndexByte(l, ';'); i >= 0 {
				l = l[:i]
			}
			n, err := strconv.ParseUint(strings.TrimSpace(l), 16, 31)
			if err != nil {
				return nil, fmt.Errorf("chunk size %q: %v", trunc(l, 20), err)
			}
			r.ChunkSizes = append(r.ChunkSizes, int(n))
			if n == 0 {
				break
			}
			start := len(r.Body)
			r.Body = append(r.Body, make([]byte, n)...)
			if _, err := io.ReadFull(br, r.Body[start:]); err != nil {
				return nil, fmt.Errorf("chunk data: %v", err)
			}
			var crlf [2]byte
			if _, err := io.ReadFull(br, crlf[:]); err != nil || crlf != [2]byte{'\r', '\n'} {
				return nil, fmt.Errorf("chunk not followed by CRLF")
			}
		}
		for {
			l, err := readLine(br)
			if err != nil {
				return nil, fmt.Errorf("trailer: %v", err)
			}
			if l == "" {
				break
			}
			f, err := parseField(l)
			if err != nil {
				return nil, err
			}
			r.Trailers = append(r.Trailers, f)
		}
	case len(cl) > 0:
		for _, v := range cl[1:] {
			if v != cl[0] {
				return nil, fmt.Errorf("conflicting Content-Length values %q", cl)
			}
		}
		n, err := strconv.ParseUint(cl[0], 10, 31)
		if err != nil {
			return nil, fmt.Errorf("Content-Length %q: %v", cl[0], err)
		}
		r.Body = make([]byte, n)
		if _, err := io.ReadFull(br, r.Body); err != nil {
			return nil, fmt.Errorf("body: %v", err)
		}
	}
	return r, nil
}

// HasBlankLine reports whether b contains an empty line (a response head cannot be complete without one).
func HasBlankLine(b []byte) bool {
	for i := 0; i < len(b); i++ {
		if b[i] != '\n' {
			continue
		}
		if i+1 < len(b) && b[i+1] == '\n' {
			return true
		}
		if i+2 < len(b) && b[i+1] == '\r' && b[i+2] == '\n' {
			return true
		}
	}
	return false
}

// Pattern fills a deterministic, position-dependent byte pattern (no two different seeds share a long run,
// so misplaced, repeated, dropped or cross-connection bytes are all detected by comparison).
func Pattern(seed uint32, n int) []byte {
	b := make([]byte, n)
	x := seed*2654435761 + 0x9e3779b9
	for i := range b {
		x ^= x << 13
		x ^= x >> 17
		x ^= x << 5
		b[i] = byte(x >> 11)
	}
	return b
}

// HopByHop reports whether a header name is hop-by-hop (RFC 7230 6.1 list plus the framing headers, which
// a relay may legitimately rewrite) or is nominated by one of the Connection values given.
func HopByHop(name string, connectionValues []string) bool {
	switch strings.ToLower(name) {
	case "connection", "keep-alive", "proxy-connection", "proxy-authenticate", "proxy-authorization",
		"te", "trailer", "transfer-encoding", "upgrade":
		return true
	}
	for _, v := range connectionValues {
		for _, tok := range strings.Split(v, ",") {
			if strings.EqualFold(strings.TrimSpace(tok), name) {
				return true
			}
		}
	}
	return false
}
