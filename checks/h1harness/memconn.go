// Package h1harness is the shared HTTP/1 proxy harness of checks C01 and C03: in-memory buffered duplex
// connections (and their real-TCP counterpart), a byte-exact scripted origin, a raw byte-level client, the
// environment that wires them to the REAL martian.NewProxy() with its default http.Transport, and a
// worker-subprocess runner that attributes proxy crashes to the scenario that caused them.
package h1harness

import (
	"errors"
	"io"
	"net"
	"os"
	"sync"
	"sync/atomic"
	"syscall"
	"time"
)

// ErrStalled is returned by a Read on a stall-aware connection end when the connection is in a structural
// deadlock: both ends are blocked in Read with nothing in flight in either direction (so no further byte
// can ever move without a timeout firing or a third party closing the connection).
var ErrStalled = errors.New("h1harness: connection stalled (both ends blocked in Read, nothing in flight)")

// DefaultBufCap is the per-direction buffer capacity of an in-memory connection (a stand-in for the kernel's
// socket buffers: writes block when it is full).
const DefaultBufCap = 256 << 10

type memAddr string

func (a memAddr) Network() string { return "mem" }
func (a memAddr) String() string  { return string(a) }

// half is one direction of a duplex in-memory connection.
type half struct {
	mu       sync.Mutex
	buf      []byte
	off      int
	cap      int
	wake     chan struct{} // closed and replaced on every state change
	wclosed  bool          // writer closed (Close or CloseWrite): reader sees EOF after the buffered bytes
	rclosed  bool          // reader closed: writes fail with EPIPE
	waiting  int           // readers currently blocked on an empty buffer
	total    int64         // bytes ever written
	rdl, wdl time.Time     // read deadline (of the reading end), write deadline (of the writing end)
}

func newHalf(capacity int) *half {
	return &half{cap: capacity, wake: make(chan struct{})}
}

func (h *half) broadcastLocked() {
	close(h.wake)
	h.wake = make(chan struct{})
}

func (h *half) buffered() int { return len(h.buf) - h.off }

// MemConn is one end of an in-memory buffered duplex connection. It implements net.Conn including
// deadlines, CloseWrite, io.ReaderFrom and io.WriterTo (like *net.TCPConn, so bufio and io.Copy take the
// same code paths as over TCP).
type MemConn struct {
	rd, wr      *half
	local, peer memAddr
	closed      atomic.Bool
	pipe        *Pipe
	// StallAware makes a blocked Read on this end return ErrStalled when the pipe is structurally
	// deadlocked. Only harness-owned ends set it.
	StallAware bool
}

// Pipe is a pair of connected MemConns.
type Pipe struct {
	A, B *MemConn // A: dialing side, B: accepting side
	ab   *half    // A -> B
	ba   *half    // B -> A
}

// NewPipe creates a connected pair with the given per-direction capacity (0: DefaultBufCap).
func NewPipe(capacity int, aName, bName string) *Pipe {
	if capacity <= 0 {
		capacity = DefaultBufCap
	}
	p := &Pipe{ab: newHalf(capacity), ba: newHalf(capacity)}
	p.A = &MemConn{rd: p.ba, wr: p.ab, local: memAddr(aName), peer: memAddr(bName), pipe: p}
	p.B = &MemConn{rd: p.ab, wr: p.ba, local: memAddr(bName), peer: memAddr(aName), pipe: p}
	return p
}

// mutualWait reports whether both ends are blocked in Read with nothing buffered and nobody closed, and
// returns the byte counters so that a caller can verify that nothing moved between two observations.
func (p *Pipe) mutualWait() (bool, int64, int64) {
	p.ab.mu.Lock()
	a := p.ab.waiting > 0 && p.ab.buffered() == 0 && !p.ab.wclosed && !p.ab.rclosed
	ta := p.ab.total
	p.ab.mu.Unlock()
	p.ba.mu.Lock()
	b := p.ba.waiting > 0 && p.ba.buffered() == 0 && !p.ba.wclosed && !p.ba.rclosed
	tb := p.ba.total
	p.ba.mu.Unlock()
	return a && b, ta, tb
}

// PeerReadWaiting reports whether the other end is currently blocked in Read on an empty buffer.
func (c *MemConn) PeerReadWaiting() bool {
	c.wr.mu.Lock()
	defer c.wr.mu.Unlock()
	return c.wr.waiting > 0 && c.wr.buffered() == 0
}

const stallPoll = 2 * time.Millisecond
const stallConfirmations = 3

func (c *MemConn) Read(p []byte) (int, error) {
	if len(p) == 0 {
		return 0, nil
	}
	h := c.rd
	var timer *time.Timer
	defer func() {
		if timer != nil {
			timer.Stop()
		}
	}()
	stallHits := 0
	var lastA, lastB int64 = -1, -1
	h.mu.Lock()
	for {
		if h.rclosed {
			h.mu.Unlock()
			return 0, net.ErrClosed
		}
		if n := h.buffered(); n > 0 {
			k := copy(p, h.buf[h.off:])
			h.off += k
			if h.off == len(h.buf) {
				h.buf = h.buf[:0]
				h.off = 0
			}
			h.broadcastLocked()
			h.mu.Unlock()
			return k, nil
		}
		if h.wclosed {
			h.mu.Unlock()
			return 0, io.EOF
		}
		dl := h.rdl
		if !dl.IsZero() && !time.Now().Before(dl) {
			h.mu.Unlock()
			return 0, os.ErrDeadlineExceeded
		}
		wake := h.wake
		h.waiting++
		h.mu.Unlock()

		wait := time.Duration(-1)
		if !dl.IsZero() {
			wait = time.Until(dl)
		}
		if c.StallAware && (wait < 0 || wait > stallPoll) {
			wait = stallPoll
		}
		woken := false
		if wait < 0 {
			<-wake
			woken = true
		} else {
			if timer == nil {
				timer = time.NewTimer(wait)
			} else {
				timer.Reset(wait)
			}
			select {
			case <-wake:
				woken = true
				if !timer.Stop() {
					select {
					case <-timer.C:
					default:
					}
				}
			case <-timer.C:
			}
		}
		if !woken && c.StallAware {
			// still registered as waiting while we look at the pipe
			ok, ta, tb := c.pipe.mutualWait()
			if ok && (stallHits == 0 || (ta == lastA && tb == lastB)) {
				stallHits++
				lastA, lastB = ta, tb
			} else {
				stallHits = 0
			}
		} else if woken {
			stallHits = 0
		}
		h.mu.Lock()
		h.waiting--
		if stallHits >= stallConfirmations && h.buffered() == 0 && !h.wclosed {
			h.mu.Unlock()
			return 0, ErrStalled
		}
	}
}

func (c *MemConn) Write(p []byte) (int, error) {
	h := c.wr
	written := 0
	var timer *time.Timer
	defer func() {
		if timer != nil {
			timer.Stop()
		}
	}()
	h.mu.Lock()
	for {
		if h.wclosed {
			h.mu.Unlock()
			return written, net.ErrClosed
		}
		if h.rclosed {
			h.mu.Unlock()
			return written, &net.OpError{Op: "write", Net: "mem", Addr: c.peer, Err: syscall.EPIPE}
		}
		if len(p) == 0 {
			h.mu.Unlock()
			return written, nil
		}
		if space := h.cap - h.buffered(); space > 0 {
			if h.off > 0 && h.off >= h.buffered() {
				// compact
				n := copy(h.buf, h.buf[h.off:])
				h.buf = h.buf[:n]
				h.off = 0
			}
			k := len(p)
			if k > space {
				k = space
			}
			h.buf = append(h.buf, p[:k]...)
			h.total += int64(k)
			p = p[k:]
			written += k
			h.broadcastLocked()
			if len(p) == 0 {
				h.mu.Unlock()
				return written, nil
			}
			continue
		}
		dl := h.wdl
		if !dl.IsZero() && !time.Now().Before(dl) {
			h.mu.Unlock()
			return written, os.ErrDeadlineExceeded
		}
		wake := h.wake
		h.mu.Unlock()
		if dl.IsZero() {
			<-wake
		} else {
			if timer == nil {
				timer = time.NewTimer(time.Until(dl))
			} else {
				timer.Reset(time.Until(dl))
			}
			select {
			case <-wake:
				if !timer.Stop() {
					select {
					case <-timer.C:
					default:
					}
				}
			case <-timer.C:
			}
		}
		h.mu.Lock()
	}
}

// Close closes both directions: the peer reads the bytes already buffered and then EOF; the peer's writes
// fail with EPIPE; bytes buffered towards this end are discarded.
func (c *MemConn) Close() error {
	if c.closed.Swap(true) {
		return net.ErrClosed
	}
	c.wr.mu.Lock()
	c.wr.wclosed = true
	c.wr.broadcastLocked()
	c.wr.mu.Unlock()
	c.rd.mu.Lock()
	c.rd.rclosed = true
	c.rd.buf, c.rd.off = nil, 0
	c.rd.broadcastLocked()
	c.rd.mu.Unlock()
	return nil
}

// CloseWrite half-closes: the peer sees EOF after the buffered bytes, this end can still read.
func (c *MemConn) CloseWrite() error {
	c.wr.mu.Lock()
	defer c.wr.mu.Unlock()
	if c.wr.wclosed {
		return net.ErrClosed
	}
	c.wr.wclosed = true
	c.wr.broadcastLocked()
	return nil
}

// CloseRead mirrors *net.TCPConn.CloseRead.
func (c *MemConn) CloseRead() error {
	c.rd.mu.Lock()
	defer c.rd.mu.Unlock()
	c.rd.rclosed = true
	c.rd.buf, c.rd.off = nil, 0
	c.rd.broadcastLocked()
	return nil
}

type onlyWriter struct{ io.Writer }
type onlyReader struct{ io.Reader }

// ReadFrom mirrors (*net.TCPConn).ReadFrom's generic fallback, so bufio.Writer.ReadFrom and io.Copy
// delegate to the connection exactly as they do over TCP.
func (c *MemConn) ReadFrom(r io.Reader) (int64, error) { return io.Copy(onlyWriter{c}, r) }

// WriteTo mirrors (*net.TCPConn).WriteTo's generic fallback.
func (c *MemConn) WriteTo(w io.Writer) (int64, error) { return io.Copy(w, onlyReader{c}) }

func (c *MemConn) LocalAddr() net.Addr  { return c.local }
func (c *MemConn) RemoteAddr() net.Addr { return c.peer }

func (c *MemConn) SetDeadline(t time.Time) error {
	c.SetReadDeadline(t)
	return c.SetWriteDeadline(t)
}

func (c *MemConn) SetReadDeadline(t time.Time) error {
	if c.closed.Load() {
		return net.ErrClosed
	}
	c.rd.mu.Lock()
	c.rd.rdl = t
	c.rd.broadcastLocked()
	c.rd.mu.Unlock()
	return nil
}

func (c *MemConn) SetWriteDeadline(t time.Time) error {
	if c.closed.Load() {
		return net.ErrClosed
	}
	c.wr.mu.Lock()
	c.wr.wdl = t
	c.wr.broadcastLocked()
	c.wr.mu.Unlock()
	return nil
}

// MemListener is the net.Listener matching MemConn.
type MemListener struct {
	name   string
	cap    int
	ch     chan *MemConn
	done   chan struct{}
	once   sync.Once
	nextID atomic.Int64
}

// NewMemListener creates a listener; capacity is the per-direction buffer size of accepted connections.
func NewMemListener(name string, capacity int) *MemListener {
	return &MemListener{name: name, cap: capacity, ch: make(chan *MemConn, 64), done: make(chan struct{})}
}

func (l *MemListener) Accept() (net.Conn, error) {
	select {
	case <-l.done:
		return nil, net.ErrClosed
	default:
	}
	select {
	case c := <-l.ch:
		return c, nil
	case <-l.done:
		return nil, net.ErrClosed
	}
}

func (l *MemListener) Close() error {
	l.once.Do(func() { close(l.done) })
	return nil
}

func (l *MemListener) Addr() net.Addr { return memAddr(l.name) }

// Dial connects to the listener and returns the dialing end.
func (l *MemListener) Dial() (*MemConn, error) {
	id := l.nextID.Add(1)
	p := NewPipe(l.cap, l.name+"-peer-"+itoa(id), l.name)
	select {
	case <-l.done:
		return nil, &net.OpError{Op: "dial", Net: "mem", Addr: memAddr(l.name), Err: syscall.ECONNREFUSED}
	case l.ch <- p.B:
		return p.A, nil
	}
}

func itoa(n int64) string {
	if n == 0 {
		return "0"
	}
	var b [20]byte
	i := len(b)
	for n > 0 {
		i--
		b[i] = byte('0' + n%10)
		n /= 10
	}
	return string(b[i:])
}

// Refused is the error a refused dial returns.
func Refused(addr string) error {
	return &net.OpError{Op: "dial", Net: "tcp", Addr: memAddr(addr), Err: syscall.ECONNREFUSED}
}
