// Package h2world is the shared gosim harness around the real h2.Config.Proxy relay: a frame-level client
// endpoint and server endpoint (each with its own x/net http2.Framer and HPACK encoder/decoder) connected
// through simnet; the relay's tls.Dial is replaced by the vtls seam.
package h2world

import (
	"bytes"
	"fmt"
	"io"
	"net"
	"net/url"
	"sort"
	"strings"

	"github.com/google/martian/v3/h2"
	mlog "github.com/google/martian/v3/log"
	"github.com/google/martian/v3/zzverif/simnet"
	"github.com/google/martian/v3/zzverif/vrt"
	"github.com/google/martian/v3/zzverif/vtls"
	"golang.org/x/net/http2"
	"golang.org/x/net/http2/hpack"
)

func init() { mlog.SetLevel(mlog.Silent) }

// errLogger captures what the relay logs as errors (it reports the reason a direction stopped only there).
type errLogger struct{ w *World }

func (l errLogger) Infof(format string, args ...interface{})  {}
func (l errLogger) Debugf(format string, args ...interface{}) {}
func (l errLogger) Errorf(format string, args ...interface{}) {
	l.w.Errors = append(l.w.Errors, fmt.Sprintf(format, args...))
}

// ErrorClass reduces a relay error message to a stable class ("c2s"/"s2c" + cause without variable parts).
func ErrorClass(msg string) (dir, class string) {
	dir = "?"
	if strings.HasPrefix(msg, "relaying frame from client") {
		dir = "c2s"
	} else if strings.HasPrefix(msg, "relaying frame from") {
		dir = "s2c"
	}
	i := strings.Index(msg, ": ")
	if i >= 0 {
		class = msg[i+2:]
	} else {
		class = msg
	}
	// drop variable tails such as frame dumps and stream numbers
	for _, cut := range []string{" [FrameHeader", " for stream", " stream ", "{", "[["} {
		if j := strings.Index(class, cut); j >= 0 {
			class = class[:j]
		}
	}
	class = strings.ReplaceAll(strings.TrimSpace(class), " ", "_")
	if len(class) > 80 {
		class = class[:80]
	}
	return
}

// Preface is the client connection preface.
const Preface = "PRI * HTTP/2.0\r\n\r\nSM\r\n\r\n"

// Spec describes one logical frame (a header block may be fragmented into HEADERS/PUSH_PROMISE + CONTINUATIONs).
type Spec struct {
	T         string      `json:"t"` // headers data rst priority push settings settings_ack ping goaway wu raw
	Stream    uint32      `json:"s,omitempty"`
	Fields    [][2]string `json:"f,omitempty"`
	EndStream bool        `json:"es,omitempty"`
	Frags     int         `json:"frags,omitempty"` // header block fragments (default 1)
	Prio      bool        `json:"prio,omitempty"`  // HEADERS carries priority / PRIORITY params below
	Dep       uint32      `json:"dep,omitempty"`
	Weight    uint8       `json:"w,omitempty"`
	Excl      bool        `json:"x,omitempty"`
	Len       int         `json:"len,omitempty"` // DATA payload length
	Pad       int         `json:"pad,omitempty"` // DATA padding (0 = unpadded, n>0 = padded with n-1 pad bytes + length octet)
	Code      uint32      `json:"code,omitempty"`
	Promise   uint32      `json:"promise,omitempty"`
	Settings  [][2]uint32 `json:"settings,omitempty"`
	Incr      uint32      `json:"incr,omitempty"`
	Ack       bool        `json:"ack,omitempty"`
	Ping      string      `json:"ping,omitempty"`
	Last      uint32      `json:"last,omitempty"`
	Debug     string      `json:"debug,omitempty"`
	Raw       []byte      `json:"raw,omitempty"`
}

// Event is one logical frame as sent or as received (header blocks reassembled and decoded).
type Event struct {
	T         string
	Stream    uint32
	Fields    [][2]string
	EndStream bool
	Prio      string
	Data      []byte
	FlowLen   int // flow-controlled length of a DATA frame (payload + padding + pad length octet)
	MaxFrame  int // largest frame payload among the frames that made up this event
	Code      uint32
	Promise   uint32
	Settings  [][2]uint32
	Incr      uint32
	Ack       bool
	Ping      string
	Last      uint32
	Debug     string
	Err       string // header block decode error at the receiver
	Tick      int
}

func (e Event) String() string {
	switch e.T {
	case "headers":
		return fmt.Sprintf("HEADERS s=%d %v es=%v prio=%s err=%s", e.Stream, e.Fields, e.EndStream, e.Prio, e.Err)
	case "data":
		return fmt.Sprintf("DATA s=%d len=%d flow=%d es=%v", e.Stream, len(e.Data), e.FlowLen, e.EndStream)
	case "rst":
		return fmt.Sprintf("RST s=%d code=%d", e.Stream, e.Code)
	case "priority":
		return fmt.Sprintf("PRIORITY s=%d %s", e.Stream, e.Prio)
	case "push":
		return fmt.Sprintf("PUSH s=%d promise=%d %v err=%s", e.Stream, e.Promise, e.Fields, e.Err)
	case "settings":
		return fmt.Sprintf("SETTINGS %v", e.Settings)
	case "settings_ack":
		return "SETTINGS_ACK"
	case "ping":
		return fmt.Sprintf("PING ack=%v %q", e.Ack, e.Ping)
	case "goaway":
		return fmt.Sprintf("GOAWAY last=%d code=%d %q", e.Last, e.Code, e.Debug)
	case "wu":
		return fmt.Sprintf("WINDOW_UPDATE s=%d +%d", e.Stream, e.Incr)
	}
	return e.T
}

// Endpoint is a frame-level peer.
type Endpoint struct {
	Name   string
	Conn   *simnet.Conn
	fr     *http2.Framer
	w      *segWriter
	enc    *hpack.Encoder
	encBuf bytes.Buffer
	dec    *hpack.Decoder
	Sent   []Event
	Recv   []Event
	EOF    bool
	RdErr  error
	Illegal string // first frame sequence a real peer would have answered with a connection error
	RdDone bool
	WrErr  error
	// pending header block at the reader
	pend     *Event
	pendBuf  []byte
	dataSeed byte
	// ExpectPreface: the read loop first consumes the 24-byte client preface (server endpoint).
	ExpectPreface bool
	PrefaceOK     bool
	PrefaceGot    []byte
}

// segWriter optionally splits every write into n-byte segments (transport segmentation).
type segWriter struct {
	c   io.Writer
	seg int
}

func (s *segWriter) Write(p []byte) (int, error) {
	if s.seg <= 0 {
		return s.c.Write(p)
	}
	n := 0
	for len(p) > 0 {
		k := s.seg
		if k > len(p) {
			k = len(p)
		}
		m, err := s.c.Write(p[:k])
		n += m
		if err != nil {
			return n, err
		}
		p = p[k:]
	}
	return n, nil
}

func newEndpoint(name string, c *simnet.Conn) *Endpoint {
	e := &Endpoint{Name: name, Conn: c}
	e.w = &segWriter{c: c}
	e.fr = http2.NewFramer(e.w, c)
	e.fr.SetMaxReadFrameSize(1<<24 - 1)
	e.fr.AllowIllegalWrites = true
	e.fr.AllowIllegalReads = true
	e.enc = hpack.NewEncoder(&e.encBuf)
	e.dec = hpack.NewDecoder(4096, nil)
	return e
}

// SetSegment makes every subsequent write go out in n-byte pieces (0 = whole frames).
func (e *Endpoint) SetSegment(n int) { e.w.seg = n }

func prioString(p http2.PriorityParam) string {
	if p.IsZero() {
		return ""
	}
	return fmt.Sprintf("dep=%d,w=%d,x=%v", p.StreamDep, p.Weight, p.Exclusive)
}

// DataBytes produces the deterministic payload for a DATA spec.
func (e *Endpoint) dataBytes(n int) []byte {
	b := make([]byte, n)
	for i := range b {
		e.dataSeed++
		b[i] = 'a' + e.dataSeed%26
	}
	return b
}

func splitBlock(b []byte, frags int) [][]byte {
	if frags <= 1 || len(b) < frags {
		return [][]byte{b}
	}
	var out [][]byte
	sz := len(b) / frags
	for i := 0; i < frags; i++ {
		if i == frags-1 {
			out = append(out, b[i*sz:])
		} else {
			out = append(out, b[i*sz:(i+1)*sz])
		}
	}
	return out
}

// WritePreface writes the client preface, optionally in pieces of seg bytes.
func (e *Endpoint) WritePreface(seg int) error {
	old := e.w.seg
	e.w.seg = seg
	_, err := e.w.Write([]byte(Preface))
	e.w.seg = old
	return err
}

// Write sends one logical frame and records it in Sent.
func (e *Endpoint) Write(s Spec) error {
	ev := Event{T: s.T, Stream: s.Stream, Tick: vrt.Tick()}
	var err error
	pp := http2.PriorityParam{}
	if s.Prio {
		pp = http2.PriorityParam{StreamDep: s.Dep, Weight: s.Weight, Exclusive: s.Excl}
		if pp.IsZero() {
			pp.Weight = 7
		}
	}
	switch s.T {
	case "headers", "push":
		e.encBuf.Reset()
		for _, f := range s.Fields {
			e.enc.WriteField(hpack.HeaderField{Name: f[0], Value: f[1]})
		}
		block := append([]byte(nil), e.encBuf.Bytes()...)
		parts := splitBlock(block, s.Frags)
		ev.Fields = s.Fields
		if s.T == "headers" {
			ev.EndStream = s.EndStream
			ev.Prio = prioString(pp)
			err = e.fr.WriteHeaders(http2.HeadersFrameParam{StreamID: s.Stream, BlockFragment: parts[0], EndStream: s.EndStream, EndHeaders: len(parts) == 1, Priority: pp})
		} else {
			ev.Promise = s.Promise
			err = e.fr.WritePushPromise(http2.PushPromiseParam{StreamID: s.Stream, PromiseID: s.Promise, BlockFragment: parts[0], EndHeaders: len(parts) == 1})
		}
		for i := 1; i < len(parts) && err == nil; i++ {
			err = e.fr.WriteContinuation(s.Stream, i == len(parts)-1, parts[i])
		}
	case "data":
		d := e.dataBytes(s.Len)
		ev.Data = d
		ev.EndStream = s.EndStream
		ev.FlowLen = len(d)
		if s.Pad > 0 {
			ev.FlowLen = len(d) + s.Pad
			err = e.fr.WriteDataPadded(s.Stream, s.EndStream, d, make([]byte, s.Pad-1))
		} else {
			err = e.fr.WriteData(s.Stream, s.EndStream, d)
		}
	case "rst":
		ev.Code = s.Code
		err = e.fr.WriteRSTStream(s.Stream, http2.ErrCode(s.Code))
	case "priority":
		ev.Prio = prioString(pp)
		err = e.fr.WritePriority(s.Stream, pp)
	case "settings":
		var ss []http2.Setting
		for _, kv := range s.Settings {
			ss = append(ss, http2.Setting{ID: http2.SettingID(kv[0]), Val: kv[1]})
			if http2.SettingID(kv[0]) == http2.SettingHeaderTableSize {
				// this endpoint's own decoder holds exactly the table it announces: an encoder that keeps a larger
				// table refers to entries the decoder has evicted and the block fails to decode
				e.dec.SetAllowedMaxDynamicTableSize(kv[1])
				e.dec.SetMaxDynamicTableSize(kv[1])
			}
		}
		ev.Settings = s.Settings
		err = e.fr.WriteSettings(ss...)
	case "settings_ack":
		err = e.fr.WriteSettingsAck()
	case "ping":
		var d [8]byte
		copy(d[:], s.Ping)
		ev.Ping = string(d[:])
		ev.Ack = s.Ack
		err = e.fr.WritePing(s.Ack, d)
	case "goaway":
		ev.Last, ev.Code, ev.Debug = s.Last, s.Code, s.Debug
		err = e.fr.WriteGoAway(s.Last, http2.ErrCode(s.Code), []byte(s.Debug))
	case "wu":
		ev.Incr = s.Incr
		err = e.fr.WriteWindowUpdate(s.Stream, s.Incr)
	case "raw":
		_, err = e.w.Write(s.Raw)
	default:
		panic("h2world: unknown spec type " + s.T)
	}
	if err != nil {
		e.WrErr = err
		return err
	}
	e.Sent = append(e.Sent, ev)
	return nil
}

// ReadLoop reads frames until EOF/error, recording logical events.
func (e *Endpoint) ReadLoop() {
	defer func() { e.RdDone = true; vrt.Bump() }()
	if e.ExpectPreface {
		buf := make([]byte, len(Preface))
		n, err := io.ReadFull(e.Conn, buf)
		e.PrefaceGot = buf[:n]
		if err != nil {
			if err == io.EOF || err == io.ErrUnexpectedEOF {
				e.EOF = true
			} else {
				e.RdErr = err
			}
			return
		}
		e.PrefaceOK = string(buf) == Preface
		if !e.PrefaceOK {
			e.RdErr = fmt.Errorf("bad preface %q", buf)
			return
		}
	}
	for {
		f, err := e.fr.ReadFrame()
		if err != nil {
			if err == io.EOF {
				e.EOF = true
			} else {
				e.RdErr = err
			}
			return
		}
		plen := int(f.Header().Length)
		if e.pend != nil {
			// a header block is open: only a CONTINUATION of the same stream may follow (RFC 7540 section 6.10);
			// a real peer answers anything else with a connection error PROTOCOL_ERROR
			if cf, ok := f.(*http2.ContinuationFrame); !ok || cf.StreamID != e.pend.Stream {
				if e.Illegal == "" {
					e.Illegal = fmt.Sprintf("%v frame on stream %d inside the header block of stream %d", f.Header().Type, f.Header().StreamID, e.pend.Stream)
				}
			}
		}
		switch f := f.(type) {
		case *http2.HeadersFrame:
			ev := &Event{T: "headers", Stream: f.StreamID, EndStream: f.StreamEnded(), MaxFrame: plen, Tick: vrt.Tick()}
			if f.HasPriority() {
				ev.Prio = prioString(f.Priority)
			}
			e.pend, e.pendBuf = ev, append([]byte(nil), f.HeaderBlockFragment()...)
			if f.HeadersEnded() {
				e.finishBlock()
			}
		case *http2.PushPromiseFrame:
			ev := &Event{T: "push", Stream: f.StreamID, Promise: f.PromiseID, MaxFrame: plen, Tick: vrt.Tick()}
			e.pend, e.pendBuf = ev, append([]byte(nil), f.HeaderBlockFragment()...)
			if f.HeadersEnded() {
				e.finishBlock()
			}
		case *http2.ContinuationFrame:
			if e.pend == nil {
				e.Recv = append(e.Recv, Event{T: "stray-continuation", Stream: f.StreamID})
				continue
			}
			e.pendBuf = append(e.pendBuf, f.HeaderBlockFragment()...)
			if plen > e.pend.MaxFrame {
				e.pend.MaxFrame = plen
			}
			if f.HeadersEnded() {
				e.finishBlock()
			}
		case *http2.DataFrame:
			e.Recv = append(e.Recv, Event{T: "data", Stream: f.StreamID, Data: append([]byte(nil), f.Data()...), EndStream: f.StreamEnded(), FlowLen: plen, MaxFrame: plen, Tick: vrt.Tick()})
		case *http2.RSTStreamFrame:
			e.Recv = append(e.Recv, Event{T: "rst", Stream: f.StreamID, Code: uint32(f.ErrCode), Tick: vrt.Tick()})
		case *http2.PriorityFrame:
			e.Recv = append(e.Recv, Event{T: "priority", Stream: f.StreamID, Prio: prioString(f.PriorityParam), Tick: vrt.Tick()})
		case *http2.SettingsFrame:
			if f.IsAck() {
				e.Recv = append(e.Recv, Event{T: "settings_ack", Tick: vrt.Tick()})
				continue
			}
			ev := Event{T: "settings", MaxFrame: plen, Tick: vrt.Tick()}
			f.ForeachSetting(func(s http2.Setting) error {
				ev.Settings = append(ev.Settings, [2]uint32{uint32(s.ID), s.Val})
				if s.ID == http2.SettingHeaderTableSize {
					// like a real peer: the header table of this endpoint's encoder follows the size its peer announced
					// (the encoder emits the dynamic table size update with the next block)
					e.enc.SetMaxDynamicTableSize(s.Val)
				}
				return nil
			})
			e.Recv = append(e.Recv, ev)
		case *http2.PingFrame:
			e.Recv = append(e.Recv, Event{T: "ping", Ack: f.IsAck(), Ping: string(f.Data[:]), Tick: vrt.Tick()})
		case *http2.GoAwayFrame:
			e.Recv = append(e.Recv, Event{T: "goaway", Last: f.LastStreamID, Code: uint32(f.ErrCode), Debug: string(f.DebugData()), Tick: vrt.Tick()})
		case *http2.WindowUpdateFrame:
			e.Recv = append(e.Recv, Event{T: "wu", Stream: f.StreamID, Incr: f.Increment, Tick: vrt.Tick()})
		default:
			e.Recv = append(e.Recv, Event{T: fmt.Sprintf("unknown-%v", f.Header().Type), Tick: vrt.Tick()})
		}
		vrt.Bump()
	}
}

func (e *Endpoint) finishBlock() {
	ev := e.pend
	e.pend = nil
	hf, err := e.dec.DecodeFull(e.pendBuf)
	if err != nil {
		ev.Err = err.Error()
	}
	for _, f := range hf {
		ev.Fields = append(ev.Fields, [2]string{f.Name, f.Value})
	}
	e.Recv = append(e.Recv, *ev)
}

// World wires a client endpoint, the relay and a server endpoint together.
type World struct {
	Client      *Endpoint
	Server      *Endpoint // nil until the relay dialled
	ClientProxy *simnet.Conn
	ServerProxy *simnet.Conn // the connection the relay opened upstream (its own end)
	Closing     *vrt.Chan[bool]
	ProxyT      *vrt.Thread
	ProxyRet    bool
	ProxyErr    error
	ProxyRetAt  int
	DialErr     error
	Dials       int
	ServerCap   int
	ClientCap   int
	Errors      []string // error-level log lines of the relay
}

// Options configure a world.
type Options struct {
	Factories []h2.StreamProcessorFactory
	DialErr   error
	// ServerReads false: the server endpoint does not read (peer not reading)
	NoServerReader bool
	NoClientReader bool
	ProxyToServerCap int // capacity (bytes) of the relay->server direction, 0 = unbounded
	ProxyToClientCap int
	// ServerReaderGate / ClientReaderGate: the endpoint's read loop starts only when the gate is opened
	// (a receiver that stalls for a while and then resumes).
	ServerReaderGate *vrt.Gate
	ClientReaderGate *vrt.Gate
}

// New creates the world and starts the relay (Config.Proxy) in its own thread.
func New(o Options) *World {
	w := &World{Closing: vrt.MakeChan[bool]()}
	mlog.SetLevel(mlog.Error)
	mlog.SetLogger(errLogger{w})
	cl, px := simnet.Pipe("client", "proxy<client")
	px.SetCapacity(o.ProxyToClientCap)
	w.ClientProxy = px
	w.Client = newEndpoint("client", cl)
	if !o.NoClientReader {
		vrt.GoNamed("client-reader", func() {
			if o.ClientReaderGate != nil {
				o.ClientReaderGate.Wait()
			}
			w.Client.ReadLoop()
		})
	}
	vtls.DialHook = func(network, addr string, cfg *vtls.Config) (net.Conn, error) {
		w.Dials++
		if o.DialErr != nil {
			return nil, o.DialErr
		}
		p, s := simnet.Pipe("proxy>server", "server")
		p.SetCapacity(o.ProxyToServerCap)
		w.ServerProxy = p
		w.Server = newEndpoint("server", s)
		w.Server.ExpectPreface = true
		if !o.NoServerReader {
			vrt.GoNamed("server-reader", func() {
				if o.ServerReaderGate != nil {
					o.ServerReaderGate.Wait()
				}
				w.Server.ReadLoop()
			})
		}
		return p, nil
	}
	cfg := &h2.Config{StreamProcessorFactories: o.Factories}
	u, _ := url.Parse("https://origin.test:443")
	w.ProxyT = vrt.GoNamed("relay", func() {
		w.ProxyErr = cfg.Proxy(w.Closing, px, u)
		w.ProxyRet = true
		w.ProxyRetAt = vrt.Tick()
	})
	return w
}

// Run writes specs from an endpoint in its own thread and returns the thread.
func (w *World) Run(e *Endpoint, specs []Spec) *vrt.Thread {
	return vrt.GoNamed(e.Name+"-writer", func() {
		for _, s := range specs {
			if e.Write(s) != nil {
				return
			}
		}
	})
}

// PerStream groups logical events by stream (stream 0 = connection-level), dropping the given types.
func PerStream(evs []Event, drop ...string) map[uint32][]Event {
	out := map[uint32][]Event{}
	for _, e := range evs {
		skip := false
		for _, d := range drop {
			if e.T == d {
				skip = true
			}
		}
		if skip {
			continue
		}
		sid := e.Stream
		if e.T == "settings" || e.T == "settings_ack" || e.T == "ping" || e.T == "goaway" {
			sid = 0
		}
		out[sid] = append(out[sid], e)
	}
	return out
}

// Normalize renders a per-stream event list boundary-insensitively for DATA (consecutive DATA merged).
func Normalize(evs []Event) []string {
	var out []string
	var data []byte
	inData := false
	es := false
	flush := func() {
		if inData {
			out = append(out, fmt.Sprintf("DATA %q es=%v", string(data), es))
			data, inData, es = nil, false, false
		}
	}
	for _, e := range evs {
		if e.T == "data" {
			if inData && es {
				flush() // data after END_STREAM is a separate (illegal) item
			}
			inData = true
			data = append(data, e.Data...)
			es = es || e.EndStream
			continue
		}
		flush()
		switch e.T {
		case "headers":
			out = append(out, fmt.Sprintf("HEADERS %v es=%v prio=%s err=%s", e.Fields, e.EndStream, e.Prio, e.Err))
		case "push":
			out = append(out, fmt.Sprintf("PUSH promise=%d %v err=%s", e.Promise, e.Fields, e.Err))
		default:
			s := e.String()
			out = append(out, s)
		}
	}
	flush()
	return out
}

// StreamIDs returns the sorted stream ids of a grouped map.
func StreamIDs(m map[uint32][]Event) []uint32 {
	var ids []uint32
	for id := range m {
		ids = append(ids, id)
	}
	sort.Slice(ids, func(i, j int) bool { return ids[i] < ids[j] })
	return ids
}

// Join renders a normalized list.
func Join(l []string) string { return strings.Join(l, " | ") }
