// C10 — HTTP/2 relay terminates and releases both connections whichever side ends.
//
// The real h2.Config.Proxy runs between two frame-level endpoints over simnet under the gosim scheduler.
// For every terminating event (client or server closing - FIN, half-close, RST, in the middle of a frame -,
// write failure toward either side, protocol error from either side found by the framer, by the relay's own
// processing or by a stream processor, bad preface, proxy shutdown, and pairs of these at once) in every session
// state (before / in the middle of the preface, before SETTINGS, idle, mid-stream, DATA blocked on a zero stream
// window in either direction or on the connection window, more queued frames than the output channel holds with
// the window opening, writer blocked on a peer that stopped reading with the output channel not yet full / full,
// every position of a traffic script with frames in flight), with reactive and with passive peers, with and
// without stream processors, with an upstream connection whose Close succeeds, fails like tls.Conn.Close (the
// close_notify alert cannot be written: server reset, failed write) or always fails (the socket is closed in every
// case), and every schedule within the deviation bound: at quiescence (no virtual time
// elapsed) Config.Proxy must have returned, the upstream connection it dialled must have been closed no later
// than the return, and no thread it spawned may be alive.
//
// Files: scen.go (states, events, oracle), upclose.go (the upstream connection whose Close reports an error, wrapped
// around the dial seam), list.go (the scenario families of the two tiers), AUDIT.md (what is
// covered, by which scenario, judged by which clause). Development aids: VERIF_C10_ONLY=<regexp> restricts the run
// to matching scenarios, VERIF_C10_BOUND=<n> overrides their bound, VERIF_C10_STATS=1 prints per-scenario counts.
package main

import (
	"encoding/json"
	"fmt"
	"os"
	"path/filepath"
	"regexp"
	"sort"
	"time"

	"github.com/google/martian/v3/zzverif/vrt"

	"verif/lib"
)

type scenStat struct {
	Scenario string
	Execs    int
	Points   int64
	Outcomes int
	WallMs   int64
	Complete bool
}

type shardOut struct {
	Counters   map[string]int64
	Violations []lib.Violation
	Samples    []interface{}
	Incomplete string
	Stats      []scenStat
}

// claim makes the 16 worker processes share one work list: a scenario belongs to the worker that creates its
// marker file first. Every scenario is explored completely by exactly one worker, so the totals do not depend on
// who took what.
func claim(dir string, idx int) bool {
	f, err := os.OpenFile(filepath.Join(dir, fmt.Sprintf("claim-%04d", idx)), os.O_CREATE|os.O_EXCL|os.O_WRONLY, 0o644)
	if err != nil {
		return false
	}
	f.Close()
	return true
}

func main() {
	tier := lib.Tier()
	scen := scenarios(tier)
	if only := os.Getenv("VERIF_C10_ONLY"); only != "" {
		// development aid: restrict the run to the scenarios whose description matches
		re := regexp.MustCompile(only)
		var keep []scenario
		for _, sc := range scen {
			if re.MatchString(sc.String()) {
				keep = append(keep, sc)
			}
		}
		scen = keep
	}
	if bs := os.Getenv("VERIF_C10_BOUND"); bs != "" {
		// development aid: run the selected scenarios with another deviation bound
		var b int
		if _, err := fmt.Sscanf(bs, "%d", &b); err == nil {
			for i := range scen {
				scen[i].Bound = b
			}
		}
	}
	if rp := os.Getenv("VERIF_REPLAY"); rp != "" {
		var doc struct {
			First struct {
				Replay struct {
					Scenario scenario
					Schedule []int
				}
			}
		}
		b, err := os.ReadFile(rp)
		if err != nil || json.Unmarshal(b, &doc) != nil {
			fmt.Fprintln(os.Stderr, "cannot read replay", rp, err)
			os.Exit(2)
		}
		body, check := run(doc.First.Replay.Scenario)
		r := vrt.Run(vrt.Config{Trace: os.Getenv("VERIF_TRACE") != "", MaxPoints: 400000}, doc.First.Replay.Schedule, body)
		for _, l := range r.Trace {
			fmt.Println("  ", l)
		}
		fmt.Println("outcome:", r.Outcome, r.Panic)
		for _, l := range r.Log {
			fmt.Println("log:", l)
		}
		for _, t := range r.Threads {
			fmt.Printf("thread %d %s done=%v blocked=%s\n", t.ID, t.Label, t.Done, t.Blocked)
		}
		fs := check(r)
		for _, f := range fs {
			fmt.Printf("VIOLATION property=C10 replay=%s\n  %s: %s\n", rp, f.Sig, f.Desc)
		}
		if len(fs) > 0 {
			os.Exit(1)
		}
		return
	}
	if _, n := lib.ShardEnv(); n > 0 {
		out := &shardOut{Counters: map[string]int64{}}
		per := 120 * time.Second // a safety net, not a budget: the bounds in list.go are chosen so that no scenario comes near it
		if tier == "thorough" {
			per = 6 * time.Minute
		}
		dir := filepath.Dir(os.Getenv("VERIF_SHARD_OUT"))
		for si, sc := range scen {
			if !claim(dir, si) {
				continue
			}
			body, check := run(sc)
			seen := map[string]bool{}
			t0 := time.Now()
			st := vrt.Explore(vrt.ExploreConfig{Bound: sc.Bound, Deadline: time.Now().Add(per), Config: vrt.Config{MaxPoints: 400000}}, body, func(prefix []int, r *vrt.Result) bool {
				for _, f := range check(r) {
					if !seen[f.Sig] {
						seen[f.Sig] = true
						if err := vrt.Confirm(vrt.Config{MaxPoints: 400000, MaxVTime: 3 * time.Hour}, r, body, 3); err != nil {
							fmt.Fprintln(os.Stderr, "ENGINE ERROR:", err)
							os.Exit(2)
						}
						out.Violations = append(out.Violations, lib.Violation{Sig: f.Sig, Desc: fmt.Sprintf("event %s in state %s, schedule %v: %s", sc.Event, sc.stateName(), r.ChoiceSeq(), f.Desc),
							Replay: map[string]interface{}{"scenario": sc, "schedule": r.ChoiceSeq(), "log": r.Log}})
					}
				}
				return true
			})
			if st.EngineError != "" {
				fmt.Fprintln(os.Stderr, "ENGINE ERROR:", st.EngineError)
				os.Exit(2)
			}
			out.Counters["scenarios"]++
			out.Counters["executions"] += int64(st.Execs)
			out.Counters["points"] += st.Points
			out.Counters["distinct_outcomes"] += int64(st.DistinctLogs)
			out.Counters["horizon_hits"] += int64(st.HorizonHits)
			if st.Execs > 1 {
				out.Counters["scenarios_with_deviating_schedules"]++
			}
			if st.DistinctLogs > 1 {
				out.Counters["scenarios_with_multiple_outcomes"]++
			}
			if !st.Exhaustive {
				out.Incomplete = fmt.Sprintf("scenario %s: cap hit, bound completed %d", sc, st.BoundCompleted)
			}
			out.Stats = append(out.Stats, scenStat{sc.String(), st.Execs, st.Points, st.DistinctLogs, time.Since(t0).Milliseconds(), st.Exhaustive})
			if len(out.Samples) < 1 {
				out.Samples = append(out.Samples, map[string]interface{}{"scenario": sc, "executions": st.Execs, "distinct_outcomes": st.DistinctLogs})
			}
		}
		b, _ := json.Marshal(out)
		os.WriteFile(os.Getenv("VERIF_SHARD_OUT"), b, 0o644)
		return
	}
	rep := lib.NewReport("C10", "model_checking")
	files, errs, outs := lib.RunShards(16, lib.Root+"/.build/c10/shards")
	var stats []scenStat
	for i, f := range files {
		if errs[i] != nil {
			fmt.Fprintf(os.Stderr, "shard %d failed: %v\n%s\n", i, errs[i], outs[i])
			os.Exit(2)
		}
		var so shardOut
		b, _ := os.ReadFile(f)
		if err := json.Unmarshal(b, &so); err != nil {
			fmt.Fprintf(os.Stderr, "shard %d: bad output: %v\n", i, err)
			os.Exit(2)
		}
		for k, v := range so.Counters {
			rep.Count(k, v)
		}
		for _, v := range so.Violations {
			rep.Violate(v.Sig, v.Desc, v.Replay)
		}
		for _, s := range so.Samples {
			rep.Sample(4, s)
		}
		if so.Incomplete != "" {
			rep.Incomplete = so.Incomplete
		}
		stats = append(stats, so.Stats...)
	}
	if int(rep.Counter("scenarios")) != len(scen) {
		fmt.Fprintf(os.Stderr, "work sharing lost scenarios: %d of %d ran\n", rep.Counter("scenarios"), len(scen))
		os.Exit(2)
	}
	sort.Slice(stats, func(i, j int) bool {
		if stats[i].WallMs != stats[j].WallMs {
			return stats[i].WallMs > stats[j].WallMs
		}
		return stats[i].Scenario < stats[j].Scenario
	})
	if os.Getenv("VERIF_C10_STATS") != "" {
		for _, s := range stats {
			fmt.Fprintf(os.Stderr, "stat %-72s execs=%-7d outcomes=%-2d wall=%dms complete=%v\n", s.Scenario, s.Execs, s.Outcomes, s.WallMs, s.Complete)
		}
	}
	var slowest []string
	for i := 0; i < len(stats) && i < 5; i++ {
		slowest = append(slowest, fmt.Sprintf("%s: %d executions, %d ms", stats[i].Scenario, stats[i].Execs, stats[i].WallMs))
	}
	rep.Coverage["slowest_scenarios"] = slowest
	rep.Coverage["states"] = rep.Counter("distinct_outcomes")
	rep.Coverage["transitions"] = rep.Counter("points")
	rep.Coverage["traces_validated_against_impl"] = rep.Counter("executions")
	rep.Coverage["evaluations"] = rep.Counter("executions")
	rep.Coverage["distinct_nontrivial"] = rep.Counter("scenarios_with_deviating_schedules")
	rep.Coverage["rule"] = "a case is a scenario (terminating event or event combination x session state x script position x processor setting) together with every schedule of it within the deviation bound; a scenario counts as non-trivial when the explorer found more than one schedule of it (the terminating event is then observed at different points of the relay's work)"
	rep.Coverage["exhaustive"] = rep.Incomplete == ""
	rep.Coverage["bounds"] = boundsText(tier, scen)
	rep.Coverage["explanation"] = "each execution runs the real h2 relay between frame-level endpoints that close their side when they observe EOF/error; the oracle is evaluated at the first quiescent point after the terminating event with zero virtual time elapsed"
	rep.Assumptions = []string{"TLS is replaced by the dial seam; family upclose models the result of tls.Conn.Close (error when the close_notify alert cannot be written, socket closed anyway) but not a Close that blocks on the alert", "a peer that stopped reading never closes"}
	rep.Finish()
}
