// C10 — HTTP/2 relay terminates and releases both connections whichever side ends.
//
// The real h2.Config.Proxy runs between two frame-level endpoints over simnet under the gosim scheduler.
// For every terminating event (client closes, server closes, write failure toward either side, malformed
// frame from either side, bad preface, proxy shutdown) in every session state (idle, mid-stream, DATA
// blocked on a zero window with trailers queued, output channel full because the peer stopped reading)
// and every schedule within the deviation bound, at quiescence (no virtual time elapsed) Config.Proxy must
// have returned, the upstream connection it dialled must be closed, and no thread it spawned may be alive.
package main

import (
	"encoding/json"
	"fmt"
	"os"
	"sort"
	"strings"
	"time"

	"github.com/google/martian/v3/zzverif/vrt"

	hw "verif/checks/h2world"
	"verif/lib"
)

type scenario struct {
	Event string `json:"event"` // client_close server_close write_err_client write_err_server bad_frame_client bad_frame_server shutdown bad_preface dial_error
	State string `json:"state"` // idle midstream blocked output_full
	Bound int    `json:"bound"`
}

type finding struct{ Sig, Desc string }

var reqF = [][2]string{{":method", "POST"}, {":scheme", "https"}, {":path", "/m"}, {":authority", "o"}}
var resF = [][2]string{{":status", "200"}}

// a SETTINGS frame with an illegal length (5): protocol error at the relay's framer
var badFrame = []byte{0, 0, 5, 4, 0, 0, 0, 0, 0, 1, 2, 3, 4, 5}

func run(sc scenario) (body func(), check func(r *vrt.Result) []finding) {
	var w *hw.World
	var snapThreads []vrt.ThreadInfo
	var upstreamClosed, returned bool
	var dialled bool
	body = func() {
		opt := hw.Options{}
		if sc.State == "output_full" {
			opt.NoServerReader = true
			opt.ProxyToServerCap = 64
		}
		if sc.State == "client_stalled" {
			opt.NoClientReader = true
			opt.ProxyToClientCap = 64
		}
		if sc.Event == "dial_error" {
			opt.DialErr = fmt.Errorf("simulated dial failure")
		}
		w = hw.New(opt)
		// endpoints behave like real peers: when their reader ends (EOF / error) they close their side
		if sc.Event == "bad_preface" {
			w.Client.Conn.Write([]byte("GET / HTTP/1.1\r\nHost: x\r\n\r\n"))
		} else if sc.State == "mid_preface" {
			w.Client.Conn.Write([]byte(hw.Preface[:10])) // the session ends while the relay still waits for the rest
		} else {
			w.Client.WritePreface(0)
		}
		vrt.WaitQuiescent()
		dialled = w.Server != nil
		if dialled && sc.Event != "bad_preface" && sc.State != "mid_preface" && sc.State != "pre_settings" {
			w.Client.Write(hw.Spec{T: "settings"})
			w.Server.Write(hw.Spec{T: "settings"})
			vrt.WaitQuiescent()
			switch sc.State {
			case "midstream":
				w.Client.Write(hw.Spec{T: "headers", Stream: 1, Fields: reqF})
				w.Client.Write(hw.Spec{T: "data", Stream: 1, Len: 5})
				vrt.WaitQuiescent()
				w.Server.Write(hw.Spec{T: "headers", Stream: 1, Fields: resF})
				w.Server.Write(hw.Spec{T: "data", Stream: 1, Len: 7})
				vrt.WaitQuiescent()
			case "blocked":
				w.Server.Write(hw.Spec{T: "settings", Settings: [][2]uint32{{4, 0}}})
				vrt.WaitQuiescent()
				w.Client.Write(hw.Spec{T: "headers", Stream: 1, Fields: reqF})
				w.Client.Write(hw.Spec{T: "data", Stream: 1, Len: 5})
				w.Client.Write(hw.Spec{T: "headers", Stream: 1, Fields: [][2]string{{"x-t", "1"}}, EndStream: true})
				vrt.WaitQuiescent()
			case "output_full":
				// the server has stopped reading: the relay's writer blocks, then its 15-slot output channel fills
				t := vrt.GoNamed("client-flood", func() {
					for i := 0; i < 24; i++ {
						if w.Client.Write(hw.Spec{T: "priority", Stream: uint32(2*i + 1), Prio: true, Weight: 9}) != nil {
							return
						}
					}
				})
				_ = t
				vrt.WaitQuiescent()
			case "client_stalled":
				// mirror image: the client has stopped reading, the server floods, the server->client writer blocks
				vrt.GoNamed("server-flood", func() {
					for i := 0; i < 24; i++ {
						if w.Server.Write(hw.Spec{T: "priority", Stream: uint32(2*i + 1), Prio: true, Weight: 9}) != nil {
							return
						}
					}
				})
				vrt.WaitQuiescent()
			}
		}
		// peers react to EOF by closing
		vrt.GoNamed("client-peer", func() {
			if sc.State == "client_stalled" {
				return // a stuck peer does nothing
			}
			vrt.WaitUntil("client-reader-end", func() bool { return w.Client.RdDone })
			w.Client.Conn.Close()
		})
		if dialled {
			vrt.GoNamed("server-peer", func() {
				if sc.State == "output_full" {
					return // a stuck peer does nothing
				}
				vrt.WaitUntil("server-reader-end", func() bool { return w.Server.RdDone })
				w.Server.Conn.Close()
			})
		}
		// the terminating event
		switch sc.Event {
		case "client_close":
			w.Client.Conn.Close()
		case "server_close":
			if dialled {
				w.Server.Conn.Close()
			}
		case "write_err_client":
			w.ClientProxy.FailWriteAfter = 0
			if dialled {
				w.Server.Write(hw.Spec{T: "ping", Ping: "pingping"})
			}
		case "write_err_server":
			if dialled {
				w.ServerProxy.FailWriteAfter = 0
			}
			w.Client.Write(hw.Spec{T: "ping", Ping: "pingping"})
		case "write_err_client_wu", "write_err_server_fwd":
			// the failing write is not a forwarded PING but what a DATA frame from the client causes: the
			// WINDOW_UPDATE acknowledging it toward the client (written by the client->server reader under the
			// peer relay's write lock) or the forwarded DATA toward the server (written by the writer goroutine);
			// the other direction has a PING to deliver to the same peer at the same time
			if sc.Event == "write_err_client_wu" {
				w.ClientProxy.FailWriteAfter = 0
			} else if dialled {
				w.ServerProxy.FailWriteAfter = 0
			}
			if dialled && sc.Event == "write_err_client_wu" {
				vrt.GoNamed("server-ping", func() { w.Server.Write(hw.Spec{T: "ping", Ping: "pingping"}) })
			}
			if sc.State == "idle" {
				w.Client.Write(hw.Spec{T: "headers", Stream: 1, Fields: reqF})
			}
			w.Client.Write(hw.Spec{T: "data", Stream: 1, Len: 9})
		case "write_err_server_wu", "write_err_client_fwd":
			// mirror image: a DATA frame from the server (state midstream: stream 1 is open both ways)
			if sc.Event == "write_err_server_wu" {
				w.ServerProxy.FailWriteAfter = 0
				vrt.GoNamed("client-ping", func() { w.Client.Write(hw.Spec{T: "ping", Ping: "pingping"}) })
			} else {
				w.ClientProxy.FailWriteAfter = 0
			}
			w.Server.Write(hw.Spec{T: "data", Stream: 1, Len: 9})
		case "bad_frame_client":
			w.Client.Write(hw.Spec{T: "raw", Raw: badFrame})
		case "bad_frame_server":
			if dialled {
				w.Server.Write(hw.Spec{T: "raw", Raw: badFrame})
			}
		case "shutdown":
			w.Closing.Close()
		}
		vrt.WaitQuiescent()
		returned = w.ProxyRet
		upstreamClosed = w.ServerProxy == nil || w.ServerProxy.Closed()
		snapThreads = vrt.Snapshot()
		var alive []string
		for _, t := range snapThreads {
			if !t.Done && strings.HasPrefix(t.Label, "h2.") {
				alive = append(alive, t.Label+"@"+t.Blocked)
			}
		}
		sort.Strings(alive)
		vrt.Log("returned=%v upstreamClosed=%v alive=%v errors=%d", returned, upstreamClosed, alive, len(w.Errors))
	}
	check = func(r *vrt.Result) []finding {
		var out []finding
		add := func(sym, format string, a ...interface{}) {
			out = append(out, finding{sym + ":" + sc.Event + ":" + sc.State, fmt.Sprintf(format, a...)})
		}
		if r.Outcome != "ok" {
			add("outcome_"+r.Outcome, "execution ended with %s: %s", r.Outcome, firstLine(r.Panic))
			return out
		}
		if !returned {
			add("proxy_not_returned", "Config.Proxy had not returned at quiescence after the terminating event")
		}
		if !upstreamClosed {
			add("upstream_not_closed", "the upstream connection opened by Config.Proxy was not closed (proxy returned=%v)", returned)
		}
		labels := map[string]bool{}
		for _, t := range snapThreads {
			if !t.Done && strings.HasPrefix(t.Label, "h2.") {
				op := t.Blocked
				if i := strings.IndexByte(op, ' '); i > 0 {
					op = op[:i]
				}
				labels[strings.TrimPrefix(t.Label, "h2.")+"@"+op] = true
			}
		}
		if len(labels) > 0 && returned {
			var ls []string
			for l := range labels {
				ls = append(ls, l)
			}
			sort.Strings(ls)
			add("threads_left_after_return", "Config.Proxy returned but threads of the session are still blocked: %v", ls)
		}
		return out
	}
	return
}

func firstLine(s string) string {
	if i := strings.IndexByte(s, '\n'); i >= 0 {
		return s[:i]
	}
	return s
}

func scenarios(tier string) []scenario {
	var out []scenario
	b := 2
	if tier == "thorough" {
		b = 3
	}
	for _, ev := range []string{"client_close", "server_close", "write_err_client", "write_err_server", "bad_frame_client", "bad_frame_server", "shutdown"} {
		for _, st := range []string{"idle", "midstream", "blocked", "output_full", "client_stalled"} {
			sb := b
			if st == "output_full" || st == "client_stalled" {
				sb = b - 1 // many more threads and points in the flooded states
			}
			if tier == "thorough" && (st == "midstream" || st == "blocked") {
				sb = 2 // three deviations do not complete within minutes in these states (measured); the flooded states run one deviation more than in quick
			}
			out = append(out, scenario{Event: ev, State: st, Bound: sb})
		}
	}
	for _, st := range []string{"idle", "midstream"} {
		wb := b
		if st == "midstream" {
			wb = 2
		}
		out = append(out, scenario{Event: "write_err_client_wu", State: st, Bound: wb}, scenario{Event: "write_err_server_fwd", State: st, Bound: wb})
	}
	out = append(out, scenario{Event: "write_err_server_wu", State: "midstream", Bound: 2}, scenario{Event: "write_err_client_fwd", State: "midstream", Bound: 2})
	// the session ends before it is fully set up: in the middle of the client preface, or after the preface but
	// before any SETTINGS frame
	for _, st := range []string{"mid_preface", "pre_settings"} {
		for _, ev := range []string{"client_close", "server_close", "shutdown", "bad_frame_client"} {
			out = append(out, scenario{Event: ev, State: st, Bound: b})
		}
	}
	out = append(out, scenario{Event: "bad_preface", State: "idle", Bound: b}, scenario{Event: "dial_error", State: "idle", Bound: b})
	return out
}

type shardOut struct {
	Counters   map[string]int64
	Violations []lib.Violation
	Samples    []interface{}
	Incomplete string
}

func main() {
	tier := lib.Tier()
	scen := scenarios(tier)
	if rp := os.Getenv("VERIF_REPLAY"); rp != "" {
		var doc struct {
			First struct {
				Replay struct {
					Scenario scenario
					Schedule []int
				}
			}
		}
		b, err := os.ReadFile(rp)
		if err != nil || json.Unmarshal(b, &doc) != nil {
			fmt.Fprintln(os.Stderr, "cannot read replay", rp, err)
			os.Exit(2)
		}
		body, check := run(doc.First.Replay.Scenario)
		r := vrt.Run(vrt.Config{Trace: os.Getenv("VERIF_TRACE") != "", MaxPoints: 400000}, doc.First.Replay.Schedule, body)
		for _, l := range r.Trace {
			fmt.Println("  ", l)
		}
		fmt.Println("outcome:", r.Outcome, r.Panic)
		for _, l := range r.Log {
			fmt.Println("log:", l)
		}
		for _, t := range r.Threads {
			fmt.Printf("thread %d %s done=%v blocked=%s\n", t.ID, t.Label, t.Done, t.Blocked)
		}
		fs := check(r)
		for _, f := range fs {
			fmt.Printf("VIOLATION property=C10 replay=%s\n  %s: %s\n", rp, f.Sig, f.Desc)
		}
		if len(fs) > 0 {
			os.Exit(1)
		}
		return
	}
	if i, n := lib.ShardEnv(); n > 0 {
		out := &shardOut{Counters: map[string]int64{}}
		per := 40 * time.Second
		if tier == "thorough" {
			per = 4 * time.Minute
		}
		for si, sc := range scen {
			if si%n != i {
				continue
			}
			body, check := run(sc)
			seen := map[string]bool{}
			st := vrt.Explore(vrt.ExploreConfig{Bound: sc.Bound, Deadline: time.Now().Add(per), Config: vrt.Config{MaxPoints: 400000}}, body, func(prefix []int, r *vrt.Result) bool {
				for _, f := range check(r) {
					if !seen[f.Sig] {
						seen[f.Sig] = true
						if err := vrt.Confirm(vrt.Config{MaxPoints: 400000, MaxVTime: 3 * time.Hour}, r, body, 3); err != nil {
							fmt.Fprintln(os.Stderr, "ENGINE ERROR:", err)
							os.Exit(2)
						}
						out.Violations = append(out.Violations, lib.Violation{Sig: f.Sig, Desc: fmt.Sprintf("event %s in state %s, schedule %v: %s", sc.Event, sc.State, r.ChoiceSeq(), f.Desc),
							Replay: map[string]interface{}{"scenario": sc, "schedule": r.ChoiceSeq(), "log": r.Log}})
					}
				}
				return true
			})
			if st.EngineError != "" {
				fmt.Fprintln(os.Stderr, "ENGINE ERROR:", st.EngineError)
				os.Exit(2)
			}
			out.Counters["scenarios"]++
			out.Counters["executions"] += int64(st.Execs)
			out.Counters["points"] += st.Points
			out.Counters["distinct_outcomes"] += int64(st.DistinctLogs)
			out.Counters["horizon_hits"] += int64(st.HorizonHits)
			if st.DistinctLogs > 1 {
				out.Counters["scenarios_with_multiple_outcomes"]++
			}
			if !st.Exhaustive {
				out.Incomplete = fmt.Sprintf("scenario %s/%s: cap hit, bound completed %d", sc.Event, sc.State, st.BoundCompleted)
			}
			if len(out.Samples) < 1 {
				out.Samples = append(out.Samples, map[string]interface{}{"scenario": sc, "executions": st.Execs, "distinct_outcomes": st.DistinctLogs})
			}
		}
		b, _ := json.Marshal(out)
		os.WriteFile(os.Getenv("VERIF_SHARD_OUT"), b, 0o644)
		return
	}
	rep := lib.NewReport("C10", "model_checking")
	files, errs, outs := lib.RunShards(16, lib.Root+"/.build/c10/shards")
	for i, f := range files {
		if errs[i] != nil {
			fmt.Fprintf(os.Stderr, "shard %d failed: %v\n%s\n", i, errs[i], outs[i])
			os.Exit(2)
		}
		var so shardOut
		b, _ := os.ReadFile(f)
		if err := json.Unmarshal(b, &so); err != nil {
			fmt.Fprintf(os.Stderr, "shard %d: bad output: %v\n", i, err)
			os.Exit(2)
		}
		for k, v := range so.Counters {
			rep.Count(k, v)
		}
		for _, v := range so.Violations {
			rep.Violate(v.Sig, v.Desc, v.Replay)
		}
		for _, s := range so.Samples {
			rep.Sample(4, s)
		}
		if so.Incomplete != "" {
			rep.Incomplete = so.Incomplete
		}
	}
	rep.Coverage["states"] = rep.Counter("distinct_outcomes")
	rep.Coverage["transitions"] = rep.Counter("points")
	rep.Coverage["traces_validated_against_impl"] = rep.Counter("executions")
	rep.Coverage["exhaustive"] = rep.Incomplete == ""
	rep.Coverage["bounds"] = fmt.Sprintf("%d scenarios = 7 terminating events x 5 session states + bad preface + dial error; every schedule with <= %d deviations", len(scen), scen[0].Bound)
	rep.Coverage["explanation"] = "each execution runs the real h2 relay between frame-level endpoints that close their side when they observe EOF/error; the oracle is evaluated at the first quiescent point after the terminating event with zero virtual time elapsed"
	rep.Assumptions = []string{"TLS is replaced by the dial seam (no close_notify)", "a peer that stopped reading never closes"}
	rep.Finish()
}
