package main

import (
	"fmt"
	"sort"
	"strings"
)

var basicEvents = []string{"client_close", "server_close", "write_err_client", "write_err_server", "bad_frame_client", "bad_frame_server", "shutdown"}

// other ways the same kinds of ending look on the wire: FIN with the other half still open, RST, a frame cut in
// the middle, a header block that does not decode (found by the relay's own processing, not by the framer), a
// connection-level WINDOW_UPDATE with increment 0
var kindEvents = []string{"client_halfclose", "server_halfclose", "client_abort", "server_abort", "client_trunc", "server_trunc",
	"bad_hpack_client", "bad_hpack_server", "zero_wu_client", "zero_wu_server"}

// two endings at once: which direction notices what first is up to the schedule
var pairEvents = []string{"client_close+server_close", "shutdown+client_close", "bad_frame_client+bad_frame_server", "shutdown+server_close",
	"client_close+bad_frame_server", "server_close+bad_frame_client", "client_abort+server_abort", "write_fails_client+write_fails_server+ping_client+ping_server"}

// the window opens (WINDOW_UPDATE or SETTINGS of the receiver in flight) while the sending side of that direction ends
var releaseC2S = []string{"wu_server+client_close", "wu_server+shutdown", "wu_server+bad_frame_client", "wu_server+write_fails_server", "winopen_server+client_close", "wu_server+server_close"}
var releaseS2C = []string{"wu_client+server_close", "wu_client+shutdown", "wu_client+bad_frame_server", "wu_client+write_fails_client", "winopen_client+server_close", "wu_client+client_close"}

type listed struct {
	family string
	scenario
}

func families(tier string) []listed {
	var out []listed
	fam := ""
	addS := func(sc scenario) { out = append(out, listed{fam, sc}) }
	add := func(ev, st string, b int) { addS(scenario{Event: ev, State: st, Bound: b}) }
	thorough := tier == "thorough"
	pick := func(quick, thor int) int {
		if thorough {
			return thor
		}
		return quick
	}

	// 7 events x 5 states. Two deviations cost ~7 000-12 000 executions per scenario in the idle state,
	// 14 000-24 000 mid-stream and 10 000-16 000 with blocked DATA (measured; the earlier quick tier stopped these
	// at its 40 s cap on a loaded machine - the shared work list and the 120 s cap let them complete). Three
	// deviations cost ~250 000 executions in the idle state and do not complete within minutes anywhere.
	fam = "base"
	for _, ev := range basicEvents {
		add(ev, "idle", 2)
		add(ev, "midstream", 2)
		add(ev, "blocked", 2)
		add(ev, "output_full", pick(1, 2)) // many more threads and points in the flooded states
		add(ev, "client_stalled", pick(1, 2))
	}
	// the failing write is the WINDOW_UPDATE acknowledging a DATA frame / the forwarded DATA frame, with a PING for
	// the same peer in the other direction
	fam = "write_kinds"
	add("write_err_client_wu", "idle", 2)
	add("write_err_server_fwd", "idle", 2)
	add("write_err_client_wu", "midstream", pick(1, 2))
	add("write_err_server_fwd", "midstream", pick(1, 2))
	add("write_err_server_wu", "midstream", pick(1, 2))
	add("write_err_client_fwd", "midstream", pick(1, 2))
	// the session ends before it is fully set up: nothing of the preface has arrived, in the middle of the client
	// preface, or after the preface but before any SETTINGS frame; the forwarded preface is the write that fails
	fam = "startup"
	for _, ev := range []string{"client_close", "server_close", "shutdown", "bad_frame_client"} {
		add(ev, "mid_preface", pick(2, 3))
		add(ev, "pre_settings", 2)
	}
	for _, ev := range []string{"client_close", "shutdown", "write_err_server"} {
		add(ev, "no_preface", pick(2, 3))
	}
	add("write_err_server", "mid_preface", pick(2, 3))
	add("bad_preface", "idle", pick(2, 3))
	add("dial_error", "idle", pick(2, 3))

	fam = "kinds"
	for i, ev := range kindEvents {
		b := 1
		if thorough || i%4 == 0 || i%4 == 3 { // quick: two deviations for client_halfclose, server_abort, client_trunc, bad_hpack_server, zero_wu_client
			b = 2
		}
		add(ev, "idle", b)
		add(ev, "midstream", pick(1, 2))
		add(ev, "blocked", pick(1, 2))
	}

	// flow-control blocking in the other direction and by the connection window instead of a stream window
	fam = "mirror"
	for _, ev := range basicEvents {
		add(ev, "blocked_s2c", pick(1, 2))
		add(ev, "conn_window", pick(1, 2))
	}

	fam = "pairs"
	for i, ev := range pairEvents {
		b := 1
		if thorough || i < 3 {
			b = 2
		}
		add(ev, "idle", b)
		add(ev, "midstream", pick(1, 2))
	}

	// more frames than the output channel holds wait behind a zero window
	fam = "release"
	for _, ev := range basicEvents {
		add(ev, "queued_many", pick(1, 2))
		add(ev, "queued_many_s2c", pick(1, 2))
	}
	for _, ev := range releaseC2S {
		add(ev, "queued_many", 1)
	}
	for _, ev := range releaseS2C {
		add(ev, "queued_many_s2c", 1)
	}

	// the peer has stopped reading but only a few frames followed: the writer goroutine is blocked in its write,
	// the output channel is not full and the reader is free. Only the events that do not need another write toward
	// the stalled peer (that one never fails: recorded findings write_err_server:output_full /
	// write_err_client:client_stalled)
	fam = "writer_blocked"
	for _, ev := range []string{"client_close", "server_close", "bad_frame_client", "bad_frame_server", "shutdown"} {
		add(ev, "writer_blocked", pick(1, 2))
	}
	add("write_err_client", "writer_blocked", pick(1, 2))
	for _, ev := range []string{"client_close", "server_close", "bad_frame_client", "bad_frame_server", "shutdown"} {
		add(ev, "writer_blocked_s2c", pick(1, 2))
	}
	add("write_err_server", "writer_blocked_s2c", pick(1, 2))

	// the event at every position of one traffic script; the last two frames (one of each side) are still in
	// flight; thorough also: only the last one, none, and two deviations for shutdown, client close, server close
	fam = "script"
	for pos := 0; pos <= len(script); pos++ {
		for _, ev := range basicEvents {
			flys := []int{2}
			if thorough {
				flys = []int{2, 1, 0}
			}
			seen := map[int]bool{}
			for _, fly := range flys {
				if fly > pos {
					fly = pos
				}
				if seen[fly] {
					continue
				}
				seen[fly] = true
				b := 1
				if thorough && fly == flys[0] && (ev == "shutdown" || ev == "client_close" || ev == "server_close") {
					b = 2
				}
				addS(scenario{Event: ev, State: "script", Pos: pos, Fly: fly, Bound: b})
			}
		}
	}

	// stream processor factories installed (h2.Config.StreamProcessorFactories); a processor rejecting a header
	// block is one more way a direction ends
	fam = "processors"
	for _, ev := range basicEvents {
		addS(scenario{Event: ev, State: "midstream", Proc: "pass", Bound: pick(1, 2)})
	}
	for _, st := range []string{"idle", "midstream", "blocked"} {
		addS(scenario{Event: "proc_error_client", State: st, Proc: "fail", Bound: pick(1, 2)})
		addS(scenario{Event: "proc_error_server", State: st, Proc: "fail", Bound: pick(1, 2)})
	}
	// in the flooded states only the direction that is not flooded: the reader of the flooded one is blocked
	// queueing a frame and never reads the offending header block - the recorded findings
	// proxy_not_returned:bad_frame_client:output_full / bad_frame_server:client_stalled, not a new defect
	addS(scenario{Event: "proc_error_server", State: "output_full", Proc: "fail", Bound: 1})
	addS(scenario{Event: "proc_error_client", State: "client_stalled", Proc: "fail", Bound: 1})

	// peers that do not react to EOF / errors: whatever has to be closed the relay closes itself
	fam = "passive"
	for _, ev := range append(append([]string{}, basicEvents...), "client_halfclose", "server_halfclose") {
		addS(scenario{Event: ev, State: "idle", Passive: true, Bound: pick(1, 2)})
		addS(scenario{Event: ev, State: "midstream", Passive: true, Bound: pick(1, 2)})
		addS(scenario{Event: ev, State: "blocked", Passive: true, Bound: pick(1, 2)})
	}

	// round 7: the upstream connection's Close reports an error (upclose.go) - the teardown must go on all the
	// same. "always": every Close fails; every kind of ending x 4 states, reactive peers, and idle with passive
	// peers; the endings of the start-up phase (its shutdown watcher and the deferred Close are teardown paths of
	// their own). server_close:mid_preface and the flooded / stalled-peer states are left out: recorded findings
	// whose root cause does not depend on Close (and the alert of a tls.Conn is skipped while a write is in flight).
	fam = "upclose"
	allEndings := append(append([]string{}, basicEvents...), kindEvents...)
	for _, ev := range allEndings {
		for _, st := range []string{"idle", "midstream", "blocked", "blocked_s2c"} {
			addS(scenario{Event: ev, State: st, UpClose: upCloseAlways, Bound: pick(1, 2)})
		}
		addS(scenario{Event: ev, State: "idle", UpClose: upCloseAlways, Passive: true, Bound: pick(1, 2)})
	}
	for _, ev := range []string{"client_close", "shutdown", "bad_frame_client"} {
		addS(scenario{Event: ev, State: "mid_preface", UpClose: upCloseAlways, Bound: 2})
		addS(scenario{Event: ev, State: "pre_settings", UpClose: upCloseAlways, Bound: 2})
	}
	addS(scenario{Event: "server_close", State: "pre_settings", UpClose: upCloseAlways, Bound: 2})
	for _, ev := range []string{"client_close", "shutdown"} {
		addS(scenario{Event: ev, State: "no_preface", UpClose: upCloseAlways, Bound: 2})
	}
	addS(scenario{Event: "bad_preface", State: "idle", UpClose: upCloseAlways, Bound: 2})
	// "tls": Close fails exactly when the close_notify alert cannot be written, i.e. when the transport toward
	// the server is broken at that moment: reset by the server, an earlier write failed, writes fail from now on
	// (write_fails_server, combined with every way the session can end otherwise). thorough: every ending (for
	// most of them Close succeeds - the alert is one more step of the teardown)
	brokenUpstream := []string{"server_abort", "write_err_server", "write_err_server_fwd", "client_abort+server_abort",
		"write_fails_server+server_close", "write_fails_server+server_halfclose", "write_fails_server+bad_frame_server",
		"write_fails_server+write_err_client", "write_fails_server+shutdown", "write_fails_server+client_close", "write_fails_server+client_halfclose"}
	for _, ev := range brokenUpstream {
		for _, st := range []string{"idle", "midstream", "blocked"} {
			if ev == "write_err_server_fwd" && st == "blocked" {
				continue // the DATA frame whose forwarding is to fail waits behind the zero window: no write, no ending
			}
			addS(scenario{Event: ev, State: st, UpClose: upCloseTLS, Bound: pick(1, 2)})
		}
		addS(scenario{Event: ev, State: "idle", UpClose: upCloseTLS, Passive: true, Bound: pick(1, 2)})
	}
	for _, st := range []string{"no_preface", "mid_preface"} {
		addS(scenario{Event: "write_err_server", State: st, UpClose: upCloseTLS, Bound: 2}) // the forwarded preface fails
	}
	if thorough {
		for _, ev := range allEndings {
			if ev == "server_abort" || ev == "write_err_server" {
				continue
			}
			for _, st := range []string{"idle", "midstream", "blocked"} {
				addS(scenario{Event: ev, State: st, UpClose: upCloseTLS, Bound: 1})
			}
		}
	}
	return out
}

// scenarios lists the tier's scenarios, most expensive first (the workers share the list; starting the long ones
// first keeps them busy until the end).
func scenarios(tier string) []scenario {
	fs := families(tier)
	sort.SliceStable(fs, func(i, j int) bool { return fs[i].Bound > fs[j].Bound })
	out := make([]scenario, len(fs))
	for i, f := range fs {
		out[i] = f.scenario
	}
	return out
}

func boundsText(tier string, scen []scenario) string {
	count := map[string]int{}
	bounds := map[string]map[int]bool{}
	var order []string
	for _, f := range families(tier) {
		if count[f.family] == 0 {
			order = append(order, f.family)
			bounds[f.family] = map[int]bool{}
		}
		count[f.family]++
		bounds[f.family][f.Bound] = true
	}
	var parts []string
	for _, fam := range order {
		var bs []int
		for b := range bounds[fam] {
			bs = append(bs, b)
		}
		sort.Ints(bs)
		parts = append(parts, fmt.Sprintf("%s %d (deviations <= %s)", fam, count[fam], strings.Trim(strings.Join(strings.Fields(fmt.Sprint(bs)), "/"), "[]")))
	}
	return fmt.Sprintf("%d scenarios run (%d listed for tier %s): %s; every schedule of a scenario within its deviation bound", len(scen), len(families(tier)), tier, strings.Join(parts, ", "))
}
