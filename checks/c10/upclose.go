package main

// Round 7: an upstream connection whose Close reports an error.
//
// In production the upstream connection of Config.Proxy is a *tls.Conn. Its Close first tries to send the
// close_notify alert, then closes the socket, and returns the alert's error when the alert could not be written
// ("tls: failed to send closeNotify alert (but connection was closed anyway)"): after the server has reset the
// connection, after an earlier write toward the server has failed, when the alert's write deadline expires. The
// dial seam of the harness (vtls.DialHook, installed by h2world.New) hands the relay a bare simnet connection
// whose Close never fails, so "the teardown goes on after a Close that reported an error" was never exercised.
//
// h2world.New installs the hook and creates the relay thread without yielding (vrt.GoNamed only registers the
// thread), so the scenario body can replace the hook right after New returns, before the relay has dialled.
// w.ServerProxy stays the underlying simnet connection: the oracle reads Closed() and the close event from it.

import (
	"errors"
	"fmt"
	"net"

	"github.com/google/martian/v3/zzverif/simnet"
	"github.com/google/martian/v3/zzverif/vtls"
)

// values of scenario.UpClose
const (
	// Close behaves like tls.Conn.Close: it reports an error exactly when the close_notify alert cannot be
	// written - the server has reset the connection (RST received), an earlier write on the connection failed (a
	// tls.Conn keeps that error), or writes toward the server fail from now on - and nil otherwise (also after an
	// orderly close of the server: like TCP, the first write after the peer's FIN is accepted locally)
	upCloseTLS = "tls"
	// every Close reports an error (the envelope: a net.Conn may report an error from Close for any reason,
	// e.g. the 5 s write deadline of the alert); the socket is closed all the same
	upCloseAlways = "always"
)

type closeErrConn struct {
	*simnet.Conn // Read, deadlines, addresses, CloseWrite: the connection itself
	mode         string
	writeErr     error // first error of a write on this connection
}

func (c *closeErrConn) Write(p []byte) (int, error) {
	n, err := c.Conn.Write(p)
	if err != nil && c.writeErr == nil {
		c.writeErr = err
	}
	return n, err
}

func (c *closeErrConn) Close() error {
	if c.Conn.Closed() {
		return c.Conn.Close() // a second Close: net.ErrClosed, as with tls.Conn
	}
	var alertErr error
	switch c.mode {
	case upCloseTLS:
		err := c.writeErr
		if err == nil {
			// the alert is not HTTP/2 payload: an empty write probes the transport (it goes through every
			// failure test of simnet.Conn.Write) without putting bytes in front of the frame-level server.
			// The family is not combined with a capacity-bounded connection, so the probe cannot block (a
			// tls.Conn skips the alert when a write is in flight, and bounds it by a deadline otherwise)
			_, err = c.Conn.Write(nil)
		}
		if err != nil {
			alertErr = fmt.Errorf("tls: failed to send closeNotify alert (but connection was closed anyway): %w", err)
		}
	case upCloseAlways:
		alertErr = errors.New("closing the upstream connection: simulated error (connection was closed anyway)")
	}
	if err := c.Conn.Close(); err != nil {
		return err
	}
	return alertErr
}

// wrapUpstream makes the dial seam hand out the upstream connection wrapped in a closeErrConn. To be called right
// after h2world.New.
func wrapUpstream(mode string) {
	if mode == "" {
		return
	}
	inner := vtls.DialHook
	vtls.DialHook = func(network, addr string, cfg *vtls.Config) (net.Conn, error) {
		c, err := inner(network, addr, cfg)
		if err != nil {
			return nil, err
		}
		return &closeErrConn{Conn: c.(*simnet.Conn), mode: mode}, nil
	}
}
