package main

import (
	"errors"
	"fmt"
	"net/url"
	"sort"
	"strings"

	"github.com/google/martian/v3/h2"
	"github.com/google/martian/v3/zzverif/vrt"
	"golang.org/x/net/http2"
	"golang.org/x/net/http2/hpack"

	hw "verif/checks/h2world"
)

type scenario struct {
	// Event: one terminating event, or several actions joined by "+" that the environment performs back to
	// back without waiting for the relay in between (see fire)
	Event string `json:"event"`
	State string `json:"state"` // see setup
	Bound int    `json:"bound"`
	// Pos / Fly (state "script" only): the first Pos steps of the traffic script have been performed, the last
	// Fly of them without waiting for the relay (those frames are in flight when the event happens)
	Pos int `json:"pos,omitempty"`
	Fly int `json:"fly,omitempty"`
	// Proc: stream processor factories installed in h2.Config ("" none, "pass" a forwarding pair, "fail" a pair
	// that rejects header blocks carrying x-fail)
	Proc string `json:"proc,omitempty"`
	// Passive: the endpoints do not react when they observe EOF or an error: they keep their side open (a peer
	// that waits for its own reasons); whatever has to be closed the relay has to close itself
	Passive bool `json:"passive,omitempty"`
	// UpClose: how Close of the upstream connection the relay dialled behaves ("" never fails; "tls" like
	// tls.Conn.Close: reports an error when the close_notify alert cannot be written; "always": every Close
	// reports an error). The socket is closed in every case. See upclose.go
	UpClose string `json:"upclose,omitempty"`
}

// stateName is the state component of a signature.
func (sc scenario) stateName() string {
	s := sc.State
	if sc.Proc != "" {
		s += "@" + sc.Proc
	}
	if sc.UpClose != "" {
		s += "@close_" + sc.UpClose
	}
	if sc.Passive {
		s += "@passive"
	}
	return s
}

func (sc scenario) String() string {
	s := sc.Event + "/" + sc.stateName()
	if sc.State == "script" {
		s += fmt.Sprintf("[pos=%d,fly=%d]", sc.Pos, sc.Fly)
	}
	return fmt.Sprintf("%s b=%d", s, sc.Bound)
}

type finding struct{ Sig, Desc string }

var reqF = [][2]string{{":method", "POST"}, {":scheme", "https"}, {":path", "/m"}, {":authority", "o"}}
var resF = [][2]string{{":status", "200"}}

// a SETTINGS frame with an illegal length (5): protocol error at the relay's framer
var badFrame = []byte{0, 0, 5, 4, 0, 0, 0, 0, 0, 1, 2, 3, 4, 5}

// a complete HEADERS frame (END_HEADERS) on the given stream whose block is the indexed field 0: HPACK decoding
// error, detected by the relay's own frame processing and not by the framer
func badHpack(stream byte) []byte { return []byte{0, 0, 1, 1, 4, 0, 0, 0, stream, 0x80} }

// the first 12 bytes of a 16-byte DATA frame on stream 1: the sender goes away in the middle of a frame
var halfFrame = []byte{0, 0, 7, 0, 0, 0, 0, 0, 1, 'a', 'b', 'c'}

// forwarding stream processors (h2.Config.StreamProcessorFactories)
type fwdProc struct {
	sink h2.Processor
	fail bool
}

func (p *fwdProc) Data(d []byte, es bool) error { return p.sink.Data(d, es) }
func (p *fwdProc) Header(h []hpack.HeaderField, es bool, pr http2.PriorityParam) error {
	if p.fail {
		for _, f := range h {
			if f.Name == "x-fail" {
				return errors.New("header block rejected by the stream processor")
			}
		}
	}
	return p.sink.Header(h, es, pr)
}
func (p *fwdProc) Priority(pr http2.PriorityParam) error { return p.sink.Priority(pr) }
func (p *fwdProc) RSTStream(c http2.ErrCode) error       { return p.sink.RSTStream(c) }
func (p *fwdProc) PushPromise(id uint32, h []hpack.HeaderField) error {
	return p.sink.PushPromise(id, h)
}

func factories(kind string) []h2.StreamProcessorFactory {
	if kind == "" {
		return nil
	}
	f := func(_ *url.URL, sinks *h2.Processors) (h2.Processor, h2.Processor) {
		return &fwdProc{sinks.ForDirection(h2.ClientToServer), kind == "fail"}, &fwdProc{sinks.ForDirection(h2.ServerToClient), kind == "fail"}
	}
	// a second factory that declines (nil, nil): the chain must bypass it
	g := func(_ *url.URL, _ *h2.Processors) (h2.Processor, h2.Processor) { return nil, nil }
	return []h2.StreamProcessorFactory{f, g}
}

// the traffic script of state "script": client and server frames alternate (with Fly=2 one frame is in flight in
// each direction when the event happens): a request with a body and trailers, a second request, a response with a
// body; the server lowers its initial window to 3 before the request body arrives (the DATA frame is queued) and
// reopens the stream window later; SETTINGS acknowledgement, PING and GOAWAY are forwarded by the reader itself
type step struct {
	who string // c or s
	f   hw.Spec
}

var script = []step{
	{"c", hw.Spec{T: "headers", Stream: 1, Fields: reqF}},
	{"s", hw.Spec{T: "settings", Settings: [][2]uint32{{4, 3}}}},
	{"c", hw.Spec{T: "data", Stream: 1, Len: 5}},
	{"s", hw.Spec{T: "headers", Stream: 1, Fields: resF}},
	{"c", hw.Spec{T: "settings_ack"}},
	{"s", hw.Spec{T: "data", Stream: 1, Len: 7}},
	{"c", hw.Spec{T: "headers", Stream: 3, Fields: reqF, EndStream: true}},
	{"s", hw.Spec{T: "wu", Stream: 1, Incr: 20}},
	{"c", hw.Spec{T: "headers", Stream: 1, Fields: [][2]string{{"x-t", "1"}}, EndStream: true}},
	{"s", hw.Spec{T: "data", Stream: 1, Len: 0, EndStream: true}},
	{"c", hw.Spec{T: "ping", Ping: "12345678"}},
	{"s", hw.Spec{T: "goaway", Last: 3, Code: 0, Debug: "bye"}},
}

const manyFrames = 17 // more DATA frames than the relay's output channel (15) plus the one its writer holds
const fewFrames = 7   // enough 14-byte frames to block the writer on a 64-byte connection, far fewer than the channel holds

func options(sc scenario) hw.Options {
	opt := hw.Options{Factories: factories(sc.Proc)}
	if sc.State == "output_full" || sc.State == "writer_blocked" {
		opt.NoServerReader = true
		opt.ProxyToServerCap = 64
	}
	if sc.State == "client_stalled" || sc.State == "writer_blocked_s2c" {
		opt.NoClientReader = true
		opt.ProxyToClientCap = 64
	}
	if sc.Event == "dial_error" {
		opt.DialErr = fmt.Errorf("simulated dial failure")
	}
	return opt
}

// setup brings the session into sc.State and reports whether the relay has dialled upstream.
func setup(sc scenario, w *hw.World) (dialled bool) {
	// endpoints behave like real peers: when their reader ends (EOF / error) they close their side
	if sc.Event == "bad_preface" {
		w.Client.Conn.Write([]byte("GET / HTTP/1.1\r\nHost: x\r\n\r\n"))
	} else if sc.State == "mid_preface" {
		w.Client.Conn.Write([]byte(hw.Preface[:10])) // the session ends while the relay still waits for the rest
	} else if sc.State == "no_preface" {
		// the client has connected (and negotiated h2) but has not sent anything yet
	} else {
		w.Client.WritePreface(0)
	}
	vrt.WaitQuiescent()
	dialled = w.Server != nil
	if !dialled || sc.Event == "bad_preface" || sc.State == "mid_preface" || sc.State == "no_preface" || sc.State == "pre_settings" {
		return
	}
	w.Client.Write(hw.Spec{T: "settings"})
	w.Server.Write(hw.Spec{T: "settings"})
	vrt.WaitQuiescent()
	switch sc.State {
	case "idle":
	case "midstream":
		w.Client.Write(hw.Spec{T: "headers", Stream: 1, Fields: reqF})
		w.Client.Write(hw.Spec{T: "data", Stream: 1, Len: 5})
		vrt.WaitQuiescent()
		w.Server.Write(hw.Spec{T: "headers", Stream: 1, Fields: resF})
		w.Server.Write(hw.Spec{T: "data", Stream: 1, Len: 7})
		vrt.WaitQuiescent()
	case "blocked":
		w.Server.Write(hw.Spec{T: "settings", Settings: [][2]uint32{{4, 0}}})
		vrt.WaitQuiescent()
		w.Client.Write(hw.Spec{T: "headers", Stream: 1, Fields: reqF})
		w.Client.Write(hw.Spec{T: "data", Stream: 1, Len: 5})
		w.Client.Write(hw.Spec{T: "headers", Stream: 1, Fields: [][2]string{{"x-t", "1"}}, EndStream: true})
		vrt.WaitQuiescent()
	case "blocked_s2c":
		// mirror image of blocked: the client announced a zero initial window, response DATA and trailers wait
		w.Client.Write(hw.Spec{T: "settings", Settings: [][2]uint32{{4, 0}}})
		w.Client.Write(hw.Spec{T: "headers", Stream: 1, Fields: reqF, EndStream: true})
		vrt.WaitQuiescent()
		w.Server.Write(hw.Spec{T: "headers", Stream: 1, Fields: resF})
		w.Server.Write(hw.Spec{T: "data", Stream: 1, Len: 7})
		w.Server.Write(hw.Spec{T: "headers", Stream: 1, Fields: [][2]string{{"x-t", "1"}}, EndStream: true})
		vrt.WaitQuiescent()
	case "conn_window":
		// the connection window toward the server (65535) is used up by stream 1; DATA and trailers of stream 3
		// wait although the window of stream 3 itself is open
		w.Client.Write(hw.Spec{T: "headers", Stream: 1, Fields: reqF})
		for i := 0; i < 3; i++ {
			w.Client.Write(hw.Spec{T: "data", Stream: 1, Len: 16384})
		}
		w.Client.Write(hw.Spec{T: "data", Stream: 1, Len: 16383})
		vrt.WaitQuiescent()
		w.Client.Write(hw.Spec{T: "headers", Stream: 3, Fields: reqF})
		w.Client.Write(hw.Spec{T: "data", Stream: 3, Len: 5})
		w.Client.Write(hw.Spec{T: "headers", Stream: 3, Fields: [][2]string{{"x-t", "1"}}, EndStream: true})
		vrt.WaitQuiescent()
	case "queued_many":
		// more frames wait behind the server's zero window than the relay's output channel can hold
		w.Server.Write(hw.Spec{T: "settings", Settings: [][2]uint32{{4, 0}}})
		vrt.WaitQuiescent()
		w.Client.Write(hw.Spec{T: "headers", Stream: 1, Fields: reqF})
		for i := 0; i < manyFrames; i++ {
			w.Client.Write(hw.Spec{T: "data", Stream: 1, Len: 1})
		}
		vrt.WaitQuiescent()
	case "queued_many_s2c":
		w.Client.Write(hw.Spec{T: "settings", Settings: [][2]uint32{{4, 0}}})
		w.Client.Write(hw.Spec{T: "headers", Stream: 1, Fields: reqF, EndStream: true})
		vrt.WaitQuiescent()
		w.Server.Write(hw.Spec{T: "headers", Stream: 1, Fields: resF})
		for i := 0; i < manyFrames; i++ {
			w.Server.Write(hw.Spec{T: "data", Stream: 1, Len: 1})
		}
		vrt.WaitQuiescent()
	case "script":
		for i := 0; i < sc.Pos && i < len(script); i++ {
			e := w.Client
			if script[i].who == "s" {
				e = w.Server
			}
			e.Write(script[i].f)
			if i < sc.Pos-sc.Fly {
				vrt.WaitQuiescent()
			}
		}
	case "output_full":
		// the server has stopped reading: the relay's writer blocks, then its 15-slot output channel fills
		t := vrt.GoNamed("client-flood", func() {
			for i := 0; i < 24; i++ {
				if w.Client.Write(hw.Spec{T: "priority", Stream: uint32(2*i + 1), Prio: true, Weight: 9}) != nil {
					return
				}
			}
		})
		_ = t
		vrt.WaitQuiescent()
	case "writer_blocked":
		// the server has stopped reading and a few frames follow: the relay's writer goroutine is blocked in its
		// write (the 4th frame does not fit into the 64 bytes the connection takes), 3 frames wait in the output
		// channel, which is far from full - the reader is free and waits for the next frame
		for i := 0; i < fewFrames; i++ {
			w.Client.Write(hw.Spec{T: "priority", Stream: uint32(2*i + 1), Prio: true, Weight: 9})
		}
		vrt.WaitQuiescent()
	case "writer_blocked_s2c":
		// mirror image (the 5th frame toward the client blocks, 2 wait in the channel)
		for i := 0; i < fewFrames; i++ {
			w.Server.Write(hw.Spec{T: "priority", Stream: uint32(2*i + 1), Prio: true, Weight: 9})
		}
		vrt.WaitQuiescent()
	case "client_stalled":
		// mirror image: the client has stopped reading, the server floods, the server->client writer blocks
		vrt.GoNamed("server-flood", func() {
			for i := 0; i < 24; i++ {
				if w.Server.Write(hw.Spec{T: "priority", Stream: uint32(2*i + 1), Prio: true, Weight: 9}) != nil {
					return
				}
			}
		})
		vrt.WaitQuiescent()
	default:
		panic("c10: unknown state " + sc.State)
	}
	return
}

// fire performs one action of the event.
func fire(sc scenario, w *hw.World, ev string, dialled bool) {
	switch ev {
	case "client_close":
		w.Client.Conn.Close()
	case "server_close":
		if dialled {
			w.Server.Conn.Close()
		}
	case "client_halfclose":
		// the client finishes sending (FIN) but keeps reading
		w.Client.Conn.CloseWrite()
	case "server_halfclose":
		if dialled {
			w.Server.Conn.CloseWrite()
		}
	case "client_abort":
		// RST instead of FIN: the relay's read fails with ECONNRESET, its writes fail at once
		w.Client.Conn.Abort()
	case "server_abort":
		if dialled {
			w.Server.Conn.Abort()
		}
	case "client_trunc":
		// the client goes away in the middle of a frame: the relay's read ends with an unexpected EOF
		w.Client.Write(hw.Spec{T: "raw", Raw: halfFrame})
		w.Client.Conn.Close()
	case "server_trunc":
		if dialled {
			w.Server.Write(hw.Spec{T: "raw", Raw: halfFrame})
			w.Server.Conn.Close()
		}
	case "write_err_client":
		w.ClientProxy.FailWriteAfter = 0
		if dialled {
			w.Server.Write(hw.Spec{T: "ping", Ping: "pingping"})
		}
	case "write_err_server":
		if dialled {
			w.ServerProxy.FailWriteAfter = 0
		}
		if sc.State == "no_preface" {
			// the failing write is the forwarded preface
			w.Client.WritePreface(0)
			return
		}
		w.Client.Write(hw.Spec{T: "ping", Ping: "pingping"})
	case "write_err_client_wu", "write_err_server_fwd":
		// the failing write is not a forwarded PING but what a DATA frame from the client causes: the
		// WINDOW_UPDATE acknowledging it toward the client (written by the client->server reader under the
		// peer relay's write lock) or the forwarded DATA toward the server (written by the writer goroutine);
		// the other direction has a PING to deliver to the same peer at the same time
		if ev == "write_err_client_wu" {
			w.ClientProxy.FailWriteAfter = 0
		} else if dialled {
			w.ServerProxy.FailWriteAfter = 0
		}
		if dialled && ev == "write_err_client_wu" {
			vrt.GoNamed("server-ping", func() { w.Server.Write(hw.Spec{T: "ping", Ping: "pingping"}) })
		}
		if sc.State == "idle" {
			w.Client.Write(hw.Spec{T: "headers", Stream: 1, Fields: reqF})
		}
		w.Client.Write(hw.Spec{T: "data", Stream: 1, Len: 9})
	case "write_err_server_wu", "write_err_client_fwd":
		// mirror image: a DATA frame from the server (state midstream: stream 1 is open both ways)
		if ev == "write_err_server_wu" {
			w.ServerProxy.FailWriteAfter = 0
			vrt.GoNamed("client-ping", func() { w.Client.Write(hw.Spec{T: "ping", Ping: "pingping"}) })
		} else {
			w.ClientProxy.FailWriteAfter = 0
		}
		w.Server.Write(hw.Spec{T: "data", Stream: 1, Len: 9})
	case "write_fails_server":
		// writes toward the server start failing; nothing is sent to provoke one (a companion action does that)
		if dialled {
			w.ServerProxy.FailWriteAfter = 0
		}
	case "write_fails_client":
		w.ClientProxy.FailWriteAfter = 0
	case "bad_frame_client":
		w.Client.Write(hw.Spec{T: "raw", Raw: badFrame})
	case "bad_frame_server":
		if dialled {
			w.Server.Write(hw.Spec{T: "raw", Raw: badFrame})
		}
	case "bad_hpack_client":
		w.Client.Write(hw.Spec{T: "raw", Raw: badHpack(5)})
	case "bad_hpack_server":
		if dialled {
			w.Server.Write(hw.Spec{T: "raw", Raw: badHpack(1)})
		}
	case "zero_wu_client":
		// WINDOW_UPDATE with increment 0 on the connection: a connection error PROTOCOL_ERROR (RFC 7540 6.9)
		w.Client.Write(hw.Spec{T: "wu", Stream: 0, Incr: 0})
	case "zero_wu_server":
		if dialled {
			w.Server.Write(hw.Spec{T: "wu", Stream: 0, Incr: 0})
		}
	case "proc_error_client":
		w.Client.Write(hw.Spec{T: "headers", Stream: 5, Fields: append(append([][2]string{}, reqF...), [2]string{"x-fail", "1"})})
	case "proc_error_server":
		if dialled {
			w.Server.Write(hw.Spec{T: "headers", Stream: 1, Fields: append(append([][2]string{}, resF...), [2]string{"x-fail", "1"})})
		}
	case "shutdown":
		w.Closing.Close()
	// companion actions: they do not end the session, they are in flight when the event after them happens
	case "wu_server":
		// the server opens the window of stream 1: everything queued toward it becomes eligible at once
		if dialled {
			w.Server.Write(hw.Spec{T: "wu", Stream: 1, Incr: 1000})
		}
	case "wu_client":
		w.Client.Write(hw.Spec{T: "wu", Stream: 1, Incr: 1000})
	case "winopen_server":
		if dialled {
			w.Server.Write(hw.Spec{T: "settings", Settings: [][2]uint32{{4, 1000}}})
		}
	case "winopen_client":
		w.Client.Write(hw.Spec{T: "settings", Settings: [][2]uint32{{4, 1000}}})
	case "ping_client":
		w.Client.Write(hw.Spec{T: "ping", Ping: "pingping"})
	case "ping_server":
		if dialled {
			w.Server.Write(hw.Spec{T: "ping", Ping: "pingping"})
		}
	case "bad_preface", "dial_error":
		// happened during set-up
	default:
		panic("c10: unknown event " + ev)
	}
}

func run(sc scenario) (body func(), check func(r *vrt.Result) []finding) {
	var w *hw.World
	var snapThreads []vrt.ThreadInfo
	var upstreamClosed, returned bool
	var closeTick, retTick int
	body = func() {
		w = hw.New(options(sc))
		wrapUpstream(sc.UpClose) // New has not yielded: the relay has not dialled yet
		dialled := setup(sc, w)
		// peers react to EOF by closing
		vrt.GoNamed("client-peer", func() {
			if sc.State == "client_stalled" || sc.State == "writer_blocked_s2c" || sc.Passive {
				return // a stuck peer does nothing
			}
			vrt.WaitUntil("client-reader-end", func() bool { return w.Client.RdDone })
			w.Client.Conn.Close()
		})
		if dialled {
			vrt.GoNamed("server-peer", func() {
				if sc.State == "output_full" || sc.State == "writer_blocked" || sc.Passive {
					return // a stuck peer does nothing
				}
				vrt.WaitUntil("server-reader-end", func() bool { return w.Server.RdDone })
				w.Server.Conn.Close()
			})
		}
		// the terminating event
		for _, ev := range strings.Split(sc.Event, "+") {
			fire(sc, w, ev, dialled)
		}
		vrt.WaitQuiescent()
		returned = w.ProxyRet
		upstreamClosed = w.ServerProxy == nil || w.ServerProxy.Closed()
		closeTick, retTick = 0, w.ProxyRetAt
		if w.ServerProxy != nil {
			for _, o := range w.ServerProxy.Ops {
				if o.Kind == "close" || o.Kind == "close-linger0" || o.Kind == "abort" {
					closeTick = o.Tick
					break
				}
			}
		}
		snapThreads = vrt.Snapshot()
		var alive []string
		for _, t := range snapThreads {
			if !t.Done && strings.HasPrefix(t.Label, "h2.") {
				alive = append(alive, t.Label+"@"+t.Blocked)
			}
		}
		sort.Strings(alive)
		vrt.Log("returned=%v upstreamClosed=%v alive=%v errors=%d", returned, upstreamClosed, alive, len(w.Errors))
		if returned && upstreamClosed && closeTick > retTick {
			vrt.Log("upstream closed after the return")
		}
	}
	check = func(r *vrt.Result) []finding {
		var out []finding
		add := func(sym, format string, a ...interface{}) {
			out = append(out, finding{sym + ":" + sc.Event + ":" + sc.stateName(), fmt.Sprintf(format, a...)})
		}
		if r.Outcome != "ok" {
			add("outcome_"+r.Outcome, "execution ended with %s: %s", r.Outcome, firstLine(r.Panic))
			return out
		}
		if !returned {
			add("proxy_not_returned", "Config.Proxy had not returned at quiescence after the terminating event")
		}
		if !upstreamClosed {
			add("upstream_not_closed", "the upstream connection opened by Config.Proxy was not closed (proxy returned=%v)", returned)
		}
		if returned && upstreamClosed && closeTick > retTick {
			// "when it returns the upstream connection has been closed": not some time afterwards
			add("upstream_closed_after_return", "the upstream connection was closed only after Config.Proxy had returned (close is event %d, return event %d)", closeTick, retTick)
		}
		labels := map[string]bool{}
		for _, t := range snapThreads {
			if !t.Done && strings.HasPrefix(t.Label, "h2.") {
				op := t.Blocked
				if i := strings.IndexByte(op, ' '); i > 0 {
					op = op[:i]
				}
				labels[strings.TrimPrefix(t.Label, "h2.")+"@"+op] = true
			}
		}
		if len(labels) > 0 && returned {
			var ls []string
			for l := range labels {
				ls = append(ls, l)
			}
			sort.Strings(ls)
			add("threads_left_after_return", "Config.Proxy returned but threads of the session are still blocked: %v", ls)
		}
		return out
	}
	return
}

func firstLine(s string) string {
	if i := strings.IndexByte(s, '\n'); i >= 0 {
		return s[:i]
	}
	return s
}
