// C09 — HTTP/2 relay obeys receiver windows, returns exact credit, never strands data.
//
// Explicit-state search over environment event histories on the real relay: after a fixed opening (preface,
// SETTINGS, two open streams) every history of DATA / SETTINGS(INITIAL_WINDOW_SIZE, MAX_FRAME_SIZE) /
// WINDOW_UPDATE events up to a depth bound is replayed on a fresh relay, each event followed by
// run-to-quiescence, and the byte ledger invariants I1-I4 are evaluated in every reached state. A second
// part runs DATA and WINDOW_UPDATE scripts concurrently from both sides under schedule exploration.
//
// The reference model (oracle.go) keeps one ledger per direction of DATA flow, so that scenarios in which both
// endpoints send DATA and grant credit are judged in both directions; families.go holds the families added by
// the audit (AUDIT.md).
package main

import (
	"encoding/json"
	"fmt"
	"os"
	"strings"
	"time"

	"github.com/google/martian/v3/zzverif/vrt"

	hw "verif/checks/h2world"
	"verif/lib"
)

// ev is one environment event. Dir "snd" = sent by the DATA sender, "rcv" = sent by the DATA receiver.
type ev struct {
	Who    string `json:"who"` // snd | rcv
	T      string `json:"t"`   // rst (RST_STREAM on Stream, sent by Who) | data | iws | mfs | wu | hdr (the sender's first HEADERS on the stream) | iws2 (one SETTINGS frame carrying INITIAL_WINDOW_SIZE twice: N then N2) | ack (SETTINGS acknowledgement: Who acknowledges the oldest SETTINGS frame of its peer that it has not acknowledged yet)
	Stream uint32 `json:"s,omitempty"`
	N      int    `json:"n,omitempty"` // data length / setting value / increment
	N2     int    `json:"n2,omitempty"`
	Pad    int    `json:"pad,omitempty"`
	ES     bool   `json:"es,omitempty"`
}

func (e ev) String() string {
	s := e.str()
	if e.T == "rst" {
		return e.Who + ":" + s // a reset ends the stream in both directions, whoever sends it
	}
	if e.Who == "rcv" && e.T == "data" || e.Who == "snd" && e.T != "data" && e.T != "hdr" && e.T != "ack" {
		// an event of the reverse direction (DATA from the forward receiver, a grant from the forward sender)
		s = "rev:" + s
	}
	return s
}

func (e ev) str() string {
	switch e.T {
	case "data":
		return fmt.Sprintf("DATA(s%d,%d,pad%d,es=%v)", e.Stream, e.N, e.Pad, e.ES)
	case "iws":
		return fmt.Sprintf("SETTINGS(IWS=%d)", e.N)
	case "iws2":
		return fmt.Sprintf("SETTINGS(IWS=%d,IWS=%d)", e.N, e.N2)
	case "hdr":
		return fmt.Sprintf("HEADERS(s%d)", e.Stream)
	case "mfs":
		return fmt.Sprintf("SETTINGS(MFS=%d)", e.N)
	case "ack":
		return e.Who + ":SETTINGS_ACK"
	case "rst":
		return fmt.Sprintf("RST_STREAM(s%d)", e.Stream)
	}
	return fmt.Sprintf("WU(s%d,+%d)", e.Stream, e.N)
}

type scenario struct {
	Dir     string `json:"dir"`     // c2s: client sends DATA, server grants; s2c: mirrored
	RootIWS int    `json:"rootiws"` // receiver's initial INITIAL_WINDOW_SIZE (-1 = default 65535)
	Hist    []ev   `json:"hist"`
	// concurrent part: the two scripts run in parallel threads under schedule exploration
	Conc      bool `json:"conc,omitempty"`
	SndScript []ev `json:"snd,omitempty"`
	RcvScript []ev `json:"rcv,omitempty"`
	Bound     int  `json:"bound,omitempty"`
	// burst: the receiver stalls (does not read, its socket buffer is tiny) while the sender writes Burst DATA
	// frames of one byte each, all within the windows; then the receiver resumes and nothing else is sent.
	Burst int `json:"burst,omitempty"`
	// ConnUsed > 0: before the history starts the sender has already used ConnUsed bytes of the receiver's
	// connection window with DATA on a third stream (5) that the receiver never credits back, so that the
	// connection window, not the stream windows, is what blocks streams 1 and 3.
	ConnUsed int `json:"connused,omitempty"`
	// LateHeaders (s2c only): the server's response HEADERS are not part of the opening but events of the
	// history, so that the client can grant stream credit before anything was relayed toward it on the stream.
	LateHeaders bool `json:"lateheaders,omitempty"`
	// Duplex: DATA flows in both directions. The server's response HEADERS are part of the opening whatever Dir is,
	// the forward sender's opening SETTINGS carry INITIAL_WINDOW_SIZE = RevRootIWS (-1 = default), and events with
	// Who "rcv" and T "data" are DATA frames of the reverse direction, which events of Who "snd" (iws, mfs, wu)
	// grant credit for. Both directions are judged by the same four invariants.
	Duplex     bool `json:"duplex,omitempty"`
	RevRootIWS int  `json:"revrootiws"`
	// RootMFS > 0: the receiver's opening SETTINGS frame also carries this MAX_FRAME_SIZE.
	RootMFS int `json:"rootmfs,omitempty"`
	// AckRoot: both endpoints acknowledge the opening SETTINGS frames (as real peers do), so that a later "ack"
	// event acknowledges a SETTINGS frame of the history.
	AckRoot bool `json:"ackroot,omitempty"`
	// Stall (with Burst): frames the receiver sends after the burst while it is still not reading.
	Stall []ev `json:"stall,omitempty"`
	// Proc: comma separated stream processor factories installed in h2.Config (identity | nil | c2s-only | s2c-only);
	// all of them forward every call unchanged, so the oracle is the same as without them.
	Proc string `json:"proc,omitempty"`
	// Fam names the family of the audit extensions the scenario belongs to ("" = the families that existed before).
	Fam string `json:"fam,omitempty"`
}

type finding struct{ Sig, Desc string }

// extras renders the scenario fields that are not part of every scenario (for violation descriptions).
func (sc scenario) extras() string {
	s := ""
	if sc.Fam != "" {
		s += " family " + sc.Fam
	}
	if sc.Duplex {
		s += fmt.Sprintf(" duplex (reverse root IWS %d)", sc.RevRootIWS)
	}
	if sc.RootMFS > 0 {
		s += fmt.Sprintf(" root MFS %d", sc.RootMFS)
	}
	if sc.AckRoot {
		s += " opening SETTINGS acknowledged"
	}
	if sc.ConnUsed > 0 {
		s += fmt.Sprintf(" connection window used %d", sc.ConnUsed)
	}
	if sc.LateHeaders {
		s += " late HEADERS"
	}
	if sc.Burst > 0 {
		s += fmt.Sprintf(" burst %d stalled-receiver frames %v", sc.Burst, sc.Stall)
	}
	if sc.Proc != "" {
		s += " processors " + sc.Proc
	}
	return s
}

func spec(e ev) hw.Spec {
	switch e.T {
	case "data":
		return hw.Spec{T: "data", Stream: e.Stream, Len: e.N, Pad: e.Pad, EndStream: e.ES}
	case "iws":
		return hw.Spec{T: "settings", Settings: [][2]uint32{{4, uint32(e.N)}}}
	case "iws2":
		return hw.Spec{T: "settings", Settings: [][2]uint32{{4, uint32(e.N)}, {4, uint32(e.N2)}}}
	case "hdr":
		return hw.Spec{T: "headers", Stream: e.Stream, Fields: [][2]string{{":status", "200"}}}
	case "mfs":
		return hw.Spec{T: "settings", Settings: [][2]uint32{{5, uint32(e.N)}}}
	case "ack":
		return hw.Spec{T: "settings_ack"}
	case "rst":
		return hw.Spec{T: "rst", Stream: e.Stream, Code: 8} // CANCEL
	}
	return hw.Spec{T: "wu", Stream: e.Stream, Incr: uint32(e.N)}
}

func opposite(dir string) string {
	if dir == "c2s" {
		return "s2c"
	}
	return "c2s"
}

func run(sc scenario) (body func(), check func(r *vrt.Result) []finding) {
	var fs []finding
	var stateKeys []string
	body = func() {
		fs = nil
		stateKeys = nil
		add := func(sig, format string, a ...interface{}) {
			for _, f := range fs {
				if f.Sig == sig {
					return
				}
			}
			fs = append(fs, finding{sig, fmt.Sprintf(format, a...)})
		}
		opts := hw.Options{Factories: factories(sc.Proc)}
		var stall *vrt.Gate
		if sc.Burst > 0 {
			stall = &vrt.Gate{}
			if sc.Dir == "c2s" {
				opts.ServerReaderGate, opts.ProxyToServerCap = stall, 32
			} else {
				opts.ClientReaderGate, opts.ProxyToClientCap = stall, 32
			}
		}
		w := hw.New(opts)
		w.Client.WritePreface(0)
		vrt.WaitQuiescent()
		if w.Server == nil {
			add("setup:relay_did_not_dial", "relay did not dial upstream")
			return
		}
		snd, rcv := w.Client, w.Server
		if sc.Dir == "s2c" {
			snd, rcv = w.Server, w.Client
		}
		rootSettings := [][2]uint32{}
		if sc.RootIWS >= 0 {
			rootSettings = append(rootSettings, [2]uint32{4, uint32(sc.RootIWS)})
		}
		if sc.RootMFS > 0 {
			rootSettings = append(rootSettings, [2]uint32{5, uint32(sc.RootMFS)})
		}
		revRoot := -1
		sndSettings := [][2]uint32{}
		if sc.Duplex && sc.RevRootIWS >= 0 {
			revRoot = sc.RevRootIWS
			sndSettings = append(sndSettings, [2]uint32{4, uint32(revRoot)})
		}
		rcv.Write(hw.Spec{T: "settings", Settings: rootSettings})
		snd.Write(hw.Spec{T: "settings", Settings: sndSettings})
		vrt.WaitQuiescent()
		if sc.AckRoot {
			// like real peers, both endpoints acknowledge the opening SETTINGS frame that was relayed to them
			snd.Write(hw.Spec{T: "settings_ack"})
			rcv.Write(hw.Spec{T: "settings_ack"})
			vrt.WaitQuiescent()
		}
		// open streams 1 and 3 (client always opens; for s2c the server answers with response headers)
		w.Client.Write(hw.Spec{T: "headers", Stream: 1, Fields: [][2]string{{":method", "POST"}, {":path", "/a"}, {":scheme", "https"}, {":authority", "o"}}})
		w.Client.Write(hw.Spec{T: "headers", Stream: 3, Fields: [][2]string{{":method", "POST"}, {":path", "/b"}, {":scheme", "https"}, {":authority", "o"}}})
		vrt.WaitQuiescent()
		if (sc.Dir == "s2c" || sc.Duplex) && !sc.LateHeaders {
			w.Server.Write(hw.Spec{T: "headers", Stream: 1, Fields: [][2]string{{":status", "200"}}})
			w.Server.Write(hw.Spec{T: "headers", Stream: 3, Fields: [][2]string{{":status", "200"}}})
			vrt.WaitQuiescent()
		}
		streams := []uint32{1, 3}
		fwd := newLedger(sc.Dir, sc.Dir, false, snd, rcv, sc.RootIWS, sc.RootMFS, streams)
		rev := newLedger(opposite(sc.Dir), sc.Dir, true, rcv, snd, revRoot, 0, streams)
		if sc.ConnUsed > 0 {
			fwd.addStream(5)
			rev.addStream(5)
		}
		evalState := func(ctx string) {
			fwd.eval(ctx, add)
			rev.eval(ctx, add)
			k := fwd.key()
			if sc.Duplex {
				k += " | " + rev.key()
			}
			stateKeys = append(stateKeys, k)
		}
		// account applies e to the reference model: DATA goes to the ledger of the direction it flows in, everything
		// a peer says about what it is willing to receive goes to the ledger of the opposite direction
		account := func(e ev) {
			dataL, grantL := fwd, rev
			if e.Who == "rcv" {
				dataL, grantL = rev, fwd
			}
			switch e.T {
			case "data":
				dataL.applySend(e)
			case "iws", "iws2", "mfs", "wu":
				grantL.applyGrant(e)
			case "rst":
				// RST_STREAM from either end closes the stream in both directions
				fwd.applyReset(e.Stream)
				rev.applyReset(e.Stream)
			}
		}
		deliver := func(e ev) {
			if e.Who == "snd" {
				snd.Write(spec(e))
			} else {
				rcv.Write(spec(e))
			}
		}
		evalState("opening")
		if sc.ConnUsed > 0 {
			w.Client.Write(hw.Spec{T: "headers", Stream: 5, Fields: [][2]string{{":method", "POST"}, {":path", "/c"}, {":scheme", "https"}, {":authority", "o"}}})
			vrt.WaitQuiescent()
			if sc.Dir == "s2c" || sc.Duplex {
				w.Server.Write(hw.Spec{T: "headers", Stream: 5, Fields: [][2]string{{":status", "200"}}})
				vrt.WaitQuiescent()
			}
			for left := sc.ConnUsed; left > 0; {
				n := left
				if n > 16384 {
					n = 16384
				}
				e := ev{Who: "snd", T: "data", Stream: 5, N: n}
				account(e)
				deliver(e)
				left -= n
			}
			vrt.WaitQuiescent()
			evalState(fmt.Sprintf("after %d bytes on stream 5 used up the connection window", sc.ConnUsed))
		}
		if sc.Burst > 0 {
			// the receiver's reader was gated from the start: the opening frames toward it are still queued, which is
			// part of the stall. The sender now bursts; the receiver, still not reading, may send grants (Stall); then
			// the receiver resumes; at quiescence everything that the windows allow must have been delivered although
			// no further input arrives.
			for i := 0; i < sc.Burst; i++ {
				e := ev{Who: "snd", T: "data", Stream: 1, N: 1}
				account(e)
				deliver(e)
			}
			vrt.WaitQuiescent()
			for _, e := range sc.Stall {
				account(e)
				deliver(e)
				vrt.WaitQuiescent()
			}
			stall.Open()
			vrt.WaitQuiescent()
			ctx := fmt.Sprintf("after a burst of %d one-byte DATA frames toward a stalled receiver that then resumed", sc.Burst)
			if len(sc.Stall) > 0 {
				ctx = fmt.Sprintf("after a burst of %d one-byte DATA frames toward a stalled receiver that sent %v while stalled and then resumed", sc.Burst, sc.Stall)
			}
			evalState(ctx)
		} else if !sc.Conc {
			for i, e := range sc.Hist {
				// A lowering of MAX_FRAME_SIZE while accepted DATA is still queued does not end the history (it used
				// to): the ledger judges frames cut at the old size from the moment the receiver has seen the lowering
				// acknowledged. SETTINGS / WINDOW_UPDATE from the DATA sender concern the opposite direction only: in
				// the one-directional families nothing flows there and they must change nothing of what is tracked.
				account(e)
				deliver(e)
				vrt.WaitQuiescent()
				evalState(fmt.Sprintf("after event %d %s", i+1, e))
			}
		} else {
			// grants are applied before evaluating (only the final state is judged for I1 with all grants in force)
			for _, e := range sc.SndScript {
				account(e)
			}
			for _, e := range sc.RcvScript {
				account(e)
			}
			var ss, rs []hw.Spec
			for _, e := range sc.SndScript {
				ss = append(ss, spec(e))
			}
			for _, e := range sc.RcvScript {
				rs = append(rs, spec(e))
			}
			w.Run(snd, ss)
			w.Run(rcv, rs)
			vrt.WaitQuiescent()
			evalState("after concurrent scripts")
		}
		if len(w.Errors) > 0 {
			d, c := hw.ErrorClass(w.Errors[0])
			add(d+":relay_direction_failed:"+c, "relay logged: %s", w.Errors[0])
		}
		if rcv.RdErr != nil || snd.RdErr != nil {
			add(sc.Dir+":endpoint_read_error", "endpoint read errors: snd=%v rcv=%v", snd.RdErr, rcv.RdErr)
		}
		if os.Getenv("VERIF_REPLAY") != "" && os.Getenv("VERIF_TRACE") != "" {
			// replay aid: what each endpoint was sent by the relay
			for _, e := range rcv.Recv {
				vrt.Log("receiver got %s", e)
			}
			for _, e := range snd.Recv {
				vrt.Log("sender got %s", e)
			}
		}
		for _, k := range stateKeys {
			vrt.Log("%s", k)
		}
		for _, f := range fs {
			vrt.Log("F %s", f.Sig)
		}
	}
	check = func(r *vrt.Result) []finding {
		if r.Outcome != "ok" {
			return []finding{{"outcome:" + r.Outcome, fmt.Sprintf("execution ended with %s: %s", r.Outcome, firstLine(r.Panic))}}
		}
		return fs
	}
	return
}

func firstLine(s string) string {
	if i := strings.IndexByte(s, '\n'); i >= 0 {
		return s[:i]
	}
	return s
}

func alphabet(tier string, reduced bool) []ev {
	a := []ev{
		{Who: "snd", T: "data", Stream: 1, N: 1},
		{Who: "snd", T: "data", Stream: 1, N: 5},
		{Who: "snd", T: "data", Stream: 3, N: 5},
		{Who: "snd", T: "data", Stream: 1, N: 5, Pad: 3},
		{Who: "snd", T: "data", Stream: 1, N: 0, Pad: 4}, // padding only: flow-controlled length 4, no data
		{Who: "rcv", T: "iws", N: 0},
		{Who: "rcv", T: "iws", N: 4},
		{Who: "rcv", T: "wu", Stream: 1, N: 1},
		{Who: "rcv", T: "wu", Stream: 1, N: 5},
		{Who: "rcv", T: "wu", Stream: 3, N: 3},
		{Who: "rcv", T: "wu", Stream: 0, N: 5},
		{Who: "rcv", T: "wu", Stream: 0, N: 100000},
	}
	if reduced {
		return a
	}
	return append(a,
		ev{Who: "snd", T: "data", Stream: 1, N: 0, ES: true},
		ev{Who: "snd", T: "data", Stream: 1, N: 16385},
		ev{Who: "snd", T: "data", Stream: 3, N: 40000},
		ev{Who: "rcv", T: "iws", N: 1},
		ev{Who: "rcv", T: "iws", N: 65535},
		ev{Who: "rcv", T: "mfs", N: 16385},
		ev{Who: "rcv", T: "mfs", N: 32768},
		ev{Who: "rcv", T: "wu", Stream: 1, N: 100000},
		ev{Who: "rcv", T: "wu", Stream: 3, N: 100000},
		ev{Who: "rcv", T: "wu", Stream: 0, N: 1},
	)
}

// legal prunes histories the statement does not cover (data after END_STREAM) and no-op SETTINGS.
func legal(h []ev) bool { return legalFor(h, scenario{RootIWS: -1, RevRootIWS: -1}) }

// legalFor is legal for a history that continues the opening described by base. Besides the above it prunes
// acknowledgements of SETTINGS frames that were never sent and receivers that break the protocol themselves by
// granting a window above 2^31-1 (counted conservatively: consumption is ignored).
func legalFor(h []ev, base scenario) bool {
	const maxWindow = 1<<31 - 1
	ended := map[string]bool{}
	mfs := map[string]int{"snd": 16384, "rcv": 16384}
	if base.RootMFS > 0 {
		mfs["rcv"] = base.RootMFS
	}
	iws := map[string]int{"snd": 65535, "rcv": 65535}
	if base.RootIWS >= 0 {
		iws["rcv"] = base.RootIWS
	}
	if base.Duplex && base.RevRootIWS >= 0 {
		iws["snd"] = base.RevRootIWS
	}
	granted := map[string]int{} // who/stream -> sum of increments
	unacked := map[string]int{"snd": 1, "rcv": 1}
	if base.AckRoot {
		unacked["snd"], unacked["rcv"] = 0, 0
	}
	late := false
	for _, e := range h {
		if e.T == "hdr" {
			late = true
		}
	}
	opened := map[uint32]bool{}
	resetBy := map[uint32]string{}
	for _, e := range h {
		if e.T == "rst" {
			// one RST_STREAM per stream (an endpoint does not answer RST_STREAM with RST_STREAM, and a second one of
			// its own changes nothing)
			if resetBy[e.Stream] != "" {
				return false
			}
			resetBy[e.Stream] = e.Who
		}
		if e.T == "data" && resetBy[e.Stream] == e.Who {
			return false // an endpoint sends nothing on a stream it has reset itself; its peer may (frames in flight)
		}
		if e.T == "hdr" {
			if opened[e.Stream] {
				return false
			}
			opened[e.Stream] = true
		}
		if late && e.T == "data" && !opened[e.Stream] {
			return false // DATA before the stream's HEADERS
		}
		if e.T == "data" {
			k := fmt.Sprint(e.Who, e.Stream)
			if ended[k] {
				return false
			}
			if e.ES {
				ended[k] = true
			}
		}
		if e.T == "mfs" {
			if e.N == mfs[e.Who] {
				return false // announcing the value already in force: same state
			}
			mfs[e.Who] = e.N
		}
		switch e.T {
		case "iws", "iws2", "mfs":
			unacked[e.Who]++
		case "ack":
			peer := "rcv"
			if e.Who == "rcv" {
				peer = "snd"
			}
			if unacked[peer] == 0 {
				return false
			}
			unacked[peer]--
		}
		switch e.T {
		case "iws":
			iws[e.Who] = e.N
		case "iws2":
			iws[e.Who] = e.N2
		case "wu":
			granted[fmt.Sprint(e.Who, e.Stream)] += e.N
		}
		if e.T == "iws" || e.T == "iws2" || e.T == "wu" {
			for _, s := range []uint32{1, 3, 5} {
				if iws[e.Who]+granted[fmt.Sprint(e.Who, s)] > maxWindow {
					return false
				}
			}
			if 65535+granted[fmt.Sprint(e.Who, 0)] > maxWindow {
				return false
			}
		}
	}
	return true
}

func scenarios(tier string) []scenario {
	var out []scenario
	gen := func(dir string, root int, alpha []ev, depth int) {
		lib.Sequences(len(alpha), depth, func(seq []int) {
			if len(seq) != depth {
				return // shorter histories are prefixes of the depth-d ones; every prefix state is evaluated
			}
			h := make([]ev, len(seq))
			for i, x := range seq {
				h[i] = alpha[x]
			}
			if !legal(h) {
				return
			}
			out = append(out, scenario{Dir: dir, RootIWS: root, Hist: h})
		})
	}
	full := alphabet(tier, false)
	red := alphabet(tier, true)
	if tier == "quick" {
		gen("c2s", 0, full, 3)
		gen("c2s", -1, full, 2)
		gen("s2c", 0, full, 3)
		gen("c2s", 0, red, 4)
		gen("s2c", 0, red, 4)
		gen("c2s", 4, red, 4) // windows that go negative when the receiver shrinks its initial window
		gen("s2c", 4, red, 3)
	} else {
		gen("c2s", 0, full, 4)
		gen("c2s", -1, full, 3)
		gen("s2c", 0, full, 3)
		gen("s2c", -1, full, 3)
		gen("c2s", 4, red, 5)
		gen("s2c", 4, red, 4)
		gen("c2s", 0, red, 5)
		gen("s2c", 0, red, 5)
	}
	// the connection window (not the stream windows) is what blocks: 65531 or 65535 of its 65535 bytes are used up
	// by a third stream before the history starts
	genUsed := func(dir string, used int, alpha []ev, depth int) {
		lib.Sequences(len(alpha), depth, func(seq []int) {
			if len(seq) != depth {
				return
			}
			h := make([]ev, len(seq))
			for i, x := range seq {
				h[i] = alpha[x]
			}
			if !legal(h) {
				return
			}
			out = append(out, scenario{Dir: dir, RootIWS: -1, Hist: h, ConnUsed: used})
		})
	}
	connAlpha := []ev{
		{Who: "snd", T: "data", Stream: 1, N: 1},
		{Who: "snd", T: "data", Stream: 1, N: 5},
		{Who: "snd", T: "data", Stream: 3, N: 5},
		{Who: "snd", T: "data", Stream: 3, N: 0, Pad: 4},
		{Who: "rcv", T: "wu", Stream: 0, N: 1},
		{Who: "rcv", T: "wu", Stream: 0, N: 5},
		{Who: "rcv", T: "wu", Stream: 0, N: 9},
		{Who: "rcv", T: "wu", Stream: 1, N: 5},
		{Who: "rcv", T: "iws", N: 65540},
	}
	// SETTINGS_MAX_FRAME_SIZE histories (raised, lowered again, back to the default) around payloads larger than a frame
	mfsAlpha := []ev{
		{Who: "rcv", T: "mfs", N: 16384},
		{Who: "rcv", T: "mfs", N: 16385},
		{Who: "rcv", T: "mfs", N: 32768},
		{Who: "rcv", T: "mfs", N: 16777215},
		{Who: "snd", T: "data", Stream: 1, N: 16385},
		{Who: "snd", T: "data", Stream: 3, N: 40000},
		{Who: "rcv", T: "wu", Stream: 0, N: 100000},
	}
	// credit granted before anything was relayed toward the receiver on the stream (s2c: the client opened the
	// streams, the server's HEADERS and DATA are events of the history)
	lateAlpha := []ev{
		{Who: "snd", T: "hdr", Stream: 1},
		{Who: "snd", T: "hdr", Stream: 3},
		{Who: "snd", T: "data", Stream: 1, N: 5},
		{Who: "snd", T: "data", Stream: 3, N: 5},
		{Who: "rcv", T: "wu", Stream: 1, N: 5},
		{Who: "rcv", T: "wu", Stream: 3, N: 9},
		{Who: "rcv", T: "wu", Stream: 0, N: 5},
		{Who: "rcv", T: "iws", N: 4},
	}
	for _, root := range []int{0, 4} {
		d := 4
		if tier != "quick" {
			d = 5
		}
		lib.Sequences(len(lateAlpha), d, func(seq []int) {
			if len(seq) != d {
				return
			}
			h := make([]ev, len(seq))
			for i, x := range seq {
				h[i] = lateAlpha[x]
			}
			if !legal(h) {
				return
			}
			out = append(out, scenario{Dir: "s2c", RootIWS: root, Hist: h, LateHeaders: true})
		})
	}
	// one SETTINGS frame that carries INITIAL_WINDOW_SIZE twice: the values are processed in order, the last one counts
	dupAlpha := []ev{
		{Who: "snd", T: "data", Stream: 1, N: 5},
		{Who: "snd", T: "data", Stream: 3, N: 5},
		{Who: "rcv", T: "iws2", N: 100000, N2: 2},
		{Who: "rcv", T: "iws2", N: 2, N2: 100000},
		{Who: "rcv", T: "iws2", N: 0, N2: 5},
		{Who: "rcv", T: "wu", Stream: 1, N: 3},
		{Who: "rcv", T: "iws", N: 4},
	}
	for _, dir := range []string{"c2s", "s2c"} {
		d := 3
		if tier != "quick" {
			d = 4
		}
		gen(dir, 4, dupAlpha, d)
	}
	// cross-talk: the DATA sender announces its own (opposite-direction) settings and credits in between
	crossAlpha := []ev{
		{Who: "snd", T: "data", Stream: 1, N: 5},
		{Who: "snd", T: "data", Stream: 3, N: 5},
		{Who: "rcv", T: "iws", N: 0},
		{Who: "rcv", T: "iws", N: 4},
		{Who: "rcv", T: "wu", Stream: 1, N: 5},
		{Who: "rcv", T: "wu", Stream: 0, N: 5},
		{Who: "snd", T: "iws", N: 0},
		{Who: "snd", T: "iws", N: 70000},
		{Who: "snd", T: "wu", Stream: 1, N: 5},
		{Who: "snd", T: "wu", Stream: 0, N: 7},
		{Who: "snd", T: "mfs", N: 20000},
	}
	for _, dir := range []string{"c2s", "s2c"} {
		d := 3
		if tier != "quick" {
			d = 4
		}
		gen(dir, 4, crossAlpha, d)
	}
	if tier == "quick" {
		genUsed("c2s", 65531, connAlpha, 3)
		genUsed("s2c", 65535, connAlpha, 3)
		gen("c2s", -1, mfsAlpha, 3)
		gen("s2c", -1, mfsAlpha, 3)
	} else {
		for _, dir := range []string{"c2s", "s2c"} {
			genUsed(dir, 65531, connAlpha, 4)
			genUsed(dir, 65535, connAlpha, 4)
			gen(dir, -1, mfsAlpha, 4)
		}
	}
	// bursts toward a stalled receiver (more frames than the relay's internal queue holds)
	for _, dir := range []string{"c2s", "s2c"} {
		for _, n := range []int{14, 15, 16, 17, 18, 40} {
			out = append(out, scenario{Dir: dir, RootIWS: -1, Burst: n})
		}
	}
	// concurrent scripts
	b := 1
	if tier == "thorough" {
		b = 2
	}
	sndScripts := [][]ev{
		{{Who: "snd", T: "data", Stream: 1, N: 5}, {Who: "snd", T: "data", Stream: 3, N: 5}},
		{{Who: "snd", T: "data", Stream: 1, N: 3}, {Who: "snd", T: "data", Stream: 1, N: 3}},
		{{Who: "snd", T: "data", Stream: 1, N: 5, Pad: 2}, {Who: "snd", T: "data", Stream: 3, N: 1}},
	}
	rcvScripts := [][]ev{
		{{Who: "rcv", T: "wu", Stream: 1, N: 5}, {Who: "rcv", T: "wu", Stream: 0, N: 5}},
		{{Who: "rcv", T: "wu", Stream: 0, N: 100}, {Who: "rcv", T: "wu", Stream: 1, N: 6}, {Who: "rcv", T: "wu", Stream: 3, N: 6}},
		{{Who: "rcv", T: "iws", N: 6}, {Who: "rcv", T: "wu", Stream: 0, N: 4}},
		{{Who: "rcv", T: "wu", Stream: 3, N: 5}, {Who: "rcv", T: "iws", N: 3}, {Who: "rcv", T: "wu", Stream: 0, N: 20}},
	}
	for _, dir := range []string{"c2s", "s2c"} {
		for _, s := range sndScripts {
			for _, r := range rcvScripts {
				out = append(out, scenario{Dir: dir, RootIWS: 0, Conc: true, SndScript: s, RcvScript: r, Bound: b})
			}
		}
	}
	return append(out, auditScenarios(tier)...)
}

type shardOut struct {
	Counters   map[string]int64
	Violations []lib.Violation
	Samples    []interface{}
	Incomplete string
	States     map[string]bool
}

func main() {
	tier := lib.Tier()
	scen := scenarios(tier)
	if rp := os.Getenv("VERIF_REPLAY"); rp != "" {
		var doc struct {
			First struct {
				Replay struct {
					Scenario scenario
					Schedule []int
				}
			}
		}
		b, err := os.ReadFile(rp)
		if err != nil || json.Unmarshal(b, &doc) != nil {
			fmt.Fprintln(os.Stderr, "cannot read replay", rp, err)
			os.Exit(2)
		}
		body, check := run(doc.First.Replay.Scenario)
		r := vrt.Run(vrt.Config{Trace: os.Getenv("VERIF_TRACE") != "", MaxPoints: 400000}, doc.First.Replay.Schedule, body)
		for _, l := range r.Trace {
			fmt.Println("  ", l)
		}
		fmt.Println("outcome:", r.Outcome, r.Panic)
		for _, l := range r.Log {
			fmt.Println("log:", l)
		}
		fs := check(r)
		for _, f := range fs {
			fmt.Printf("VIOLATION property=C09 replay=%s\n  %s: %s\n", rp, f.Sig, f.Desc)
		}
		if len(fs) > 0 {
			os.Exit(1)
		}
		return
	}
	if i, n := lib.ShardEnv(); n > 0 {
		out := &shardOut{Counters: map[string]int64{}, States: map[string]bool{}}
		deadline := time.Now().Add(4 * time.Minute)
		if tier == "thorough" {
			deadline = time.Now().Add(40 * time.Minute)
		}
		seen := map[string]bool{}
		only := os.Getenv("C09_ONLY") // development aid: run only the families whose name contains this
		if only != "" {
			out.Incomplete = "C09_ONLY filter in force"
		}
		for si, sc := range scen {
			if si%n != i {
				continue
			}
			fam := sc.Fam
			if fam == "" {
				fam = "core"
			}
			if only != "" && !strings.Contains(fam, only) {
				continue
			}
			if time.Now().After(deadline) {
				out.Incomplete = "shard deadline reached"
				break
			}
			body, check := run(sc)
			st := vrt.Explore(vrt.ExploreConfig{Bound: sc.Bound, Deadline: deadline, Recheck: 1000000, Config: vrt.Config{MaxPoints: 400000}}, body, func(prefix []int, r *vrt.Result) bool {
				for _, l := range r.Log {
					if !strings.HasPrefix(l, "F ") && len(out.States) < 200000 {
						out.States[sc.Dir+" "+l] = true
					}
				}
				for _, f := range check(r) {
					if !seen[f.Sig] {
						seen[f.Sig] = true
						out.Violations = append(out.Violations, lib.Violation{Sig: f.Sig, Desc: fmt.Sprintf("scenario %s root IWS %d%s history %v%v%v schedule %v: %s", sc.Dir, sc.RootIWS, sc.extras(), sc.Hist, sc.SndScript, sc.RcvScript, r.ChoiceSeq(), f.Desc),
							Replay: map[string]interface{}{"scenario": sc, "schedule": r.ChoiceSeq()}})
					}
				}
				return true
			})
			if st.EngineError != "" {
				fmt.Fprintln(os.Stderr, "ENGINE ERROR:", st.EngineError)
				os.Exit(2)
			}
			if sc.Conc {
				out.Counters["concurrent_scenarios"]++
				out.Counters["concurrent_executions"] += int64(st.Execs)
			} else {
				out.Counters["histories"]++
				out.Counters["history_events"] += int64(len(sc.Hist))
			}
			out.Counters["executions"] += int64(st.Execs)
			out.Counters["family_"+fam] += int64(st.Execs)
			out.Counters["points"] += st.Points
			out.Counters["horizon_hits"] += int64(st.HorizonHits)
			if !st.Exhaustive {
				out.Incomplete = "cap hit in a concurrent scenario"
			}
			if len(out.Samples) < 1 && len(sc.Hist) > 0 {
				out.Samples = append(out.Samples, map[string]interface{}{"dir": sc.Dir, "root_iws": sc.RootIWS, "history": fmt.Sprint(sc.Hist)})
			}
		}
		out.Counters["distinct_ledger_states"] = int64(len(out.States))
		out.States = nil
		b, _ := json.Marshal(out)
		os.WriteFile(os.Getenv("VERIF_SHARD_OUT"), b, 0o644)
		return
	}
	rep := lib.NewReport("C09", "model_checking")
	files, errs, outs := lib.RunShards(16, lib.Root+"/.build/c09/shards")
	for i, f := range files {
		if errs[i] != nil {
			fmt.Fprintf(os.Stderr, "shard %d failed: %v\n%s\n", i, errs[i], outs[i])
			os.Exit(2)
		}
		var so shardOut
		b, _ := os.ReadFile(f)
		if err := json.Unmarshal(b, &so); err != nil {
			fmt.Fprintf(os.Stderr, "shard %d: bad output: %v\n", i, err)
			os.Exit(2)
		}
		for k, v := range so.Counters {
			rep.Count(k, v)
		}
		for _, v := range so.Violations {
			rep.Violate(v.Sig, v.Desc, v.Replay)
		}
		for _, s := range so.Samples {
			rep.Sample(4, s)
		}
		if so.Incomplete != "" {
			rep.Incomplete = so.Incomplete
		}
	}
	rep.Coverage["states"] = rep.Counter("distinct_ledger_states")
	rep.Coverage["transitions"] = rep.Counter("history_events") + rep.Counter("concurrent_executions")
	rep.Coverage["traces_validated_against_impl"] = rep.Counter("executions")
	rep.Coverage["exhaustive"] = rep.Incomplete == ""
	rep.Coverage["bounds"] = fmt.Sprintf("%d scenarios: all event histories (21-event alphabet to depth 3 (quick) / 4 (thorough), 12-event alphabet to depth 4 / 5) from receiver initial windows {0,4,default}, both directions, each event followed by run-to-quiescence and invariants I1-I4 evaluated in every state; plus histories over a connection-window alphabet after a third stream used up 65531 / 65535 bytes of the connection window, MAX_FRAME_SIZE histories (raise, lower, back to default) with payloads above a frame; plus 24 concurrent DATA/WINDOW_UPDATE script pairs under schedule exploration; plus the audit families (depth 3 quick / 4-5 thorough each): duplex histories (DATA and grants in both directions, both directions judged), duplex with the connection window used up, MAX_FRAME_SIZE lowered with DATA queued and the lowering acknowledged, END_STREAM on DATA with and without payload and empty frames around windows <= 0, values at 2^31-1, MAX_FRAME_SIZE of both endpoints with duplex payloads above a frame, padding limits, stream processor factories, grants from a stalled receiver after bursts of 16/17/40 frames, 8 concurrent duplex script pairs; round 7: MAX_FRAME_SIZE raised to 65536 (thorough also 2^24-1, and raised by a SETTINGS frame of the history, depth 6) then lowered to 16384 (thorough also 20000) and acknowledged with queued payloads of 2x, 2x+1, 3x+1 (thorough also 3x, 4x-1) of the lowered limit, held back by the stream window or by the connection window, depth 4; round 8: RST_STREAM from the receiver or from the sender as an event of the histories around DATA (plain, padded; thorough also END_STREAM, 40000 bytes, 256 bytes of padding) and stream grants from stream windows 0 and default (7-event alphabet, depth 4 / 5), with the receiver's connection window at 4 bytes (depth 3 / 4) and with DATA in both directions (depth 3 / 4); partial grants after an acknowledged lowering of MAX_FRAME_SIZE 32768 -> 16384 with payloads of 30000 and 32768 bytes queued: WINDOW_UPDATE of 16385 and 20000 (thorough also 16384, and 3x+1 payloads from 65536 with grants of 1x+1 and 2x+1) on the stream or on the connection, depth 4 / 5", len(scen))
	rep.Coverage["explanation"] = "states = distinct ledger states (windows, pending bytes, max frame size; both directions in duplex scenarios) summed over shards; every history is replayed on a fresh real relay (no deduplication); family_* = executions per family (core = the families that existed before the audit)"
	rep.Assumptions = []string{"2 streams (3 when a third one uses up the connection window); sizes and increments from the alphabets", "a lowering of MAX_FRAME_SIZE announced while accepted DATA is still queued binds those queued frames from the moment the receiver has seen the lowering SETTINGS frame acknowledged (RFC 7540 section 6.5.3); until then frames of the old size are accepted", "I4 at the granularity of the relay's own frames (no obligation to split a frame to fit a smaller window); an empty DATA frame is owed only if it carries END_STREAM and neither window is negative", "receivers that grant a window above 2^31-1 are outside the space", "RST_STREAM (from either end) closes the stream in both directions: DATA the other end still sends on it is owed connection credit exactly (RFC 7540 sections 5.1, 6.9) and stream credit optionally (at least what was sent before the reset, never more than sent); nothing pending on it is owed to the receiver, its stream window is not judged, what is forwarded on it counts against the receiver's connection window; an endpoint sends no DATA on a stream it reset itself; one RST_STREAM per stream", "a relay may or may not cut a queued frame to fit a window: a queued payload is owed when it fits both windows as a whole, the rest of a payload that was partly delivered is owed when it fits"}
	rep.Finish()
}
