package main

// Round 7 (AUDIT.md): queued payloads of k x the lowered MAX_FRAME_SIZE.
//
// `mfs_lowered_acked` raises the receiver's MAX_FRAME_SIZE to 32768 only and lowers it to 16384, so a payload cut
// at the old size is never more than twice the new limit: a relay that re-cuts a queued payload once (or k times
// for any fixed k) is indistinguishable there from one that re-cuts it as often as needed. This family quantifies
// over the ratio payload / lowered limit: the receiver raises MAX_FRAME_SIZE far above the value it lowers it to
// later (in its opening SETTINGS, or, `mfs_requeued_multiples_late`, by a SETTINGS frame of the history), the
// sender's payloads sit exactly at and one byte above 2x and 3x of the lowered limit (thorough: also 4x-1 and a
// second lowered limit), one of them carries END_STREAM (the flag belongs on the last piece only), and what holds
// the payload back in the relay is either the stream window or the connection window. Both directions. Judged by
// the unchanged I2 clause of oracle.go (a frame above the lowered limit once the receiver has seen the lowering
// acknowledged), whose signature gets the class `:queued_payload_over_twice_the_limit` when the payload the
// oversized frame is a piece of needs three or more frames under the new limit.
func resplitScenarios(tier string) []scenario {
	var out []scenario
	quick := tier == "quick"
	const L = 16384 // the limit the receiver lowers MAX_FRAME_SIZE to
	const raised = 65536
	dirs := []string{"c2s", "s2c"}

	// J1. held back by the stream window (initial window 0)
	for _, dir := range dirs {
		alpha := []ev{
			{Who: "snd", T: "data", Stream: 1, N: 2 * L},
			{Who: "snd", T: "data", Stream: 1, N: 2*L + 1},
			{Who: "snd", T: "data", Stream: 3, N: 3*L + 1, ES: true},
			{Who: "rcv", T: "mfs", N: L},
			{Who: "snd", T: "ack"},
			{Who: "rcv", T: "wu", Stream: 1, N: 100000},
			{Who: "rcv", T: "wu", Stream: 3, N: 100000},
		}
		genFrom(&out, scenario{Dir: dir, RootIWS: 0, RevRootIWS: -1, RootMFS: raised, AckRoot: true, Fam: "mfs_requeued_multiples"}, alpha, 4)
		if !quick {
			// more ratios (3x exactly; 4x-1, which is also the whole connection window) and a second lowered limit
			// that is not the protocol minimum (2x20000+1 = 40001)
			genFrom(&out, scenario{Dir: dir, RootIWS: 0, RevRootIWS: -1, RootMFS: raised, AckRoot: true, Fam: "mfs_requeued_multiples"}, []ev{
				{Who: "snd", T: "data", Stream: 1, N: 40001},
				{Who: "snd", T: "data", Stream: 1, N: 3 * L},
				{Who: "snd", T: "data", Stream: 3, N: 4*L - 1, ES: true},
				{Who: "rcv", T: "mfs", N: L},
				{Who: "rcv", T: "mfs", N: 20000},
				{Who: "snd", T: "ack"},
				{Who: "rcv", T: "wu", Stream: 1, N: 100000},
				{Who: "rcv", T: "wu", Stream: 3, N: 100000},
			}, 4)
			// the largest legal raise
			genFrom(&out, scenario{Dir: dir, RootIWS: 0, RevRootIWS: -1, RootMFS: 1<<24 - 1, AckRoot: true, Fam: "mfs_requeued_multiples"}, alpha, 4)
		}
	}

	// J2. held back by the connection window (a third stream used all 65535 bytes of it), stream windows open
	for _, dir := range dirs {
		alpha := []ev{
			{Who: "snd", T: "data", Stream: 1, N: 2*L + 1},
			{Who: "snd", T: "data", Stream: 3, N: 3*L + 1, ES: true},
			{Who: "rcv", T: "mfs", N: L},
			{Who: "snd", T: "ack"},
			{Who: "rcv", T: "wu", Stream: 0, N: 100000},
		}
		if !quick {
			// a second size and a grant that fits the smaller payload exactly
			alpha = append(alpha, ev{Who: "snd", T: "data", Stream: 1, N: 3 * L}, ev{Who: "rcv", T: "wu", Stream: 0, N: 2*L + 1})
		}
		genFrom(&out, scenario{Dir: dir, RootIWS: -1, RevRootIWS: -1, RootMFS: raised, AckRoot: true, ConnUsed: 65535, Fam: "mfs_requeued_multiples_conn"}, alpha, 4)
	}

	// J3 (thorough only). the raise is a SETTINGS frame of the history as well (opening: default 16384): raise,
	// DATA, lower, two acknowledgements (the raise's and the lowering's), window. Depth 6 is the shortest history
	// in which the lowering binds; the alphabet is the minimum that contains it.
	for _, dir := range dirs {
		if quick {
			break
		}
		alpha := []ev{
			{Who: "rcv", T: "mfs", N: raised},
			{Who: "snd", T: "data", Stream: 1, N: 3*L + 1},
			{Who: "rcv", T: "mfs", N: L},
			{Who: "snd", T: "ack"},
			{Who: "rcv", T: "wu", Stream: 1, N: 100000},
		}
		genFrom(&out, scenario{Dir: dir, RootIWS: 0, RevRootIWS: -1, AckRoot: true, Fam: "mfs_requeued_multiples_late"}, alpha, 6)
	}
	return out
}
