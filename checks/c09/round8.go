package main

// Round 8 (AUDIT.md): RST_STREAM as an event of the histories, and partial grants after a lowering of
// MAX_FRAME_SIZE.
//
// 1. `rst_stream*`. The statement quantifies over histories of SETTINGS, WINDOW_UPDATE and DATA frames; whether a
// stream is still open when a DATA frame travels is not a condition of any clause. A stream is closed by
// RST_STREAM from the receiver of the DATA (refused upload, cancelled call) or from its sender, and the other end
// may still have DATA in flight on it. What is owed then (oracle.go, `reset`):
//   - credit on the connection: exactly the flow-controlled length (payload + padding + pad octet) of every DATA
//     frame the sender sent, whether the stream was still open or not: the sender has debited its connection
//     window for the frame (RFC 7540 section 5.1: frames received after RST_STREAM "are counted toward the
//     connection flow-control window"; 6.9: a receiver "MUST always account for its contribution against the
//     connection flow-control window"), the relay took it, nobody else can give the bytes back;
//   - credit on the reset stream: what was sent before the reset exactly (it was owed on acceptance), what was
//     sent afterwards optionally (the window of a closed stream is of no use to anybody), never more than sent;
//   - toward the receiver: DATA the relay still forwards on the reset stream weighs on the receiver's connection
//     window (I1 connection) and obeys MAX_FRAME_SIZE (I2); the stream window of a closed stream is not judged;
//   - stranding: nothing is owed on the reset stream; everything else as before (the other stream must not be
//     held up by what is queued or discarded on the reset one).
//
// An endpoint sends no DATA on a stream it has reset itself and a stream is reset once; everything else is
// enumerated: RST_STREAM from either end, before / between / after DATA (plain, padded, END_STREAM) and grants,
// with the stream window at 0 (DATA of the reset stream is queued inside the relay when the reset arrives) and
// open (it is not), with the receiver's connection window nearly used up, and with DATA in both directions.
//
// 2. `mfs_lowered_partial_grant*`. The `mfs_lowered_acked` / `mfs_requeued_multiples` families open the window
// with one WINDOW_UPDATE of 100000, more than anything queued. Here the grants that follow the (acknowledged)
// lowering are smaller than the queued payload and at, one above and well above the lowered limit, on the stream
// or on the connection, once or twice in a row. The unchanged relay never cuts a queued frame to fit a window (it
// waits for a grant that covers the frame); a relay may also cut. The oracle accepts both: it judges frame sizes
// (I2, class `:partial_grant_above_the_limit`), windows (I1), credit (I3) and stranding (I4: a queued payload is
// owed when it fits as a whole, and what is left of a payload the relay has cut is owed when it fits).
func round8Scenarios(tier string) []scenario {
	var out []scenario
	quick := tier == "quick"
	dirs := []string{"c2s", "s2c"}

	// R1. RST_STREAM around DATA and stream grants; stream windows 0 or default
	rstAlpha := []ev{
		{Who: "snd", T: "data", Stream: 1, N: 5},
		{Who: "snd", T: "data", Stream: 1, N: 2, Pad: 3},
		{Who: "snd", T: "data", Stream: 3, N: 5},
		{Who: "rcv", T: "rst", Stream: 1},
		{Who: "snd", T: "rst", Stream: 1},
		{Who: "rcv", T: "wu", Stream: 1, N: 5},
		{Who: "rcv", T: "wu", Stream: 3, N: 5},
	}
	for _, dir := range dirs {
		for _, root := range []int{0, -1} {
			genFrom(&out, scenario{Dir: dir, RootIWS: root, RevRootIWS: -1, Fam: "rst_stream"}, rstAlpha, pick(quick, 4, 5))
		}
		if !quick {
			// END_STREAM on the frame in flight, frames above MAX_FRAME_SIZE (cut by the relay) and the padding limit
			// on a reset stream, a reset of the other stream, a SETTINGS change of the window after the reset
			genFrom(&out, scenario{Dir: dir, RootIWS: 0, RevRootIWS: -1, Fam: "rst_stream"}, []ev{
				{Who: "snd", T: "data", Stream: 1, N: 5, ES: true},
				{Who: "snd", T: "data", Stream: 1, N: 40000},
				{Who: "snd", T: "data", Stream: 3, N: 0, Pad: 256},
				{Who: "rcv", T: "rst", Stream: 1},
				{Who: "rcv", T: "rst", Stream: 3},
				{Who: "snd", T: "rst", Stream: 3},
				{Who: "rcv", T: "iws", N: 9},
				{Who: "rcv", T: "wu", Stream: 1, N: 100000},
			}, 4)
		}
	}

	// R2. the receiver's connection window is what blocks (65531 of 65535 bytes used by a third stream): DATA the
	// relay forwards on a reset stream uses it up for the other stream, DATA it discards does not
	rstConnAlpha := []ev{
		{Who: "snd", T: "data", Stream: 1, N: 3},
		{Who: "snd", T: "data", Stream: 3, N: 3},
		{Who: "rcv", T: "rst", Stream: 1},
		{Who: "snd", T: "rst", Stream: 3},
		{Who: "rcv", T: "wu", Stream: 0, N: 3},
		{Who: "rcv", T: "wu", Stream: 0, N: 1},
	}
	for _, dir := range dirs {
		genFrom(&out, scenario{Dir: dir, RootIWS: -1, RevRootIWS: -1, ConnUsed: 65531, Fam: "rst_stream_conn"}, rstConnAlpha, pick(quick, 3, 4))
	}

	// R3. DATA in both directions: a reset closes the stream for both senders, each is owed its connection credit
	rstDuplexAlpha := []ev{
		{Who: "snd", T: "data", Stream: 1, N: 5},
		{Who: "rcv", T: "data", Stream: 1, N: 5},
		{Who: "rcv", T: "data", Stream: 3, N: 1, Pad: 2},
		{Who: "rcv", T: "rst", Stream: 1},
		{Who: "snd", T: "rst", Stream: 3},
		{Who: "rcv", T: "wu", Stream: 1, N: 5},
		{Who: "snd", T: "wu", Stream: 1, N: 5},
	}
	for _, dir := range dirs {
		genFrom(&out, scenario{Dir: dir, RootIWS: 0, Duplex: true, RevRootIWS: 0, Fam: "rst_stream_duplex"}, rstDuplexAlpha, pick(quick, 3, 4))
	}

	// P1. partial grants on the stream after an acknowledged lowering. Receiver: MAX_FRAME_SIZE 32768, initial window
	// 0, opening SETTINGS acknowledged; it lowers MAX_FRAME_SIZE to L = 16384.
	const L = 16384
	for _, dir := range dirs {
		alpha := []ev{
			{Who: "snd", T: "data", Stream: 1, N: 30000},
			{Who: "snd", T: "data", Stream: 3, N: 2 * L, ES: true},
			{Who: "rcv", T: "mfs", N: L},
			{Who: "snd", T: "ack"},
			{Who: "rcv", T: "wu", Stream: 1, N: 20000},
			{Who: "rcv", T: "wu", Stream: 3, N: L + 1},
		}
		if !quick {
			// the limit exactly, a grant on the other stream, and depth 5: a second grant for what is left
			alpha = append(alpha, ev{Who: "rcv", T: "wu", Stream: 1, N: L}, ev{Who: "rcv", T: "wu", Stream: 3, N: 20000})
		}
		genFrom(&out, scenario{Dir: dir, RootIWS: 0, RevRootIWS: -1, RootMFS: 2 * L, AckRoot: true, Fam: "mfs_lowered_partial_grant"}, alpha, pick(quick, 4, 5))
		if !quick {
			// a payload of 3x+1 of the lowered limit with grants between 1x and 3x of it
			genFrom(&out, scenario{Dir: dir, RootIWS: 0, RevRootIWS: -1, RootMFS: 4 * L, AckRoot: true, Fam: "mfs_lowered_partial_grant"}, []ev{
				{Who: "snd", T: "data", Stream: 1, N: 3*L + 1},
				{Who: "rcv", T: "mfs", N: L},
				{Who: "snd", T: "ack"},
				{Who: "rcv", T: "wu", Stream: 1, N: L + 1},
				{Who: "rcv", T: "wu", Stream: 1, N: 2*L + 1},
			}, 5)
		}
	}

	// P2. partial grants on the connection (a third stream used all 65535 bytes of it), stream windows open
	for _, dir := range dirs {
		alpha := []ev{
			{Who: "snd", T: "data", Stream: 1, N: 30000},
			{Who: "rcv", T: "mfs", N: L},
			{Who: "snd", T: "ack"},
			{Who: "rcv", T: "wu", Stream: 0, N: 20000},
			{Who: "rcv", T: "wu", Stream: 0, N: L + 1},
		}
		if !quick {
			alpha = append(alpha, ev{Who: "snd", T: "data", Stream: 3, N: 2 * L, ES: true})
		}
		genFrom(&out, scenario{Dir: dir, RootIWS: -1, RevRootIWS: -1, RootMFS: 2 * L, AckRoot: true, ConnUsed: 65535, Fam: "mfs_lowered_partial_grant_conn"}, alpha, pick(quick, 4, 5))
	}
	return out
}
