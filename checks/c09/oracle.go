package main

import (
	"bytes"
	"fmt"

	hw "verif/checks/h2world"
)

// chunk is one DATA frame the relay is expected to have queued for a stream: the payload of an accepted frame
// cut at the receiver's MAX_FRAME_SIZE in force when the frame was accepted.
type chunk struct {
	n  int
	es bool
}

// ledger is the reference model of one direction of DATA flow, written from the statement: what the receiver
// has granted (stream and connection windows, maximum frame size, in the order it announced them), what the
// sender has sent, what has arrived. A scenario keeps two of them (the forward direction named by
// scenario.Dir and the reverse one); in the one-directional families the reverse ledger stays empty and then
// only demands that the forward receiver is sent no credit.
type ledger struct {
	dir      string // direction of the DATA this ledger judges (c2s | s2c); prefix of its signatures
	fwdDir   string // scenario.Dir (only used for the signature of the historical "credit_sent_to_the_receiver" clause)
	rev      bool
	snd, rcv *hw.Endpoint

	iws     int
	mfs     int
	winConn int
	win     map[uint32]int
	streams []uint32

	sentFlow     map[uint32]int
	sentFlowConn int
	sentPay      map[uint32]int
	chunks       map[uint32][]chunk
	esSent       map[uint32]bool
	padSeen      bool

	seen      int // events of rcv.Recv already accounted
	sentSeen  int // events of snd.Sent already accounted
	recvPay   map[uint32]int
	recvES    map[uint32]bool
	recvBytes map[uint32][]byte
	sentBytes map[uint32][]byte

	// SETTINGS acknowledgement bookkeeping (RFC 7540 section 6.5.3): the receiver's SETTINGS frames are numbered
	// from 0 (the opening one); the k-th acknowledgement it sees tells it that frame k-1 is in force.
	settingsFrames int
	acked          int
	// A lowering of MAX_FRAME_SIZE announced while accepted DATA was still queued in the relay: until the receiver
	// has seen that SETTINGS frame acknowledged it must expect frames of the old size (graceMax); afterwards the
	// new limit binds every frame, whenever it was accepted.
	graceUntil int // index of the last such SETTINGS frame, -1 = none
	graceMax   int
}

func newLedger(dir, fwdDir string, rev bool, snd, rcv *hw.Endpoint, rootIWS, rootMFS int, streams []uint32) *ledger {
	L := &ledger{dir: dir, fwdDir: fwdDir, rev: rev, snd: snd, rcv: rcv, iws: 65535, mfs: 16384, winConn: 65535,
		win: map[uint32]int{}, sentFlow: map[uint32]int{}, sentPay: map[uint32]int{}, chunks: map[uint32][]chunk{},
		esSent: map[uint32]bool{}, recvPay: map[uint32]int{}, recvES: map[uint32]bool{},
		recvBytes: map[uint32][]byte{}, sentBytes: map[uint32][]byte{}, settingsFrames: 1, graceUntil: -1}
	if rootIWS >= 0 {
		L.iws = rootIWS
	}
	if rootMFS > 0 {
		L.mfs = rootMFS
	}
	for _, s := range streams {
		L.addStream(s)
	}
	return L
}

func (L *ledger) addStream(s uint32) {
	L.streams = append(L.streams, s)
	L.win[s] = L.iws
}

func (L *ledger) pending() bool {
	for _, s := range L.streams {
		if L.sentPay[s] != L.recvPay[s] {
			return true
		}
	}
	return false
}

// applyGrant accounts a frame the receiver sends about what it is willing to receive.
func (L *ledger) applyGrant(e ev) {
	switch e.T {
	case "iws", "iws2":
		v := e.N
		if e.T == "iws2" {
			v = e.N2 // settings are processed in the order they appear: the last value is the one in force
		}
		d := v - L.iws
		L.iws = v
		for s := range L.win {
			L.win[s] += d
		}
		L.settingsFrames++
	case "mfs":
		if e.N < L.mfs && L.pending() {
			L.graceUntil = L.settingsFrames
			if L.mfs > L.graceMax {
				L.graceMax = L.mfs
			}
		}
		L.mfs = e.N
		L.settingsFrames++
	case "wu":
		if e.Stream == 0 {
			L.winConn += e.N
		} else {
			L.win[e.Stream] += e.N
		}
	}
}

// applySend accounts a DATA frame the sender sends.
func (L *ledger) applySend(e ev) {
	fl := e.N
	if e.Pad > 0 {
		fl += e.Pad
		L.padSeen = true
	}
	L.sentFlow[e.Stream] += fl
	L.sentFlowConn += fl
	L.sentPay[e.Stream] += e.N
	if e.ES {
		L.esSent[e.Stream] = true
	}
	// the relay re-chunks the payload at the receiver's max frame size in force when it accepts the frame
	n := e.N
	if n == 0 {
		L.chunks[e.Stream] = append(L.chunks[e.Stream], chunk{0, e.ES})
	}
	for n > 0 {
		c := n
		if c > L.mfs {
			c = L.mfs
		}
		n -= c
		L.chunks[e.Stream] = append(L.chunks[e.Stream], chunk{c, e.ES && n == 0})
	}
}

// chunkAt returns the size of the queued payload (chunk of the reference model) that the byte at offset off of
// stream s belongs to, 0 if there is none.
func (L *ledger) chunkAt(s uint32, off int) int {
	for _, c := range L.chunks[s] {
		if off < c.n {
			return c.n
		}
		off -= c.n
	}
	return 0
}

func (L *ledger) known(s uint32) bool {
	for _, x := range L.streams {
		if x == s {
			return true
		}
	}
	return false
}

// eval judges I1-I4 for this direction in the state reached (the world is quiescent).
func (L *ledger) eval(ctx string, add func(sig, format string, a ...interface{})) {
	// I1 / I2 on what newly arrived at the receiver, in arrival order
	for ; L.seen < len(L.rcv.Recv); L.seen++ {
		d := L.rcv.Recv[L.seen]
		if d.T == "settings_ack" {
			L.acked++
			continue
		}
		limit, lowered := L.mfs, false
		if L.graceUntil >= 0 {
			if L.acked <= L.graceUntil {
				if L.graceMax > limit {
					limit = L.graceMax
				}
			} else {
				lowered = true
			}
		}
		if d.T != "data" {
			if d.MaxFrame > limit && (d.T == "headers" || d.T == "push") {
				add(L.dir+":I2:frame_exceeds_max_frame_size:"+d.T, "%s: %s frame of %d bytes exceeds the receiver's MAX_FRAME_SIZE %d", ctx, d.T, d.MaxFrame, limit)
			}
			continue
		}
		if d.MaxFrame > limit {
			if q := L.chunkAt(d.Stream, L.recvPay[d.Stream]); lowered && q > 2*limit {
				// the payload the frame is a piece of was accepted under a limit of more than twice the present one:
				// it needs three or more frames now (a class of its own: one cut is not enough here)
				add(L.dir+":I2:frame_exceeds_lowered_max_frame_size:data:queued_payload_over_twice_the_limit", "%s: DATA frame of %d bytes (a piece of a payload of %d bytes the relay had accepted and queued under the earlier, larger limit) arrived after the receiver had lowered MAX_FRAME_SIZE to %d and had seen that SETTINGS frame acknowledged", ctx, d.MaxFrame, q, limit)
			} else if lowered {
				add(L.dir+":I2:frame_exceeds_lowered_max_frame_size:data", "%s: DATA frame of %d bytes arrived after the receiver had lowered MAX_FRAME_SIZE to %d and had seen that SETTINGS frame acknowledged", ctx, d.MaxFrame, limit)
			} else {
				add(L.dir+":I2:frame_exceeds_max_frame_size:data", "%s: DATA frame of %d bytes exceeds the receiver's MAX_FRAME_SIZE %d", ctx, d.MaxFrame, limit)
			}
		}
		if d.FlowLen > L.win[d.Stream] {
			add(L.dir+":I1:stream_window_exceeded", "%s: DATA of %d flow-controlled bytes on stream %d but the receiver's stream window was %d", ctx, d.FlowLen, d.Stream, L.win[d.Stream])
		}
		if d.FlowLen > L.winConn {
			add(L.dir+":I1:connection_window_exceeded", "%s: DATA of %d flow-controlled bytes but the receiver's connection window was %d", ctx, d.FlowLen, L.winConn)
		}
		L.win[d.Stream] -= d.FlowLen
		L.winConn -= d.FlowLen
		L.recvPay[d.Stream] += len(d.Data)
		if d.EndStream {
			L.recvES[d.Stream] = true
		}
		L.recvBytes[d.Stream] = append(L.recvBytes[d.Stream], d.Data...)
	}
	for ; L.sentSeen < len(L.snd.Sent); L.sentSeen++ {
		if d := L.snd.Sent[L.sentSeen]; d.T == "data" {
			L.sentBytes[d.Stream] = append(L.sentBytes[d.Stream], d.Data...)
		}
	}
	// I3 credit returned to the sender
	cred := map[uint32]int{}
	any := false
	var first hw.Event
	for _, e := range L.snd.Recv {
		if e.T == "wu" {
			if !any {
				first = e
			}
			any = true
			cred[e.Stream] += int(e.Incr)
		}
	}
	if L.rev && L.sentFlowConn == 0 {
		// the forward receiver has sent no DATA: it is owed no credit at all
		if any {
			add(L.fwdDir+":I3:credit_sent_to_the_receiver", "%s: the receiver, which sent no DATA, was sent WINDOW_UPDATE(stream %d, +%d)", ctx, first.Stream, first.Incr)
		}
	} else {
		cls := ""
		if L.padSeen {
			cls = ":padded"
		}
		if cred[0] != L.sentFlowConn {
			add(L.dir+":I3:connection_credit_mismatch"+cls, "%s: sender has sent %d flow-controlled bytes but was returned %d bytes of connection credit", ctx, L.sentFlowConn, cred[0])
		}
		for _, s := range L.streams {
			if cred[s] != L.sentFlow[s] {
				add(L.dir+":I3:stream_credit_mismatch"+cls, "%s: sender has sent %d flow-controlled bytes on stream %d but was returned %d bytes of stream credit", ctx, L.sentFlow[s], s, cred[s])
			}
		}
		for s, c := range cred {
			if s != 0 && !L.known(s) && c != 0 {
				add(L.dir+":I3:credit_for_unknown_stream", "%s: credit returned for stream %d which carried no DATA", ctx, s)
			}
		}
	}
	// I4 stranding (frame granularity: the relay's own chunks)
	for _, s := range L.streams {
		delivered := L.recvPay[s]
		all := true
		for _, c := range L.chunks[s] {
			if c.n > 0 {
				if delivered >= c.n {
					delivered -= c.n
					continue
				}
				all = false
				if delivered > 0 {
					break // the relay cut a frame differently: bytes are judged, frames are not
				}
				if c.n <= L.win[s] && c.n <= L.winConn {
					add(L.dir+":I4:stranded_data", "%s: %d bytes are pending on stream %d with stream window %d and connection window %d but were not delivered", ctx, c.n, s, L.win[s], L.winConn)
				}
				break
			}
			// A DATA frame without data carries at most END_STREAM. Without the flag nothing is owed for it (a relay
			// may forward or drop it). With the flag it needs no credit: it is owed as soon as neither window is
			// in debt (with a negative window the relay may hold it or send it, RFC 7540 section 6.9.1).
			if !c.es || L.recvES[s] {
				continue
			}
			all = false
			if L.win[s] >= 0 && L.winConn >= 0 {
				add(L.dir+":I4:stranded_empty_frame", "%s: an empty DATA frame with END_STREAM is pending on stream %d with stream window %d and connection window %d but was not delivered", ctx, s, L.win[s], L.winConn)
			}
			break
		}
		if L.recvPay[s] > L.sentPay[s] {
			add(L.dir+":integrity:more_received_than_sent", "%s: stream %d received %d payload bytes, only %d were sent", ctx, s, L.recvPay[s], L.sentPay[s])
		} else if !bytes.HasPrefix(L.sentBytes[s], L.recvBytes[s]) {
			add(L.dir+":integrity:payload_changed", "%s: the %d payload bytes delivered on stream %d are not the first bytes the sender sent on it", ctx, L.recvPay[s], s)
		}
		if all && L.esSent[s] && !L.recvES[s] {
			add(L.dir+":integrity:end_stream_lost", "%s: everything sent on stream %d was delivered except the END_STREAM flag", ctx, s)
		}
		if L.recvES[s] && !(all && L.esSent[s]) {
			add(L.dir+":integrity:end_stream_early", "%s: END_STREAM arrived on stream %d before everything sent on it (END_STREAM sent: %v)", ctx, s, L.esSent[s])
		}
	}
}

func (L *ledger) key() string {
	return fmt.Sprintf("w1=%d w3=%d wc=%d p1=%d p3=%d mfs=%d", L.win[1], L.win[3], L.winConn, L.sentPay[1]-L.recvPay[1], L.sentPay[3]-L.recvPay[3], L.mfs)
}
