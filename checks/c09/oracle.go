package main

import (
	"bytes"
	"fmt"

	hw "verif/checks/h2world"
)

// chunk is one DATA frame the relay is expected to have queued for a stream: the payload of an accepted frame
// cut at the receiver's MAX_FRAME_SIZE in force when the frame was accepted.
type chunk struct {
	n  int
	es bool
}

// ledger is the reference model of one direction of DATA flow, written from the statement: what the receiver
// has granted (stream and connection windows, maximum frame size, in the order it announced them), what the
// sender has sent, what has arrived. A scenario keeps two of them (the forward direction named by
// scenario.Dir and the reverse one); in the one-directional families the reverse ledger stays empty and then
// only demands that the forward receiver is sent no credit.
type ledger struct {
	dir      string // direction of the DATA this ledger judges (c2s | s2c); prefix of its signatures
	fwdDir   string // scenario.Dir (only used for the signature of the historical "credit_sent_to_the_receiver" clause)
	rev      bool
	snd, rcv *hw.Endpoint

	iws     int
	mfs     int
	winConn int
	win     map[uint32]int
	streams []uint32

	sentFlow     map[uint32]int
	sentFlowConn int
	sentPay      map[uint32]int
	chunks       map[uint32][]chunk
	esSent       map[uint32]bool
	padSeen      bool

	seen      int // events of rcv.Recv already accounted
	sentSeen  int // events of snd.Sent already accounted
	recvPay   map[uint32]int
	recvES    map[uint32]bool
	recvBytes map[uint32][]byte
	sentBytes map[uint32][]byte

	// SETTINGS acknowledgement bookkeeping (RFC 7540 section 6.5.3): the receiver's SETTINGS frames are numbered
	// from 0 (the opening one); the k-th acknowledgement it sees tells it that frame k-1 is in force.
	settingsFrames int
	acked          int
	// A lowering of MAX_FRAME_SIZE announced while accepted DATA was still queued in the relay: until the receiver
	// has seen that SETTINGS frame acknowledged it must expect frames of the old size (graceMax); afterwards the
	// new limit binds every frame, whenever it was accepted.
	graceUntil int // index of the last such SETTINGS frame, -1 = none
	graceMax   int

	// RST_STREAM (round 8). A stream that either end has reset is closed in both directions: nothing pending on it
	// is owed to the receiver any more, it has no stream window to respect and the sender needs no stream credit for
	// it. The connection is untouched by the reset: every DATA frame the sender sends on the stream afterwards
	// (frames in flight when the reset crossed them) still counts against the connection window it was granted
	// (RFC 7540 sections 5.1 and 6.9), so the relay, which took the frame, owes its flow-controlled length back on
	// the connection, exactly as for any other frame; and what the relay still forwards on the stream counts
	// against the receiver's connection window.
	reset       map[uint32]bool
	flowAtReset map[uint32]int // flow-controlled bytes the sender had sent on the stream when it was reset
	afterReset  int            // flow-controlled bytes sent on streams after their reset
}

func newLedger(dir, fwdDir string, rev bool, snd, rcv *hw.Endpoint, rootIWS, rootMFS int, streams []uint32) *ledger {
	L := &ledger{dir: dir, fwdDir: fwdDir, rev: rev, snd: snd, rcv: rcv, iws: 65535, mfs: 16384, winConn: 65535,
		win: map[uint32]int{}, sentFlow: map[uint32]int{}, sentPay: map[uint32]int{}, chunks: map[uint32][]chunk{},
		esSent: map[uint32]bool{}, recvPay: map[uint32]int{}, recvES: map[uint32]bool{},
		recvBytes: map[uint32][]byte{}, sentBytes: map[uint32][]byte{}, settingsFrames: 1, graceUntil: -1,
		reset: map[uint32]bool{}, flowAtReset: map[uint32]int{}}
	if rootIWS >= 0 {
		L.iws = rootIWS
	}
	if rootMFS > 0 {
		L.mfs = rootMFS
	}
	for _, s := range streams {
		L.addStream(s)
	}
	return L
}

func (L *ledger) addStream(s uint32) {
	L.streams = append(L.streams, s)
	L.win[s] = L.iws
}

func (L *ledger) pending() bool {
	for _, s := range L.streams {
		if L.sentPay[s] != L.recvPay[s] {
			return true
		}
	}
	return false
}

// applyGrant accounts a frame the receiver sends about what it is willing to receive.
func (L *ledger) applyGrant(e ev) {
	switch e.T {
	case "iws", "iws2":
		v := e.N
		if e.T == "iws2" {
			v = e.N2 // settings are processed in the order they appear: the last value is the one in force
		}
		d := v - L.iws
		L.iws = v
		for s := range L.win {
			L.win[s] += d
		}
		L.settingsFrames++
	case "mfs":
		if e.N < L.mfs && L.pending() {
			L.graceUntil = L.settingsFrames
			if L.mfs > L.graceMax {
				L.graceMax = L.mfs
			}
		}
		L.mfs = e.N
		L.settingsFrames++
	case "wu":
		if e.Stream == 0 {
			L.winConn += e.N
		} else {
			L.win[e.Stream] += e.N
		}
	}
}

// applyReset accounts an RST_STREAM frame for stream s, sent by either end.
func (L *ledger) applyReset(s uint32) {
	if !L.reset[s] {
		L.reset[s] = true
		L.flowAtReset[s] = L.sentFlow[s]
	}
}

// applySend accounts a DATA frame the sender sends.
func (L *ledger) applySend(e ev) {
	fl := e.N
	if e.Pad > 0 {
		fl += e.Pad
		L.padSeen = true
	}
	if L.reset[e.Stream] {
		L.afterReset += fl
	}
	L.sentFlow[e.Stream] += fl
	L.sentFlowConn += fl
	L.sentPay[e.Stream] += e.N
	if e.ES {
		L.esSent[e.Stream] = true
	}
	// the relay re-chunks the payload at the receiver's max frame size in force when it accepts the frame
	n := e.N
	if n == 0 {
		L.chunks[e.Stream] = append(L.chunks[e.Stream], chunk{0, e.ES})
	}
	for n > 0 {
		c := n
		if c > L.mfs {
			c = L.mfs
		}
		n -= c
		L.chunks[e.Stream] = append(L.chunks[e.Stream], chunk{c, e.ES && n == 0})
	}
}

// chunkAt returns the size of the queued payload (chunk of the reference model) that the byte at offset off of
// stream s belongs to, 0 if there is none.
func (L *ledger) chunkAt(s uint32, off int) int {
	n, _ := L.chunkRest(s, off)
	return n
}

// chunkRest is chunkAt plus the number of bytes of that payload from offset off to its end.
func (L *ledger) chunkRest(s uint32, off int) (size, rest int) {
	for _, c := range L.chunks[s] {
		if off < c.n {
			return c.n, c.n - off
		}
		off -= c.n
	}
	return 0, 0
}

func (L *ledger) known(s uint32) bool {
	for _, x := range L.streams {
		if x == s {
			return true
		}
	}
	return false
}

// eval judges I1-I4 for this direction in the state reached (the world is quiescent).
func (L *ledger) eval(ctx string, add func(sig, format string, a ...interface{})) {
	// I1 / I2 on what newly arrived at the receiver, in arrival order
	for ; L.seen < len(L.rcv.Recv); L.seen++ {
		d := L.rcv.Recv[L.seen]
		if d.T == "settings_ack" {
			L.acked++
			continue
		}
		limit, lowered := L.mfs, false
		if L.graceUntil >= 0 {
			if L.acked <= L.graceUntil {
				if L.graceMax > limit {
					limit = L.graceMax
				}
			} else {
				lowered = true
			}
		}
		if d.T != "data" {
			if d.MaxFrame > limit && (d.T == "headers" || d.T == "push") {
				add(L.dir+":I2:frame_exceeds_max_frame_size:"+d.T, "%s: %s frame of %d bytes exceeds the receiver's MAX_FRAME_SIZE %d", ctx, d.T, d.MaxFrame, limit)
			}
			continue
		}
		if d.MaxFrame > limit {
			q, rest := L.chunkRest(d.Stream, L.recvPay[d.Stream])
			avail := L.win[d.Stream]
			if L.winConn < avail {
				avail = L.winConn
			}
			if lowered && q > 2*limit {
				// the payload the frame is a piece of was accepted under a limit of more than twice the present one:
				// it needs three or more frames now (a class of its own: one cut is not enough here)
				add(L.dir+":I2:frame_exceeds_lowered_max_frame_size:data:queued_payload_over_twice_the_limit", "%s: DATA frame of %d bytes (a piece of a payload of %d bytes the relay had accepted and queued under the earlier, larger limit) arrived after the receiver had lowered MAX_FRAME_SIZE to %d and had seen that SETTINGS frame acknowledged", ctx, d.MaxFrame, q, limit)
			} else if lowered && avail < rest && avail > limit {
				// round 8: what the receiver had granted when the frame left was less than the queued payload but more
				// than the lowered limit (a class of its own: a relay that cuts a queued payload to fit a partial grant
				// must cut the piece against the limit as well; one that never cuts sends nothing here)
				add(L.dir+":I2:frame_exceeds_lowered_max_frame_size:data:partial_grant_above_the_limit", "%s: DATA frame of %d bytes arrived after the receiver had lowered MAX_FRAME_SIZE to %d and had seen that SETTINGS frame acknowledged; it is a piece of a payload the relay had accepted and queued under the earlier, larger limit (%d of its %d bytes were still queued) and left when the receiver's windows allowed %d bytes: less than the queued payload, more than one frame", ctx, d.MaxFrame, limit, rest, q, avail)
			} else if lowered {
				add(L.dir+":I2:frame_exceeds_lowered_max_frame_size:data", "%s: DATA frame of %d bytes arrived after the receiver had lowered MAX_FRAME_SIZE to %d and had seen that SETTINGS frame acknowledged", ctx, d.MaxFrame, limit)
			} else {
				add(L.dir+":I2:frame_exceeds_max_frame_size:data", "%s: DATA frame of %d bytes exceeds the receiver's MAX_FRAME_SIZE %d", ctx, d.MaxFrame, limit)
			}
		}
		// a stream the receiver or the sender has reset has no stream window any more; the connection window still counts
		if d.FlowLen > L.win[d.Stream] && !L.reset[d.Stream] {
			add(L.dir+":I1:stream_window_exceeded", "%s: DATA of %d flow-controlled bytes on stream %d but the receiver's stream window was %d", ctx, d.FlowLen, d.Stream, L.win[d.Stream])
		}
		if d.FlowLen > L.winConn {
			add(L.dir+":I1:connection_window_exceeded", "%s: DATA of %d flow-controlled bytes but the receiver's connection window was %d", ctx, d.FlowLen, L.winConn)
		}
		L.win[d.Stream] -= d.FlowLen
		L.winConn -= d.FlowLen
		L.recvPay[d.Stream] += len(d.Data)
		if d.EndStream {
			L.recvES[d.Stream] = true
		}
		L.recvBytes[d.Stream] = append(L.recvBytes[d.Stream], d.Data...)
	}
	for ; L.sentSeen < len(L.snd.Sent); L.sentSeen++ {
		if d := L.snd.Sent[L.sentSeen]; d.T == "data" {
			L.sentBytes[d.Stream] = append(L.sentBytes[d.Stream], d.Data...)
		}
	}
	// I3 credit returned to the sender
	cred := map[uint32]int{}
	any := false
	var first hw.Event
	for _, e := range L.snd.Recv {
		if e.T == "wu" {
			if !any {
				first = e
			}
			any = true
			cred[e.Stream] += int(e.Incr)
		}
	}
	if L.rev && L.sentFlowConn == 0 {
		// the forward receiver has sent no DATA: it is owed no credit at all
		if any {
			add(L.fwdDir+":I3:credit_sent_to_the_receiver", "%s: the receiver, which sent no DATA, was sent WINDOW_UPDATE(stream %d, +%d)", ctx, first.Stream, first.Incr)
		}
	} else {
		cls := ""
		if L.padSeen {
			cls = ":padded"
		}
		if cred[0] != L.sentFlowConn {
			if L.afterReset > 0 {
				// round 8: part of what the sender sent went onto a stream after its RST_STREAM (a class of its own)
				add(L.dir+":I3:connection_credit_mismatch:data_on_reset_stream"+cls, "%s: sender has sent %d flow-controlled bytes, %d of them on a stream after RST_STREAM had closed it (they count against the connection window all the same, RFC 7540 sections 5.1 and 6.9), but was returned %d bytes of connection credit", ctx, L.sentFlowConn, L.afterReset, cred[0])
			} else {
				add(L.dir+":I3:connection_credit_mismatch"+cls, "%s: sender has sent %d flow-controlled bytes but was returned %d bytes of connection credit", ctx, L.sentFlowConn, cred[0])
			}
		}
		for _, s := range L.streams {
			if L.reset[s] {
				// a closed stream needs no credit: whatever was sent on it before the reset must have been credited
				// (credit is returned on acceptance), what was sent afterwards may or may not be, never more
				if cred[s] < L.flowAtReset[s] || cred[s] > L.sentFlow[s] {
					add(L.dir+":I3:stream_credit_mismatch:reset_stream"+cls, "%s: sender has sent %d flow-controlled bytes on stream %d, %d of them before RST_STREAM closed it, but was returned %d bytes of stream credit", ctx, L.sentFlow[s], s, L.flowAtReset[s], cred[s])
				}
				continue
			}
			if cred[s] != L.sentFlow[s] {
				add(L.dir+":I3:stream_credit_mismatch"+cls, "%s: sender has sent %d flow-controlled bytes on stream %d but was returned %d bytes of stream credit", ctx, L.sentFlow[s], s, cred[s])
			}
		}
		for s, c := range cred {
			if s != 0 && !L.known(s) && c != 0 {
				add(L.dir+":I3:credit_for_unknown_stream", "%s: credit returned for stream %d which carried no DATA", ctx, s)
			}
		}
	}
	// I4 stranding (frame granularity: the relay's own chunks)
	for _, s := range L.streams {
		if L.reset[s] {
			// nothing is owed on a stream that was reset, and what still arrives on it is ignored by the receiver
			// (only its size and its weight on the connection window were judged above)
			continue
		}
		delivered := L.recvPay[s]
		all := true
		for _, c := range L.chunks[s] {
			if c.n > 0 {
				if delivered >= c.n {
					delivered -= c.n
					continue
				}
				all = false
				if delivered > 0 {
					// the relay cut a frame differently (it may cut a frame to fit a window, it need not): bytes are
					// judged, frames are not. What is left of the payload is owed once it fits both windows, whichever
					// way the relay cuts (round 8).
					if r := c.n - delivered; r <= L.win[s] && r <= L.winConn {
						add(L.dir+":I4:stranded_data:rest_of_a_cut_payload", "%s: the last %d bytes of a payload of %d bytes, the rest of which was delivered, are pending on stream %d with stream window %d and connection window %d but were not delivered", ctx, r, c.n, s, L.win[s], L.winConn)
					}
					break
				}
				if c.n <= L.win[s] && c.n <= L.winConn {
					add(L.dir+":I4:stranded_data", "%s: %d bytes are pending on stream %d with stream window %d and connection window %d but were not delivered", ctx, c.n, s, L.win[s], L.winConn)
				}
				break
			}
			// A DATA frame without data carries at most END_STREAM. Without the flag nothing is owed for it (a relay
			// may forward or drop it). With the flag it needs no credit: it is owed as soon as neither window is
			// in debt (with a negative window the relay may hold it or send it, RFC 7540 section 6.9.1).
			if !c.es || L.recvES[s] {
				continue
			}
			all = false
			if L.win[s] >= 0 && L.winConn >= 0 {
				add(L.dir+":I4:stranded_empty_frame", "%s: an empty DATA frame with END_STREAM is pending on stream %d with stream window %d and connection window %d but was not delivered", ctx, s, L.win[s], L.winConn)
			}
			break
		}
		if L.recvPay[s] > L.sentPay[s] {
			add(L.dir+":integrity:more_received_than_sent", "%s: stream %d received %d payload bytes, only %d were sent", ctx, s, L.recvPay[s], L.sentPay[s])
		} else if !bytes.HasPrefix(L.sentBytes[s], L.recvBytes[s]) {
			add(L.dir+":integrity:payload_changed", "%s: the %d payload bytes delivered on stream %d are not the first bytes the sender sent on it", ctx, L.recvPay[s], s)
		}
		if all && L.esSent[s] && !L.recvES[s] {
			add(L.dir+":integrity:end_stream_lost", "%s: everything sent on stream %d was delivered except the END_STREAM flag", ctx, s)
		}
		if L.recvES[s] && !(all && L.esSent[s]) {
			add(L.dir+":integrity:end_stream_early", "%s: END_STREAM arrived on stream %d before everything sent on it (END_STREAM sent: %v)", ctx, s, L.esSent[s])
		}
	}
}

func (L *ledger) key() string {
	return fmt.Sprintf("w1=%d w3=%d wc=%d p1=%d p3=%d mfs=%d", L.win[1], L.win[3], L.winConn, L.sentPay[1]-L.recvPay[1], L.sentPay[3]-L.recvPay[3], L.mfs)
}
