package main

import (
	"net/url"
	"strings"

	"github.com/google/martian/v3/h2"
	"golang.org/x/net/http2"
	"golang.org/x/net/http2/hpack"

	"verif/lib"
)

// Families added by the audit (see AUDIT.md). Every family is a base scenario (opening) plus all histories of a
// given depth over its own alphabet.

func genFrom(out *[]scenario, base scenario, alpha []ev, depth int) {
	lib.Sequences(len(alpha), depth, func(seq []int) {
		if len(seq) != depth {
			return // shorter histories are prefixes of the depth-d ones; every prefix state is evaluated
		}
		h := make([]ev, len(seq))
		for i, x := range seq {
			h[i] = alpha[x]
		}
		if !legalFor(h, base) {
			return
		}
		sc := base
		sc.Hist = h
		*out = append(*out, sc)
	})
}

func pick(quick bool, q, t int) int {
	if quick {
		return q
	}
	return t
}

func auditScenarios(tier string) []scenario {
	var out []scenario
	quick := tier == "quick"
	dirs := []string{"c2s", "s2c"}

	// A. duplex: DATA in both directions, each endpoint grants credit for what it receives. Both initial stream
	// windows are 0, so nothing moves without a grant, and a grant from one endpoint must only move the other
	// endpoint's data.
	duplexAlpha := []ev{
		{Who: "snd", T: "data", Stream: 1, N: 5},
		{Who: "snd", T: "data", Stream: 3, N: 5},
		{Who: "rcv", T: "data", Stream: 1, N: 5},
		{Who: "rcv", T: "data", Stream: 3, N: 1, Pad: 2},
		{Who: "rcv", T: "wu", Stream: 1, N: 5},
		{Who: "rcv", T: "wu", Stream: 3, N: 100000},
		{Who: "snd", T: "wu", Stream: 1, N: 5},
		{Who: "snd", T: "wu", Stream: 3, N: 3},
		{Who: "rcv", T: "iws", N: 4},
		{Who: "snd", T: "iws", N: 4},
	}
	for _, dir := range dirs {
		genFrom(&out, scenario{Dir: dir, RootIWS: 0, Fam: "duplex", Duplex: true, RevRootIWS: 0}, duplexAlpha, pick(quick, 3, 4))
	}
	// the same with the forward connection window nearly used up: connection-level grants of one direction must
	// not reach the other direction's connection window
	duplexConnAlpha := []ev{
		{Who: "snd", T: "data", Stream: 1, N: 5},
		{Who: "rcv", T: "data", Stream: 1, N: 5},
		{Who: "rcv", T: "data", Stream: 3, N: 9},
		{Who: "rcv", T: "wu", Stream: 0, N: 5},
		{Who: "rcv", T: "wu", Stream: 0, N: 1},
		{Who: "snd", T: "wu", Stream: 0, N: 5},
		{Who: "snd", T: "wu", Stream: 1, N: 5},
	}
	for _, dir := range dirs {
		for _, used := range []int{65531, 65535} {
			if quick && (dir == "c2s") != (used == 65531) {
				continue
			}
			genFrom(&out, scenario{Dir: dir, RootIWS: -1, Duplex: true, RevRootIWS: -1, ConnUsed: used, Fam: "duplex_conn"}, duplexConnAlpha, pick(quick, 3, 4))
		}
	}

	// B. MAX_FRAME_SIZE lowered while DATA cut at the old size is still queued, and the lowering acknowledged: the
	// receiver starts with MAX_FRAME_SIZE 32768 and initial window 0, the opening SETTINGS are acknowledged.
	lowerAlpha := []ev{
		{Who: "snd", T: "data", Stream: 1, N: 40000},
		{Who: "snd", T: "data", Stream: 3, N: 16385},
		{Who: "rcv", T: "mfs", N: 16384},
		{Who: "snd", T: "ack"},
		{Who: "rcv", T: "wu", Stream: 1, N: 100000},
		{Who: "rcv", T: "wu", Stream: 3, N: 100000},
	}
	if !quick {
		lowerAlpha = append(lowerAlpha, ev{Who: "rcv", T: "mfs", N: 20000}, ev{Who: "rcv", T: "mfs", N: 32768})
	}
	for _, dir := range dirs {
		genFrom(&out, scenario{Dir: dir, RootIWS: 0, RevRootIWS: -1, RootMFS: 32768, AckRoot: true, Fam: "mfs_lowered_acked"}, lowerAlpha, pick(quick, 4, 5))
	}

	// C. END_STREAM on DATA frames with and without payload, and DATA frames without data (bare END_STREAM,
	// keep-alive frames), around windows of zero, below zero and being replenished
	zeroAlpha := []ev{
		{Who: "snd", T: "data", Stream: 1, N: 0},
		{Who: "snd", T: "data", Stream: 1, N: 0, ES: true},
		{Who: "snd", T: "data", Stream: 3, N: 0, ES: true},
		{Who: "snd", T: "data", Stream: 3, N: 5, ES: true},
		{Who: "snd", T: "data", Stream: 1, N: 2, Pad: 2, ES: true},
		{Who: "snd", T: "data", Stream: 1, N: 5},
		{Who: "rcv", T: "wu", Stream: 1, N: 1},
		{Who: "rcv", T: "wu", Stream: 1, N: 5},
		{Who: "rcv", T: "iws", N: 0},
		{Who: "rcv", T: "iws", N: 9},
	}
	for _, dir := range dirs {
		genFrom(&out, scenario{Dir: dir, RootIWS: 0, RevRootIWS: -1, Fam: "end_stream"}, zeroAlpha, pick(quick, 3, 4))
		genFrom(&out, scenario{Dir: dir, RootIWS: 4, RevRootIWS: -1, Fam: "end_stream"}, zeroAlpha, pick(quick, 3, 5))
	}
	// the connection window at zero: a bare END_STREAM needs no connection credit either
	for _, dir := range dirs {
		genFrom(&out, scenario{Dir: dir, RootIWS: -1, RevRootIWS: -1, ConnUsed: 65535, Fam: "end_stream_conn"}, []ev{
			{Who: "snd", T: "data", Stream: 1, N: 0, ES: true},
			{Who: "snd", T: "data", Stream: 3, N: 0},
			{Who: "snd", T: "data", Stream: 3, N: 1},
			{Who: "rcv", T: "wu", Stream: 0, N: 1},
		}, pick(quick, 3, 4))
	}

	// D. the largest legal values: INITIAL_WINDOW_SIZE 2^31-1, increments that take a window to 2^31-1 exactly
	limitAlpha := []ev{
		{Who: "rcv", T: "iws", N: 1<<31 - 1},
		{Who: "rcv", T: "iws", N: 0},
		{Who: "rcv", T: "wu", Stream: 1, N: 1<<31 - 1},
		{Who: "rcv", T: "wu", Stream: 0, N: 1<<31 - 1 - 65535},
		{Who: "rcv", T: "wu", Stream: 3, N: 1},
		{Who: "snd", T: "data", Stream: 1, N: 5},
		{Who: "snd", T: "data", Stream: 3, N: 40000},
	}
	for _, dir := range dirs {
		genFrom(&out, scenario{Dir: dir, RootIWS: 0, RevRootIWS: -1, Fam: "limits"}, limitAlpha, pick(quick, 3, 4))
	}

	// E. MAX_FRAME_SIZE of both endpoints with payloads above a frame in both directions: each endpoint's limit
	// binds the frames sent to it and nothing else
	mfsDuplexAlpha := []ev{
		{Who: "snd", T: "mfs", N: 32768},
		{Who: "rcv", T: "mfs", N: 32768},
		{Who: "rcv", T: "mfs", N: 16384},
		{Who: "snd", T: "data", Stream: 1, N: 40000},
		{Who: "rcv", T: "data", Stream: 1, N: 40000},
		{Who: "rcv", T: "data", Stream: 3, N: 16385},
	}
	if !quick {
		mfsDuplexAlpha = append(mfsDuplexAlpha, ev{Who: "snd", T: "mfs", N: 16384}, ev{Who: "snd", T: "data", Stream: 3, N: 32769})
	}
	for _, dir := range dirs {
		genFrom(&out, scenario{Dir: dir, RootIWS: -1, Duplex: true, RevRootIWS: -1, Fam: "mfs_duplex"}, mfsDuplexAlpha, pick(quick, 3, 4))
	}

	// F. padding at its limits (pad length octet only; 255 bytes of padding; a padded frame that fills 16384 bytes)
	padAlpha := []ev{
		{Who: "snd", T: "data", Stream: 1, N: 1, Pad: 1},
		{Who: "snd", T: "data", Stream: 1, N: 0, Pad: 256},
		{Who: "snd", T: "data", Stream: 3, N: 16128, Pad: 256},
		{Who: "snd", T: "data", Stream: 3, N: 0, Pad: 1, ES: true},
		{Who: "rcv", T: "wu", Stream: 1, N: 1},
		{Who: "rcv", T: "wu", Stream: 3, N: 16128},
	}
	for _, dir := range dirs {
		genFrom(&out, scenario{Dir: dir, RootIWS: 0, RevRootIWS: -1, Fam: "pad_limits"}, padAlpha, pick(quick, 3, 4))
	}

	// G. stream processor factories in h2.Config (all forwarding unchanged), duplex traffic
	procAlpha := []ev{
		{Who: "snd", T: "data", Stream: 1, N: 5},
		{Who: "snd", T: "data", Stream: 3, N: 5, Pad: 3},
		{Who: "rcv", T: "data", Stream: 1, N: 5},
		{Who: "rcv", T: "wu", Stream: 1, N: 5},
		{Who: "snd", T: "wu", Stream: 1, N: 5},
		{Who: "rcv", T: "iws", N: 4},
	}
	for _, dir := range dirs {
		for _, proc := range []string{"identity", "nil", "c2s-only,identity", "identity,s2c-only"} {
			if quick && (proc == "nil") != (dir == "s2c") && proc != "identity" {
				continue
			}
			genFrom(&out, scenario{Dir: dir, RootIWS: 0, Duplex: true, RevRootIWS: 0, Proc: proc, Fam: "processors"}, procAlpha, pick(quick, 3, 4))
		}
	}

	// H. grants sent by a receiver that is not reading, after a burst that filled the relay's internal queue
	for _, dir := range dirs {
		for _, n := range []int{16, 17, 40} {
			for _, st := range [][]ev{
				{{Who: "rcv", T: "wu", Stream: 1, N: 20}},
				{{Who: "rcv", T: "wu", Stream: 1, N: 5}, {Who: "rcv", T: "wu", Stream: 1, N: 15}},
				{{Who: "rcv", T: "iws", N: 40}},
				{{Who: "rcv", T: "iws", N: 0}, {Who: "rcv", T: "iws", N: 41}},
			} {
				out = append(out, scenario{Dir: dir, RootIWS: 20, RevRootIWS: -1, Burst: n, Stall: st, Fam: "stalled_grants"})
			}
			// the stream window is exactly the burst: whatever the stalled receiver grants elsewhere (connection,
			// another stream, one more byte), not a byte beyond it may arrive on the stream
			for _, st := range [][]ev{
				{{Who: "rcv", T: "wu", Stream: 0, N: 1}},
				{{Who: "rcv", T: "wu", Stream: 3, N: 1}},
				{{Who: "rcv", T: "wu", Stream: 1, N: 1}},
				{{Who: "rcv", T: "iws", N: n + 1}},
				{{Who: "rcv", T: "wu", Stream: 0, N: 1}, {Who: "rcv", T: "wu", Stream: 0, N: 1}},
			} {
				out = append(out, scenario{Dir: dir, RootIWS: n, RevRootIWS: -1, Burst: n, Stall: st, Fam: "stalled_grants"})
			}
		}
	}

	// I. concurrent duplex scripts: each endpoint sends DATA and grants credit for the other's, in parallel
	b := pick(quick, 1, 2)
	sndScripts := [][]ev{
		{{Who: "snd", T: "data", Stream: 1, N: 5}, {Who: "snd", T: "wu", Stream: 1, N: 5}},
		{{Who: "snd", T: "wu", Stream: 1, N: 3}, {Who: "snd", T: "data", Stream: 1, N: 2, Pad: 2}, {Who: "snd", T: "iws", N: 4}},
	}
	rcvScripts := [][]ev{
		{{Who: "rcv", T: "data", Stream: 1, N: 5}, {Who: "rcv", T: "wu", Stream: 1, N: 5}},
		{{Who: "rcv", T: "wu", Stream: 1, N: 4}, {Who: "rcv", T: "data", Stream: 1, N: 3}, {Who: "rcv", T: "data", Stream: 3, N: 4}},
	}
	for _, dir := range dirs {
		for _, s := range sndScripts {
			for _, r := range rcvScripts {
				out = append(out, scenario{Dir: dir, RootIWS: 0, Duplex: true, RevRootIWS: 0, Conc: true, SndScript: s, RcvScript: r, Bound: b, Fam: "duplex_concurrent"})
			}
		}
	}
	// J. round 7: queued payloads of k x the lowered MAX_FRAME_SIZE (round7.go)
	out = append(out, resplitScenarios(tier)...)
	return append(out, round8Scenarios(tier)...)
}

// passProc forwards every call to the next processor of the chain.
type passProc struct{ sink h2.Processor }

func (p passProc) Data(d []byte, es bool) error { return p.sink.Data(d, es) }
func (p passProc) Header(h []hpack.HeaderField, es bool, prio http2.PriorityParam) error {
	return p.sink.Header(h, es, prio)
}
func (p passProc) Priority(prio http2.PriorityParam) error { return p.sink.Priority(prio) }
func (p passProc) RSTStream(c http2.ErrCode) error         { return p.sink.RSTStream(c) }
func (p passProc) PushPromise(id uint32, h []hpack.HeaderField) error {
	return p.sink.PushPromise(id, h)
}

func factories(list string) []h2.StreamProcessorFactory {
	if list == "" {
		return nil
	}
	var out []h2.StreamProcessorFactory
	for _, kind := range strings.Split(list, ",") {
		kind := kind
		out = append(out, func(_ *url.URL, sinks *h2.Processors) (h2.Processor, h2.Processor) {
			var c, s h2.Processor
			if kind == "identity" || kind == "c2s-only" {
				c = passProc{sinks.ForDirection(h2.ClientToServer)}
			}
			if kind == "identity" || kind == "s2c-only" {
				s = passProc{sinks.ForDirection(h2.ServerToClient)}
			}
			return c, s
		})
	}
	return out
}
