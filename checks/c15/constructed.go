package main

// Constructed family. Every other family parses its messages from wire bytes, so Body is never nil. A logger
// also sees messages that were never on a wire: a request built with http.NewRequest(method, url, nil) (Body
// == nil) or with http.NoBody, and a response a modifier built by hand (skip round trip, static answers) with
// a nil or NoBody body. Such a message is forwarded by net/http without ever touching the body - provided the
// logger left Body exactly as it was: nil stays nil, http.NoBody stays http.NoBody. Anything else (a wrapper
// around nil, a typed nil pointer in the interface) is a difference, and net/http will call Read / Close on it
// - for GET-like requests on a goroutine of its own, where a panic cannot be recovered.
//
// Cases: 10 requests {GET, HEAD, DELETE, POST, PUT} x Body {nil, http.NoBody} and 10 responses {200 with
// ContentLength 0, 200 with ContentLength -1, 204, 304, 404} x Body {nil, http.NoBody} x every logger variant
// x forwarding mode {Request.Write / Response.Write, and for requests a round trip through a real
// http.Transport against an in-memory origin that records the bytes it receives}. Reference model: identity -
// Body after the logger is identical (==) to Body before, no logger error, the forwarded bytes (and for round
// trips the origin's view and the answer) equal those of the unlogged twin.
//
// The cases run in a worker subprocess that announces every case before it starts it: a crash or hang of the
// worker is attributed to the case that was running, and the worker is restarted behind it.

import (
	"bufio"
	"bytes"
	"context"
	"encoding/json"
	"fmt"
	"io"
	"net"
	"net/http"
	"os"
	"os/exec"
	"strconv"
	"strings"
	"time"

	"github.com/google/martian/v3"

	"verif/checks/msggen"
	"verif/lib"
)

type constructedCase struct {
	Msg     string `json:"msg"`
	Variant string `json:"variant"`
	Mode    string `json:"mode"` // "Write" | "Transport"
}

type constructedMsg struct {
	Name   string
	Kind   string // request | response
	Method string
	Status int
	CL     int64
	NoBody bool // Body = http.NoBody (else nil)
}

func constructedMsgs() []constructedMsg {
	var out []constructedMsg
	for _, nb := range []bool{false, true} {
		b := map[bool]string{false: "Body=nil", true: "Body=NoBody"}[nb]
		for _, m := range []string{"GET", "HEAD", "DELETE", "POST", "PUT"} {
			out = append(out, constructedMsg{Name: "request " + m + " " + b, Kind: "request", Method: m, NoBody: nb})
		}
		for _, r := range []struct {
			status int
			cl     int64
		}{{200, 0}, {200, -1}, {204, 0}, {304, 0}, {404, 0}} {
			out = append(out, constructedMsg{Name: fmt.Sprintf("response %d ContentLength=%d %s", r.status, r.cl, b), Kind: "response", Status: r.status, CL: r.cl, NoBody: nb})
		}
	}
	return out
}

func (c constructedMsg) build() (*http.Request, *http.Response) {
	method := c.Method
	if method == "" {
		method = "GET"
	}
	var body io.Reader
	if c.NoBody && c.Kind == "request" {
		body = http.NoBody
	}
	req, err := http.NewRequest(method, "http://example.com/p/a?x=1", body)
	if err != nil {
		panic(err)
	}
	req.Header.Set("User-Agent", "msggen/1")
	req.Header.Add("Cookie", "a=1")
	req.Header.Add("X-Multi", "zeta")
	req.Header.Add("X-Multi", "alpha")
	if c.Kind == "request" {
		return req, nil
	}
	res := &http.Response{
		Status: strconv.Itoa(c.Status) + " " + http.StatusText(c.Status), StatusCode: c.Status,
		Proto: "HTTP/1.1", ProtoMajor: 1, ProtoMinor: 1,
		Header:        http.Header{"Content-Type": {"text/plain"}, "Set-Cookie": {"sid=abc"}, "X-Multi": {"zeta", "alpha"}},
		ContentLength: c.CL,
		Request:       req,
	}
	if c.NoBody {
		res.Body = http.NoBody
	}
	return req, res
}

func constructedCases() []constructedCase {
	var out []constructedCase
	for _, m := range constructedMsgs() {
		for _, v := range append([]variant{{Family: "none", Name: "(no logger)"}}, variants...) {
			out = append(out, constructedCase{m.Name, v.Name, "Write"})
			if m.Kind == "request" {
				out = append(out, constructedCase{m.Name, v.Name, "Transport"})
			}
		}
	}
	return out
}

// memOrigin is an http.Transport whose connections end in an in-memory origin that records what it receives.
type memOrigin struct {
	received bytes.Buffer
	done     chan struct{}
}

func (o *memOrigin) dial(ctx context.Context, network, addr string) (net.Conn, error) {
	c, s := net.Pipe()
	go func() {
		defer close(o.done)
		defer s.Close()
		s.SetDeadline(time.Now().Add(5 * time.Second))
		br := bufio.NewReader(io.TeeReader(s, &o.received))
		req, err := http.ReadRequest(br)
		if err != nil {
			return
		}
		io.Copy(io.Discard, req.Body)
		io.WriteString(s, "HTTP/1.1 200 OK\r\nContent-Length: 2\r\nConnection: close\r\n\r\nok")
	}()
	return c, nil
}

// forwardConstructed forwards the message and returns a canonical description of what went out.
func forwardConstructed(mode string, req *http.Request, res *http.Response) (out string) {
	defer func() {
		if r := recover(); r != nil {
			out = "panic: " + fmt.Sprint(r)
		}
	}()
	var b bytes.Buffer
	switch {
	case res != nil:
		err := res.Write(&b)
		return fmt.Sprintf("err=%v wire=%q", err, b.String())
	case mode == "Write":
		err := req.Write(&b)
		return fmt.Sprintf("err=%v wire=%q", err, b.String())
	}
	o := &memOrigin{done: make(chan struct{})}
	tr := &http.Transport{DialContext: o.dial, DisableKeepAlives: true, DisableCompression: true}
	defer tr.CloseIdleConnections()
	ctx, cancel := context.WithTimeout(req.Context(), 5*time.Second)
	defer cancel()
	ans, err := tr.RoundTrip(req.WithContext(ctx))
	status, body := 0, ""
	if ans != nil {
		status = ans.StatusCode
		data, _ := io.ReadAll(ans.Body)
		ans.Body.Close()
		body = string(data)
	}
	select {
	case <-o.done:
	case <-time.After(5 * time.Second):
	}
	return fmt.Sprintf("err=%v status=%d body=%q origin received %q", err, status, body, o.received.String())
}

func bodyState(b io.ReadCloser) string {
	switch {
	case b == nil:
		return "nil"
	case b == http.NoBody:
		return "http.NoBody"
	}
	return fmt.Sprintf("a %T", b)
}

type constructedResult struct {
	Index      int    `json:"i"`
	Sig        string `json:"sig,omitempty"`
	Desc       string `json:"desc,omitempty"`
	Sig2       string `json:"sig2,omitempty"`
	Desc2      string `json:"desc2,omitempty"`
	Calls      int    `json:"calls"`
	BodyIntact bool   `json:"body_intact"`
}

// runConstructedChild is the worker: it runs the cases from index VERIF_C15_CONSTRUCTED_FROM on.
func runConstructedChild() {
	from, _ := strconv.Atoi(os.Getenv("VERIF_C15_CONSTRUCTED_FROM"))
	upto, err := strconv.Atoi(os.Getenv("VERIF_C15_CONSTRUCTED_UPTO"))
	cases := constructedCases()
	if err != nil || upto > len(cases) {
		upto = len(cases)
	}
	msgs := map[string]constructedMsg{}
	for _, m := range constructedMsgs() {
		msgs[m.Name] = m
	}
	byName := map[string]variant{}
	for _, v := range variants {
		byName[v.Name] = v
	}
	w := newWorker()
	out := bufio.NewWriter(os.Stdout)
	twins := map[string]string{}
	dummy := msggen.Build(msggen.Spec{Space: "constructed", Kind: "request", Method: "GET", Version: "1.1", Framing: "none", Enc: "none", CT: "none"})
	for i := from; i < upto; i++ {
		c := cases[i]
		fmt.Fprintf(out, "START %d\n", i)
		out.Flush()
		cm := msgs[c.Msg]
		r := constructedResult{Index: i, BodyIntact: true}
		req, res := cm.build()
		ctx, remove, err := martian.TestContext(req, nil, nil)
		if err != nil {
			panic(err)
		}
		if c.Variant != "(no logger)" {
			v := byName[c.Variant]
			a := w.apply(v, dummy, req, res, ctx)
			r.Calls = a.calls
			cls := fmt.Sprintf("constructed:%s:%s", v.Family, cm.Kind)
			switch {
			case a.panicked != "":
				r.Sig, r.Desc = cls+":panic", "the logger panicked: "+a.panicked
			case a.err != nil:
				r.Sig, r.Desc = cls+":logger_error", fmt.Sprintf("the logger returned error %q", a.err)
			}
			if a.recorded != nil && a.panicked == "" {
				a.recorded()
			}
			body, want := req.Body, "nil"
			if res != nil {
				body = res.Body
			}
			if cm.NoBody {
				want = "http.NoBody"
			}
			if got := bodyState(body); got != want && r.Sig == "" {
				r.BodyIntact = false
				r.Sig, r.Desc = cls+":body_replaced("+want+")", fmt.Sprintf("Body was %s before the logger and is %s after it (net/http will call Read and Close on it)", want, got)
			}
		}
		got := forwardConstructed(c.Mode, req, res)
		remove()
		key := c.Msg + "|" + c.Mode
		if c.Variant == "(no logger)" {
			twins[key] = got
			if strings.HasPrefix(got, "panic") || strings.HasPrefix(got, "err=") && !strings.HasPrefix(got, "err=<nil>") {
				r.Sig, r.Desc = "harness:constructed_twin_fails", got
			}
		} else {
			twin, ok := twins[key]
			if !ok {
				// the twin ran in an earlier incarnation of the worker: recompute
				treq, tres := cm.build()
				_, tremove, _ := martian.TestContext(treq, nil, nil)
				twin = forwardConstructed(c.Mode, treq, tres)
				tremove()
				twins[key] = twin
			}
			if got != twin {
				sym := "forwarded_differs"
				if strings.HasPrefix(got, "panic") {
					sym = "panic_while_forwarding"
				}
				sig := fmt.Sprintf("constructed:%s:%s:%s", byName[c.Variant].Family, cm.Kind, sym)
				desc := fmt.Sprintf("forwarded via %s: %s; unlogged twin: %s", c.Mode, clip(got), clip(twin))
				if r.Sig == "" {
					r.Sig, r.Desc = sig, desc
				} else {
					r.Sig2, r.Desc2 = sig, desc
				}
			}
		}
		b, _ := json.Marshal(r)
		fmt.Fprintf(out, "DONE %s\n", b)
		out.Flush()
	}
}

// runConstructedFamily drives the worker subprocess and attributes crashes.
func runConstructedFamily(rep *lib.Report, only *replayCase) map[string]int64 {
	cases := constructedCases()
	from, upto := 0, len(cases)
	if only != nil {
		from, upto = -1, -1
		for i, c := range cases {
			if c == *only.Constructed {
				// run the twin of the case first (same message and mode, no logger), then the case
				from, upto = i, i+1
			}
		}
		if from < 0 {
			fmt.Fprintln(os.Stderr, "constructed case of the replay not found")
			return nil
		}
	}
	famOf := func(c constructedCase) string {
		for _, v := range variants {
			if v.Name == c.Variant {
				return v.Family
			}
		}
		return "none"
	}
	kindOf := func(c constructedCase) string { return strings.SplitN(c.Msg, " ", 2)[0] }
	var ran, crashes, transitions, intact int64
	next := from
	for spawns := 0; next < upto; spawns++ {
		if spawns > 400 {
			rep.Incomplete = "constructed family: more than 400 worker restarts"
			break
		}
		cmd := exec.Command(os.Args[0], os.Args[1:]...)
		cmd.Env = append(os.Environ(), "VERIF_C15_CHILD=constructed", "VERIF_C15_CONSTRUCTED_FROM="+strconv.Itoa(next), "VERIF_C15_CONSTRUCTED_UPTO="+strconv.Itoa(upto))
		var stderr bytes.Buffer
		cmd.Stderr = &stderr
		stdout, err := cmd.StdoutPipe()
		if err != nil {
			panic(err)
		}
		if err := cmd.Start(); err != nil {
			panic(err)
		}
		timer := time.AfterFunc(120*time.Second, func() { cmd.Process.Kill() })
		started, finished := -1, -1
		sc := bufio.NewScanner(stdout)
		sc.Buffer(make([]byte, 1<<20), 1<<24)
		for sc.Scan() {
			line := sc.Text()
			switch {
			case strings.HasPrefix(line, "START "):
				started, _ = strconv.Atoi(line[6:])
			case strings.HasPrefix(line, "DONE "):
				var r constructedResult
				if json.Unmarshal([]byte(line[5:]), &r) != nil {
					continue
				}
				finished = r.Index
				ran++
				transitions += int64(r.Calls) + 1
				if r.BodyIntact {
					intact++
				}
				c := cases[r.Index]
				rc := replayCase{Part: "constructed", Constructed: &c}
				if r.Sig != "" {
					rep.Violate(r.Sig, fmt.Sprintf("%s with %s: %s", c.Msg, c.Variant, r.Desc), rc)
				}
				if r.Sig2 != "" {
					rep.Violate(r.Sig2, fmt.Sprintf("%s with %s: %s", c.Msg, c.Variant, r.Desc2), rc)
				}
			}
		}
		werr := cmd.Wait()
		timer.Stop()
		if started > finished {
			// the worker died (or was killed after hanging) inside case `started`
			c := cases[started]
			crashes++
			ran++
			sym := "worker_crashed_while_forwarding"
			if werr != nil && strings.Contains(werr.Error(), "killed") {
				sym = "worker_hung"
			}
			trace := stderr.String()
			if i := strings.Index(trace, "panic:"); i >= 0 {
				trace = trace[i:]
			}
			if i := strings.Index(trace, "\ngoroutine "); i > 0 {
				if j := strings.Index(trace[i+1:], "\n\n"); j > 0 {
					trace = trace[:i+1+j]
				}
			}
			rep.Violate(fmt.Sprintf("constructed:%s:%s:%s", famOf(c), kindOf(c), sym),
				fmt.Sprintf("%s with %s, forwarded via %s: the worker process died (%v) - a panic on a goroutine of net/http cannot be recovered: %s", c.Msg, c.Variant, c.Mode, werr, clip(trace)),
				replayCase{Part: "constructed", Constructed: &c})
			next = started + 1
			continue
		}
		if finished < 0 || finished+1 <= next && werr != nil {
			rep.Violate("harness:constructed_worker_failed", fmt.Sprintf("worker started at %d produced nothing: %v %s", next, werr, clip(stderr.String())), nil)
			break
		}
		next = finished + 1
	}
	return map[string]int64{
		"constructed_cases":          ran,
		"constructed_messages":       int64(len(constructedMsgs())),
		"constructed_worker_crashes": crashes,
		"constructed_transitions":    transitions,
		"constructed_body_intact":    intact,
	}
}
