package main

// Stack family: several loggers attached to the same message. The statement quantifies over "attaching any of
// the loggers"; a real proxy attaches several at once (cmd/proxy: HAR + marbl + text logger), and the second
// logger does not see net/http's body but whatever the first one left behind (an in-memory copy, a marbl
// wrapper, a preserved http.NoBody). Every ordered pair (thorough: also every ordered triple over one
// representative per logger family) of logger variants - the same variant twice included - is applied to
// every message of a sub-space (both kinds x sizes x every framing x identity / gzip / corrupt gzip x text and
// multipart bodies, bodiless and HEAD messages) and the message is then serialised in two modes. Reference
// model: identity (equal to the unlogged twin, no logger error), and every logger of the stack recorded the
// exchange.
//
// Large reads. A pass-through wrapper (marbl's bodyLogger) sees reads as large as the consumer's buffer only
// when an in-memory body lies under it and a large-buffer consumer above it: net/http's own copy loops read at
// most 32 KiB at a time, but a snapshot's ReadAll grows its buffer with the body, and a modifier may read with
// any buffer. The sub-space "big" therefore runs bodies of 65537, 131072 and 1 MiB bytes (one chunk, so that
// chunk boundaries do not cap the reads) through {snapshotting logger -> marbl -> snapshotting logger},
// {snapshotting logger -> marbl}, {in-memory body -> marbl} and {marbl alone}, serialised with Write and with
// direct reads through buffers of 65537 bytes and 1 MiB.

import (
	"bytes"
	"fmt"
	"io"
	"net/http"
	"strings"
	"sync/atomic"

	"verif/checks/msggen"
	"verif/lib"
)

type stackCase struct {
	Spec     msggen.Spec `json:"spec"`
	Variants []string    `json:"variants"`
	Mode     string      `json:"mode"`
}

func stackSpecs(tier string) []msggen.Spec {
	sizes := []int{0, 1, 4096}
	encs := []string{"none", "gzip", "gzip-baddata"}
	if tier == "thorough" {
		sizes = []int{0, 1, 513, 4096, 65537}
		encs = []string{"none", "gzip", "gzip-baddata", "deflate-zlib", "br"}
	}
	var out []msggen.Spec
	seen := map[string]bool{}
	add := func(s msggen.Spec) {
		if k := fmt.Sprintf("%+v", s); !seen[k] {
			seen[k] = true
			out = append(out, s)
		}
	}
	type fr struct {
		framing, chunking string
		trailers          int
	}
	for _, kind := range []string{"request", "response"} {
		frs := []fr{{"cl", "", 0}, {"chunked", "first1", 0}, {"chunked", "whole", 1}}
		if kind == "response" {
			frs = append(frs, fr{"close", "", 0})
		}
		for _, size := range sizes {
			for _, f := range frs {
				for _, enc := range encs {
					for _, ct := range []string{"text", "multipart:M2"} {
						s := msggen.Spec{Space: "stack", Kind: kind, Version: "1.1", Size: size, Framing: f.framing, Chunking: f.chunking, Trailers: f.trailers, Enc: enc, CT: ct}
						if kind == "request" {
							s.Method, s.Query = "POST", 1
						} else {
							s.Status = 200
						}
						if size == 0 && f.framing == "chunked" {
							s.Chunking = "whole"
						}
						add(s)
					}
				}
			}
		}
	}
	add(msggen.Spec{Space: "stack", Kind: "request", Method: "GET", Version: "1.1", Framing: "none", Enc: "none", CT: "none"})
	add(msggen.Spec{Space: "stack", Kind: "response", Status: 204, Version: "1.1", Framing: "none", Enc: "none", CT: "none"})
	add(msggen.Spec{Space: "stack", Kind: "response", Status: 304, Version: "1.1", Size: 300, Framing: "cl", Enc: "gzip", CT: "text"})
	add(msggen.Spec{Space: "stack", Kind: "response", Status: 200, Version: "1.1", Size: 300, Framing: "cl", Enc: "none", CT: "text", ForMethod: "HEAD"})
	add(msggen.Spec{Space: "stack", Kind: "response", Status: 200, Version: "1.1", Size: 300, Framing: "chunked", Chunking: "whole", Enc: "gzip", CT: "text", ForMethod: "HEAD"})
	return out
}

// inMemory is the pseudo logger that replaces the body by an in-memory copy (what any buffering modifier
// upstream of the loggers leaves behind).
const inMemory = "(in-memory body)"

func bigStackSpecs(tier string) []msggen.Spec {
	var out []msggen.Spec
	for _, size := range []int{65537, 131072, 1 << 20} {
		for _, kind := range []string{"request", "response"} {
			framings := []string{"cl", "chunked"}
			if kind == "response" {
				framings = append(framings, "close")
			}
			for _, f := range framings {
				s := msggen.Spec{Space: "stack", Kind: kind, Version: "1.1", Size: size, Framing: f, Enc: "none", CT: "binary"}
				if f == "chunked" {
					s.Chunking = "whole"
				}
				if kind == "request" {
					s.Method, s.Query = "POST", 1
				} else {
					s.Status = 200
				}
				out = append(out, s)
			}
		}
	}
	return out
}

func bigStacks() [][]string {
	snaps := []string{"har(all)", "martianlog(body)", "messageview(body)"}
	snaps2 := []string{"har(all)", "martianlog(body,decode)", "messageview(body)"}
	var out [][]string
	for _, mb := range []string{"marbl(stream)", "marbl(modifier)"} {
		out = append(out, []string{mb}, []string{inMemory, mb})
		for _, a := range snaps {
			out = append(out, []string{a, mb})
			for _, b := range snaps2 {
				out = append(out, []string{a, mb, b})
			}
		}
	}
	return out
}

var bigModes = []readMode{readModes[0], {"Body.Read(buf=65537)", "direct", 65537}, {"Body.Read(buf=1048576)", "direct", 1 << 20}}

func runStackFamily(rep *lib.Report, tier string, workerCh chan *worker, only *replayCase) map[string]int64 {
	specs := stackSpecs(tier)
	modes := []readMode{readModes[0], readModes[5]}
	byName := map[string]variant{}
	for _, v := range variants {
		byName[v.Name] = v
	}
	var stacks [][]string
	for _, a := range variants {
		for _, b := range variants {
			stacks = append(stacks, []string{a.Name, b.Name})
		}
	}
	if tier == "thorough" {
		reps := []string{"har(all)", "marbl(stream)", "marbl(modifier)", "martianlog(body,decode)", "martianlog(headersOnly)", "messageview(body)"}
		for _, a := range reps {
			for _, b := range reps {
				for _, c := range reps {
					stacks = append(stacks, []string{a, b, c})
				}
			}
		}
	}
	type job struct {
		spec   msggen.Spec
		stacks [][]string
		modes  []readMode
	}
	var jobs []job
	for _, s := range specs {
		jobs = append(jobs, job{s, stacks, modes})
	}
	bigSpecs, bigSt := bigStackSpecs(tier), bigStacks()
	for _, s := range bigSpecs {
		jobs = append(jobs, job{s, bigSt, bigModes})
	}
	if only != nil {
		jobs = []job{{only.Stack.Spec, [][]string{only.Stack.Variants}, append(append([]readMode{}, modes...), bigModes[1:]...)}}
	}
	var cases, bigCases, transitions int64
	type pv struct {
		sig, desc string
		rc        replayCase
	}
	pending := make([][]pv, len(jobs))
	lib.Parallel(len(jobs), func(i int) {
		spec, stacks, modes := jobs[i].spec, jobs[i].stacks, jobs[i].modes
		m := msggen.Build(spec)
		isReq := spec.Kind == "request"
		var w *worker
		select {
		case w = <-workerCh:
		default:
			w = newWorker()
		}
		defer func() { workerCh <- w }()
		twins := map[string]output{}
		for _, mode := range modes {
			req, res := parseFor(m, nil)
			twins[mode.Name] = serialise(sized(mode, m), firstReq(isReq, req), res)
		}
		for _, st := range stacks {
			for _, mode := range modes {
				if only != nil && only.Stack.Mode != mode.Name {
					continue
				}
				sc := stackCase{spec, st, mode.Name}
				rc := replayCase{Part: "stack", Stack: &sc}
				violate := func(sig, desc string) {
					pending[i] = append(pending[i], pv{sig, fmt.Sprintf("%s with the loggers %v attached in this order, serialised via %s: %s", spec, st, mode.Name, desc), rc})
				}
				req, res := parseFor(m, nil)
				ctx, remove, err := martianTestContext(req)
				if err != nil {
					panic(err)
				}
				atomic.AddInt64(&cases, 1)
				if len(m.Encoded) > 65536 {
					atomic.AddInt64(&bigCases, 1)
				}
				fams := make([]string, len(st))
				results := make([]applied, len(st))
				bad := false
				for k, name := range st {
					if name == inMemory {
						fams[k] = "inmemory"
						body := &req.Body
						if !isReq {
							body = &res.Body
						}
						if *body != nil && *body != http.NoBody {
							data, _ := io.ReadAll(*body)
							(*body).Close()
							*body = io.NopCloser(bytes.NewReader(data))
						}
						continue
					}
					v := byName[name]
					fams[k] = v.Family
					a := w.apply(v, m, req, secondRes(isReq, res), ctx)
					results[k] = a
					atomic.AddInt64(&transitions, int64(a.calls))
					cls := fmt.Sprintf("stack:%s:%s", strings.Join(fams[:k+1], "+"), spec.Kind)
					if a.panicked != "" {
						violate(cls+":"+framingTag(m)+":panic", fmt.Sprintf("logger %d (%s) panicked: %s", k, name, a.panicked))
						bad = true
						break
					}
					if a.err != nil {
						violate(cls+":"+errorTag(v, m)+":logger_error", fmt.Sprintf("logger %d (%s) returned error %q", k, name, a.err))
					}
				}
				if bad {
					remove()
					continue
				}
				got := serialise(sized(mode, m), firstReq(isReq, req), secondRes(isReq, res))
				atomic.AddInt64(&transitions, 1)
				// every logger of the stack recorded the exchange (marbl variants share one sink and one id:
				// their frames are counted together)
				marblFrames, marblSeen := 0, false
				for k, a := range results {
					if a.err != nil || a.recorded == nil {
						continue
					}
					n := a.recorded()
					if fams[k] == "marbl" {
						marblFrames += n
						marblSeen = true
					} else if n == 0 {
						violate(fmt.Sprintf("stack:%s:%s:nothing_recorded", strings.Join(fams, "+"), spec.Kind), fmt.Sprintf("logger %d (%s) recorded nothing", k, st[k]))
					}
				}
				if marblSeen && marblFrames == 0 {
					violate(fmt.Sprintf("stack:%s:%s:nothing_recorded", strings.Join(fams, "+"), spec.Kind), "the marbl loggers recorded nothing")
				}
				remove()
				if sym, detail := diff(got, twins[mode.Name]); sym != "" {
					violate(fmt.Sprintf("stack:%s:%s:%s:%s", strings.Join(fams, "+"), spec.Kind, framingTag(m), sym), detail)
				}
			}
		}
	})
	for _, p := range pending {
		for _, v := range p {
			rep.Violate(v.sig, v.desc, v.rc)
		}
	}
	return map[string]int64{
		"stack_messages":     int64(len(specs)),
		"stack_stacks":       int64(len(stacks)),
		"stack_big_messages": int64(len(bigSpecs)),
		"stack_big_stacks":   int64(len(bigSt)),
		"stack_big_cases":    bigCases,
		"stack_cases":        cases,
		"stack_transitions":  transitions,
	}
}
