// Lifecycle family (round 6): the marbl stream is closed, and its log writer is slow or fails, while logged messages
// are still being logged and forwarded. The orders of Stream.Close relative to the forwarder's log call, its body
// reads and the writer's progress are states of a concurrent system, so they are enumerated under the controlled
// scheduler by a second binary, checks/c15sched (MODE gosim; see the comment at the top of its main.go). This file
// starts it through ./check (which rewrites martian for the scheduler and honours VERIF_REPO), lets it run beside
// the other families and merges its counters and violations into the report of C15.
package main

import (
	"bytes"
	"encoding/json"
	"fmt"
	"os"
	"os/exec"
	"path/filepath"

	"verif/lib"
)

type lifecycleRun struct {
	cmd    *exec.Cmd
	out    string
	stderr bytes.Buffer
	done   chan error
}

type lifecycleResult struct {
	Counters   map[string]int64
	Violations []lib.Violation
	Samples    []interface{}
	Incomplete string
}

func startLifecycleFamily(tier string) *lifecycleRun {
	l := &lifecycleRun{done: make(chan error, 1)}
	dir := lib.BuildDir("c15")
	os.MkdirAll(dir, 0o755)
	l.out = filepath.Join(dir, fmt.Sprintf("lifecycle-%d.json", os.Getpid()))
	os.Remove(l.out)
	l.cmd = exec.Command(filepath.Join(lib.Root, "check"), "C15SCHED", tier)
	l.cmd.Dir = lib.Root
	l.cmd.Env = append(os.Environ(), "C15SCHED_OUT="+l.out)
	l.cmd.Stdout = &l.stderr
	l.cmd.Stderr = &l.stderr
	if err := l.cmd.Start(); err != nil {
		fmt.Fprintln(os.Stderr, "lifecycle family: cannot start ./check C15SCHED:", err)
		os.Exit(2)
	}
	go func() { l.done <- l.cmd.Wait() }()
	return l
}

// collect waits for the second binary and merges what it found.
func (l *lifecycleRun) collect(rep *lib.Report) map[string]int64 {
	err := <-l.done
	b, rerr := os.ReadFile(l.out)
	os.Remove(l.out)
	if err != nil || rerr != nil {
		fmt.Fprintf(os.Stderr, "lifecycle family: ./check C15SCHED failed (%v, %v):\n%s\n", err, rerr, l.stderr.String())
		os.Exit(2)
	}
	var res lifecycleResult
	if err := json.Unmarshal(b, &res); err != nil {
		fmt.Fprintln(os.Stderr, "lifecycle family: bad output of checks/c15sched:", err)
		os.Exit(2)
	}
	for _, v := range res.Violations {
		rep.Violate(v.Sig, v.Desc, v.Replay)
	}
	for _, s := range res.Samples {
		rep.Sample(10, s)
	}
	if res.Incomplete != "" {
		rep.Incomplete = res.Incomplete
	}
	cov := map[string]int64{}
	for k, v := range res.Counters {
		cov["lifecycle_"+k] = v
	}
	return cov
}

// replayLifecycle re-runs a recorded schedule of the lifecycle family (./check C15 quick --replay <file>).
func replayLifecycle(tier string) {
	cmd := exec.Command(filepath.Join(lib.Root, "check"), "C15SCHED", tier, "--replay", os.Getenv("VERIF_REPLAY"))
	cmd.Dir = lib.Root
	cmd.Stdout, cmd.Stderr = os.Stdout, os.Stderr
	if err := cmd.Run(); err != nil {
		if ee, ok := err.(*exec.ExitError); ok {
			os.Exit(ee.ExitCode())
		}
		fmt.Fprintln(os.Stderr, err)
		os.Exit(2)
	}
	os.Exit(0)
}
