package main

import (
	"os"
	"runtime/pprof"
)

var profStop = func() {}

func init() {
	if p := os.Getenv("C15_PROF"); p != "" {
		f, _ := os.Create(p)
		pprof.StartCPUProfile(f)
		profStop = func() { pprof.StopCPUProfile(); f.Close() }
	}
}
