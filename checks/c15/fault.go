package main

// Failing-body family. The property quantifies over every message a logger may see, and a message whose
// body breaks off (the sender closes or resets in the middle of a Content-Length or chunked body) is one of
// them: without a logger the proxy forwards the head, the bytes that arrived, and then fails to complete the
// message (Response.Write / Request.Write return the body's error, no terminating chunk is written and the
// proxy closes the connection). A logger must leave that outcome alone. Every message of a sub-space is cut
// at every structurally distinct offset of its body region (all offsets for short bodies) and the body is
// made to end there with io.EOF ("eof": the sender closed) or with a connection error ("reset"); the logger
// variant is applied and the message is serialised exactly as in the main family. Reference model:
//   - pass-through variants (marbl, and every variant configured not to capture this body): the outcome is
//     identical to the unlogged twin's (same error, same head, same bytes);
//   - buffering variants (they had to read the body to log it): the serialisation still fails whenever the
//     twin's fails, and the body bytes written are a prefix of what the twin wrote - a truncated message is
//     never turned into a complete one and no byte is invented.
// A logger error is not flagged here: a buffering logger cannot log a body it could not read.

import (
	"bufio"
	"bytes"
	"errors"
	"fmt"
	"io"
	"net/http"
	"sort"
	"sync/atomic"

	"github.com/google/martian/v3"

	"verif/checks/msggen"
	"verif/lib"
)

var errConnReset = errors.New("read tcp 192.0.2.1:80: connection reset by peer")

// faultReader yields b and then err (sticky).
type faultReader struct {
	b   []byte
	err error
}

func (f *faultReader) Read(p []byte) (int, error) {
	if len(f.b) == 0 {
		return 0, f.err
	}
	n := copy(p, f.b)
	f.b = f.b[n:]
	return n, nil
}

// faultCuts lists the cut offsets (number of wire bytes delivered before the fault) for message m: every
// offset of the body region when it is at most 96 bytes long, otherwise the offsets around each structural
// boundary (start of body, first three and last chunk boundaries, the terminating chunk, the trailer section)
// and the middle.
func faultCuts(m *msggen.Msg) []int {
	bodyStart := bytes.Index(m.Wire, []byte("\r\n\r\n")) + 4
	end := len(m.Wire)
	set := map[int]bool{}
	add := func(k int) {
		if k >= bodyStart && k < end {
			set[k] = true
		}
	}
	if end-bodyStart <= 96 {
		for k := bodyStart; k < end; k++ {
			add(k)
		}
	} else {
		for d := 0; d <= 2; d++ {
			add(bodyStart + d)
			add(end - 1 - d)
		}
		add(bodyStart + (end-bodyStart)/2)
		if m.Spec.Framing == "chunked" {
			// walk the chunk list of the wire
			off := bodyStart
			var bounds []int
			for _, c := range m.Chunks {
				hdr := len(fmt.Sprintf("%x\r\n", c))
				bounds = append(bounds, off, off+hdr, off+hdr+c, off+hdr+c+2)
				off += hdr + c + 2
			}
			bounds = append(bounds, off, off+3) // "0\r\n" and what follows (trailers / final CRLF)
			pick := bounds
			if len(bounds) > 20 {
				pick = append(append([]int{}, bounds[:12]...), bounds[len(bounds)-8:]...)
			}
			for _, b := range pick {
				for d := -1; d <= 1; d++ {
					add(b + d)
				}
			}
		}
	}
	out := make([]int, 0, len(set))
	for k := range set {
		out = append(out, k)
	}
	sort.Ints(out)
	return out
}

func faultSpecs(tier string) []msggen.Spec {
	var out []msggen.Spec
	for _, s := range msggen.BodySpace(tier) {
		if s.Size == 0 || s.Framing == "none" {
			continue
		}
		if s.Enc != "none" && s.Enc != "gzip" {
			continue
		}
		if s.CT != "text" && s.CT != "binary" && s.CT != "json" {
			continue
		}
		if tier != "thorough" && s.Size > 4096 && (s.CT != "text" || s.Enc != "none") {
			continue
		}
		// the 1 MiB class: two of the six type x coding combinations (a case costs several MiB of copying)
		if s.Size >= 1<<20 && !(s.CT == "text" && s.Enc == "none" || s.CT == "binary" && s.Enc == "gzip") {
			continue
		}
		out = append(out, s)
	}
	return out
}

func isPrefix(a, b []byte) bool { return len(a) <= len(b) && bytes.Equal(a, b[:len(a)]) }

// runFaultFamily executes the failing-body family and returns its counters.
func runFaultFamily(rep *lib.Report, tier string, workerCh chan *worker, only *replayCase) map[string]int64 {
	specs := faultSpecs(tier)
	if only != nil {
		specs = []msggen.Spec{only.Spec}
	}
	var cases, faultsObserved, passThroughIdentical, bufferedStillFailing, notObservable, transitions int64
	type pv struct {
		sig, desc string
		rc        replayCase
	}
	pending := make([][]pv, len(specs))
	modes := []readMode{readModes[0], readModes[3], readModes[5]}
	if tier != "thorough" {
		modes = modes[:2] // quick: one Write path and ... (the direct Body.Read path runs in thorough)
		modes[1] = readModes[5]
	}
	lib.Parallel(len(specs), func(i int) {
		spec := specs[i]
		m := msggen.Build(spec)
		isReq := spec.Kind == "request"
		var w *worker
		select {
		case w = <-workerCh:
		default:
			w = newWorker()
		}
		defer func() { workerCh <- w }()
		violate := func(sig, desc string, rc replayCase) { pending[i] = append(pending[i], pv{sig, desc, rc}) }
		for _, fault := range []string{"eof", "reset"} {
			if fault == "eof" && spec.Framing == "close" {
				continue // a close-delimited body that ends early is a complete message
			}
			ferr := io.EOF
			if fault == "reset" {
				ferr = errConnReset
			}
			if only != nil && only.Fault != fault {
				continue
			}
			for _, cut := range faultCuts(m) {
				if only != nil && only.Cut != cut {
					continue
				}
				parse := func() (*http.Request, *http.Response, *martian.Context, func()) {
					var req *http.Request
					var res *http.Response
					var err error
					br := bufio.NewReader(&faultReader{b: append([]byte{}, m.Wire[:cut]...), err: ferr})
					if isReq {
						req, err = http.ReadRequest(br)
					} else {
						req = msggen.StdRequest()
						res, err = http.ReadResponse(br, req)
						if res != nil {
							res.Request = req
						}
					}
					if err != nil {
						panic(fmt.Sprintf("fault family: head of %s does not parse at cut %d: %v", spec, cut, err))
					}
					ctx, remove, err := martian.TestContext(req, nil, nil)
					if err != nil {
						panic(err)
					}
					return req, res, ctx, remove
				}
				for _, mode := range modes {
					if only != nil && only.Mode != mode.Name {
						continue
					}
					mode = sized(mode, m)
					req, res, _, remove := parse()
					twin := serialise(mode, firstReq(isReq, req), secondRes(isReq, res))
					remove()
					if twin.Err == "" {
						// the fault falls where net/http does not notice it (nothing left to read): not a failing body
						atomic.AddInt64(&notObservable, 1)
						continue
					}
					atomic.AddInt64(&faultsObserved, 1)
					for _, v := range variants {
						if only != nil && only.Variant != v.Name {
							continue
						}
						rc := replayCase{Spec: spec, Variant: v.Name, Mode: mode.Name, Part: "fault", Fault: fault, Cut: cut}
						req, res, ctx, remove := parse()
						a := w.apply(v, m, req, res, ctx)
						atomic.AddInt64(&transitions, int64(a.calls)+1)
						atomic.AddInt64(&cases, 1)
						cls := fmt.Sprintf("%s:%s:%s:body_fails(%s)", v.Family, spec.Kind, spec.Framing, fault)
						if a.panicked != "" {
							violate(cls+":panic", fmt.Sprintf("%s cut at wire offset %d (%s) with %s: logger panicked: %s", spec, cut, fault, v.Name, a.panicked), rc)
							remove()
							continue
						}
						got := serialise(mode, firstReq(isReq, req), secondRes(isReq, res))
						if a.recorded != nil {
							a.recorded() // drain marbl frames of this exchange
						}
						remove()
						passThrough := v.Family == "marbl" || !v.captures(m)
						switch {
						case len(got.Err) >= 5 && got.Err[:5] == "panic":
							violate(cls+":panic", fmt.Sprintf("%s cut at wire offset %d (%s) after %s, via %s: %s", spec, cut, fault, v.Name, mode.Name, got.Err), rc)
						case got.Err == "" && !(mode.Kind == "direct" && spec.Framing == "cl" && len(got.Body) != len(m.Encoded)):
							// (a direct reader of a Content-Length body detects the truncation by the length:
							// net/http's body reports the early EOF once and a clean EOF afterwards)
							violate(cls+":failure_masked", fmt.Sprintf("%s cut at wire offset %d (%s) after %s, via %s: the unlogged message fails to serialise (%q, %d body bytes) but the logged one is written as a complete message (%d body bytes)", spec, cut, fault, v.Name, mode.Name, twin.Err, len(twin.Body), len(got.Body)), rc)
						case !isPrefix(got.Body, m.Encoded):
							violate(cls+":bytes_invented", fmt.Sprintf("%s cut at wire offset %d (%s) after %s, via %s: %d body bytes written that are not a prefix of the message body", spec, cut, fault, v.Name, mode.Name, len(got.Body)), rc)
						case passThrough:
							if sym, detail := diff(got, twin); sym != "" {
								violate(cls+":"+sym, fmt.Sprintf("%s cut at wire offset %d (%s) after pass-through %s, via %s: %s", spec, cut, fault, v.Name, mode.Name, detail), rc)
							} else {
								atomic.AddInt64(&passThroughIdentical, 1)
							}
						default:
							atomic.AddInt64(&bufferedStillFailing, 1)
						}
					}
				}
			}
		}
	})
	for _, p := range pending {
		for _, v := range p {
			rep.Violate(v.sig, v.desc, v.rc)
		}
	}
	return map[string]int64{
		"fault_messages":               int64(len(specs)),
		"fault_cases":                  cases,
		"fault_twins_failing":          faultsObserved,
		"fault_cuts_not_observable":    notObservable,
		"fault_pass_through_identical": passThroughIdentical,
		"fault_buffered_still_failing": bufferedStillFailing,
		"fault_transitions":            transitions,
	}
}
